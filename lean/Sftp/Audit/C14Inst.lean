import Sftp.Props.C14Inst
#print axioms Sftp.C14.cfg_ok_current
#print axioms Sftp.C14.close_after_all_prior_current
#print axioms Sftp.C14.close_after_everything_prior_current
#print axioms Sftp.C14.closeSafe_always_current
#print axioms Sftp.C14.close_blocks_current
#print axioms Sftp.C14.pool_is_rw_current
