import Sftp.Props.C02
#print axioms Sftp.C02.sent_is_prefix
#print axioms Sftp.C02.sent_ids
#print axioms Sftp.C02.no_duplicate_no_invention
#print axioms Sftp.C02.no_waitgroup_panic
#print axioms Sftp.C02.exactly_once_at_drain
#print axioms Sftp.C02.no_stuck_state
#print axioms Sftp.C02.every_request_answered
#print axioms Sftp.C02.stopped_is_final
#print axioms Sftp.C02.final_is_stopped
#print axioms Sftp.C02.every_request_answered_at_end
#print axioms Sftp.C02.drain_needed
#print axioms Sftp.C02.head_match_needed
#print axioms Sftp.C02.sort_needed
#print axioms Sftp.C02.register_first_needed
