import Sftp.Props.C08
#print axioms Sftp.C08.decode_total
#print axioms Sftp.C08.attrs_total
#print axioms Sftp.C08.names_total
#print axioms Sftp.C08.unsafe_panics_witness
#print axioms Sftp.C08.alloc_linear
#print axioms Sftp.C08.alloc_linear_main
#print axioms Sftp.C08.frame_long_refused_early
#print axioms Sftp.C08.frame_zero_refused
#print axioms Sftp.C08.frame_never_short
#print axioms Sftp.C08.frame_short_is_error
#print axioms Sftp.C08.frame_total
#print axioms Sftp.C08.fx_frame_refusals
#print axioms Sftp.C08.fx_frame_never_short
#print axioms Sftp.C08.pairs_fuel_sufficient
#print axioms Sftp.C08.recv_alloc_bounded
