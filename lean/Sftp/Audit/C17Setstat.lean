import Sftp.Props.C17Setstat
#print axioms Sftp.C17.stepsOk_step
#print axioms Sftp.C17.flagOf_inj
#print axioms Sftp.C17.mem_changed_iff_of_stepsOk
#print axioms Sftp.C17.setstat_applies_exactly_flagged
#print axioms Sftp.C17.fsetstat_applies_exactly_flagged
#print axioms Sftp.C17.attr_block_fields
