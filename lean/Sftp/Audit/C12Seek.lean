import Sftp.Props.C12Seek
#print axioms Sftp.C12.seek_end_uses_handle_stat
#print axioms Sftp.C12.writeTo_presize_is_only_a_guess
#print axioms Sftp.C12.size_source_matters
