import Sftp.Props.C06Inst
#print axioms Sftp.C06.fit_roundtrip
#print axioms Sftp.C06.main_tables_fit
#print axioms Sftp.C06.fx_tables_fit
#print axioms Sftp.C06.cross_tables_fit
#print axioms Sftp.C06.cross_tables_attrs_split
#print axioms Sftp.C06.mkdir_rows
#print axioms Sftp.C06.type_bytes_agree
