import Sftp.Props.C11
#print axioms Sftp.C11.handles_fresh
#print axioms Sftp.C11.handle_strings_fresh
#print axioms Sftp.C11.stale_handle_rejected
#print axioms Sftp.C11.closed_handle_stays_rejected
#print axioms Sftp.C11.failed_open_drops_handle
#print axioms Sftp.C11.closed_exactly_once
#print axioms Sftp.C11.transfer_error_exactly_open
#print axioms Sftp.C11.ctx_cancelled
#print axioms Sftp.C11.ended_final
#print axioms Sftp.C11.deleteOnClose_needed
#print axioms Sftp.C11.sweepClosesAll_needed
#print axioms Sftp.C11.closeOnFailedOpen_needed
#print axioms Sftp.C11.counterMonotone_needed
