import Sftp.Props.C13
#print axioms Sftp.C13.foldEarliest_perm
#print axioms Sftp.C13.error_is_lowest_failing_offset
#print axioms Sftp.C13.write_error_is_lowest
#print axioms Sftp.C13.read_error_is_lowest
#print axioms Sftp.C13.prefix_intact_read
#print axioms Sftp.C13.eof_only_at_end
#print axioms Sftp.C13.writeTo_eof
#print axioms Sftp.C13.prefix_intact_seqWrite
#print axioms Sftp.C13.prefix_intact_concWrite
#print axioms Sftp.C13.short_count_has_error_write
#print axioms Sftp.C13.readFrom_count_is_consumed
