import Sftp.Props.C18
#print axioms Sftp.C18.pages_disjoint
#print axioms Sftp.C18.no_reuse_before_send
#print axioms Sftp.C18.request_intact_until_handled
#print axioms Sftp.C18.output_independent_of_allocator
#print axioms Sftp.C18.wire_is_intended
#print axioms Sftp.C18.quiescent_clean
#print axioms Sftp.C18.free_empties
#print axioms Sftp.C18.release_before_send_witness
#print axioms Sftp.C18.pop_needed_witness
#print axioms Sftp.C18.delete_needed_witness
#print axioms Sftp.C18.page_overflow_witness
