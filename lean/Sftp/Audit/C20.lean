import Sftp.Props.C20
#print axioms Sftp.C20.reply_never_panics_from
#print axioms Sftp.C20.reply_never_panics
#print axioms Sftp.C20.handle_never_panics
#print axioms Sftp.C20.reply_alloc_linear_from
#print axioms Sftp.C20.reply_alloc_linear
#print axioms Sftp.C20.unsafe_step_panics
#print axioms Sftp.C20.safe_step_errs
#print axioms Sftp.C20.unguarded_count_not_linear
#print axioms Sftp.C20.client_replies_linear
#print axioms Sftp.C20.client_replies_alloc_linear
#print axioms Sftp.C20.handshake_and_recv_safe
#print axioms Sftp.C20.recvVersion_never_panics
#print axioms Sftp.C20.reply_defaults_are_errors
#print axioms Sftp.C20.reply_ids_checked
