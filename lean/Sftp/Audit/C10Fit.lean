import Sftp.Props.C10Fit
#print axioms Sftp.C10.attrs_validated_before_dispatch
#print axioms Sftp.C10.handle_kind_checked
