import Sftp.Props.C06Tables
#print axioms Sftp.C06.layout_is_draft
#print axioms Sftp.C06.fx_layout_exact
#print axioms Sftp.C06.flags_only_is_mkdir
#print axioms Sftp.C06.mkdir_flags_zero_bytes
#print axioms Sftp.C06.attrs_raw_form_bytes
#print axioms Sftp.C06.field_roles_are_draft
#print axioms Sftp.C06.unmarshal_matches_marshal
#print axioms Sftp.C06.decode_by_encoder_layout
#print axioms Sftp.C06.codecs_agree
#print axioms Sftp.C06.same_kinds_same_bytes
#print axioms Sftp.C06.all_decoders_safe
#print axioms Sftp.C06.every_request_kind_covered
