import Sftp.Props.C08Tables
#print axioms Sftp.C08.framing_facts
#print axioms Sftp.C08.main_count_guard
#print axioms Sftp.C08.recv_long_refused
#print axioms Sftp.C08.recv_max_accepted
#print axioms Sftp.C08.recv_zero_refused
