import Sftp.Props.C09
#print axioms Sftp.C09.gate_complete
#print axioms Sftp.C09.gate_not_overzealous
#print axioms Sftp.C09.denied_is_permission
#print axioms Sftp.C09.sequence_safe
