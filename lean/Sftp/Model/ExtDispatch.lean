/-
  M-ExtDispatch: what happens to ONE extended request (SSH_FXP_EXTENDED, type byte 200) on either server,
  followed through the sites of the Go source that decide its answer:

    1. decode      packet-typing.go makePacket (case sshFxpExtended → &sshFxpExtendedPacket{}, UnmarshalBinary, on an
                   error the partially decoded packet is STILL returned) and packet.go
                   (*sshFxpExtendedPacket).UnmarshalBinary: id, name, then the name switch — a known name sets
                   SpecificPacket and decodes the body with the specific packet's UnmarshalBinary, any other name returns
                   errUnknownExtendedPacket with SpecificPacket == nil.
    2. receive     server.go (*Server).Serve / request-server.go (*RequestServer).serveLoop: a makePacket error that
                   `errors.Is(err, errUnknownExtendedPacket)` is ignored and the packet is queued for a worker; every
                   other error closes the connection (break / return).
    3. gate        server.go (*Server).sftpServerWorker: `readonly := true; switch pkt.(type) { case notReadOnly: false;
                   case *sshFxpOpenPacket: pkt.readonly(); case *sshFxpExtendedPacket: pkt.readonly() }` and
                   `if !readonly && svr.readOnly { EPERM; continue }`, with packet.go (*sshFxpExtendedPacket).readonly
                   (`SpecificPacket == nil → true`, else the specific packet's constant).  The request server has no gate.
    4a. handler/os server.go handlePacket `case *sshFxpExtendedPacket`: SpecificPacket == nil → ErrSSHFxOpUnsupported, else
                   p.respond(s) → packet.go (*sshFxpExtendedPacket).respond → SpecificPacket.respond(svr).
    4b. handler/rs request-server.go (*RequestServer).packetWorker: the generic packet is replaced by its SpecificPacket
                   when there is one; type switch (explicit cases for PosixRename / StatVFS with a Request literal,
                   `hasHandle`, `hasPath` via requestFromPacket/requestMethod, `default:` ErrSSHFxOpUnsupported);
                   request.go Request.call (method ↦ wrapper) and filecmd (optional handler interface or fallback).

  Every fact of the source that a mutation could change is a field of `ExtCfg`; the interpreter below only follows them.
  `ExtCfg.current` is the hand-written value for today's source, `ExtCfg.generated` (Model/ExtDispatchGenerated.lean) is
  built from the regenerated tables.  A field value or a shape the interpreter does not understand yields
  `Outcome.unmodelled why`: no theorem of Props/C19Ext.lean can be instantiated on such a configuration, and the driver
  prints `unmodelled:<why>`, which no observation of the Go harness equals.

  Abstractions: the request is (name, bodyOk); `bodyOk` = the bytes after the name decode with the specific packet's
  UnmarshalBinary (irrelevant for an unknown name: nothing after the name is looked at).  A request whose id or name cannot
  be read is not an extended request with a name and is outside this model (it fails before the name switch with
  errShortPacket; see Codec/C06, C07).  The RESULT of a served extension (status of os.Link …) is the file system's, not
  modelled: `served kind` says which operation is reached.  Paths, ids and order ids are not modelled (C13/C15).
-/
namespace Sftp.ExtDispatch

/-- The answer to one extended request, as a client can classify it. -/
inductive Outcome where
  /-- a handler for the extension ran; `kind` names the operation it reaches (os: the calls of the specific packet's
  `respond`, e.g. `os.Link`; request server: the handler method, e.g. `PosixRename`, `Filecmd:Link`) -/
  | served (kind : String)
  /-- STATUS SSH_FX_OP_UNSUPPORTED (8) -/
  | unsupported
  /-- STATUS SSH_FX_PERMISSION_DENIED (3) from the read-only gate, no handler ran -/
  | denied
  /-- STATUS SSH_FX_BAD_MESSAGE (5), session continues (no such path in today's source) -/
  | badMessage
  /-- the serve loop stops / the connection is closed, no reply -/
  | sessionEnds
  /-- the configuration has a value or shape this interpreter does not follow -/
  | unmodelled (why : String)
  deriving DecidableEq, Repr

/-- Which server, and for the request server which OPTIONAL interfaces its `Handlers.FileCmd` implements
(`PosixRenameFileCmder`, `StatVFSFileCmder`, …). -/
inductive Srv where
  | os
  | rs (ifaces : List String)
  deriving DecidableEq, Repr

def Srv.isOs : Srv → Bool
  | .os => true
  | .rs _ => false

def Srv.ifaces : Srv → List String
  | .os => []
  | .rs l => l

/-- The source facts the answer depends on. -/
structure ExtCfg where
  /- site 1: decode -/
  /-- packet.go UnmarshalBinary `switch p.ExtendedRequest`: name ↦ type of the SpecificPacket -/
  extSwitch : List (String × String)
  /-- the error the `default:` clause of that switch returns (SpecificPacket stays nil) -/
  unknownErr : String
  /-- packet-typing.go makePacket: `if err := pkt.UnmarshalBinary(…); err != nil { return pkt, err }` -/
  makePacketReturnsPkt : Bool
  /- site 2: receive loops -/
  /-- errors of makePacket after which Server.Serve still queues the packet -/
  osNonFatal : List String
  /-- errors of makePacket after which RequestServer.serveLoop still queues the packet -/
  rsNonFatal : List String
  /-- what Server.Serve does on any other makePacket error: "break-loop" | "return" (session ends) |
  "dispatch" (queued all the same) | "bad-message" (answered, loop continues) -/
  osOnFatal : String
  rsOnFatal : String
  /- site 3: the read-only gate of the os-backed server -/
  /-- types with the `notReadOnly()` marker method -/
  notReadOnly : List String
  /-- the worker's type switch: case ↦ "false" | "true" | "readonly()" -/
  workerGate : List (String × String)
  /-- `readonly := true; switch …; if !readonly && svr.readOnly { reply; continue }` recognised -/
  gateShapeOK : Bool
  /-- the error of the refusal -/
  denyError : String
  /-- `readonly()` of the specific packets (constant bodies) -/
  readonlyConst : List (String × Bool)
  /-- (*sshFxpExtendedPacket).readonly: the value returned when SpecificPacket == nil -/
  genericNilReadonly : Bool
  /-- (*sshFxpExtendedPacket).readonly: otherwise `return p.SpecificPacket.readonly()` -/
  genericDelegates : Bool
  /- site 4a: handlePacket, os-backed -/
  /-- the error answered in `case *sshFxpExtendedPacket: if p.SpecificPacket == nil { statusFromError(p.ID, …) }` -/
  osNilReply : String
  /-- the calls of the else branch of that case (`rpkt = p.respond(s)`) -/
  osNonNilCalls : List String
  /-- (*sshFxpExtendedPacket).respond: `SpecificPacket != nil → return p.SpecificPacket.respond(svr)` -/
  genericRespondDelegates : Bool
  /-- specific packet type ↦ the calls of its `respond` -/
  osRespond : List (String × List String)
  /- site 4b: packetWorker, request server -/
  /-- `if epkt, ok := pkt.requestPacket.(*sshFxpExtendedPacket); ok { if epkt.SpecificPacket != nil { pkt.requestPacket = epkt.SpecificPacket } }` -/
  rsUnwraps : Bool
  /-- the clauses of the worker's type switch, in order (type names, "hasHandle", "hasPath") -/
  rsCases : List String
  getPathTypes : List String
  getHandleTypes : List String
  /-- the error answered by the `default:` clause -/
  rsDefaultReply : String
  /-- explicit clause ↦ `Method` of the Request literal it builds before `request.call` -/
  rsCaseMethod : List (String × String)
  /-- request.go requestMethod (used by requestFromPacket in `case hasPath`) -/
  requestMethod : List (String × String)
  /-- request.go Request.call: method ↦ wrapper -/
  requestCall : List (String × String)
  /-- request.go filecmd: method ↦ (optional interface of the FileCmd handler that serves it, fallback when the handler
  does not implement it: "ErrSSHFxOpUnsupported" | "Filecmd:<Method>" = `r.Method = "<Method>"; h.Filecmd(r)`) -/
  filecmdIface : List (String × String × String)
  /-- filecmd: every method not listed in `filecmdIface` goes to `h.Filecmd(r)` unchanged -/
  filecmdClosed : Bool
  deriving DecidableEq, Repr

def extType : String := "sshFxpExtendedPacket"
/-- any decode error other than the unknown-name one (unmarshal*Safe return errShortPacket) -/
def bodyErr : String := "errShortPacket"
def opUnsupported : String := "ErrSSHFxOpUnsupported"

/-- the names with a case in the switch -/
def knownNames (cfg : ExtCfg) : List String := cfg.extSwitch.map (·.1)

/-- known names whose specific packet says `readonly() == false` -/
def mutatingNames (cfg : ExtCfg) : List String :=
  (cfg.extSwitch.filter fun p => cfg.readonlyConst.lookup p.2 == some false).map (·.1)

/-! ### site 1: decode -/

/-- what makePacket hands back: the generic packet with this SpecificPacket, and the error -/
structure Decoded where
  specific : Option String
  err : Option String
  deriving DecidableEq, Repr

def decode (cfg : ExtCfg) (name : String) (bodyOk : Bool) : Decoded :=
  match cfg.extSwitch.lookup name with
  | none => ⟨none, some cfg.unknownErr⟩
  | some t => ⟨some t, if bodyOk then none else some bodyErr⟩

/-! ### site 2: receive loop -/

inductive Recv where
  | dispatch (specific : Option String)
  | stop (o : Outcome)
  deriving DecidableEq, Repr

/-- queue what makePacket returned: without the partially decoded packet a nil requestPacket reaches the worker, whose
`default:` returns an error (os) / whose `pkt.id()` dereferences nil (rs): the connection goes down -/
def queue (cfg : ExtCfg) (d : Decoded) : Recv :=
  if cfg.makePacketReturnsPkt then .dispatch d.specific else .stop .sessionEnds

def receive (cfg : ExtCfg) (isOs : Bool) (d : Decoded) : Recv :=
  match d.err with
  | none => .dispatch d.specific
  | some e =>
    let nonFatal := if isOs then cfg.osNonFatal else cfg.rsNonFatal
    let onFatal := if isOs then cfg.osOnFatal else cfg.rsOnFatal
    if nonFatal.contains e then queue cfg d
    else if onFatal = "break-loop" ∨ onFatal = "return" then .stop .sessionEnds
    else if onFatal = "bad-message" then .stop .badMessage
    else if onFatal = "dispatch" then queue cfg d
    else .stop (.unmodelled "receive")

/-! ### site 3: gate -/

/-- `(*sshFxpExtendedPacket).readonly()` -/
def genericReadonly (cfg : ExtCfg) : Option String → Option Bool
  | none => some cfg.genericNilReadonly
  | some t => if cfg.genericDelegates then cfg.readonlyConst.lookup t else none

/-- action of the first clause of the worker's switch that the generic extended packet hits ("" = none: `readonly := true`
stays).  The os-backed worker never unwraps, so the dynamic type is always *sshFxpExtendedPacket. -/
def gateAction (cfg : ExtCfg) : List (String × String) → String
  | [] => ""
  | (c, act) :: rest =>
    let hit : Bool := if c = "notReadOnly" then cfg.notReadOnly.contains extType else (c == extType || c == "default")
    if hit then act else gateAction cfg rest

/-- value of the worker's local `readonly` -/
def gateReadonly (cfg : ExtCfg) (spec : Option String) : Option Bool :=
  if !cfg.gateShapeOK then none else
  let act := gateAction cfg cfg.workerGate
  if act = "" ∨ act = "true" then some true
  else if act = "false" then some false
  else if act = "readonly()" then genericReadonly cfg spec
  else none

/-! ### site 4a: handlePacket -/

def replyOutcome (err : String) : Outcome :=
  if err = opUnsupported then .unsupported else .unmodelled ("reply:" ++ err)

/-- `os.Link(L:Oldpath,L:Newpath)` ↦ `os.Link` -/
def callName (c : String) : String := String.ofList (c.toList.takeWhile (· != '('))

def kindOf (calls : List String) : String :=
  if calls.isEmpty then "-" else ",".intercalate (calls.map callName)

def osHandle (cfg : ExtCfg) : Option String → Outcome
  | none => replyOutcome cfg.osNilReply
  | some t =>
    if cfg.osNonNilCalls = ["respond()"] ∧ cfg.genericRespondDelegates = true then
      match cfg.osRespond.lookup t with
      | some calls => .served (kindOf calls)
      | none => .unmodelled "os-respond"
    else .unmodelled "os-handle"

def deniesWithPermission (cfg : ExtCfg) : Bool :=
  cfg.denyError = "syscall.EPERM" || cfg.denyError = "syscall.EACCES"

/-- worker of the os-backed server: gate, then handlePacket -/
def osDispatch (cfg : ExtCfg) (readOnly : Bool) (spec : Option String) : Outcome :=
  match gateReadonly cfg spec with
  | none => .unmodelled "gate"
  | some ro =>
    if !ro && readOnly then
      if deniesWithPermission cfg then .denied else .unmodelled "deny-error"
    else osHandle cfg spec

/-! ### site 4b: packetWorker -/

/-- an answer that may still depend on whether the FileCmd handler implements one optional interface -/
inductive Plan where
  | reply (o : Outcome)
  | needIface (iface : String) (yes no : Outcome)
  deriving DecidableEq, Repr

def resolve (ifaces : List String) : Plan → Outcome
  | .reply o => o
  | .needIface i y n => if ifaces.contains i then y else n

/-- first clause of the worker's type switch that a packet of type `t` hits -/
def rsCaseOf (cfg : ExtCfg) (t : String) : List String → String
  | [] => "default"
  | c :: rest =>
    let hit : Bool :=
      if c = "hasHandle" then cfg.getHandleTypes.contains t
      else if c = "hasPath" then cfg.getPathTypes.contains t
      else c == t
    if hit then c else rsCaseOf cfg t rest

def filecmdPlan (cfg : ExtCfg) (method : String) : Plan :=
  if !cfg.filecmdClosed then .reply (.unmodelled "filecmd") else
  match cfg.filecmdIface.lookup method with
  | some (iface, fb) =>
    .needIface iface (.served method) (if fb = opUnsupported then .unsupported else .served fb)
  | none => .reply (.served ("Filecmd:" ++ method))

/-- `Request.call`: only the `filecmd` wrapper is followed; an unlisted method is the `default:` clause
(`unexpected method`, SSH_FX_FAILURE) -/
def callPlan (cfg : ExtCfg) (method : String) : Plan :=
  match cfg.requestCall.lookup method with
  | some w => if w = "filecmd" then filecmdPlan cfg method else .reply (.unmodelled ("wrapper:" ++ w))
  | none => .reply (.unmodelled "unexpected-method")

/-- dynamic type of the request packet after the worker's unwrapping step -/
def rsType (cfg : ExtCfg) : Option String → String
  | some t => if cfg.rsUnwraps then t else extType
  | none => extType

/-- body of the clause `c` for a packet of type `t` -/
def rsCasePlan (cfg : ExtCfg) (t c : String) : Plan :=
  if c = "default" then .reply (replyOutcome cfg.rsDefaultReply)
  else if c = "hasHandle" then .reply (.unmodelled "hasHandle")
  else if c = "hasPath" then callPlan cfg ((cfg.requestMethod.lookup t).getD "")
  else match cfg.rsCaseMethod.lookup c with
    | some m => callPlan cfg m
    | none => .reply (.unmodelled ("case:" ++ c))

def rsPlan (cfg : ExtCfg) (spec : Option String) : Plan :=
  rsCasePlan cfg (rsType cfg spec) (rsCaseOf cfg (rsType cfg spec) cfg.rsCases)

/-! ### the whole path -/

/-- everything but the handler's optional interfaces -/
def extPlan (cfg : ExtCfg) (isOs readOnly : Bool) (name : String) (bodyOk : Bool) : Plan :=
  match receive cfg isOs (decode cfg name bodyOk) with
  | .stop o => .reply o
  | .dispatch spec => if isOs then .reply (osDispatch cfg readOnly spec) else rsPlan cfg spec

/-- The answer of server `srv` (os-backed: built with ReadOnly() iff `readOnly`; the request server has no such option,
`readOnly` is ignored) to an extended request named `name` whose body decodes iff `bodyOk`. -/
def extOutcome (cfg : ExtCfg) (srv : Srv) (readOnly : Bool) (name : String) (bodyOk : Bool) : Outcome :=
  resolve srv.ifaces (extPlan cfg srv.isOs readOnly name bodyOk)

def Outcome.render : Outcome → String
  | .served k => "served:" ++ k
  | .unsupported => "unsupported"
  | .denied => "denied"
  | .badMessage => "bad"
  | .sessionEnds => "ends"
  | .unmodelled w => "unmodelled:" ++ w

/-- The source as it is today (hand-written; see the file:line of each fact in the header of Props/C19Ext.lean). -/
def ExtCfg.current : ExtCfg :=
  { extSwitch := [("statvfs@openssh.com", "sshFxpExtendedPacketStatVFS"),
                  ("posix-rename@openssh.com", "sshFxpExtendedPacketPosixRename"),
                  ("hardlink@openssh.com", "sshFxpExtendedPacketHardlink")]
    unknownErr := "errUnknownExtendedPacket"
    makePacketReturnsPkt := true
    osNonFatal := ["errUnknownExtendedPacket"]
    rsNonFatal := ["errUnknownExtendedPacket"]
    osOnFatal := "break-loop"
    rsOnFatal := "return"
    notReadOnly := ["sshFxpExtendedPacketHardlink", "sshFxpExtendedPacketPosixRename", "sshFxpFsetstatPacket",
      "sshFxpMkdirPacket", "sshFxpRemovePacket", "sshFxpRenamePacket", "sshFxpRmdirPacket", "sshFxpSetstatPacket",
      "sshFxpSymlinkPacket", "sshFxpWritePacket"]
    workerGate := [("notReadOnly", "false"), ("sshFxpOpenPacket", "readonly()"), ("sshFxpExtendedPacket", "readonly()")]
    gateShapeOK := true
    denyError := "syscall.EPERM"
    readonlyConst := [("sshFxpExtendedPacketHardlink", false), ("sshFxpExtendedPacketPosixRename", false),
      ("sshFxpExtendedPacketStatVFS", true)]
    genericNilReadonly := true
    genericDelegates := true
    osNilReply := "ErrSSHFxOpUnsupported"
    osNonNilCalls := ["respond()"]
    genericRespondDelegates := true
    osRespond := [("sshFxpExtendedPacketStatVFS", ["getStatVFSForPath(L:Path)"]),
      ("sshFxpExtendedPacketPosixRename", ["os.Rename(L:Oldpath,L:Newpath)"]),
      ("sshFxpExtendedPacketHardlink", ["os.Link(L:Oldpath,L:Newpath)"])]
    rsUnwraps := true
    rsCases := ["sshFxInitPacket", "sshFxpClosePacket", "sshFxpRealpathPacket", "sshFxpOpendirPacket", "sshFxpOpenPacket",
      "sshFxpFstatPacket", "sshFxpFsetstatPacket", "sshFxpExtendedPacketPosixRename", "sshFxpExtendedPacketStatVFS",
      "hasHandle", "hasPath"]
    getPathTypes := ["sshFxpExtendedPacketHardlink", "sshFxpExtendedPacketPosixRename", "sshFxpLstatPacket",
      "sshFxpMkdirPacket", "sshFxpOpenPacket", "sshFxpOpendirPacket", "sshFxpReadlinkPacket", "sshFxpRealpathPacket",
      "sshFxpRemovePacket", "sshFxpRenamePacket", "sshFxpRmdirPacket", "sshFxpSetstatPacket", "sshFxpStatPacket",
      "sshFxpStatvfsPacket", "sshFxpSymlinkPacket"]
    getHandleTypes := ["Server", "sshFxpClosePacket", "sshFxpFsetstatPacket", "sshFxpFstatPacket", "sshFxpReadPacket",
      "sshFxpReaddirPacket", "sshFxpWritePacket"]
    rsDefaultReply := "ErrSSHFxOpUnsupported"
    rsCaseMethod := [("sshFxpFstatPacket", "Stat"), ("sshFxpFsetstatPacket", "Setstat"),
      ("sshFxpExtendedPacketPosixRename", "PosixRename"), ("sshFxpExtendedPacketStatVFS", "StatVFS")]
    requestMethod := [("sshFxpReadPacket", ""), ("sshFxpWritePacket", ""), ("sshFxpOpenPacket", ""),
      ("sshFxpOpendirPacket", ""), ("sshFxpReaddirPacket", ""), ("sshFxpSetstatPacket", "Setstat"),
      ("sshFxpFsetstatPacket", "Setstat"), ("sshFxpRenamePacket", "Rename"), ("sshFxpSymlinkPacket", "Symlink"),
      ("sshFxpRemovePacket", "Remove"), ("sshFxpStatPacket", "Stat"), ("sshFxpFstatPacket", "Stat"),
      ("sshFxpLstatPacket", "Lstat"), ("sshFxpRmdirPacket", "Rmdir"), ("sshFxpReadlinkPacket", "Readlink"),
      ("sshFxpMkdirPacket", "Mkdir"), ("sshFxpExtendedPacketHardlink", "Link")]
    requestCall := [("Get", "fileget"), ("Put", "fileput"), ("Open", "fileputget"), ("Setstat", "filecmd"),
      ("Rename", "filecmd"), ("Rmdir", "filecmd"), ("Mkdir", "filecmd"), ("Link", "filecmd"), ("Symlink", "filecmd"),
      ("Remove", "filecmd"), ("PosixRename", "filecmd"), ("StatVFS", "filecmd"), ("List", "filelist"),
      ("Stat", "filestat"), ("Lstat", "filestat"), ("Readlink", "readlink-or-filestat"), ("default", "statusFromError")]
    filecmdIface := [("PosixRename", "PosixRenameFileCmder", "Filecmd:Rename"),
      ("StatVFS", "StatVFSFileCmder", "ErrSSHFxOpUnsupported")]
    filecmdClosed := true }

end Sftp.ExtDispatch
