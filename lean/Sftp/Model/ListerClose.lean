/-
  M-ListerClose: a function that obtains a handler object into a LOCAL variable and has to close it itself
  (request.go `filestat`: `lister, err := h.Filelist(r)` / `Lstat(r)`; `lister.ListAt(finfo, 0)`;
  `if c, ok := lister.(io.Closer); ok { c.Close() }`).  Such an object is attached to no Request, so neither
  Request.close nor Serve's sweep ever sees it.

  The function is a list of top-level statements, classified by translator unit FilestatClose
  (/verif/extract/round6.go).  `ok` says whether the obtain call succeeded (then the object exists and `err` is nil);
  `errReturn` is `if err != nil { return … }` on the obtain's error.  A statement of kind `returns` contains a return
  under some condition — on the outcome of ListAt (ok | EOF | error), the method, the count …; the model does not
  interpret the condition: a run is given a list of Booleans, one per `returns` statement reached, saying whether it
  returns there, and the theorems quantify over ALL such lists.  The result of a run is the number of times the object
  was closed when the function is left.
-/
namespace Sftp.ListerClose

inductive Stmt where
  | var | obtain | errReturn | listAt | close | plain | uses | returns
  deriving DecidableEq, Repr

def parse (k : String) : Stmt :=
  if k = "var" then .var else if k = "obtain" then .obtain else if k = "errReturn" then .errReturn
  else if k = "listAt" then .listAt else if k = "close" then .close else if k = "plain" then .plain
  else if k = "uses" then .uses else .returns

def known (k : String) : Bool :=
  ["var", "obtain", "errReturn", "listAt", "close", "plain", "uses", "returns"].contains k

/-- closes performed from here to the end of the function -/
def exec (ok : Bool) : List Stmt → List Bool → Nat → Nat
  | [], _, c => c
  | .errReturn :: r, ch, c => if ok then exec ok r ch c else c
  | .close :: r, ch, c => exec ok r ch (if ok then c + 1 else c)
  | .returns :: _, [], c => c
  | .returns :: r, b :: ch, c => if b then c else exec ok r ch c
  | .var :: r, ch, c => exec ok r ch c
  | .obtain :: r, ch, c => exec ok r ch c
  | .listAt :: r, ch, c => exec ok r ch c
  | .plain :: r, ch, c => exec ok r ch c
  | .uses :: r, ch, c => exec ok r ch c

def noClose : List Stmt → Bool
  | [] => true
  | .close :: _ => false
  | _ :: r => noClose r

/-- a close is reached before any statement that may return (other than on the obtain's error), and it is the only one -/
def dominated : List Stmt → Bool
  | [] => false
  | .close :: r => noClose r
  | .returns :: _ => false
  | _ :: r => dominated r

theorem exec_noClose (ok : Bool) (prog : List Stmt) (h : noClose prog = true) : ∀ ch c, exec ok prog ch c = c := by
  induction prog with
  | nil => intro ch c; rfl
  | cons s r ih =>
    intro ch c
    cases s <;> simp only [noClose] at h <;> try (simp only [exec]; exact ih h ch c)
    · simp only [exec]; split
      · exact ih h ch c
      · rfl
    · cases h
    · cases ch with
      | nil => rfl
      | cons b ch => simp only [exec]; split
                     · rfl
                     · exact ih h ch c

theorem exec_dominated (ok : Bool) (prog : List Stmt) (h : dominated prog = true) :
    ∀ ch c, exec ok prog ch c = c + (if ok then 1 else 0) := by
  induction prog with
  | nil => simp [dominated] at h
  | cons s r ih =>
    intro ch c
    cases s <;> simp only [dominated] at h <;> try (simp only [exec]; exact ih h ch c)
    · simp only [exec]
      cases ok with
      | true => simpa using ih h ch c
      | false => simp
    · simp only [exec]
      rw [exec_noClose ok r h]
      cases ok <;> simp
    · cases h

end Sftp.ListerClose
