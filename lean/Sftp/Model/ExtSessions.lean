/-
  M-ExtSessions: two sessions of one process decoding SSH_FXP_EXTENDED requests (packet.go
  `(*sshFxpExtendedPacket).UnmarshalBinary`, reached from every session's receive loop through `makePacket`).

  A request is its extension name.  The reply is a function of the name alone: an advertised name is served, any other is
  answered SSH_FX_OP_UNSUPPORTED (the session goes on).  Each session decodes its own requests in order, on its own
  goroutine; a schedule interleaves the decode steps of the two sessions.
  `sharedWrite` = the decode step of an unknown name writes a package-level cell without synchronisation (seed C19_n: a
  map of the names already reported).  Such a write takes time: it is `wbegin` … `wend`; a second writer entering while
  one is inside is what the Go runtime reports as "fatal error: concurrent map writes" — not a recoverable panic, the
  process and with it BOTH sessions are gone.  Whether the decode path writes shared state is read off the source by
  translator unit ExtUnmarshalPurity (/verif/extract/round7.go).
-/
namespace Sftp.ExtSessions

inductive Reply where
  | served (name : String)
  | unsupported
  deriving DecidableEq, Repr

def advertised : List String := ["statvfs@openssh.com", "posix-rename@openssh.com", "hardlink@openssh.com"]

/-- what one session answers to one extended request, whatever else happens in the process -/
def reply (name : String) : Reply := if advertised.contains name then .served name else .unsupported

structure St where
  /-- requests not yet decoded, per session -/
  pend0 : List String
  pend1 : List String
  /-- replies produced so far, oldest first -/
  out0 : List Reply
  out1 : List Reply
  /-- the session that is inside the unsynchronised write, if any -/
  writing : Option Bool
  /-- fatal error: concurrent map writes -/
  fatal : Bool
  deriving DecidableEq, Repr

def St.init (r0 r1 : List String) : St := ⟨r0, r1, [], [], none, false⟩

inductive Act where
  | dec (i : Bool)     -- session i decodes (and answers) its next request in one step: no shared state involved
  | wbegin (i : Bool)  -- session i starts the unsynchronised write for its next (unknown) request
  | wend (i : Bool)    -- … finishes it and answers
  deriving DecidableEq, Repr

def St.pend (s : St) (i : Bool) : List String := if i then s.pend1 else s.pend0
def St.out (s : St) (i : Bool) : List Reply := if i then s.out1 else s.out0

/-- session i answers its next request -/
def answer (s : St) (i : Bool) : St :=
  match i, s.pend0, s.pend1 with
  | false, n :: r, _ => { s with pend0 := r, out0 := s.out0 ++ [reply n] }
  | true, _, n :: r => { s with pend1 := r, out1 := s.out1 ++ [reply n] }
  | _, _, _ => s

/-- does the next request of session i go through the shared write? -/
def touchesShared (sharedWrite : Bool) (s : St) (i : Bool) : Bool :=
  match s.pend i with
  | n :: _ => sharedWrite && !advertised.contains n
  | [] => false

def step (sharedWrite : Bool) (s : St) : Act → Option St
  | .dec i =>
    if s.fatal = false ∧ s.pend i ≠ [] ∧ touchesShared sharedWrite s i = false ∧ s.writing ≠ some i then some (answer s i)
    else none
  | .wbegin i =>
    if s.fatal = false ∧ touchesShared sharedWrite s i = true ∧ s.writing ≠ some i then
      match s.writing with
      | none => some { s with writing := some i }
      | some _ => some { s with fatal := true }    -- two goroutines inside the same map write
    else none
  | .wend i =>
    if s.fatal = false ∧ s.writing = some i then some { answer s i with writing := none } else none

def run (sharedWrite : Bool) (s : St) : List Act → Option St
  | [] => some s
  | a :: as =>
    match step sharedWrite s a with
    | some s' => run sharedWrite s' as
    | none => none

/-- what the two sessions answer when run one after the other (or each alone in its own process) -/
def sequential (r : List String) : List Reply := r.map reply

structure Inv (r0 r1 : List String) (s : St) : Prop where
  noFatal : s.fatal = false
  idle : s.writing = none
  seq0 : s.out0 ++ s.pend0.map reply = sequential r0
  seq1 : s.out1 ++ s.pend1.map reply = sequential r1

theorem inv_init (r0 r1 : List String) : Inv r0 r1 (St.init r0 r1) := ⟨rfl, rfl, by simp [St.init, sequential], by simp [St.init, sequential]⟩

theorem touches_false (s : St) (i : Bool) : touchesShared false s i = false := by
  unfold touchesShared
  split <;> simp

theorem answer_inv (r0 r1 : List String) (s : St) (i : Bool) (h : Inv r0 r1 s) : Inv r0 r1 (answer s i) := by
  unfold answer
  split
  · rename_i n r _ hp
    refine ⟨h.noFatal, h.idle, ?_, h.seq1⟩
    have := h.seq0
    rw [hp] at this
    simpa using this
  · rename_i n r _ hp
    refine ⟨h.noFatal, h.idle, h.seq0, ?_⟩
    have := h.seq1
    rw [hp] at this
    simpa using this
  · exact h

theorem step_inv (r0 r1 : List String) (s s' : St) (a : Act) (h : Inv r0 r1 s) (hs : step false s a = some s') :
    Inv r0 r1 s' := by
  cases a with
  | dec i =>
    simp only [step] at hs
    split at hs
    · cases hs; exact answer_inv r0 r1 s i h
    · cases hs
  | wbegin i =>
    simp only [step, touches_false] at hs
    simp at hs
  | wend i =>
    simp only [step, h.idle] at hs
    simp at hs

theorem run_inv (r0 r1 : List String) (acts : List Act) : ∀ s s', Inv r0 r1 s → run false s acts = some s' → Inv r0 r1 s' := by
  induction acts with
  | nil => intro s s' h hr; simp only [run] at hr; cases hr; exact h
  | cons a as ih =>
    intro s s' h hr
    simp only [run] at hr
    split at hr
    · rename_i s1 hs1
      exact ih s1 s' (step_inv r0 r1 s s1 a h hs1) hr
    · cases hr

/-- the decode path writes no shared state: for all request lists of the two sessions and every interleaving of their
decode steps, the process never dies and each session's replies are a prefix of — once it has decoded everything: equal
to — what it answers when served alone -/
theorem independent_sessions (r0 r1 : List String) (acts : List Act) (s : St)
    (hr : run false (St.init r0 r1) acts = some s) :
    s.fatal = false ∧ s.out0 ++ s.pend0.map reply = sequential r0 ∧ s.out1 ++ s.pend1.map reply = sequential r1 ∧
    (s.pend0 = [] → s.out0 = sequential r0) ∧ (s.pend1 = [] → s.out1 = sequential r1) := by
  have h := run_inv r0 r1 acts (St.init r0 r1) s (inv_init r0 r1) hr
  refine ⟨h.noFatal, h.seq0, h.seq1, ?_, ?_⟩
  · intro hp; have := h.seq0; rw [hp] at this; simpa using this
  · intro hp; have := h.seq1; rw [hp] at this; simpa using this

/-- with the shared write: a single session (the other has nothing to decode) still never dies — the defect needs two -/
structure InvOne (s : St) : Prop where
  noFatal : s.fatal = false
  only0 : s.writing ≠ some true
  empty1 : s.pend1 = []

theorem step_invOne (sw : Bool) (s s' : St) (a : Act) (h : InvOne s) (hs : step sw s a = some s') : InvOne s' := by
  have hp1 : s.pend true = [] := by simp [St.pend, h.empty1]
  have ht1 : touchesShared sw s true = false := by simp [touchesShared, hp1]
  have hans : ∀ i, (answer s i).fatal = false ∧ (answer s i).writing = s.writing ∧ (answer s i).pend1 = [] := by
    intro i
    unfold answer
    split
    · exact ⟨h.noFatal, rfl, h.empty1⟩
    · rename_i hp; rw [h.empty1] at hp; cases hp
    · exact ⟨h.noFatal, rfl, h.empty1⟩
  cases a with
  | dec i =>
    simp only [step] at hs
    split at hs
    · cases hs
      exact ⟨(hans i).1, by rw [(hans i).2.1]; exact h.only0, (hans i).2.2⟩
    · cases hs
  | wbegin i =>
    simp only [step] at hs
    split at hs
    · rename_i hg
      cases i with
      | true => rw [ht1] at hg; simp at hg
      | false =>
        split at hs
        · cases hs; exact ⟨h.noFatal, by simp, h.empty1⟩
        · rename_i j hw
          cases j with
          | true => exact absurd hw h.only0
          | false => exact absurd hw hg.2.2
    · cases hs
  | wend i =>
    simp only [step] at hs
    split at hs
    · cases hs
      exact ⟨(hans i).1, by simp, (hans i).2.2⟩
    · cases hs

theorem single_session_never_fatal (sw : Bool) (r0 : List String) (acts : List Act) (s : St)
    (hr : run sw (St.init r0 []) acts = some s) : s.fatal = false := by
  have : ∀ (acts : List Act) (s s' : St), InvOne s → run sw s acts = some s' → InvOne s' := by
    intro acts
    induction acts with
    | nil => intro s s' h hr; simp only [run] at hr; cases hr; exact h
    | cons a as ih =>
      intro s s' h hr
      simp only [run] at hr
      split at hr
      · rename_i s1 hs1
        exact ih s1 s' (step_invOne sw s s1 a h hs1) hr
      · cases hr
  exact (this acts (St.init r0 []) s ⟨rfl, by simp [St.init], rfl⟩ hr).noFatal

end Sftp.ExtSessions
