import Sftp.Prim
import Sftp.Model.BitMap
import Sftp.Spec.Mode
import Sftp.Generated.Mode
/-
  Boolean checks evaluated by the kernel over the complete finite domains of C17.
-/
namespace Sftp.C17
open Sftp Sftp.Spec.Mode

def toFileMode (m : Nat) : Nat := G.toFileMode.apply m
def fromFileMode (fm : Nat) : Nat := G.fromFileMode.apply fm
def toChmodPerm (fm : Nat) : Nat := G.toChmodPerm.apply fm

/-- wire word `m`: conversion agrees with the reference, and survives the round trip when its
type nibble is one of the seven representable kinds. -/
def wireCheck (m : Nat) : Bool :=
  toFileMode m == toOs m &&
  (!validWireType (m &&& S_IFMT) || fromFileMode (toFileMode m) == m)

/-- os mode number `i` of the enumeration `osModeOfIndex`. -/
def osCheck (i : Nat) : Bool :=
  let fm := osModeOfIndex i
  fromFileMode fm == toWire fm &&
  toFileMode (fromFileMode fm) == fm &&
  toChmodPerm fm == chmodOf fm

end Sftp.C17
