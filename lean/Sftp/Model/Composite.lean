import Sftp.Model.AbsFS
import Sftp.Model.Err
/-
  M-Composite: the client-side composites of client.go over the abstract file system:
  `(*Client).Remove`, `(*Client).MkdirAll`, `(*Client).RemoveAll`.

  Each model makes the same sequence of requests, with the same branching on what the client sees of the
  replies, as the Go code.  A request is: the server's os call for that packet (AbsFS primitive, chosen by
  `CompositeCfg.removePkt` / `rmdirPkt` for the two packets whose call is not the obvious one), then the WIRE:
  `W : Result → CErr` = server.go statusFromError ∘ client.go normaliseError, i.e. what survives of an os error
  (`wireOf` below builds it from the existing model of these two functions, Sftp/Model/Err.lean).

  `CErr` is what the CALLER of the client can observe of the returned error:
    ok · notExist (os.ErrNotExist) · permission (os.ErrPermission) · failure (*StatusError, any other code) ·
    enotdir (the `&os.PathError{Err: syscall.ENOTDIR}` MkdirAll builds locally).
  Transport errors (sendPacket failing) are outside the model: the connection works.

  Every source-dependent decision is a field of `CompositeCfg`; see the field comments for the exact Go
  statements (client.go / server.go of the pinned tree) each stands for.
-/
namespace Sftp.Composite
open Sftp.AbsFS

/-- what the caller of the client sees -/
inductive CErr where
  | ok | notExist | permission | failure | enotdir
  deriving DecidableEq, Repr

def CErr.render : CErr → String
  | .ok => "ok" | .notExist => "notexist" | .permission => "permission" | .failure => "failure"
  | .enotdir => "enotdir"

/-- the property's outcome category (C05: ok, not-exist, permission, other failure) -/
inductive Cat where
  | ok | notExist | permission | other
  deriving DecidableEq, Repr

def CErr.cat : CErr → Cat
  | .ok => .ok | .notExist => .notExist | .permission => .permission | .failure => .other | .enotdir => .other

/-- the category of an os error as package os predicates see it (os.IsNotExist / os.IsPermission / else) -/
def osCat : Result → Cat
  | .ok => .ok | .errNoEnt => .notExist | .errPerm => .permission | _ => .other

/-- finer reading, with os.IsExist (EEXIST, ENOTEMPTY) and ENOTDIR told apart -/
inductive FineCat where
  | ok | notExist | exist | notDir | permission | other
  deriving DecidableEq, Repr

def osFine : Result → FineCat
  | .ok => .ok | .errNoEnt => .notExist | .errExist => .exist | .errNotEmpty => .exist
  | .errNotDir => .notDir | .errPerm => .permission | _ => .other

def CErr.fine : CErr → FineCat
  | .ok => .ok | .notExist => .notExist | .permission => .permission | .failure => .other | .enotdir => .notDir

/-! ### the wire -/

/-- errno the kernel reports for a `Result` (linux values) wrapped as package os does (*PathError). -/
def toGoErr : Result → Sftp.Err.GoErr
  | .ok => .nil
  | .errNoEnt => .pathError (.errno 2)
  | .errExist => .pathError (.errno 17)
  | .errNotDir => .pathError (.errno 20)
  | .errIsDir => .pathError (.errno 21)
  | .errNotEmpty => .pathError (.errno 39)
  | .errPerm => .pathError (.errno 13)
  | .errOther => .pathError (.errno 40)

def ofKind : Sftp.Err.Kind → CErr
  | .ok => .ok
  | .notExist => .notExist
  | .permission => .permission
  | _ => .failure

/-- server.go statusFromError, then client.go unmarshalStatus + normaliseError, on the error of an os call -/
def wireOf (ec : Sftp.Err.ErrCfg) (nc : Sftp.Err.NormCfg) (r : Result) : CErr :=
  ofKind (Sftp.Err.normalise nc (Sftp.Err.statusFromError ec (toGoErr r)).1)

/-- the reference wire: NO_SUCH_FILE, PERMISSION_DENIED, OK survive, everything else is FAILURE -/
def wireStd : Result → CErr
  | .ok => .ok | .errNoEnt => .notExist | .errPerm => .permission | _ => .failure

/-- `W` is the reference wire (decidable: 8 rows) -/
def WireStd (W : Result → CErr) : Prop := ∀ r ∈ Result.all, W r = wireStd r

instance (W : Result → CErr) : Decidable (WireStd W) := by unfold WireStd; infer_instance

/-! ### configuration -/

/-- which os-level call the server makes for a packet -/
inductive SrvCall where
  | osRemove    -- os.Remove(path)
  | unlink      -- syscall.Unlink / a files-only removal
  | rmdir       -- syscall.Rmdir / a directories-only removal
  deriving DecidableEq, Repr

structure CompositeCfg where
  /-- server.go handlePacket `case *sshFxpRemovePacket: err := os.Remove(s.toLocalPath(p.Filename))` (server.go:269-270);
      = row "sshFxpRemovePacket" of Generated/ServerCalls.lean -/
  removePkt : SrvCall
  /-- server.go handlePacket `case *sshFxpRmdirPacket: err := os.Remove(s.toLocalPath(p.Path))` (server.go:266-267);
      = row "sshFxpRmdirPacket" of Generated/ServerCalls.lean -/
  rmdirPkt : SrvCall
  /-- Client.Remove: which outcomes of `errF := c.removeFile(path)` go on to `errD := c.RemoveDirectory(path)`.
      client.go:839-844: `if errF == nil { return nil }` then unconditionally RemoveDirectory ⇒ every error kind.
      (A version with `switch err.Code { case sshFxFailure, …: return c.RemoveDirectory(path) }` would list
      only `.failure`.) -/
  rmFallbackOn : List CErr
  /-- Client.Remove, client.go:851-860: `if errF, ok := errF.(*os.PathError); ok { if errD, ok := errD.(*os.PathError);
      ok && errors.Is(errF.Err, errD.Err) { return errF } }` is present -/
  rmCompare : Bool
  /-- errors.Is on two distinct `*StatusError` values is true when the codes agree.  false today: StatusError
      (sftp.go:220-232) has no `Is` method and is compared by pointer; the sentinels os.ErrNotExist /
      os.ErrPermission compare equal to themselves regardless. -/
  statusIsByCode : Bool
  /-- Client.Remove, client.go:862-865: `fi, err := c.Stat(path); if err != nil { return err }` is present
      (false = the tie is decided without a stat: errF is returned) -/
  rmStats : Bool
  /-- … and it is `c.Stat` (true, follows links) rather than `c.Lstat` (false) — client.go:862 -/
  rmStatFollows : Bool
  /-- Client.Remove, client.go:867-871: `if fi.IsDir() { return errD }; return errF` (true) or the converse -/
  rmDirGivesErrD : Bool
  /-- Client.MkdirAll, client.go:1035-1041: the fast path `dir, err := c.Stat(path); if err == nil { … }` is present -/
  maStatFirst : Bool
  /-- … and it is `c.Stat` (true) rather than `c.Lstat` — client.go:1035 -/
  maStatFollows : Bool
  /-- client.go:1037-1039 `if dir.IsDir() { return nil }` -/
  maDirIsNil : Bool
  /-- client.go:1040 `return &os.PathError{Op: "mkdir", Path: path, Err: syscall.ENOTDIR}`: what the caller sees
      when the path exists and is not a directory -/
  maFileErr : CErr
  /-- client.go:1054-1060 `if j > 1 { err = c.MkdirAll(path[0 : j-1]); if err != nil { return err } }` is present -/
  maParents : Bool
  /-- client.go:1064-1071: after a failed Mkdir, `dir, err1 := c.Lstat(path); if err1 == nil && dir.IsDir() { return nil }` -/
  maRecheck : Bool
  /-- Client.RemoveAll, client.go:1082: `fi, err := c.Lstat(path)` (true) rather than `c.Stat(path)` (false) -/
  raLstat : Bool
  /-- client.go:1083-1085 `if err != nil { return err }`: false today (a missing path IS an error; os.RemoveAll
      returns nil); true = `if os.IsNotExist(err) { return nil }` -/
  raNoEntNil : Bool
  /-- client.go:1087-1110: the `if fi.IsDir() { files, err := c.ReadDir(path) … for … }` block comes BEFORE the
      final `return c.Remove(path)` (client.go:1112) -/
  raChildrenFirst : Bool
  /-- client.go:1095-1100: `if file.IsDir() { err = c.RemoveAll(path + "/" + file.Name()) … }` (true); false = every
      child goes through `c.Remove` -/
  raRecurseDirs : Bool
  /-- client.go:1101-1107 and 1112: non-directories (children and the path itself) are removed with `c.Remove`
      (true); false = they are left alone -/
  raRemovesNonDirs : Bool
  deriving DecidableEq, Repr

/-- client.go / server.go as they are today (hand-written; to be regenerated by the extractor). -/
def CompositeCfg.current : CompositeCfg :=
  { removePkt := .osRemove, rmdirPkt := .osRemove,
    rmFallbackOn := [.notExist, .permission, .failure],
    rmCompare := true, statusIsByCode := false, rmStats := true, rmStatFollows := true, rmDirGivesErrD := true,
    maStatFirst := true, maStatFollows := true, maDirIsNil := true, maFileErr := .enotdir, maParents := true,
    maRecheck := true,
    raLstat := true, raNoEntNil := false, raChildrenFirst := true, raRecurseDirs := true, raRemovesNonDirs := true }

/-! ### Client.Remove -/

def srvCall : SrvCall → FS → Path → FS × Result
  | .osRemove => osRemoveCall
  | .unlink => unlink
  | .rmdir => rmdir

/-- `errors.Is(errF.Err, errD.Err)` on what normaliseError produced -/
def sameErr (cfg : CompositeCfg) : CErr → CErr → Bool
  | .notExist, .notExist => true
  | .permission, .permission => true
  | .failure, .failure => cfg.statusIsByCode
  | _, _ => false

/-- client.go:838-872 -/
def removeC (cfg : CompositeCfg) (W : Result → CErr) (fs : FS) (p : Path) : FS × CErr :=
  let (fs1, rF) := srvCall cfg.removePkt fs p            -- errF := c.removeFile(path)
  let eF := W rF
  if eF = .ok then (fs1, .ok)
  else if !cfg.rmFallbackOn.contains eF then (fs1, eF)
  else
    let (fs2, rD) := srvCall cfg.rmdirPkt fs1 p          -- errD := c.RemoveDirectory(path)
    let eD := W rD
    if eD = .ok then (fs2, .ok)
    else if cfg.rmCompare && sameErr cfg eF eD then (fs2, eF)
    else if !cfg.rmStats then (fs2, eF)
    else
      let (rS, n) := if cfg.rmStatFollows then stat fs2 p else lstat fs2 p   -- fi, err := c.Stat(path)
      if W rS ≠ .ok then (fs2, W rS)
      else if n.isDir = cfg.rmDirGivesErrD then (fs2, eD) else (fs2, eF)

/-! ### Client.MkdirAll -/

/-- client.go:1032-1074.  The argument is the path with its components REVERSED (`name :: parent`), so that the
recursion `c.MkdirAll(path[0 : j-1])` is structural.  `j > 1` ⇔ the parent is not "/" (clean absolute paths). -/
def mkdirAllC (cfg : CompositeCfg) (W : Result → CErr) (fs : FS) : List String → FS × CErr
  | [] =>
    -- path "/": Stat succeeds on every tree; without the fast path Mkdir("/") fails and Lstat("/") rescues
    if cfg.maStatFirst then
      (fs, if cfg.maDirIsNil then .ok else cfg.maFileErr)
    else
      let (fs2, r) := mkdir fs []
      if W r = .ok then (fs2, .ok)
      else if cfg.maRecheck && (W (lstat fs2 []).1 = .ok && (lstat fs2 []).2.isDir) then (fs2, .ok)
      else (fs2, W r)
  | name :: prev =>
    let p := (name :: prev).reverse
    let st := if cfg.maStatFollows then stat fs p else lstat fs p
    if cfg.maStatFirst && W st.1 = .ok then
      (fs, if st.2.isDir = cfg.maDirIsNil then .ok else cfg.maFileErr)
    else
      let (fs1, e1) := if cfg.maParents && prev ≠ [] then mkdirAllC cfg W fs prev else (fs, .ok)
      if e1 ≠ .ok then (fs1, e1)
      else
        let (fs2, r) := mkdir fs1 p
        if W r = .ok then (fs2, .ok)
        else if cfg.maRecheck && (W (lstat fs2 p).1 = .ok && (lstat fs2 p).2.isDir) then (fs2, .ok)
        else (fs2, W r)

def mkdirAll (cfg : CompositeCfg) (W : Result → CErr) (fs : FS) (p : Path) : FS × CErr :=
  mkdirAllC cfg W fs p.reverse

/-! ### Client.RemoveAll -/

/-- the `for _, file := range files` loop of client.go:1094-1108 with the recursive call abstracted -/
def raLoop (cfg : CompositeCfg) (W : Result → CErr) (rec : FS → Path → FS × CErr) (p : Path) :
    FS → List (String × Bool) → FS × CErr
  | fs, [] => (fs, .ok)
  | fs, (name, isDir) :: rest =>
    let q := p ++ [name]
    let (fs1, e) :=
      if isDir && cfg.raRecurseDirs then rec fs q
      else if cfg.raRemovesNonDirs || isDir then removeC cfg W fs q
      else (fs, .ok)
    if e ≠ .ok then (fs1, e) else raLoop cfg W rec p fs1 rest

/-- client.go:1078-1114 with a recursion budget; running out of it is reported as `enotdir` (never produced
otherwise by RemoveAll), and `removeAll_fuel_suffices` shows it never happens with the budget of `removeAll`. -/
def removeAllC (cfg : CompositeCfg) (W : Result → CErr) : Nat → FS → Path → FS × CErr
  | 0, fs, _ => (fs, .enotdir)
  | fuel + 1, fs, p =>
    let st := if cfg.raLstat then lstat fs p else stat fs p      -- fi, err := c.Lstat(path)
    if W st.1 ≠ .ok then
      (fs, if cfg.raNoEntNil && W st.1 = .notExist then .ok else W st.1)
    else
      let (fs1, e1) :=
        if st.2.isDir && cfg.raChildrenFirst then
          match readDir fs p with                                  -- files, err := c.ReadDir(path)
          | (.ok, files) => raLoop cfg W (removeAllC cfg W fuel) p fs files
          | (r, _) => (fs, W r)
        else (fs, .ok)
      if e1 ≠ .ok then (fs1, e1)
      else if cfg.raRemovesNonDirs || st.2.isDir then removeC cfg W fs1 p   -- return c.Remove(path)
      else (fs1, .ok)

def removeAll (cfg : CompositeCfg) (W : Result → CErr) (fs : FS) (p : Path) : FS × CErr :=
  removeAllC cfg W (fs.length + 1) fs p

/-! ### cfg bits for the driver: the Bool fields in declaration order, then the three non-Bool fields -/

def bit (c : Char) : Option Bool := if c = '1' then some true else if c = '0' then some false else none

def parseCall (c : Char) : Option SrvCall :=
  if c = 'o' then some .osRemove else if c = 'u' then some .unlink else if c = 'r' then some .rmdir else none

def parseCErr (c : Char) : Option CErr :=
  if c = 'n' then some .notExist else if c = 'p' then some .permission else if c = 'f' then some .failure
  else if c = 'd' then some .enotdir else if c = 'k' then some .ok else none

def CErr.letter : CErr → Char
  | .ok => 'k' | .notExist => 'n' | .permission => 'p' | .failure => 'f' | .enotdir => 'd'

def SrvCall.letter : SrvCall → Char
  | .osRemove => 'o' | .unlink => 'u' | .rmdir => 'r'

def parseCErrs : List Char → Option (List CErr)
  | [] => some []
  | c :: cs =>
    match parseCErr c, parseCErrs cs with
    | some e, some l => some (e :: l)
    | _, _ => none

/-- `<removePkt><rmdirPkt><15 bits><maFileErr>:<rmFallbackOn letters>`, e.g. current = `oo101111111110111d:npf`.
Bits in order: rmCompare statusIsByCode rmStats rmStatFollows rmDirGivesErrD maStatFirst maStatFollows
maDirIsNil maParents maRecheck raLstat raNoEntNil raChildrenFirst raRecurseDirs raRemovesNonDirs. -/
def parseCfg (s : String) : Option CompositeCfg :=
  match s.splitOn ":" with
  | [a, fb] =>
    match a.toList with
    | [c1, c2, b1, b2, b3, b4, b5, b6, b7, b8, b9, b10, b11, b12, b13, b14, b15, fe] => do
      let removePkt ← parseCall c1
      let rmdirPkt ← parseCall c2
      let rmCompare ← bit b1
      let statusIsByCode ← bit b2
      let rmStats ← bit b3
      let rmStatFollows ← bit b4
      let rmDirGivesErrD ← bit b5
      let maStatFirst ← bit b6
      let maStatFollows ← bit b7
      let maDirIsNil ← bit b8
      let maParents ← bit b9
      let maRecheck ← bit b10
      let raLstat ← bit b11
      let raNoEntNil ← bit b12
      let raChildrenFirst ← bit b13
      let raRecurseDirs ← bit b14
      let raRemovesNonDirs ← bit b15
      let maFileErr ← parseCErr fe
      let rmFallbackOn ← parseCErrs (if fb = "-" then [] else fb.toList)
      pure { removePkt, rmdirPkt, rmFallbackOn, rmCompare, statusIsByCode, rmStats, rmStatFollows, rmDirGivesErrD,
             maStatFirst, maStatFollows, maDirIsNil, maFileErr, maParents, maRecheck,
             raLstat, raNoEntNil, raChildrenFirst, raRecurseDirs, raRemovesNonDirs }
    | _ => none
  | _ => none

def CompositeCfg.render (c : CompositeCfg) : String :=
  let b (x : Bool) : Char := if x then '1' else '0'
  String.ofList ([c.removePkt.letter, c.rmdirPkt.letter] ++
    [b c.rmCompare, b c.statusIsByCode, b c.rmStats, b c.rmStatFollows, b c.rmDirGivesErrD,
     b c.maStatFirst, b c.maStatFollows, b c.maDirIsNil, b c.maParents, b c.maRecheck,
     b c.raLstat, b c.raNoEntNil, b c.raChildrenFirst, b c.raRecurseDirs, b c.raRemovesNonDirs] ++
    [c.maFileErr.letter]) ++ ":" ++
  (if c.rmFallbackOn.isEmpty then "-" else String.ofList (c.rmFallbackOn.map CErr.letter))

end Sftp.Composite
