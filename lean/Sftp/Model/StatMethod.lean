/-
  M-StatMethod: a size query through an open handle of the request server (request-server.go, FSTAT case of
  `packetWorker`; request.go `filestat`).

  The request server has no handle-based stat: FSTAT is answered by `filestat` on the NAME the handle was opened with,
  with the method the worker puts into the Request.  "Stat" asks the handler's Filelist (follows a final symbolic link,
  like OPEN did when the handle was made); "Lstat" asks LstatFileLister.Lstat (does not).
  A file system is a list of (name, node); a node is a file of some size or a symbolic link (with the size lstat reports
  for the link itself).  `follow` resolves final links with fuel (a dangling or too long chain resolves to nothing).
  Which method FSTAT is served with is read off the source by translator unit FstatMethod (/verif/extract/round6.go).
-/
namespace Sftp.StatMethod

inductive Node where
  | file (size : Nat)
  | link (target : String) (lsize : Nat)
  deriving DecidableEq, Repr

abbrev FS := List (String × Node)

def follow : Nat → FS → String → Option Node
  | 0, _, _ => none
  | k + 1, fs, n =>
    match fs.lookup n with
    | some (.link t _) => follow k fs t
    | r => r

def Node.size : Node → Nat
  | .file s => s
  | .link _ l => l

/-- the object a handle opened by `name` reads and writes (OPEN resolves the link in the handler) -/
def opened (fuel : Nat) (fs : FS) (name : String) : Option Node := follow fuel fs name

/-- filestat with method `m` on the name the handle was opened with: the size it reports -/
def query (m : String) (fuel : Nat) (fs : FS) (name : String) : Option Nat :=
  if m = "Stat" then (follow fuel fs name).map Node.size
  else if m = "Lstat" then (fs.lookup name).map Node.size
  else none

/-- the method a packet type is served with, from the tables of unit FstatMethod: the literal of the worker's case, or
requestMethod's row, or "handle" (the method the handle's own Request got when it was opened) -/
def servedMethod (servedBy : List (String × String × String × String)) (requestMethod : List (String × String))
    (t : String) : Option String :=
  match servedBy.lookup t with
  | none => none
  | some (_, origin, m) =>
    if origin = "literal" then some m
    else if origin = "requestMethod" then requestMethod.lookup t
    else if origin = "handle" then some "handle"
    else none

theorem query_stat (fuel : Nat) (fs : FS) (name : String) :
    query "Stat" fuel fs name = (opened fuel fs name).map Node.size := by
  simp [query, opened]

end Sftp.StatMethod
