/-
  C20: the vocabulary of the "reply programs" that the fact extractor (extract/replies.go) emits for every
  place where the client decodes bytes received from the server.  Only the type lives here so that
  `Sftp/Generated/ClientReplies.lean` can import it without importing the interpreter.

  A program works on one variable `data` (the reply body after the type byte: id first), a register `last`
  (the uint32 read most recently: `sid`, `count`, `l`), a register `flags` (attribute flags), the request id the
  caller expects, and an allocation meter.
-/
namespace Sftp.Reply

inductive RStep where
  /-- `v, data := unmarshalUint32(data)` (`safe = false`: indexes `b[3]`) or `unmarshalUint32Safe` /
      the unchecked one directly behind `if len(data) < 4 { …error… }` (`safe = true`). Sets `last`. -/
  | u32 (safe : Bool)
  | u64 (safe : Bool)
  /-- `unmarshalString` / `unmarshalStringSafe` with the error checked. Allocates the string. -/
  | str (safe : Bool)
  /-- `s, data, _ := unmarshalStringSafe(data)`: the error is DISCARDED; on a short input `data` becomes nil. -/
  | strOpt
  /-- a uint32 read whose value is then used as the attribute flag word. -/
  | flags (safe : Bool)
  /-- call of another extracted decoder (`G.decoderProgs`) whose remaining slice is assigned back to `data`. -/
  | call (fn : String)
  /-- `if sid != id { …unexpectedIDErr… }` where `sid` is the uint32 just read. -/
  | checkId
  /-- the id later compared is the uint32 just read from the reply itself (`writeChunkAt`). -/
  | idFromLast
  /-- `if count != n { …error… }` where `count` is the uint32 just read. -/
  | checkCountIs (n : Nat)
  /-- `data[:l]` with `l` the uint32 just read; safe iff directly behind a `l > len(data)` check. -/
  | sliceLen (safe : Bool)
  /-- `buf[:l]` on the request's own buffer (`pool.Get()[:l]`), capacity = the chunk size asked for. -/
  | sliceBuf (safe : Bool)
  /-- `for i := 0; i < count; i++ { body }` with `count` just read; `guard = some u` for a preceding
      `if count > len(data)/u { …error… }`; `prealloc = sizeof(T)` for a preceding `make([]T, count)`. -/
  | loopCount (guard : Option Nat) (prealloc : Nat) (body : List RStep)
  /-- `for len(data) > 0 { body }`. -/
  | loopRest (body : List RStep)
  /-- `if flags&mask == mask { body }`. -/
  | ifFlag (mask : Nat) (body : List RStep)
  /-- `encoding/binary.Read` of a fixed-size struct: an error on short input, never a panic. -/
  | binaryRead (nbytes : Nat)
  /-- the steps run on `data` but the remaining slice is thrown away (`x, _ := f(data)`, or `data` passed
      by value to a callee): afterwards `data` is what it was before. -/
  | peek (body : List RStep)

/-- `attr, data, err = unmarshalAttrs(data)` -/
abbrev RStep.attrs : RStep := .call "unmarshalAttrs"
/-- `unmarshalStatus(id, data)`: `data` is passed by value. -/
abbrev RStep.status : RStep := .peek [.call "unmarshalStatus"]

end Sftp.Reply
