import Sftp.Model.Path
/-
  M-OsAdapter (C05): the os-backed server as an adapter onto an arbitrary file-system oracle.
  `toLocal` is server_unix.go `Server.toLocalPath`; a request is served by calling the oracle
  with every path argument marked "L" resolved through `toLocal` and every other argument verbatim.
-/
namespace Sftp.OsAdapter
open Sftp Sftp.Path

/-- `if s.workDir != "" && !path.IsAbs(p) { p = path.Join(s.workDir, p) }; return p` -/
def toLocal (workDir p : Bytes) : Bytes :=
  if workDir ≠ [] ∧ isAbs p = false then join2 workDir p else p

/-- an argument of an os call: a path to resolve (`L`) or a value passed verbatim -/
inductive Arg where
  | loc (p : Bytes)
  | raw (v : Bytes)

def resolve (workDir : Bytes) : Arg → Bytes
  | .loc p => toLocal workDir p
  | .raw v => v

/-- The file system and package os are an oracle: any state type, any call semantics. -/
structure Oracle (FS R : Type) where
  call : FS → String → List Bytes → FS × R

/-- what the server does for one request: exactly one oracle call on the resolved arguments -/
def serve {FS R} (o : Oracle FS R) (workDir : Bytes) (fs : FS) (name : String) (args : List Arg) : FS × R :=
  o.call fs name (args.map (resolve workDir))

end Sftp.OsAdapter
