/-
  M-InMemStore: the in-memory handler of request-example.go, as far as IDENTITY goes.

  (b) `root.files` maps names to objects (`*memFile`); a handle holds the object that `openfile` returned.  `openfile`
  looks the name up; if nothing is found it makes a new object and stores it under the name (`putfile`); if an object is
  found it returns THAT object — after `file.Truncate(0)` when O_TRUNC is set (truncate in place).  `replace = true` is
  the other reading of O_TRUNC (seed C01_l): a new object is stored under the existing name.
  (a) a file's content is either storage of its own or (seed C18_l) a view on the page a WRITE request was received
  into; pages are handed to later requests once the reply has been sent.
  Which reading the tree has is read off the source by translator unit InMemShape (/verif/extract/round6.go).
-/
namespace Sftp.InMemStore

/-! ### (b) names, objects, handles -/

abbrev Tab := List (String × Nat)

def find : Tab → String → Option Nat
  | [], _ => none
  | (k, v) :: r, n => if k = n then some v else find r n

structure St where
  /-- name ↦ object id -/
  files : Tab
  /-- next fresh object id -/
  next : Nat
  /-- every handle opened so far: (name it was opened by, object it holds) -/
  handles : Tab
  deriving DecidableEq, Repr

def St.init : St := ⟨[], 0, []⟩

/-- an OPEN with O_CREAT (an open that fails hands out no handle and changes nothing) -/
structure Open where
  name : String
  trunc : Bool
  deriving DecidableEq, Repr

def step (replace : Bool) (s : St) (o : Open) : St :=
  match find s.files o.name with
  | none => ⟨(o.name, s.next) :: s.files, s.next + 1, (o.name, s.next) :: s.handles⟩
  | some id =>
    if o.trunc && replace then ⟨(o.name, s.next) :: s.files, s.next + 1, (o.name, s.next) :: s.handles⟩
    else { s with handles := (o.name, id) :: s.handles }

def run (replace : Bool) (s : St) : List Open → St
  | [] => s
  | o :: os => run replace (step replace s o) os

/-- every handle holds the object its name designates -/
def Coherent (s : St) : Prop := ∀ h ∈ s.handles, find s.files h.1 = some h.2

theorem step_coherent (s : St) (o : Open) (hc : Coherent s) : Coherent (step false s o) := by
  cases hf : find s.files o.name with
  | none =>
    intro h hh
    simp only [step, hf, List.mem_cons] at hh ⊢
    rcases hh with rfl | hh
    · simp [find]
    · have := hc h hh
      have hne : o.name ≠ h.1 := by
        intro heq
        rw [← heq, hf] at this
        cases this
      simp [find, hne, this]
  | some id =>
    intro h hh
    simp only [step, hf, Bool.and_false, Bool.false_eq_true, if_false, List.mem_cons] at hh ⊢
    rcases hh with rfl | hh
    · exact hf
    · exact hc h hh

theorem run_coherent (ops : List Open) : ∀ s, Coherent s → Coherent (run false s ops) := by
  induction ops with
  | nil => intro s hs; exact hs
  | cons o os ih => intro s hs; exact ih _ (step_coherent s o hs)

/-! ### (a) content and request pages -/

inductive Content where
  | own (bytes : List Nat)   -- storage of the file's own (append / make / re-slice of it)
  | view (page : Nat)        -- the slice the WRITE request was received into
  deriving DecidableEq, Repr

/-- page id ↦ the bytes that currently stand in it -/
abbrev Pages := Nat → List Nat

def recvInto (pg : Pages) (p : Nat) (bytes : List Nat) : Pages := fun q => if q = p then bytes else pg q

def recvAll (pg : Pages) : List (Nat × List Nat) → Pages
  | [] => pg
  | (p, b) :: r => recvAll (recvInto pg p b) r

def read (c : Content) (pg : Pages) : List Nat :=
  match c with
  | .own b => b
  | .view p => pg p

/-- the right-hand sides that cannot alias the argument slice -/
def safeKinds : List String := ["append(content)", "make", "reslice(content)", "nil", "clone"]

def safeUses : List String := ["len", "copy-dst", "copy-src", "append-elems"]

/-- what the file holds after a WRITE of `data` received into page `page`, given the kinds of assignment to `content`
that the methods contain (worst case: if one of them can keep the argument, it does) -/
def store (kinds : List String) (page : Nat) (data : List Nat) : Content :=
  if kinds.all safeKinds.contains then .own data else .view page

theorem store_stable (kinds : List String) (h : kinds.all safeKinds.contains = true) (page : Nat) (data : List Nat)
    (pg : Pages) (later : List (Nat × List Nat)) :
    read (store kinds page data) (recvAll (recvInto pg page data) later) = data := by
  simp [store, h, read]

end Sftp.InMemStore
