import Sftp.Model.OsAdapter
/-
  M-SrvWorkDir: what `Server.workDir` holds once `NewServer` has returned (server.go).

  The Server literal of NewServer has no `workDir` key (the field starts out empty), the options are applied in order,
  and `WithServerWorkingDirectory(w)` is the only one that writes the field.  `snapshot = true` is the other reading
  (seed C05_l): NewServer itself fills an empty workDir with the process's working directory at construction time.
  `toLocal` is Model/OsAdapter's `Server.toLocalPath`.  Which reading the tree has is read off the source by translator
  unit SrvWorkDir (/verif/extract/round6.go).
-/
namespace Sftp.SrvWorkDir
open Sftp Sftp.Path Sftp.OsAdapter

/-- a ServerOption as far as workDir goes: WithServerWorkingDirectory(w) (stored clean: Props/C05 `toLocalPath_shape`),
or any other option -/
inductive Opt where
  | workDir (w : Bytes)
  | other
  deriving DecidableEq, Repr

def applyOpt (wd : Bytes) : Opt → Bytes
  | .workDir w => w
  | .other => wd

/-- the workDir of the Server that NewServer returns, `cwd` being the process's working directory at that moment -/
def newServer (snapshot : Bool) (cwd : Bytes) (opts : List Opt) : Bytes :=
  let wd := opts.foldl applyOpt []
  if snapshot = true ∧ wd = [] then cwd else wd

def noWorkDirOption (opts : List Opt) : Bool := opts.all (· == .other)

theorem foldl_other (opts : List Opt) (h : noWorkDirOption opts = true) (wd : Bytes) : opts.foldl applyOpt wd = wd := by
  induction opts generalizing wd with
  | nil => rfl
  | cons o os ih =>
    simp only [noWorkDirOption, List.all_cons, Bool.and_eq_true, beq_iff_eq] at h
    rw [List.foldl_cons, h.1]
    exact ih (by simpa [noWorkDirOption] using h.2) wd

/-- without the snapshot and without the option the field stays empty, and toLocalPath is the identity -/
theorem unset_is_identity (cwd : Bytes) (opts : List Opt) (h : noWorkDirOption opts = true) (p : Bytes) :
    newServer false cwd opts = [] ∧ toLocal (newServer false cwd opts) p = p := by
  have : newServer false cwd opts = [] := by simp [newServer, foldl_other opts h]
  rw [this]
  exact ⟨rfl, by simp [toLocal]⟩

end Sftp.SrvWorkDir
