/-
  M-ConnClose: packet writers and closers on one `conn` (conn.go, packet.go).

  A sender runs `conn.sendPacket`: take conn's mutex, write the header (`w.Write(header)`), write the payload
  (`w.Write(payload)`, two-part packets: WRITE, SETSTAT, FSETSTAT, OPEN), return (deferred Unlock); a packet with an empty
  payload is one Write.  A Write on a pipe that has been closed fails: sendPacket returns the error (and unlocks) at once.
  A closer runs `conn.Close`.  With `closeLocks = true` that is: take the same mutex, `WriteCloser.Close()`, unlock; with
  `closeLocks = false` (seed C03_l) it is the bare `WriteCloser.Close()`, enabled at any moment.
  Any number of senders (named by a number) and of closers; an action list is a schedule, `step` says which actions are
  enabled.  `wire` records what reached the pipe, newest first.  Whether Close takes the mutex is read off the source by
  translator unit ConnCloseShape (/verif/extract/round6.go).
-/
namespace Sftp.ConnClose

inductive Ev where
  | hdr (i : Nat)   -- header of a two-part packet of sender i
  | pay (i : Nat)   -- its payload
  | one (i : Nat)   -- a packet that is a single Write
  | close
  deriving DecidableEq, Repr

inductive Pc where
  | locked | headerOut | done
  deriving DecidableEq, Repr

inductive Who where
  | sender (i : Nat) (pc : Pc)
  | closer (closed : Bool)
  deriving DecidableEq, Repr

structure St where
  holder : Option Who
  closed : Bool
  wire : List Ev
  deriving DecidableEq, Repr

def St.init : St := ⟨none, false, []⟩

inductive Act where
  | sAcquire (i : Nat)   -- c.Lock() in sendPacket
  | sWrite (i : Nat)     -- the next Write of a two-part packet
  | sWriteOne (i : Nat)  -- the only Write of a one-part packet
  | sReturn (i : Nat)    -- return (deferred c.Unlock())
  | cAcquire             -- c.Lock() in Close
  | cStep                -- WriteCloser.Close(), then the deferred Unlock
  | cBare                -- WriteCloser.Close() without the mutex
  deriving DecidableEq, Repr

def step (closeLocks : Bool) (s : St) : Act → Option St
  | .sAcquire i => if s.holder = none then some { s with holder := some (.sender i .locked) } else none
  | .sWrite i =>
    if s.holder = some (.sender i .locked) then
      if s.closed then some { s with holder := none }
      else some { s with holder := some (.sender i .headerOut), wire := .hdr i :: s.wire }
    else if s.holder = some (.sender i .headerOut) then
      if s.closed then some { s with holder := none }
      else some { s with holder := some (.sender i .done), wire := .pay i :: s.wire }
    else none
  | .sWriteOne i =>
    if s.holder = some (.sender i .locked) then
      if s.closed then some { s with holder := none }
      else some { s with holder := some (.sender i .done), wire := .one i :: s.wire }
    else none
  | .sReturn i => if s.holder = some (.sender i .done) then some { s with holder := none } else none
  | .cAcquire => if closeLocks = true ∧ s.holder = none then some { s with holder := some (.closer false) } else none
  | .cStep =>
    if s.holder = some (.closer false) then
      some { s with holder := some (.closer true), closed := true, wire := .close :: s.wire }
    else if s.holder = some (.closer true) then some { s with holder := none }
    else none
  | .cBare => if closeLocks = false then some { s with closed := true, wire := .close :: s.wire } else none

def run (closeLocks : Bool) (s : St) : List Act → Option St
  | [] => some s
  | a :: as =>
    match step closeLocks s a with
    | some s' => run closeLocks s' as
    | none => none

/-- the wire (newest first) is a sequence of whole packets and closes: every payload directly follows its own header,
no header is left without its payload, nothing — in particular no close — stands between the two -/
def good : List Ev → Bool
  | [] => true
  | .pay i :: .hdr j :: r => i == j && good r
  | .one _ :: r => good r
  | .close :: r => good r
  | _ => false

/-- the same, allowing for the one packet whose header has just been written -/
def wellFramed : List Ev → Bool
  | .hdr _ :: r => good r
  | w => good w

theorem good_wellFramed (w : List Ev) (h : good w = true) : wellFramed w = true := by
  cases w with
  | nil => rfl
  | cons e r => cases e <;> simp_all [wellFramed, good]

structure Inv (s : St) : Prop where
  /-- a sender between its two Writes: its header is the newest thing on the wire, and the pipe is open -/
  mid : ∀ i, s.holder = some (.sender i .headerOut) → s.closed = false ∧ ∃ r, s.wire = .hdr i :: r ∧ good r = true
  /-- otherwise the wire consists of whole packets -/
  idle : (∀ i, s.holder ≠ some (.sender i .headerOut)) → good s.wire = true

theorem inv_init : Inv St.init := ⟨(fun i h => by cases h), fun _ => rfl⟩

theorem step_inv (s s' : St) (a : Act) (h : Inv s) (hs : step true s a = some s') : Inv s' := by
  cases a with
  | sAcquire i =>
    simp only [step] at hs
    split at hs
    · rename_i hn
      cases hs
      refine ⟨(fun j hj => by cases hj), fun _ => h.idle (by intro j; rw [hn]; simp)⟩
    · cases hs
  | sWrite i =>
    simp only [step] at hs
    split at hs
    · rename_i hl
      have hg : good s.wire = true := h.idle (by intro j; rw [hl]; simp)
      split at hs
      · cases hs
        exact ⟨(fun j hj => by cases hj), fun _ => hg⟩
      · rename_i hc
        cases hs
        refine ⟨?_, ?_⟩
        · intro j hj
          simp only [Option.some.injEq, Who.sender.injEq, and_true] at hj
          subst hj
          exact ⟨by simpa using hc, s.wire, rfl, hg⟩
        · intro hno
          exact absurd rfl (hno i)
    · split at hs
      · rename_i _ hm
        obtain ⟨hopen, r, hw, hr⟩ := h.mid i hm
        split at hs
        · rename_i hc
          rw [hopen] at hc
          cases hc
        · cases hs
          refine ⟨(fun j hj => by cases hj), fun _ => ?_⟩
          show good (.pay i :: s.wire) = true
          rw [hw]
          simp [good, hr]
      · cases hs
  | sWriteOne i =>
    simp only [step] at hs
    split at hs
    · rename_i hl
      have hg : good s.wire = true := h.idle (by intro j; rw [hl]; simp)
      split at hs
      · cases hs
        exact ⟨(fun j hj => by cases hj), fun _ => hg⟩
      · cases hs
        refine ⟨(fun j hj => by cases hj), fun _ => ?_⟩
        show good (.one i :: s.wire) = true
        simp [good, hg]
    · cases hs
  | sReturn i =>
    simp only [step] at hs
    split at hs
    · rename_i hl
      cases hs
      exact ⟨(fun j hj => by cases hj), fun _ => h.idle (by intro j; rw [hl]; simp)⟩
    · cases hs
  | cAcquire =>
    simp only [step] at hs
    split at hs
    · rename_i hn
      cases hs
      exact ⟨(fun j hj => by cases hj), fun _ => h.idle (by intro j; rw [hn.2]; simp)⟩
    · cases hs
  | cStep =>
    simp only [step] at hs
    split at hs
    · rename_i hl
      cases hs
      have hg : good s.wire = true := h.idle (by intro j; rw [hl]; simp)
      refine ⟨(fun j hj => by cases hj), fun _ => ?_⟩
      show good (.close :: s.wire) = true
      simp [good, hg]
    · split at hs
      · rename_i _ hl
        cases hs
        exact ⟨(fun j hj => by cases hj), fun _ => h.idle (by intro j; rw [hl]; simp)⟩
      · cases hs
  | cBare => simp [step] at hs

theorem run_inv (acts : List Act) : ∀ s s', Inv s → run true s acts = some s' → Inv s' := by
  induction acts with
  | nil => intro s s' h hr; simp only [run] at hr; cases hr; exact h
  | cons a as ih =>
    intro s s' h hr
    simp only [run] at hr
    split at hr
    · rename_i s1 hs1
      exact ih s1 s' (step_inv s s1 a h hs1) hr
    · cases hr

/-- with Close under the senders' mutex: in every reachable state the wire is well framed, and whole whenever no sender
is between its two Writes -/
theorem locked_close_never_tears (acts : List Act) (s : St) (hr : run true St.init acts = some s) :
    wellFramed s.wire = true ∧ ((∀ i, s.holder ≠ some (.sender i .headerOut)) → good s.wire = true) := by
  have hi := run_inv acts St.init s inv_init hr
  refine ⟨?_, hi.idle⟩
  by_cases hm : ∃ i, s.holder = some (.sender i .headerOut)
  · obtain ⟨i, hi'⟩ := hm
    obtain ⟨_, r, hw, hg⟩ := hi.mid i hi'
    rw [hw]
    exact hg
  · exact good_wellFramed _ (hi.idle (by intro i hi'; exact hm ⟨i, hi'⟩))

end Sftp.ConnClose
