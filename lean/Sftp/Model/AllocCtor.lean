/-
  M-AllocCtor: which allocator a server ends up with, as a function of WHERE the source creates it.

  A `ServerOption` / `RequestServerOption` VALUE is reusable: a daemon prepares its option list once and hands it to
  `NewServer` / `NewRequestServer` for every accepted connection.  The closure the option constructor returns runs once
  per server; the constructor's own body runs once per option value; a package-level initialiser runs once per process.
-/
namespace Sftp.AllocCtor

/-- where a `newAllocator()` call stands -/
inductive Site where
  | inClosure       -- inside the func literal the option constructor returns
  | inConstructor   -- in the body of NewServer / NewRequestServer
  | outsideClosure  -- in the option constructor's own body (seed C18_h)
  | packageLevel    -- in a package-level variable initialiser
  deriving DecidableEq, Repr

def parseSite (s : String) : Option Site :=
  if s = "inClosure" then some .inClosure
  else if s = "inConstructor" then some .inConstructor
  else if s = "outsideClosure" then some .outsideClosure
  else if s = "packageLevel" then some .packageLevel
  else none

/-- identity of an allocator: one per evaluation of the creating expression -/
inductive AllocId where
  | perServer (srv : Nat)   -- created while server number `srv` was being built
  | perOption (opt : Nat)   -- created when option value number `opt` was built
  | global
  deriving DecidableEq, Repr

/-- the allocator of server number `srv`, configured with option value number `opt` -/
def allocOf : Site → (opt srv : Nat) → AllocId
  | .inClosure, _, srv => .perServer srv
  | .inConstructor, _, srv => .perServer srv
  | .outsideClosure, opt, _ => .perOption opt
  | .packageLevel, _, _ => .global

def Site.perServer : Site → Bool
  | .inClosure | .inConstructor => true
  | _ => false

/-- created per server: two different servers never share, whichever option values configured them -/
theorem own_allocator (s : Site) (h : s.perServer = true) (opt₁ opt₂ srv₁ srv₂ : Nat) (hne : srv₁ ≠ srv₂) :
    allocOf s opt₁ srv₁ ≠ allocOf s opt₂ srv₂ := by
  cases s <;> simp [Site.perServer] at h <;> simp [allocOf, hne]

/-- created anywhere else: two servers built from the same option value share -/
theorem shared_allocator (s : Site) (h : s.perServer = false) (opt srv₁ srv₂ : Nat) :
    allocOf s opt srv₁ = allocOf s opt srv₂ := by
  cases s <;> simp [Site.perServer] at h <;> simp [allocOf]

end Sftp.AllocCtor
