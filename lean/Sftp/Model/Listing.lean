import Sftp.Prim
/-
  M-List: directory listing (property C16).

  * a handler lister (`ListerAt`) = the entry list + a *behaviour* `beh off buflen` saying how many
    entries one `ListAt(buf, off)` call copies and which error it returns; `Legal` is the ListerAt
    contract (request-interfaces.go);
  * `filelistStep`: one READDIR served by request.go `filelist` (Method "List");
  * `osReaddirStep`: one READDIR served by server.go `sshFxpReaddirPacket.respond` (`f.Readdir(128)`);
  * `readDir`: the loop of client.go `ReadDirContext`, with an explicit round counter and fuel.

  Abstractions: the NAME/STATUS wire encoding (entries travel as values; attributes are an opaque
  `Nat` — their conversion is C17/C08), request ids, the handle table, the long name.  The client
  keeps `path.Base(filename)` of every name; `pathBase` models Go's `path.Base`.
-/
namespace Sftp.C16
open Sftp

structure Entry where
  name : Bytes
  attrs : Nat
  deriving DecidableEq, Repr

/-- the `error` result of `ListAt` / `Readdir`. -/
inductive LErr where
  | nil     -- err == nil
  | eof     -- err == io.EOF
  | other   -- any other error
  deriving DecidableEq, Repr

/-- result of one `ListAt(buf, off)`: `n` entries `entries[off, off+n)` were copied. -/
structure ListRes where
  n : Nat
  err : LErr
  deriving DecidableEq, Repr

/-- behaviour of a lister: offset → buffer length → result. -/
abbrev Beh := Nat → Nat → ListRes

/-- The ListerAt contract for a list of `len` entries.
Inside the list: at least one and at most `buflen` entries (short batches allowed), never past the
end, no error other than `io.EOF`, and `io.EOF` only together with the last entries.
At or past the end: nothing copied, `io.EOF`. -/
structure Legal (len : Nat) (beh : Beh) : Prop where
  n_pos    : ∀ off buf, off < len → 1 ≤ buf → 1 ≤ (beh off buf).n
  n_le_buf : ∀ off buf, off < len → 1 ≤ buf → (beh off buf).n ≤ buf
  n_le_len : ∀ off buf, off < len → 1 ≤ buf → off + (beh off buf).n ≤ len
  no_other : ∀ off buf, off < len → 1 ≤ buf → (beh off buf).err ≠ .other
  eof_last : ∀ off buf, off < len → 1 ≤ buf → (beh off buf).err = .eof → off + (beh off buf).n = len
  end_n    : ∀ off buf, len ≤ off → (beh off buf).n = 0
  end_eof  : ∀ off buf, len ≤ off → (beh off buf).err = .eof

/-- `os.File.Readdir(k)`, k > 0: up to `k` entries, `io.EOF` exactly when nothing is left. -/
def readdirBeh (len : Nat) : Beh := fun off buf =>
  ⟨min buf (len - off), if len ≤ off then .eof else .nil⟩

/-- `listerat.ListAt` of request-example.go:
`if offset >= len(f) {return 0, io.EOF}; n = copy(ls, f[offset:]); if n < len(ls) {return n, io.EOF}; return n, nil`. -/
def exampleBeh (len : Nat) : Beh := fun off buf =>
  if len ≤ off then ⟨0, .eof⟩
  else
    let n := min buf (len - off)
    if n < buf then ⟨n, .eof⟩ else ⟨n, .nil⟩

/-! ### server side -/

/-- status codes that matter to the listing. -/
inductive SErr where
  | eof     -- SSH_FX_EOF
  | other   -- any other non-OK code
  deriving DecidableEq, Repr

inductive Reply where
  | name (es : List Entry)   -- SSH_FXP_NAME with these entries, in order
  | status (e : SErr)        -- SSH_FXP_STATUS
  deriving DecidableEq, Repr

/-- Source facts of request.go `filelist` the property depends on. -/
structure SrvCfg where
  /-- `MaxFilelist`: length of the buffer handed to `ListAt`. -/
  batch : Nat
  /-- `r.lsInc(int64(n))` is called with the `n` returned by `ListAt` (false: offset not advanced). -/
  incByN : Bool
  /-- the `n == 0` conjunct in `if err != nil && (err != io.EOF || n == 0)` (false: every non-nil
  error, io.EOF included, becomes a STATUS even when entries were returned). -/
  eofOnlyWhenEmpty : Bool
  deriving DecidableEq, Repr

def SrvCfg.current : SrvCfg := { batch := 100, incByN := true, eofOnlyWhenEmpty := true }

def slice (entries : List Entry) (off n : Nat) : List Entry := (entries.drop off).take n

def errToStatus : LErr → SErr
  | .eof => .eof
  | _ => .other

/-- request.go `filelist`, Method "List"; state = `lsoffset`. -/
def filelistStep (cfg : SrvCfg) (entries : List Entry) (beh : Beh) (off : Nat) : Reply × Nat :=
  let r := beh off cfg.batch                                  -- n, err := lister.ListAt(finfo, offset)
  let off' := if cfg.incByN then off + r.n else off           -- r.lsInc(int64(n))
  let refuse : Bool :=                                        -- err != nil && (err != io.EOF || n == 0)
    r.err != .nil && (r.err != .eof || (!cfg.eofOnlyWhenEmpty || r.n == 0))
  if refuse then (.status (errToStatus r.err), off')
  else (.name (slice entries off r.n), off')

/-- Source facts of server.go `sshFxpReaddirPacket.respond`. -/
structure OsCfg where
  /-- the argument of `f.Readdir(128)`. -/
  batch : Nat
  /-- `if err != nil { return statusFromError(p.ID, err) }` is present. -/
  errToStatus : Bool
  deriving DecidableEq, Repr

def OsCfg.current : OsCfg := { batch := 128, errToStatus := true }

/-- server.go READDIR on a directory of `entries`; state = the directory read position of the open
`*os.File` (advanced by the entries returned). -/
def osReaddirStep (cfg : OsCfg) (entries : List Entry) (pos : Nat) : Reply × Nat :=
  let r := readdirBeh entries.length pos cfg.batch            -- dirents, err := f.Readdir(128)
  if cfg.errToStatus && r.err != .nil then (.status (errToStatus r.err), pos + r.n)
  else (.name (slice entries pos r.n), pos + r.n)

/-! ### client side -/

/-- Go `path.Base` on bytes (`/` = 47, `.` = 46). -/
def stripTrailingSlashes (p : Bytes) : Bytes := (p.reverse.dropWhile (· == 47)).reverse
def lastElem (p : Bytes) : Bytes := (p.reverse.takeWhile (· != 47)).reverse
def pathBase (p : Bytes) : Bytes :=
  if p = [] then [46]
  else
    let q := lastElem (stripTrailingSlashes p)
    if q = [] then [47] else q

def dot : Bytes := [46]
def dotdot : Bytes := [46, 46]

def isDot (e : Entry) : Bool := e.name == dot || e.name == dotdot

/-- Source facts of client.go `ReadDirContext`. -/
structure CliCfg where
  /-- `if filename == "." || filename == ".." { continue }`. -/
  filterDots : Bool
  /-- `done = true` in the `sshFxpStatus` case. -/
  stopOnStatus : Bool
  /-- `if err == io.EOF { err = nil }` after the loop. -/
  eofIsNil : Bool
  /-- the name kept is `path.Base(filename)`. -/
  baseName : Bool
  deriving DecidableEq, Repr

def CliCfg.current : CliCfg :=
  { filterDots := true, stopOnStatus := true, eofIsNil := true, baseName := true }

/-- the `error` returned by `ReadDir`. -/
inductive CErr where
  | nil | eof | other
  deriving DecidableEq, Repr

structure ListOut where
  entries : List Entry
  err : CErr
  /-- number of READDIR round trips made. -/
  rounds : Nat
  deriving DecidableEq, Repr

/-- what the client appends for one NAME packet. -/
def keep (cc : CliCfg) (es : List Entry) : List Entry :=
  let es1 := if cc.filterDots then es.filter (fun e => !isDot e) else es
  if cc.baseName then es1.map (fun e => { e with name := pathBase e.name }) else es1

def finalErr (cc : CliCfg) : SErr → CErr
  | .eof => if cc.eofIsNil then .nil else .eof
  | .other => .other

/-- client.go `ReadDirContext` loop against a server `srv : state → Reply × state`.
`none` = the loop has not finished within `fuel` round trips. -/
def readDir {σ : Type} (cc : CliCfg) (srv : σ → Reply × σ) :
    Nat → σ → List Entry → Nat → Option ListOut
  | 0, _, _, _ => none
  | fuel + 1, s, acc, rounds =>
    match srv s with
    | (.name es, s') => readDir cc srv fuel s' (acc ++ keep cc es) (rounds + 1)
    | (.status e, s') =>
      if cc.stopOnStatus then some ⟨acc, finalErr cc e, rounds + 1⟩
      else readDir cc srv fuel s' acc (rounds + 1)

/-- `Client.ReadDir` against the request server with lister (`entries`, `beh`). -/
def listRequestServer (sc : SrvCfg) (cc : CliCfg) (entries : List Entry) (beh : Beh) (fuel : Nat) :
    Option ListOut :=
  readDir cc (filelistStep sc entries beh) fuel 0 [] 0

/-- `Client.ReadDir` against the os-backed server. -/
def listOsServer (oc : OsCfg) (cc : CliCfg) (entries : List Entry) (fuel : Nat) : Option ListOut :=
  readDir cc (osReaddirStep oc entries) fuel 0 [] 0

/-! ### scripted behaviours (driver / harness) -/

/-- A scripted lister.  `sizes = [s₁,…,s_m]` cuts the list at boundaries `b₀ = 0`, `b_{i+1} = b_i + s_i`;
a `ListAt` at offset `off` with `b_i ≤ off < b_{i+1}` copies `min (b_{i+1} − off) buf rest` entries
(a short batch); past the last boundary it copies `min buf rest`.  `eofWithLast`: `io.EOF` is returned
together with the last entries (otherwise only by the following, empty, call). -/
def scriptN (sizes : List Nat) (cur off buf rest : Nat) : Nat :=
  match sizes with
  | [] => min buf rest
  | s :: ss => if off < cur + s then min (cur + s - off) (min buf rest) else scriptN ss (cur + s) off buf rest

def scriptBeh (sizes : List Nat) (eofWithLast : Bool) (len : Nat) : Beh := fun off buf =>
  if len ≤ off then ⟨0, .eof⟩
  else
    let n := scriptN sizes 0 off buf (len - off)
    ⟨n, if eofWithLast && off + n == len then .eof else .nil⟩

end Sftp.C16
