/-
  M-RecvLifecycle: the end of a client session — the receiver goroutine against `clientConn.Close`.

  The receiver goroutine (client.go newClientPipe, with conn.go clientConn.recv inlined) executes a fixed list of
  events; `done` is `wg.Done()`, `broadcast` is `broadcastErr` (every waiting call is notified and `closed` is
  closed).  `Close` is `defer c.wg.Wait(); return c.conn.Close()`: it can be called at any time and returns once
  `done` has been executed.  The event list is the PARAMETER (translator unit RecvLifecycle reads it off the source);
  the scheduler interleaves the receiver's steps with Close's call and return in every possible way.
-/
namespace Sftp.RecvLife

inductive Ev where
  | recvLoop    -- the receive loop of clientConn.recv ends (transport error, EOF, unknown id)
  | connClose   -- recv's deferred c.conn.Close()
  | broadcast   -- broadcastErr: all waiting calls notified, c.closed closed
  | done        -- wg.Done()
  | other
  deriving DecidableEq, Repr

def parseEv (s : String) : Ev :=
  if s = "recvLoop" then .recvLoop
  else if s = "connClose" then .connClose
  else if s = "broadcast" then .broadcast
  else if s = "done" then .done
  else .other

inductive Act where
  | recvStep      -- the receiver goroutine executes its next event
  | closeCall     -- Client.Close is called (conn.Close, then blocks in wg.Wait)
  | closeReturn   -- wg.Wait returns, Close returns
  deriving DecidableEq, Repr

structure St where
  pc : Nat                 -- number of events the receiver has executed
  closeCalled : Bool
  closeReturned : Bool
  deriving DecidableEq, Repr

def St.init : St := ⟨0, false, false⟩

/-- the events executed so far -/
def executed (evs : List Ev) (s : St) : List Ev := evs.take s.pc

def step (evs : List Ev) (s : St) : Act → Option St
  | .recvStep => if s.pc < evs.length then some { s with pc := s.pc + 1 } else none
  | .closeCall => if s.closeCalled then none else some { s with closeCalled := true }
  | .closeReturn =>
    if s.closeCalled && !s.closeReturned && (executed evs s).contains .done then some { s with closeReturned := true }
    else none

def run (evs : List Ev) : St → List Act → Option St
  | s, [] => some s
  | s, a :: as => match step evs s a with
    | some s' => run evs s' as
    | none => none

/-- `a` stands before the first `b` (or there is no `b`) -/
def before (a b : Ev) : List Ev → Bool
  | [] => true
  | x :: xs => if x = a then true else if x = b then false else before a b xs

theorem mem_take_succ {α} (x : α) : ∀ (l : List α) (k : Nat), x ∈ l.take k → x ∈ l.take (k + 1)
  | [], _, h => by simp at h
  | y :: ys, 0, h => by simp at h
  | y :: ys, k + 1, h => by
    simp only [List.take_succ_cons, List.mem_cons] at h ⊢
    cases h with
    | inl h => exact Or.inl h
    | inr h => exact Or.inr (mem_take_succ x ys k h)

theorem before_spec (a b : Ev) : ∀ (l : List Ev), before a b l = true → ∀ k, b ∈ l.take k → a ∈ l.take k
  | [], _, k, h => by simp at h
  | x :: xs, hb, 0, h => by simp at h
  | x :: xs, hb, k + 1, h => by
    simp only [List.take_succ_cons, List.mem_cons] at h ⊢
    unfold before at hb
    by_cases hxa : x = a
    · exact Or.inl hxa.symm
    · by_cases hxb : x = b
      · rw [if_neg hxa, if_pos hxb] at hb
        cases hb
      · rw [if_neg hxa, if_neg hxb] at hb
        cases h with
        | inl h => exact absurd h.symm hxb
        | inr h => exact Or.inr (before_spec a b xs hb k h)

/-- invariant: Close has returned only if `done` has been executed -/
def Inv (evs : List Ev) (s : St) : Prop := s.closeReturned = true → Ev.done ∈ executed evs s

theorem step_inv (evs : List Ev) (s s' : St) (a : Act) (hi : Inv evs s) (hs : step evs s a = some s') : Inv evs s' := by
  cases a with
  | recvStep =>
    simp only [step] at hs
    split at hs
    · cases hs
      intro hr
      exact mem_take_succ _ _ _ (hi hr)
    · cases hs
  | closeCall =>
    simp only [step] at hs
    split at hs
    · cases hs
    · cases hs
      exact hi
  | closeReturn =>
    simp only [step] at hs
    split at hs
    · rename_i hc
      cases hs
      intro _
      simp only [Bool.and_eq_true, List.contains_iff_mem] at hc
      exact hc.2
    · cases hs

theorem run_inv (evs : List Ev) : ∀ (acts : List Act) (s s' : St), Inv evs s → run evs s acts = some s' → Inv evs s'
  | [], s, s', hi, h => by simp only [run, Option.some.injEq] at h; subst h; exact hi
  | a :: as, s, s', hi, h => by
    simp only [run] at h
    split at h
    · rename_i s₁ hs
      exact run_inv evs as s₁ s' (step_inv evs s s₁ a hi hs) h
    · cases h

/-- if `broadcast` stands before `done` in the receiver's event list then, in every schedule, when Close has
returned the broadcast has been executed -/
theorem close_after_broadcast (evs : List Ev) (h : before .broadcast .done evs = true)
    (acts : List Act) (s : St) (hr : run evs St.init acts = some s) (hc : s.closeReturned = true) :
    Ev.broadcast ∈ executed evs s := by
  have hinv : Inv evs s := run_inv evs acts St.init s (by intro h; cases h) hr
  exact before_spec .broadcast .done evs h s.pc (hinv hc)

end Sftp.RecvLife
