import Sftp.Prim
/-
  Client-side arithmetic and loop shapes that no decoder table covers (C20 / C08 / C12 / C01):

  A. worker-count arithmetic: `c := size/maxPacket + 1; if c > max || c < 1 { c = max }; n := int(c)` feeding
     `make(chan …, n)`, pool sizes and `for i := 0; i < n; i++` (client.go readAt, WriteTo, writeAtConcurrent,
     ReadFrom → readFromWithConcurrency).  `workers` evaluates the extracted shape with Go's 64-bit wrap-around.
  B. the `err != nil` block of recvPacket after `n, err := io.ReadFull(r, b[:length]); b = b[:n]`:
     `execErr` runs the extracted statement list for a given `n` and panics on `b[k]` with `k ≥ n`.
  C. the refill loop of `(*File).readChunkAt`: `refill` runs the loop over a list of server reply sizes and records
     which file position ends up in which buffer slot.

  The tables these are instantiated with come from `extract/clientarith.go` (Sftp/Generated/ClientWorkers.lean, RecvErrPath.lean, ReadChunkLoop.lean).
-/
namespace Sftp.Arith

/-! ## A. worker-count arithmetic -/

/-- the three Go integer types that occur (linux/amd64: `int` is 64-bit) -/
inductive IntTy | u64 | i64 | int
  deriving DecidableEq, Repr

def IntTy.signed : IntTy → Bool
  | .u64 => false
  | _ => true

/-- Go conversion to a 64-bit integer type / result of 64-bit arithmetic: the value modulo 2^64, read in the
target type's range -/
def wrap (t : IntTy) (v : Int) : Int :=
  let m := v % 18446744073709551616
  if t.signed && decide (9223372036854775808 ≤ m) then m - 18446744073709551616 else m

inductive Cmp | lt | le | gt | ge
  deriving DecidableEq, Repr

/-- right-hand side of a guard comparison: `f.c.maxConcurrentRequests` (possibly converted) or a literal -/
inductive Operand | max | lit (n : Int)
  deriving DecidableEq, Repr

/-- one disjunct of the clamp condition `if c <cmp> <rhs> || … { c = max }` -/
structure Guard where
  cmp : Cmp
  rhs : Operand
  deriving DecidableEq, Repr

def Guard.holds (g : Guard) (c m : Int) : Bool :=
  let r := match g.rhs with
    | .max => m
    | .lit n => n
  match g.cmp with
  | .lt => decide (c < r)
  | .le => decide (c ≤ r)
  | .gt => decide (c > r)
  | .ge => decide (c ≥ r)

/-- one place where a worker count is computed (or received as a parameter) and used -/
structure WorkerSite where
  fn : String
  /-- where the size comes from: "wire" (`FileStat.Size` of a STAT/FSTAT reply), "len" (`len(b)`),
      "local" (a local variable, e.g. `remain`), "param" (the count itself is a parameter: no division) -/
  src : String
  srcTy : IntTy
  /-- conversions applied to the size before the division, innermost first -/
  convs : List IntTy
  /-- `size/maxPacket + 1` is computed (false: parameter site) -/
  divides : Bool
  /-- type of the division (and of the clamped variable) -/
  divTy : IntTy
  /-- disjuncts of the clamp `if … { c = max }` -/
  guards : List Guard
  /-- type of the value that reaches the sinks (after the final conversion) -/
  resultTy : IntTy
  /-- conditions on the size known at the division, size expression written `size`, `f.c.maxPacket` written `mp` -/
  pre : List String
  /-- direct uses of the count: `make(chan T, n)` (possibly inside an unexported helper, written `helper:make(…)`),
      `wg.Add(n)`, `for i := 0; i < n; i++` -/
  sinks : List String
  /-- functions the count is handed to as an argument (their own parameter site clamps it) -/
  forwards : List String
  deriving DecidableEq, Repr

def applyConvs (cs : List IntTy) (v : Int) : Int := cs.foldl (fun v t => wrap t v) v

/-- the count that reaches the sinks, for a size (a value of `srcTy`), `maxPacket` and `maxConcurrentRequests` -/
def workers (s : WorkerSite) (size mp max : Int) : Int :=
  let v := applyConvs s.convs size
  let q := if s.divides then wrap s.divTy (Int.tdiv v (wrap s.divTy mp) + 1) else v
  let m := wrap s.divTy max
  let c := if s.guards.any (fun g => g.holds q m) then m else q
  wrap s.resultTy c

def isHi (g : Guard) : Bool := g == ⟨.gt, .max⟩ || g == ⟨.ge, .max⟩
def isLo (g : Guard) : Bool := g == ⟨.lt, .lit 1⟩ || g == ⟨.le, .lit 0⟩
def WorkerSite.hasHi (s : WorkerSite) : Bool := s.guards.any isHi
def WorkerSite.hasLo (s : WorkerSite) : Bool := s.guards.any isLo
/-- only the two plain forms `c > max`, `c < 1` (needed for exactness, not for the range) -/
def WorkerSite.plainGuards (s : WorkerSite) : Bool :=
  s.guards.all (fun g => g == ⟨.gt, .max⟩ || g == ⟨.lt, .lit 1⟩)

/-- the size is never reinterpreted with another signedness on its way into the division -/
def WorkerSite.signSafe (s : WorkerSite) : Bool :=
  s.convs.all (fun t => t.signed == s.srcTy.signed) && (s.divTy.signed == s.srcTy.signed)

/-- legal values of the size: the type's range, non-negative (lengths; `remain < 0` is handled before) -/
def SrcRange (s : WorkerSite) (size : Int) : Prop :=
  0 ≤ size ∧ size < (if s.srcTy.signed then 9223372036854775808 else 18446744073709551616)

/-- the count at the sinks of the callee when `s` forwards its result to the parameter site `t` -/
def forwarded (s t : WorkerSite) (size mp max : Int) : Int := workers t (workers s size mp max) mp max

/-! ## B. recvPacket's error path -/

/-- one statement of the `if err != nil { … }` block, as far as indexing `b` (= `b[:n]`) is concerned -/
inductive EStmt
  /-- a statement that does not leave the block (debug, assignment, `if` without a recognised guard; an `if` that
      may return is listed here too, which is conservative); `idx`: constant indexes `b[k]` it evaluates -/
  | other (idx : List Nat)
  /-- `if n == 0 { …; return }` (`k = 1`), generally `if n < k { …; return }`; `idx`: indexes inside the branch -/
  | retIfShort (k : Nat) (idx : List Nat)
  /-- `return …` evaluating `b[k]` for `k ∈ idx` -/
  | ret (idx : List Nat)
  deriving DecidableEq, Repr

inductive EOut | fell | returned | panic
  deriving DecidableEq, Repr

/-- evaluating `b[k]` for all `k ∈ idx` with `len(b) = n` -/
def idxOK (n : Nat) (idx : List Nat) : Bool := idx.all (fun k => decide (k < n))

/-- run the block with `n` bytes read -/
def execErr (n : Nat) : List EStmt → EOut
  | [] => .fell
  | .other idx :: r => if idxOK n idx then execErr n r else .panic
  | .retIfShort k idx :: r =>
    if n < k then (if idxOK n idx then .returned else .panic) else execErr n r
  | .ret idx :: _ => if idxOK n idx then .returned else .panic

/-- the static check: every index is below the bound established by the guards before it -/
def guardedFrom (lo : Nat) : List EStmt → Bool
  | [] => true
  | .other idx :: r => idx.all (fun k => decide (k < lo)) && guardedFrom lo r
  | .retIfShort k idx :: r => idx.isEmpty && guardedFrom (Nat.max lo k) r
  | .ret idx :: _ => idx.all (fun k => decide (k < lo))

/-- the block always leaves the function (its last statement is a `return`) -/
def endsInReturn : List EStmt → Bool
  | [] => false
  | [.ret _] => true
  | _ :: r => endsInReturn r

/-! ## C. readChunkAt's refill loop -/

inductive OffAssign
  /-- `off` is not assigned in the loop -/
  | none
  /-- `off += int64(n)` after the accumulation (n is the running total) -/
  | addTotal
  /-- `off += <bytes of this reply>` -/
  | addReply
  deriving DecidableEq, Repr

structure RefillCfg where
  /-- request `Offset: uint64(off) + uint64(n)` (false: `uint64(off)`) -/
  offsetAddsN : Bool
  /-- request `Len: uint32(len(b) - n)` (false: `uint32(len(b))`) -/
  lenSubN : Bool
  /-- `n += copy(b[n:], data[:l])` (false: `n = copy(…)`) -/
  accumulates : Bool
  offAssign : OffAssign
  deriving DecidableEq, Repr

def RefillCfg.exact : RefillCfg := ⟨true, true, true, .none⟩

/-- The loop `for err == nil && n < len(b)`: `buf` lists which file position each slot of `b` holds (`none`: not
written).  The server answers the i-th READ with `min kᵢ requested` bytes starting at the requested offset; when the
list of replies is used up the next answer is a status (EOF or error) and the loop returns `n`. -/
def refill (cfg : RefillCfg) (len : Nat) : (off n : Nat) → (buf : List (Option Nat)) → List Nat → Nat × List (Option Nat)
  | _, n, buf, [] => (n, buf)
  | off, n, buf, k :: ks =>
    if n < len then
      let reqOff := if cfg.offsetAddsN then off + n else off
      let reqLen := if cfg.lenSubN then len - n else len
      let l := min k reqLen
      let c := min (len - n) l                                  -- copy(b[n:], data[:l])
      let data := (List.range' reqOff c).map some
      let buf' := buf.take n ++ data ++ buf.drop (n + c)
      let n' := if cfg.accumulates then n + c else c
      let off' := match cfg.offAssign with
        | .none => off
        | .addTotal => off + n'
        | .addReply => off + c
      refill cfg len off' n' buf' ks
    else (n, buf)

/-- the READ requests `(Offset, Len)` the loop puts on the wire: one per DATA reply consumed, and the one that is
answered with a status when the replies are used up -/
def refillReqs (cfg : RefillCfg) (len : Nat) : (off n : Nat) → List Nat → List (Nat × Nat)
  | off, n, [] =>
    if n < len then [(if cfg.offsetAddsN then off + n else off, if cfg.lenSubN then len - n else len)] else []
  | off, n, k :: ks =>
    if n < len then
      let reqOff := if cfg.offsetAddsN then off + n else off
      let reqLen := if cfg.lenSubN then len - n else len
      let c := min (len - n) (min k reqLen)
      let n' := if cfg.accumulates then n + c else c
      let off' := match cfg.offAssign with
        | .none => off
        | .addTotal => off + n'
        | .addReply => off + c
      (reqOff, reqLen) :: refillReqs cfg len off' n' ks
    else []

/-- `readChunkAt(ch, b, off)` with `len(b) = len` -/
def readChunk (cfg : RefillCfg) (len off : Nat) (ks : List Nat) : Nat × List (Option Nat) :=
  refill cfg len off 0 (List.replicate len none) ks

end Sftp.Arith
