import Sftp.Prim
/-
  M-Alloc (property C18): the server-side page allocator and the life cycle of the buffers it lends.

  Go source modelled
  * allocator.go      GetPage / ReleasePages / Free
  * packet.go         recvPacket (`b = alloc.GetPage(orderID)` for the frame of the request that WILL get
                      order id `getNextOrderID()`), sshFxpReadPacket.getDataSlice
                      (`alloc.GetPage(orderID)[:dataLen]`, the DATA response refers to that page)
  * packet-manager.go maybeSendPackets (`sender.sendPacket(out)` then `alloc.ReleasePages(in.orderID())`)
  * server.go / request-server.go   Serve's deferred `alloc.Free()`

  Pages are identified by natural numbers; their contents live in a heap `PageId → Bytes`.  What goes
  to the wire for a response that refers to a page is READ FROM THE HEAP AT SEND TIME, so re-lending a
  page too early is observable.

  The state has three parts
  * `Alloc`  the allocator tables (`available`, `used`, and `fresh` = next never-used page id);
             `used : List (Nat × PageId)` is the graph of Go's `map[uint32][][]byte` (pairs in append
             order: `used[oid]` is the sub-list of pairs with key `oid`);
  * `Ctl`    the allocator-INDEPENDENT control state: which requests have arrived / been answered /
             sent / released, together with the bytes each request carried (`gin`) and the bytes its
             handler produced (`gout`) and the wire as the handlers meant it (`ideal`).  Enabledness
             of every action is decided on `Ctl` alone (`cstep`), so the allocator can by construction
             not influence the schedule, only the bytes;
  * the concrete part: heap, which page each request occupies, each queued response (inline bytes or
             a reference into a page), and the wire actually produced.

  Scheduling facts taken as preconditions (proved elsewhere):
  * responses are sent in order-id order, each once (`send oid` needs `oid = nextSend`): property C02;
  * recvPacket is called by one goroutine: at most one frame page is pending;
  * a handler runs in one goroutine: take page, fill, answer happen in this order for one request, but
    arbitrarily interleaved with everything else;
  * GetPage is only called by recvPacket and by request handlers, all of which have returned when
    Serve's deferred Free runs (`wg.Wait()`), so after `free` only `send`/`release` remain enabled.
-/
namespace Sftp.Alloc
open Sftp

abbrev PageId := Nat

/-- Facts of the Go source that a mutation could change. -/
structure Cfg where
  /-- maybeSendPackets: `ReleasePages` comes after `sendPacket` of the same order id. -/
  releaseAfterSend : Bool
  /-- GetPage: `a.used[id] = append(a.used[id], result)`. -/
  getPageMarksUsed : Bool
  /-- GetPage: `a.available = a.available[:truncLength]`. -/
  popRemovesFromAvailable : Bool
  /-- ReleasePages: `delete(a.used, id)`. -/
  releaseDeletesKey : Bool
  /-- `true`: server built WithAllocator (pages are recycled); `false`: every buffer is a fresh `make`. -/
  reuse : Bool
  /-- `maxMsgLength`: size of a page. -/
  pageSize : Nat
  /-- the server's `maxTxPacket` (getDataSlice clamps the READ length to it). -/
  maxTx : Nat
  deriving Repr, DecidableEq

/-- The code as it is today (default `maxTxPacket`). -/
def Cfg.current : Cfg :=
  { releaseAfterSend := true, getPageMarksUsed := true, popRemovesFromAvailable := true,
    releaseDeletesKey := true, reuse := true, pageSize := 262144, maxTx := 32768 }

/-- The same server without the allocator. -/
def Cfg.noAlloc (c : Cfg) : Cfg := { c with reuse := false }

/-! ### the allocator -/

structure Alloc where
  available : List PageId
  used : List (Nat × PageId)
  fresh : Nat
  deriving Repr, DecidableEq

def Alloc.empty : Alloc := { available := [], used := [], fresh := 0 }

def Alloc.mark (cfg : Cfg) (a : Alloc) (oid : Nat) (p : PageId) : List (Nat × PageId) :=
  if cfg.getPageMarksUsed then a.used ++ [(oid, p)] else a.used

/-- `GetPage(oid)`: the last available page, else a new one. -/
def getPage (cfg : Cfg) (a : Alloc) (oid : Nat) : PageId × Alloc :=
  match (if cfg.reuse then a.available.getLast? else none) with
  | some p =>
    (p, { a with available := if cfg.popRemovesFromAvailable then a.available.dropLast else a.available,
                 used := a.mark cfg oid p })
  | none => (a.fresh, { a with fresh := a.fresh + 1, used := a.mark cfg oid a.fresh })

/-- `used[oid]`. -/
def Alloc.pagesOf (a : Alloc) (oid : Nat) : List PageId :=
  (a.used.filter (fun e => e.1 == oid)).map (·.2)

/-- `ReleasePages(oid)`. -/
def releasePages (cfg : Cfg) (a : Alloc) (oid : Nat) : Alloc :=
  { a with available := a.available ++ a.pagesOf oid,
           used := if cfg.releaseDeletesKey then a.used.filter (fun e => !(e.1 == oid)) else a.used }

/-- `Free()`. -/
def freeAll (a : Alloc) : Alloc := { a with available := [], used := [] }

/-! ### requests -/

inductive Resp where
  | inline (b : Bytes)
  | ref (p : PageId) (len : Nat)
  deriving Repr, DecidableEq

def resolve (heap : PageId → Bytes) : Resp → Bytes
  | .inline b => b
  | .ref p n => (heap p).take n

inductive Action where
  /-- recvPacket starts: `GetPage(getNextOrderID())` for the frame that has not arrived yet. -/
  | lend
  /-- the frame arrives in the lent page; the request gets the order id. -/
  | arrive (payload : Bytes)
  /-- a READ handler calls getDataSlice: a second page under the same order id, sliced to `len`
      (`len` = requested length clamped to maxTxPacket).  The page still has whatever it held before. -/
  | handlerTake (oid : Nat) (len : Nat)
  /-- the READ handler's `ReadAt` stores file data in that page (any number of times). -/
  | handlerFill (oid : Nat) (data : Bytes)
  /-- the READ handler answers with a DATA packet that REFERS to the first `n` bytes of the page
      (`n` = what ReadAt reported, at most what it stored). -/
  | handlerData (oid : Nat) (n : Nat)
  /-- any handler whose response owns its bytes (also the error path of a READ that took a page). -/
  | handlerOther (oid : Nat) (bytes : Bytes)
  /-- a handler whose response is computed from the request bytes as they are in the frame page now. -/
  | handlerEcho (oid : Nat)
  | send (oid : Nat)
  | release (oid : Nat)
  | free
  deriving Repr, DecidableEq

/-- Allocator-independent control state. -/
structure Ctl where
  nextOid : Nat
  nextSend : Nat
  pending : Bool
  gin : Nat → Bytes
  gout : Nat → Option Bytes
  released : Nat → Bool
  /-- the handler of this request has taken a data page. -/
  taken : Nat → Bool
  /-- what the handler last stored in its data page. -/
  gdata : Nat → Bytes
  ideal : List Bytes
  freed : Bool

def Ctl.init : Ctl :=
  { nextOid := 0, nextSend := 0, pending := false, gin := fun _ => [], gout := fun _ => none,
    released := fun _ => false, taken := fun _ => false, gdata := fun _ => [], ideal := [],
    freed := false }

def upd {α} (f : Nat → α) (k : Nat) (v : α) : Nat → α := fun i => if i = k then v else f i

@[simp] theorem upd_same {α} (f : Nat → α) (k : Nat) (v : α) : upd f k v k = v := by simp [upd]
theorem upd_other {α} (f : Nat → α) (k : Nat) (v : α) (i : Nat) (h : i ≠ k) : upd f k v i = f i := by
  simp [upd, h]

/-- Control transition: enabledness and the intended bytes.  Depends on `cfg` only through
`releaseAfterSend` and `maxTx`. -/
def cstep (cfg : Cfg) (g : Ctl) : Action → Option Ctl
  | .lend => if g.freed = false ∧ g.pending = false then some { g with pending := true } else none
  | .arrive b =>
    if g.freed = false ∧ g.pending = true then
      some { g with pending := false, gin := upd g.gin g.nextOid b, nextOid := g.nextOid + 1 }
    else none
  | .handlerTake oid len =>
    if g.freed = false ∧ oid < g.nextOid ∧ g.gout oid = none ∧ g.taken oid = false ∧ len ≤ cfg.maxTx then
      some { g with taken := upd g.taken oid true, gdata := upd g.gdata oid [] }
    else none
  | .handlerFill oid data =>
    if g.freed = false ∧ oid < g.nextOid ∧ g.gout oid = none ∧ g.taken oid = true then
      some { g with gdata := upd g.gdata oid data }
    else none
  | .handlerData oid n =>
    if g.freed = false ∧ oid < g.nextOid ∧ g.gout oid = none ∧ g.taken oid = true ∧
        n ≤ (g.gdata oid).length then
      some { g with gout := upd g.gout oid (some ((g.gdata oid).take n)) }
    else none
  | .handlerOther oid b =>
    if g.freed = false ∧ oid < g.nextOid ∧ g.gout oid = none then
      some { g with gout := upd g.gout oid (some b) }
    else none
  | .handlerEcho oid =>
    if g.freed = false ∧ oid < g.nextOid ∧ g.gout oid = none then
      some { g with gout := upd g.gout oid (some (g.gin oid)) }
    else none
  | .send oid =>
    if oid = g.nextSend ∧ oid < g.nextOid then
      match g.gout oid with
      | some b => some { g with ideal := g.ideal ++ [b], nextSend := g.nextSend + 1 }
      | none => none
    else none
  | .release oid =>
    if oid < g.nextOid ∧ g.released oid = false ∧
        (if cfg.releaseAfterSend then oid < g.nextSend else (g.gout oid).isSome = true) then
      some { g with released := upd g.released oid true }
    else none
  | .free => some { g with freed := true }

structure State where
  a : Alloc
  heap : PageId → Bytes
  /-- the page lent to recvPacket for the next frame (meaningful when `g.pending`). -/
  pendPage : PageId
  /-- order id ↦ page holding the request frame. -/
  page : Nat → PageId
  /-- order id ↦ data page taken by its READ handler (meaningful when `g.taken`). -/
  dpage : Nat → PageId
  /-- order id ↦ queued response. -/
  resp : Nat → Option Resp
  wire : List Bytes
  /-- a worker hit `GetPage(..)[:dataLen]` with `dataLen > len(page)`. -/
  panicked : Bool
  g : Ctl

def State.init : State :=
  { a := Alloc.empty, heap := fun _ => [], pendPage := 0, page := fun _ => 0, dpage := fun _ => 0,
    resp := fun _ => none,
    wire := [], panicked := false, g := Ctl.init }

/-- Concrete effect of an enabled action (`g'` is the new control state). -/
def apply (cfg : Cfg) (s : State) (g' : Ctl) : Action → State
  | .lend =>
    let r := getPage cfg s.a s.g.nextOid
    { s with a := r.2, pendPage := r.1, g := g' }
  | .arrive b =>
    { s with heap := upd s.heap s.pendPage b, page := upd s.page s.g.nextOid s.pendPage, g := g' }
  | .handlerTake oid len =>
    let r := getPage cfg s.a oid
    { s with a := r.2, dpage := upd s.dpage oid r.1,
             panicked := s.panicked || (cfg.reuse && decide (cfg.pageSize < len)), g := g' }
  | .handlerFill oid data => { s with heap := upd s.heap (s.dpage oid) data, g := g' }
  | .handlerData oid n => { s with resp := upd s.resp oid (some (.ref (s.dpage oid) n)), g := g' }
  | .handlerOther oid b => { s with resp := upd s.resp oid (some (.inline b)), g := g' }
  | .handlerEcho oid => { s with resp := upd s.resp oid (some (.inline (s.heap (s.page oid)))), g := g' }
  | .send oid =>
    { s with wire := s.wire ++ [match s.resp oid with | some r => resolve s.heap r | none => []], g := g' }
  | .release oid => { s with a := releasePages cfg s.a oid, g := g' }
  | .free => { s with a := freeAll s.a, g := g' }

def step (cfg : Cfg) (s : State) (act : Action) : Option State :=
  match cstep cfg s.g act with
  | some g' => some (apply cfg s g' act)
  | none => none

def run (cfg : Cfg) : State → List Action → Option State
  | s, [] => some s
  | s, a :: as =>
    match step cfg s a with
    | some s' => run cfg s' as
    | none => none

/-- Number of pages marked in use (`countUsedPages`). -/
def State.usedCount (s : State) : Nat := s.a.used.length
def State.availCount (s : State) : Nat := s.a.available.length

end Sftp.Alloc
