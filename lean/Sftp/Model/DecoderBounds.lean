import Sftp.Prim
/-
  M-DecoderBounds: the data field of SSH_FXP_WRITE / SSH_FXP_DATA as packet.go decodes it
  (`(*sshFxpWritePacket).UnmarshalBinary`, `(*sshFxpDataPacket).UnmarshalBinary`).

  When the decoder reaches the data, `b` is what is left of the frame (`rest`, `len(b) = rest.length`).  Behind it the
  backing array goes on: without the allocator `recvPacket` made the buffer with `make([]byte, length)` and there is
  nothing behind the frame (`tail = []`, `cap(b) = len(b)`); with the allocator the buffer is a page of the pool and
  `tail` is whatever earlier requests left there (`cap(b) = rest.length + tail.length`).

  Go semantics that matter: `b[:n]` and `b[:n:n]` are legal up to `cap(b)` (NOT `len(b)`) and panic beyond it.
  The comparison made before slicing and the slice expression are PARAMETERS (`Guard`, `Sel`), parsed from the text
  the translator unit DecoderBounds reads off the source.
-/
namespace Sftp.DecB
open Sftp

/-- what `p.Length` is compared with before the data are sliced (the arm returns errShortPacket) -/
inductive Guard where
  | len    -- `uint32(len(b)) < p.Length`
  | cap    -- `uint32(cap(b)) < p.Length`   (seed C18_g)
  | none   -- no comparison
  deriving DecidableEq, Repr

/-- the expression stored into `p.Data` -/
inductive Sel where
  | upTo    -- `b[:p.Length]`
  | upTo3   -- `b[:p.Length:p.Length]`      (seed C18_g)
  | rest    -- `b`                          (seed C07_h)
  | rest3   -- `b[:len(b):len(b)]`          (seed C06_e)
  deriving DecidableEq, Repr

def parseGuard (s : String) : Option Guard :=
  if s = "uint32(len(b)) < p.Length" then some .len
  else if s = "uint32(cap(b)) < p.Length" then some .cap
  else if s = "UNGUARDED" then some .none
  else Option.none

def parseSel (s : String) : Option Sel :=
  if s = "b[:p.Length]" then some .upTo
  else if s = "b[:p.Length:p.Length]" then some .upTo3
  else if s = "b" then some .rest
  else if s = "b[:len(b):len(b)]" then some .rest3
  else Option.none

/-- the decoder's last step: `rest` = the bytes of the frame behind the length field, `tail` = the bytes of the backing
array behind the frame, `n` = the value of the length field.  Result: the bytes that become `p.Data`. -/
def decodeData (g : Guard) (s : Sel) (rest tail : Bytes) (n : Nat) : Outcome Bytes :=
  let short : Bool := match g with
    | .len => decide (rest.length < n)
    | .cap => decide (rest.length + tail.length < n)
    | .none => false
  if short then .err "errShortPacket" else
  match s with
  | .upTo | .upTo3 => if n ≤ rest.length + tail.length then .ok ((rest ++ tail).take n) else .panic
  | .rest | .rest3 => .ok rest

/-- the draft: `string data` = a uint32 length followed by exactly that many bytes OF THE FRAME -/
def specData (rest : Bytes) (n : Nat) : Outcome Bytes :=
  if rest.length < n then .err "errShortPacket" else .ok (rest.take n)

/-- bound by `len`, sliced up to the length field: the draft's reading, whatever lies behind the frame -/
theorem len_upTo_is_spec (rest tail : Bytes) (n : Nat) :
    decodeData .len .upTo rest tail n = specData rest n := by
  unfold decodeData specData
  by_cases h : rest.length < n
  · simp [h]
  · have h' : n ≤ rest.length := Nat.le_of_not_lt h
    have h2 : n ≤ rest.length + tail.length := Nat.le_trans h' (Nat.le_add_right _ _)
    simp [h, h2, List.take_append_of_le_length h']

/-- consequence: the page behind the frame is invisible and the decoder never panics -/
theorem len_upTo_ignores_tail (rest tail : Bytes) (n : Nat) :
    decodeData .len .upTo rest tail n = decodeData .len .upTo rest [] n ∧
    decodeData .len .upTo rest tail n ≠ .panic := by
  rw [len_upTo_is_spec, len_upTo_is_spec]
  refine ⟨rfl, ?_⟩
  unfold specData
  split <;> simp

/-- what the accepted data are -/
theorem spec_ok (rest : Bytes) (n : Nat) (d : Bytes) (h : specData rest n = .ok d) :
    d = rest.take n ∧ d.length = n ∧ n ≤ rest.length := by
  unfold specData at h
  by_cases hlt : rest.length < n
  · simp [hlt] at h
  · have h' : n ≤ rest.length := Nat.le_of_not_lt hlt
    simp [hlt] at h
    subst h
    exact ⟨rfl, by simp [List.length_take, Nat.min_eq_left h'], h'⟩

end Sftp.DecB
