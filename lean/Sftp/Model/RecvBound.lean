/-
  M-RecvBound: the body read of packet.go `recvPacket` against the buffer it reads into.

  After the 4-byte length prefix, `recvPacket` refuses `length > bound` (errLongPacket) and `length = 0`
  (errShortPacket) and then evaluates `b[:length]` — a slice expression that panics when `length` exceeds the CAPACITY
  of `b`.  Without the allocator `b = make([]byte, length)`; with it `b` is a page of `allocator.GetPage`, whose
  capacity is what `make([]byte, pageSize)` gave it.  `bound` and `pageSize` are read off the source by translator unit
  RecvBound (/verif/extract/round6.go).
-/
namespace Sftp.RecvBound

inductive Res where
  | tooLong   -- errLongPacket
  | tooShort  -- errShortPacket
  | read      -- io.ReadFull(r, b[:length]) is reached with a valid slice
  | panic     -- slice bounds out of range [:length] with capacity cap(b)
  deriving DecidableEq, Repr

/-- capacity of the buffer the body is read into: a page (allocator on) or `make([]byte, length)` (allocator off) -/
def capOf (page : Option Nat) (length : Nat) : Nat :=
  match page with
  | some p => p
  | none => length

/-- recvPacket from the length prefix to the body read -/
def recv (bound : Nat) (page : Option Nat) (length : Nat) : Res :=
  if length > bound then .tooLong
  else if length = 0 then .tooShort
  else if length ≤ capOf page length then .read
  else .panic

/-- is a frame of this length accepted by the two checks? -/
def accepted (bound length : Nat) : Bool := decide (length ≤ bound) && decide (length ≠ 0)

theorem accepted_within_page (bound pageSize : Nat) (h : bound ≤ pageSize) (length : Nat)
    (ha : accepted bound length = true) : length ≤ pageSize := by
  simp [accepted] at ha
  omega

/-- bound ≤ page size: the allocator is invisible at this point — same verdict with and without it, never a panic -/
theorem recv_same (bound pageSize : Nat) (h : bound ≤ pageSize) (length : Nat) :
    recv bound (some pageSize) length = recv bound none length ∧ recv bound (some pageSize) length ≠ .panic := by
  unfold recv capOf
  by_cases h1 : length > bound
  · simp [h1]
  · by_cases h2 : length = 0
    · simp [h2]
    · have h3 : length ≤ pageSize := by omega
      simp [h1, h2, h3]

/-- bound > page size: a frame one byte longer than a page is accepted and panics with the allocator, is read without -/
theorem recv_differs (bound pageSize : Nat) (h : pageSize < bound) :
    accepted bound (pageSize + 1) = true ∧ recv bound (some pageSize) (pageSize + 1) = .panic ∧
    recv bound none (pageSize + 1) = .read := by
  unfold recv capOf accepted
  have h1 : ¬ (pageSize + 1 > bound) := by omega
  simp [h1]
  omega

end Sftp.RecvBound
