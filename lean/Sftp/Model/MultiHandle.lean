import Sftp.Prim
/-
  M-MultiHandle: SEVERAL handles on the files of a served file system (property C01; offsets: C12).

  Two executable models over ONE op alphabet (`Op`) and one output alphabet (`Out`):

  (S) `stepS` — the SPEC: POSIX-like files.  Names designate inodes (`names : name ↦ ino`), the bytes live in the
      inode (`inodes : ino ↦ bytes`), a handle holds an inode, an offset and its access mode.  Everything that refers
      to an inode — any number of handles opened in any mode, any number of names (hard links) — sees the one byte
      array.  A name that is removed or renamed away leaves the inode alive for the handles that hold it; a name that
      is created again designates a NEW inode.  A write beyond the end fills the gap with zeros; an empty write
      changes nothing.

  (I) `stepI` — shaped like the CODE: the request server (`request-server.go`, `request.go`) over the package's own
      example backend `InMemHandler` (`request-example.go`), driven through a client `File` (`client.go`: the offset
      lives in the File).
        root.files            `files : name ↦ address of a *memFile`
        *memFile (content)    `objs : address ↦ bytes`
        Request of a handle   `IHandle`: the object the handler returned at OPEN (`obj`), the Filepath of the OPEN
                              (`path`), the Request.Method the OPEN left behind (`kind`: Get / Put / Open)
      and, function by function:
        (*Request).open       which handler serves the OPEN: `Write|Append|Creat|Trunc` → with Read: OpenFile
                              (Method "Open", serves READ and WRITE), without Read: Filewrite (refuses pflags without
                              Write; Method "Put"); else Read → Fileread (Method "Get"); else "bad file flags"
        (*root).openfile      lookup; missing → ErrNotExist unless Creat, then a new object is stored under the name;
                              found → Creat&Excl: ErrExist; Trunc: `file.Truncate(0)` IN PLACE and the same object is
                              returned  (`replaceOnTrunc = true`: seed C01_l — a new object is stored under the name)
        servesPacket          READ needs Method Get/Open, WRITE needs Put/Open
        FSTAT / FSETSTAT      packetWorker builds a NEW Request from the handle's *Filepath*: Stat and Setstat are
                              answered BY NAME (`Filelist "Stat"` → fetch(path); `Filecmd "Setstat"` →
                              openfile(path, Write).Truncate(size)), not by the object the handle holds
        memFile.ReadAt        off ≥ size → (0, EOF) — also for an empty buffer
        memFile.WriteAt       grow = len + off - size; grow > 0 → zeros appended — also for an empty write
        memFile.Truncate      re-slice or grow
        (*root).link          putfile(new, SAME *memFile): ErrExist when new exists; both names hold one object
        (*root).rename        target == file → nothing; else files[new] = file, delete(files, old)   (PosixRename)
        Filecmd "Rename"      exists(new) → ErrExist first (SFTP v3), then rename
        (*root).unlink        delete(files, name); the object lives on in the handles that hold it

  Where (I) differs from (S) is listed at `inScope` (and in Props/C01Multi.lean); nothing is repaired here.

  O_APPEND is not part of the alphabet: both servers write at the offset the client sends, the File offset of the client
  does not look at the flag.  Directories and symbolic links are not modelled (flat name space).
-/
namespace Sftp.MultiHandle
open Sftp

/-! ### alphabet -/

/-- names of the served (flat) file system: 0 = `f`, 1 = `g`, … -/
abbrev Name := Nat

structure Flags where
  rd : Bool := false
  wr : Bool := false
  creat : Bool := false
  trunc : Bool := false
  excl : Bool := false
  deriving DecidableEq, Repr

inductive Whence where
  | start | cur | fromEnd
  deriving DecidableEq, Repr

inductive Op where
  | open (n : Name) (fl : Flags)
  | writeAt (h : Nat) (off : Nat) (d : Bytes)
  | write (h : Nat) (d : Bytes)
  | readAt (h : Nat) (off len : Nat)
  | read (h : Nat) (len : Nat)
  | seek (h : Nat) (wh : Whence) (off : Int)
  | truncate (h : Nat) (n : Nat)
  | fstat (h : Nat)
  | close (h : Nat)
  | link (old new : Name)
  /-- SSH_FXP_RENAME (SFTP v3: an error when `new` exists) -/
  | rename (old new : Name)
  /-- posix-rename@openssh.com -/
  | posixRename (old new : Name)
  | remove (n : Name)
  /-- observation: what the name holds (a fresh read of the whole file by name); changes nothing -/
  | cat (n : Name)
  deriving DecidableEq, Repr

inductive Err where
  | notExist   -- the name designates nothing
  | exist      -- the name is taken
  | invalid    -- flags that open nothing
  | closed     -- no such open handle
  | access     -- the handle's mode does not allow the call
  | negative   -- Seek to a negative position
  deriving DecidableEq, Repr

inductive Out where
  /-- OPEN: the new handle -/
  | opened (h : Nat)
  /-- write, writeAt: count, File offset afterwards -/
  | wrote (n off : Nat)
  /-- read, readAt: bytes, "fewer than asked for: end of file", File offset afterwards -/
  | bytes (b : Bytes) (eof : Bool) (off : Nat)
  /-- seek: the new File offset -/
  | pos (off : Nat)
  /-- fstat: size, File offset afterwards -/
  | size (n off : Nat)
  /-- truncate: File offset afterwards -/
  | truncated (off : Nat)
  /-- close, link, rename, remove -/
  | ok
  /-- cat -/
  | content (b : Bytes)
  | err (e : Err)
  deriving DecidableEq, Repr

/-! ### shared primitives -/

abbrev Tab := List (Name × Nat)

def find : Tab → Name → Option Nat
  | [], _ => none
  | (k, v) :: r, n => if k = n then some v else find r n

def erase : Tab → Name → Tab
  | [], _ => []
  | (k, v) :: r, n => if k = n then erase r n else (k, v) :: erase r n

/-- `m[n] = v` of a Go map -/
def bind (t : Tab) (n : Name) (v : Nat) : Tab := (n, v) :: erase t n

def upd {β : Type} (f : Nat → β) (k : Nat) (v : β) : Nat → β := fun i => if i = k then v else f i

@[simp] theorem upd_same {β : Type} (f : Nat → β) (k : Nat) (v : β) : upd f k v k = v := by simp [upd]
theorem upd_other {β : Type} (f : Nat → β) (k i : Nat) (v : β) (h : i ≠ k) : upd f k v i = f i := by simp [upd, h]

def zeros (n : Nat) : Bytes := List.replicate n 0

/-- Seek arithmetic of `File.Seek` / `os.File.Seek`: the target, `none` when negative -/
def seekTarget (cur size : Nat) (wh : Whence) (off : Int) : Option Nat :=
  let t : Int := match wh with
    | .start => off
    | .cur => off + cur
    | .fromEnd => off + size
  if t < 0 then none else some t.toNat

/-! ### (S) the specification -/

/-- pread(2): the bytes of `c` from `off`, at most `len` -/
def pread (c : Bytes) (off len : Nat) : Bytes := (c.drop off).take len

/-- pwrite(2): an empty write changes nothing; a gap is filled with zeros -/
def pwrite (c : Bytes) (off : Nat) (d : Bytes) : Bytes :=
  if d.isEmpty then c else
  let p := c ++ zeros (off - c.length)
  p.take off ++ d ++ p.drop (off + d.length)

/-- ftruncate(2) -/
def ptrunc (c : Bytes) (n : Nat) : Bytes := c.take n ++ zeros (n - c.length)

structure SHandle where
  ino : Nat
  off : Nat
  rd : Bool
  wr : Bool
  deriving DecidableEq, Repr

structure SState where
  names : Tab
  inodes : Nat → Bytes
  nextIno : Nat
  /-- the open handles (a closed handle is gone; handle numbers are not used again) -/
  handles : Nat → Option SHandle
  nextHid : Nat

def SState.init : SState := ⟨[], fun _ => [], 0, fun _ => none, 0⟩

def sOpen (s : SState) (n : Name) (fl : Flags) : SState × Out :=
  if !fl.rd && !fl.wr then (s, .err .invalid) else
  match find s.names n with
  | none =>
    if !fl.creat then (s, .err .notExist) else
    ({ names := bind s.names n s.nextIno, inodes := upd s.inodes s.nextIno [], nextIno := s.nextIno + 1,
       handles := upd s.handles s.nextHid (some ⟨s.nextIno, 0, fl.rd, fl.wr⟩), nextHid := s.nextHid + 1 },
     .opened s.nextHid)
  | some ino =>
    if fl.creat && fl.excl then (s, .err .exist) else
    ({ s with inodes := if fl.trunc then upd s.inodes ino [] else s.inodes,
              handles := upd s.handles s.nextHid (some ⟨ino, 0, fl.rd, fl.wr⟩), nextHid := s.nextHid + 1 },
     .opened s.nextHid)

def stepS (s : SState) : Op → SState × Out
  | .open n fl => sOpen s n fl
  | .writeAt h off d =>
    match s.handles h with
    | none => (s, .err .closed)
    | some x =>
      if !x.wr then (s, .err .access) else
      ({ s with inodes := upd s.inodes x.ino (pwrite (s.inodes x.ino) off d) }, .wrote d.length x.off)
  | .write h d =>
    match s.handles h with
    | none => (s, .err .closed)
    | some x =>
      if !x.wr then (s, .err .access) else
      ({ s with inodes := upd s.inodes x.ino (pwrite (s.inodes x.ino) x.off d),
                handles := upd s.handles h (some { x with off := x.off + d.length }) },
       .wrote d.length (x.off + d.length))
  | .readAt h off len =>
    match s.handles h with
    | none => (s, .err .closed)
    | some x =>
      if !x.rd then (s, .err .access) else
      let b := pread (s.inodes x.ino) off len
      (s, .bytes b (decide (b.length < len)) x.off)
  | .read h len =>
    match s.handles h with
    | none => (s, .err .closed)
    | some x =>
      if !x.rd then (s, .err .access) else
      let b := pread (s.inodes x.ino) x.off len
      ({ s with handles := upd s.handles h (some { x with off := x.off + b.length }) },
       .bytes b (decide (b.length < len)) (x.off + b.length))
  | .seek h wh off =>
    match s.handles h with
    | none => (s, .err .closed)
    | some x =>
      match seekTarget x.off (s.inodes x.ino).length wh off with
      | none => (s, .err .negative)
      | some t => ({ s with handles := upd s.handles h (some { x with off := t }) }, .pos t)
  | .truncate h n =>
    match s.handles h with
    | none => (s, .err .closed)
    | some x =>
      if !x.wr then (s, .err .access) else
      ({ s with inodes := upd s.inodes x.ino (ptrunc (s.inodes x.ino) n) }, .truncated x.off)
  | .fstat h =>
    match s.handles h with
    | none => (s, .err .closed)
    | some x => (s, .size (s.inodes x.ino).length x.off)
  | .close h =>
    match s.handles h with
    | none => (s, .err .closed)
    | some _ => ({ s with handles := upd s.handles h none }, .ok)
  | .link old new =>
    match find s.names old with
    | none => (s, .err .notExist)
    | some ino =>
      match find s.names new with
      | some _ => (s, .err .exist)
      | none => ({ s with names := bind s.names new ino }, .ok)
  | .rename old new =>
    match find s.names new with
    | some _ => (s, .err .exist)
    | none =>
      match find s.names old with
      | none => (s, .err .notExist)
      | some ino => ({ s with names := erase (bind s.names new ino) old }, .ok)
  | .posixRename old new =>
    match find s.names old with
    | none => (s, .err .notExist)
    | some ino =>
      -- rename(2): two names of one file → nothing happens
      if find s.names new = some ino then (s, .ok)
      else ({ s with names := erase (bind s.names new ino) old }, .ok)
  | .remove n =>
    match find s.names n with
    | none => (s, .err .notExist)
    | some _ => ({ s with names := erase s.names n }, .ok)
  | .cat n =>
    match find s.names n with
    | none => (s, .err .notExist)
    | some ino => (s, .content (s.inodes ino))

def runS (s : SState) : List Op → List Out
  | [] => []
  | op :: r => (stepS s op).2 :: runS (stepS s op).1 r

def finalS (s : SState) : List Op → SState
  | [] => s
  | op :: r => finalS (stepS s op).1 r

/-! ### (I) the implementation-shaped model -/

/-- Request.Method of the Request an OPEN leaves in the handle table -/
inductive Kind where
  | get | put | openRW
  deriving DecidableEq, Repr

/-- `servesPacket`: READ through Get/Open -/
def Kind.reads : Kind → Bool
  | .get => true | .put => false | .openRW => true
/-- `servesPacket`: WRITE through Put/Open -/
def Kind.writes : Kind → Bool
  | .get => false | .put => true | .openRW => true

structure IHandle where
  /-- the *memFile the handler returned at OPEN -/
  obj : Nat
  /-- Request.Filepath of the OPEN -/
  path : Name
  /-- File.offset of the client's File -/
  off : Nat
  kind : Kind
  deriving DecidableEq, Repr

structure IState where
  files : Tab
  objs : Nat → Bytes
  nextObj : Nat
  handles : Nat → Option IHandle
  nextHid : Nat

def IState.init : IState := ⟨[], fun _ => [], 0, fun _ => none, 0⟩

/-- memFile.ReadAt: `off >= size → (0, EOF)`; `n < len(b) → (n, EOF)` -/
def memReadAt (c : Bytes) (off len : Nat) : Bytes × Bool :=
  if off ≥ c.length then ([], true) else
  let b := (c.drop off).take len
  (b, decide (b.length < len))

/-- memFile.WriteAt: `grow := len(b) + off - size; if grow > 0 { append zeros }; copy(content[off:], b)` -/
def memWriteAt (c : Bytes) (off : Nat) (d : Bytes) : Bytes :=
  let c1 := c ++ zeros (d.length + off - c.length)
  c1.take off ++ d ++ c1.drop (off + d.length)

/-- memFile.Truncate: `grow := size - len; grow <= 0 → content[:size]; else append zeros` -/
def memTruncate (c : Bytes) (n : Nat) : Bytes :=
  if n ≤ c.length then c.take n else c ++ zeros (n - c.length)

/-- (*root).openfile, then the handle is entered under the Method `k` -/
def iOpenfile (replaceOnTrunc : Bool) (s : IState) (n : Name) (fl : Flags) (k : Kind) : IState × Out :=
  match find s.files n with
  | none =>
    if !fl.creat then (s, .err .notExist) else
    ({ files := bind s.files n s.nextObj, objs := upd s.objs s.nextObj [], nextObj := s.nextObj + 1,
       handles := upd s.handles s.nextHid (some ⟨s.nextObj, n, 0, k⟩), nextHid := s.nextHid + 1 },
     .opened s.nextHid)
  | some o =>
    if fl.creat && fl.excl then (s, .err .exist) else
    if fl.trunc then
      if replaceOnTrunc then
        -- seed C01_l: `file = &memFile{…}; fs.files[name] = file`
        ({ files := bind s.files n s.nextObj, objs := upd s.objs s.nextObj [], nextObj := s.nextObj + 1,
           handles := upd s.handles s.nextHid (some ⟨s.nextObj, n, 0, k⟩), nextHid := s.nextHid + 1 },
         .opened s.nextHid)
      else
        ({ s with objs := upd s.objs o (memTruncate (s.objs o) 0),
                  handles := upd s.handles s.nextHid (some ⟨o, n, 0, k⟩), nextHid := s.nextHid + 1 },
         .opened s.nextHid)
    else
      ({ s with handles := upd s.handles s.nextHid (some ⟨o, n, 0, k⟩), nextHid := s.nextHid + 1 },
       .opened s.nextHid)

/-- (*Request).open: which handler serves the OPEN -/
def iOpen (replaceOnTrunc : Bool) (s : IState) (n : Name) (fl : Flags) : IState × Out :=
  if fl.wr || fl.creat || fl.trunc then
    if fl.rd then iOpenfile replaceOnTrunc s n fl .openRW          -- OpenFileWriter.OpenFile
    else if !fl.wr then (s, .err .invalid)                          -- Filewrite: `!flags.Write → os.ErrInvalid`
    else iOpenfile replaceOnTrunc s n fl .put                       -- Filewrite
  else if fl.rd then iOpenfile replaceOnTrunc s n fl .get           -- Fileread
  else (s, .err .invalid)                                           -- "bad file flags"

/-- FSTAT of a handle: `Filelist "Stat"` on the handle's Filepath -/
def iStatByPath (s : IState) (x : IHandle) : Option Nat :=
  (find s.files x.path).map (fun o => (s.objs o).length)

def stepI (replaceOnTrunc : Bool) (s : IState) : Op → IState × Out
  | .open n fl => iOpen replaceOnTrunc s n fl
  | .writeAt h off d =>
    match s.handles h with
    | none => (s, .err .closed)
    | some x =>
      if !x.kind.writes then (s, .err .access) else
      ({ s with objs := upd s.objs x.obj (memWriteAt (s.objs x.obj) off d) }, .wrote d.length x.off)
  | .write h d =>
    match s.handles h with
    | none => (s, .err .closed)
    | some x =>
      if !x.kind.writes then (s, .err .access) else
      ({ s with objs := upd s.objs x.obj (memWriteAt (s.objs x.obj) x.off d),
                handles := upd s.handles h (some { x with off := x.off + d.length }) },
       .wrote d.length (x.off + d.length))
  | .readAt h off len =>
    match s.handles h with
    | none => (s, .err .closed)
    | some x =>
      if !x.kind.reads then (s, .err .access) else
      let r := memReadAt (s.objs x.obj) off len
      (s, .bytes r.1 r.2 x.off)
  | .read h len =>
    match s.handles h with
    | none => (s, .err .closed)
    | some x =>
      if !x.kind.reads then (s, .err .access) else
      let r := memReadAt (s.objs x.obj) x.off len
      ({ s with handles := upd s.handles h (some { x with off := x.off + r.1.length }) },
       .bytes r.1 r.2 (x.off + r.1.length))
  | .seek h wh off =>
    match s.handles h with
    | none => (s, .err .closed)
    | some x =>
      match wh with
      | .fromEnd =>
        -- File.Seek: `fi, err := f.stat()` — FSTAT, answered by name
        match iStatByPath s x with
        | none => (s, .err .notExist)
        | some size =>
          match seekTarget x.off size .fromEnd off with
          | none => (s, .err .negative)
          | some t => ({ s with handles := upd s.handles h (some { x with off := t }) }, .pos t)
      | wh =>
        match seekTarget x.off 0 wh off with
        | none => (s, .err .negative)
        | some t => ({ s with handles := upd s.handles h (some { x with off := t }) }, .pos t)
  | .truncate h n =>
    match s.handles h with
    | none => (s, .err .closed)
    | some x =>
      -- FSETSTAT: `Filecmd "Setstat"` on the handle's Filepath: openfile(path, Write).Truncate(size)
      match find s.files x.path with
      | none => (s, .err .notExist)
      | some o => ({ s with objs := upd s.objs o (memTruncate (s.objs o) n) }, .truncated x.off)
  | .fstat h =>
    match s.handles h with
    | none => (s, .err .closed)
    | some x =>
      match iStatByPath s x with
      | none => (s, .err .notExist)
      | some size => (s, .size size x.off)
  | .close h =>
    match s.handles h with
    | none => (s, .err .closed)
    | some _ => ({ s with handles := upd s.handles h none }, .ok)
  | .link old new =>
    -- (*root).link: lfetch(old); putfile(new, file)
    match find s.files old with
    | none => (s, .err .notExist)
    | some o =>
      match find s.files new with
      | some _ => (s, .err .exist)
      | none => ({ s with files := bind s.files new o }, .ok)
  | .rename old new =>
    -- Filecmd "Rename": `if fs.exists(r.Target) { return os.ErrExist }`, then (*root).rename
    match find s.files new with
    | some _ => (s, .err .exist)
    | none =>
      match find s.files old with
      | none => (s, .err .notExist)
      | some o => ({ s with files := erase (bind s.files new o) old }, .ok)
  | .posixRename old new =>
    -- (*root).rename: `target == file → return nil`; `fs.files[newpath] = file; delete(fs.files, oldpath)`
    match find s.files old with
    | none => (s, .err .notExist)
    | some o =>
      if find s.files new = some o then (s, .ok)
      else ({ s with files := erase (bind s.files new o) old }, .ok)
  | .remove n =>
    match find s.files n with
    | none => (s, .err .notExist)
    | some _ => ({ s with files := erase s.files n }, .ok)
  | .cat n =>
    match find s.files n with
    | none => (s, .err .notExist)
    | some o => (s, .content (s.objs o))

def runI (replaceOnTrunc : Bool) (s : IState) : List Op → List Out
  | [] => []
  | op :: r => (stepI replaceOnTrunc s op).2 :: runI replaceOnTrunc (stepI replaceOnTrunc s op).1 r

def finalI (replaceOnTrunc : Bool) (s : IState) : List Op → IState
  | [] => s
  | op :: r => finalI replaceOnTrunc (stepI replaceOnTrunc s op).1 r

/-! ### where the code is not POSIX: the calls left out of the refinement

  D1  open with Read and without Write but with Creat or Trunc: the request server serves it through OpenFile
      (Method "Open"): the handle takes WRITE requests.  (S): a read-only descriptor.
  D2  fstat(h) — and therefore Seek(·, SeekEnd) — is answered for the NAME the handle was opened under: after a
      rename / remove of that name it fails (or reports another file's size).  (S): the inode of the handle.
  D3  truncate(h, n) is done to whatever the NAME designates now, and it does not ask for write access.
      (S): the inode of the handle; EBADF/EINVAL through a read-only descriptor.
  D4  a read of 0 bytes at or beyond the end answers EOF.  (S) / os.File.ReadAt: (0, nil).
  D5  an EMPTY write at an offset beyond the end extends the file with zeros.  (S) / pwrite(2): nothing happens.
-/

/-- the handle still designates, by the name it was opened under, the object it holds -/
def IState.fresh (s : IState) (x : IHandle) : Bool := find s.files x.path == some x.obj

def inScope (s : IState) : Op → Bool
  | .open _ fl => !(fl.rd && !fl.wr && (fl.creat || fl.trunc))                       -- D1
  | .writeAt h off d =>
    match s.handles h with
    | some x => !d.isEmpty || decide (off ≤ (s.objs x.obj).length)                    -- D5
    | none => true
  | .write h d =>
    match s.handles h with
    | some x => !d.isEmpty || decide (x.off ≤ (s.objs x.obj).length)                  -- D5
    | none => true
  | .readAt h off len =>
    match s.handles h with
    | some x => decide (len ≠ 0) || decide (off < (s.objs x.obj).length)              -- D4
    | none => true
  | .read h len =>
    match s.handles h with
    | some x => decide (len ≠ 0) || decide (x.off < (s.objs x.obj).length)            -- D4
    | none => true
  | .seek h wh _ =>
    match s.handles h with
    | some x => wh != .fromEnd || s.fresh x                                            -- D2
    | none => true
  | .truncate h _ =>
    match s.handles h with
    | some x => s.fresh x && x.kind.writes                                             -- D3
    | none => true
  | .fstat h =>
    match s.handles h with
    | some x => s.fresh x                                                              -- D2
    | none => true
  | _ => true

/-- every step of the history is within the scope, in the state the code is in at that step -/
def scopedRun (s : IState) : List Op → Bool
  | [] => true
  | op :: r => inScope s op && scopedRun (stepI false s op).1 r

/-! ### abstraction: what an implementation state stands for -/

def IHandle.abs (x : IHandle) : SHandle := ⟨x.obj, x.off, x.kind.reads, x.kind.writes⟩

def IState.abs (s : IState) : SState :=
  ⟨s.files, s.objs, s.nextObj, fun h => (s.handles h).map IHandle.abs, s.nextHid⟩

end Sftp.MultiHandle
