import Sftp.Prim
/-
  M-Transfer: pure model of the client's remote `File` (client.go, `type File struct` … `Seek`).

  Everything is over `Nat` and `Bytes`.  The served file is a byte list; the server side is the
  two facts of the os-backed server that matter for transfers:
    * READ  (o, L) on a file of size S → DATA with `min L maxTx (S-o)` bytes, STATUS EOF when o ≥ S;
    * WRITE (o, d) overwrites / extends the file, zero-filling a gap.
  Fault injection: `Served.rdFail`, `Served.wrFail` map a request *offset* to a status code the
  server answers with instead (the "failing-chunk set" of C13); a failed WRITE is not applied.

  Abstractions (sound for C01/C12/C13):
    * offsets/lengths are unbounded `Nat` (Go: int64/uint32 — no transfer here reaches 2^63 bytes);
    * the io.Reader given to ReadFrom is a finite infallible byte list, the io.Writer given to
      WriteTo an infallible sink (both are caller objects, not sftp code);
    * only regular files (`isRegular(fileStat.Mode)` true);
    * every File method holds `f.mu` for its whole body (client.go: first two lines of each
      method), so methods are atomic steps of the File state machine — this is what makes
      "Close races with other methods" a question about *sequences* of calls;
    * concurrency is represented by explicit schedules (set of dispatched chunks, arrival order
      of results) that the theorems quantify over; `fileStep` uses the canonical schedule.
-/
namespace Sftp.Transfer
open Sftp

/-! ### bytes -/

def byteAt (l : Bytes) (i : Nat) : UInt8 := (l[i]?).getD 0

/-- Server-side WRITE: overwrite at `off`, zero-filling a gap; an empty write changes nothing. -/
def writeAt (f : Bytes) (off : Nat) (d : Bytes) : Bytes :=
  if d = [] then f else
  (f ++ List.replicate (off - f.length) 0).take off ++ d ++ f.drop (off + d.length)

/-- Server-side READ payload. -/
def readAtSrv (f : Bytes) (off len maxTx : Nat) : Bytes := (f.drop off).take (min len maxTx)

/-- A positioned write (one WRITE packet, or one `copy` into the caller's buffer). -/
structure W where
  off : Nat
  d : Bytes
  deriving Repr, DecidableEq

def applyAll (f : Bytes) (ws : List W) : Bytes := ws.foldl (fun f w => writeAt f w.off w.d) f

/-! ### chunk plan -/

/-- The slicing loop shared by readAt (concurrent slice loop and readAtSequential), writeAt,
writeAtConcurrent and (through io.ReadFull on a `maxPacket` buffer) ReadFrom: chunks of `mp`
bytes, the last one shorter.  Fuel = remaining length (enough when `mp ≥ 1`). -/
def planAux (mp : Nat) : Nat → Nat → Nat → List (Nat × Nat)
  | 0, _, _ => []
  | fuel + 1, off, len =>
    if len = 0 then [] else
      (off, min mp len) :: planAux mp fuel (off + min mp len) (len - min mp len)

def planChunks (mp off len : Nat) : List (Nat × Nat) := planAux mp len off len

/-- The WRITE packets for buffer `b` placed at `off`. -/
def chunkWrites (mp off : Nat) (b : Bytes) : List W :=
  (planChunks mp off b.length).map (fun c => ⟨c.1, (b.drop (c.1 - off)).take c.2⟩)

/-! ### errors, configuration, served file -/

inductive Err where
  | eof            -- io.EOF
  | closed         -- os.ErrClosed
  | invalid        -- os.ErrInvalid
  | whence         -- unimplementedSeekWhence
  | hang           -- the Go loop would not terminate (fuel exhausted); never produced when maxTx ≥ 1
  | srv (code : Nat)  -- any other status / transport error, identified by a code
  deriving Repr, DecidableEq

structure Cfg where
  maxPacket : Nat          -- c.maxPacket
  maxConc : Nat            -- c.maxConcurrentRequests (number of workers; does not influence results)
  concReads : Bool         -- !c.disableConcurrentReads
  concWrites : Bool        -- c.useConcurrentWrites
  useFstat : Bool          -- c.useFstat (WriteTo sizes the file by fstat or stat: same size here)
  maxTx : Nat              -- server: s.maxTxPacket
  /-- WriteTo reduce loop assigns `f.offset = packet.off + len(packet.b)` also for an empty packet. -/
  writeToMovesOnEmpty : Bool
  /-- sequential ReadFrom: `if err == nil { err = err2 }` lets io.ErrUnexpectedEOF mask a write error. -/
  readFromMasksWriteErr : Bool
  deriving Repr, DecidableEq

/-- What client.go does today (defaults of NewClientPipe; both known defects present). -/
def Cfg.current : Cfg :=
  { maxPacket := 32768, maxConc := 64, concReads := true, concWrites := false, useFstat := false,
    maxTx := 32768, writeToMovesOnEmpty := true, readFromMasksWriteErr := true }

structure Served where
  data : Bytes
  rdFail : Nat → Option Nat := fun _ => none
  wrFail : Nat → Option Nat := fun _ => none
  statFail : Option Nat := none

inductive RdReply where
  | status (e : Err)
  | data (d : Bytes)

def srvRead (cfg : Cfg) (sv : Served) (o l : Nat) : RdReply :=
  match sv.rdFail o with
  | some c => .status (.srv c)
  | none => if sv.data.length ≤ o then .status .eof else .data (readAtSrv sv.data o l cfg.maxTx)

/-! ### (a) sequential disciplines -/

/-- `readChunkAt`: keep sending READ for the remainder until the buffer is full or a status
arrives.  `fuel` = buffer length; every DATA reply is non-empty when `maxTx ≥ 1`. -/
def readChunkAt (cfg : Cfg) (sv : Served) : Nat → Nat → Nat → Bytes × Option Err
  | 0, _, len => ([], if len = 0 then none else some .hang)
  | fuel + 1, off, len =>
    if len = 0 then ([], none) else
    match srvRead cfg sv off len with
    | .status e => ([], some e)
    | .data d =>
      let b := d.take len            -- copy(b[n:], data[:l])
      let r := readChunkAt cfg sv fuel (off + b.length) (len - b.length)
      (b ++ r.1, r.2)

/-- `readAtSequential`: chunk after chunk, stop at the first error.  (readChunkAt returns a nil
error only with a full buffer — its loop condition — so `off+read` is the next plan offset.) -/
def seqRead (cfg : Cfg) (sv : Served) : List (Nat × Nat) → Bytes × Option Err
  | [] => ([], none)
  | c :: rest =>
    let r := readChunkAt cfg sv c.2 c.1 c.2
    match r.2 with
    | some e => (r.1, some e)
    | none => let r' := seqRead cfg sv rest; (r.1 ++ r'.1, r'.2)

/-- `writeChunkAt` on the served file. -/
def writeChunk (sv : Served) (f : Bytes) (w : W) : Bytes × Nat × Option Err :=
  match sv.wrFail w.off with
  | some c => (f, 0, some (.srv c))
  | none => (writeAt f w.off w.d, w.d.length, none)

/-- sequential loop of `writeAt`: stop at the first error. Returns (file, written, err). -/
def seqWrite (sv : Served) : Bytes → List W → Bytes × Nat × Option Err
  | f, [] => (f, 0, none)
  | f, w :: rest =>
    match sv.wrFail w.off with
    | some c => (f, 0, some (.srv c))
    | none => let r := seqWrite sv (writeAt f w.off w.d) rest; (r.1, w.d.length + r.2.1, r.2.2)

/-! ### (b) concurrent "earliest-offset error" reduce -/

abbrev Ev := Nat × Err

/-- `firstErr := {MaxInt64, nil}; for e := range errCh { if e.off <= firstErr.off { firstErr = e } }` -/
def foldStep (acc : Option Ev) (e : Ev) : Option Ev :=
  match acc with
  | none => some e                                   -- e.off ≤ MaxInt64
  | some a => if e.1 ≤ a.1 then some e else some a

def foldEarliest (evs : List Ev) : Option Ev := evs.foldl foldStep none

/-- `if firstErr.err != nil { return int(firstErr.off - off), firstErr.err }; return len(b), nil` -/
def concResult (off len : Nat) (evs : List Ev) : Nat × Option Err :=
  match foldEarliest evs with
  | some e => (e.1 - off, some e.2)
  | none => (len, none)

/-- Map worker of concurrent readAt on one chunk: bytes copied and the error it reports
(a short DATA reply is turned into io.EOF). -/
def rdWorker (cfg : Cfg) (sv : Served) (c : Nat × Nat) : Bytes × Option Err :=
  match srvRead cfg sv c.1 c.2 with
  | .status e => ([], some e)
  | .data d => let b := d.take c.2; (b, if b.length < c.2 then some .eof else none)

/-- `errCh <- rErr{packet.off + int64(n), err}` -/
def rdEvent (cfg : Cfg) (sv : Served) (c : Nat × Nat) : Option Ev :=
  match (rdWorker cfg sv c).2 with
  | some e => some (c.1 + (rdWorker cfg sv c).1.length, e)
  | none => none

/-- `errCh <- wErr{work.off, err}` (writeAtConcurrent and readFromWithConcurrency). -/
def wrEvent (sv : Served) (w : W) : Option Ev :=
  match sv.wrFail w.off with
  | some c => some (w.off, .srv c)
  | none => none

/-- A schedule's dispatched set `D` for plan `P`: a prefix of the plan (the slice goroutine hands
out work in offset order) that is the whole plan unless some dispatched chunk produced an error
event (`cancel` is closed only by the reduce loop, and only after it received an event; events
only come from chunks that went through `workCh`).  client.go: the `select { case workCh <- …:
case <-cancel: return }` of the three slice goroutines and the `close(cancel)` in the reduce loops. -/
def Admissible {α} (ev : α → Option Ev) (P D : List α) : Prop :=
  ∃ R, P = D ++ R ∧ (R = [] ∨ ∃ c ∈ D, (ev c).isSome)

/-- `n = copy(packet.b, data[:l])`: the worker's copy into its slice of the caller's buffer. -/
def bufW (cfg : Cfg) (sv : Served) (off : Nat) (c : Nat × Nat) : W := ⟨c.1 - off, (rdWorker cfg sv c).1⟩

/-- Concurrent readAt under a schedule: `arrD` = order in which the workers copy their data into
the caller's buffer `buf0`, `arrE` = order in which error events reach the reduce loop. -/
def concRead (cfg : Cfg) (sv : Served) (off len : Nat) (buf0 : Bytes)
    (arrD : List (Nat × Nat)) (arrE : List Ev) : Nat × Option Err × Bytes :=
  let r := concResult off len arrE
  let buf := applyAll buf0 (arrD.map (bufW cfg sv off))
  (r.1, r.2, buf.take r.1)

/-- Concurrent writeAt under a schedule: `sent` = the WRITE packets put on the wire, in the order
the server applies them; `arrE` = arrival order of the error events of the awaited packets. -/
def concWrite (sv : Served) (f : Bytes) (off len : Nat) (sent : List W) (arrE : List Ev) :
    Bytes × Nat × Option Err :=
  let r := concResult off len arrE
  (applyAll f (sent.filter (fun w => (sv.wrFail w.off).isNone)), r.1, r.2)

/-! ### (c) WriteTo: ordered cur/next chain, and writeToSequential -/

/-- Map worker of WriteTo on the chunk at `po`: `b` and `err` of the writeWork it sends. A short
DATA reply is *not* an error here; EOF is discovered by the next chunk's STATUS. -/
def chainWorker (cfg : Cfg) (sv : Served) (po : Nat) : Bytes × Option Err :=
  match srvRead cfg sv po cfg.maxPacket with
  | .status e => ([], some e)
  | .data d => (d.take cfg.maxPacket, none)

/-- Reduce loop of WriteTo.  Packet j (offset `po`) is received on channel `cur_j`, so results
are consumed strictly in chunk order whatever their arrival order: no schedule parameter.
Returns (delivered bytes, final f.offset, err). -/
def chainLoop (cfg : Cfg) (sv : Served) : Nat → Nat → Nat → Bytes × Nat × Option Err
  | 0, _, cur => ([], cur, some .hang)
  | fuel + 1, po, cur =>
    let p := chainWorker cfg sv po
    let cur' := if cfg.writeToMovesOnEmpty || decide (0 < p.1.length) then po + p.1.length else cur
    match p.2 with
    | some .eof => (p.1, cur', none)
    | some e => (p.1, cur', some e)
    | none =>
      let r := chainLoop cfg sv fuel (po + cfg.maxPacket) cur'
      (p.1 ++ r.1, r.2.1, r.2.2)

/-- `writeToSequential`. Returns (delivered bytes, final f.offset, err). -/
def wtSeq (cfg : Cfg) (sv : Served) : Nat → Nat → Bytes × Nat × Option Err
  | 0, off => ([], off, some .hang)
  | fuel + 1, off =>
    let r := readChunkAt cfg sv cfg.maxPacket off cfg.maxPacket
    match r.2 with
    | some .eof => (r.1, off + r.1.length, none)
    | some e => (r.1, off + r.1.length, some e)
    | none =>
      let r' := wtSeq cfg sv fuel (off + r.1.length)
      (r.1 ++ r'.1, r'.2.1, r'.2.2)

/-! ### ReadFrom -/

/-- sequential ReadFrom over the io.ReadFull chunks of the source.
Returns (file, consumed, offset advance, err). -/
def rfSeq (cfg : Cfg) (sv : Served) : Bytes → List W → Bytes × Nat × Nat × Option Err
  | f, [] => (f, 0, 0, none)                       -- ReadFull → (0, io.EOF) → return read, nil
  | f, w :: rest =>
    let short := decide (w.d.length < cfg.maxPacket)   -- ReadFull → io.ErrUnexpectedEOF
    match sv.wrFail w.off with
    | some c =>
      -- m = 0; `if err == nil { err = err2 }`
      if short && cfg.readFromMasksWriteErr then (f, w.d.length, 0, none)
      else (f, w.d.length, 0, some (.srv c))
    | none =>
      if short then (writeAt f w.off w.d, w.d.length, w.d.length, none)
      else
        let r := rfSeq cfg sv (writeAt f w.off w.d) rest
        (r.1, w.d.length + r.2.1, w.d.length + r.2.2.1, r.2.2.2)

def sumLens (ws : List W) : Nat := (ws.map (fun w => w.d.length)).sum

/-- readFromWithConcurrency under a schedule: `sent` = packets put on the wire (`read` counts
exactly those), in server application order; `arrE` = arrival order of the error events.
Returns (file, read, new f.offset, err). -/
def rfConc (sv : Served) (f : Bytes) (off : Nat) (sent : List W) (arrE : List Ev) :
    Bytes × Nat × Nat × Option Err :=
  let file := applyAll f (sent.filter (fun w => (sv.wrFail w.off).isNone))
  let read := sumLens sent
  match foldEarliest arrE with
  | some e => (file, read, e.1, some e.2)       -- f.offset = firstErr.off
  | none => (file, read, off + read, none)     -- f.offset += read

/-! ### the File state machine -/

structure FileSt where
  offset : Nat := 0
  closed : Bool := false
  closeSent : Nat := 0
  deriving Repr, DecidableEq

inductive Call where
  | read (n : Nat)
  | readAt (n off : Nat)
  | write (d : Bytes)
  | writeAt (d : Bytes) (off : Nat)
  /-- ReadFrom; `sized` = the reader exposes Len/Size/Stat or is a LimitedReader. -/
  | readFrom (src : Bytes) (sized : Bool)
  | readFromConc (src : Bytes) (conc : Nat)
  | writeTo
  | seek (off : Int) (whence : Nat)
  | close
  | stat
  | truncate (n : Nat)
  deriving Repr

structure Result where
  n : Nat := 0               -- returned count (Seek: returned position; Stat: size)
  err : Option Err := none
  data : Bytes := []         -- b[:n] of a read, or the bytes handed to the io.Writer
  deriving Repr, DecidableEq

/-- `readAt` (shared by Read and ReadAt), canonical schedule for the concurrent branch. -/
def readAtM (cfg : Cfg) (sv : Served) (off len : Nat) : Result :=
  if len ≤ cfg.maxPacket then
    let r := readChunkAt cfg sv len off len
    { n := r.1.length, err := r.2, data := r.1 }
  else if !cfg.concReads then
    let r := seqRead cfg sv (planChunks cfg.maxPacket off len)
    { n := r.1.length, err := r.2, data := r.1 }
  else
    let P := planChunks cfg.maxPacket off len
    let r := concRead cfg sv off len (List.replicate len 0) P (P.filterMap (rdEvent cfg sv))
    { n := r.1, err := r.2.1, data := r.2.2 }

/-- `writeAt` (shared by Write and WriteAt), canonical schedule for the concurrent branch. -/
def writeAtM (cfg : Cfg) (sv : Served) (off : Nat) (d : Bytes) : Result × Bytes :=
  if d.length ≤ cfg.maxPacket then
    let r := writeChunk sv sv.data ⟨off, d⟩
    ({ n := r.2.1, err := r.2.2 }, r.1)
  else if cfg.concWrites then
    let P := chunkWrites cfg.maxPacket off d
    let r := concWrite sv sv.data off d.length P (P.filterMap (wrEvent sv))
    ({ n := r.2.1, err := r.2.2 }, r.1)
  else
    let r := seqWrite sv sv.data (chunkWrites cfg.maxPacket off d)
    ({ n := r.2.1, err := r.2.2 }, r.1)

/-- ReadFrom / ReadFromWithConcurrency. Returns (result, file, new offset). -/
def readFromM (cfg : Cfg) (sv : Served) (off : Nat) (src : Bytes) (conc : Bool) :
    Result × Bytes × Nat :=
  let P := chunkWrites cfg.maxPacket off src
  if conc then
    let r := rfConc sv sv.data off P (P.filterMap (wrEvent sv))
    ({ n := r.2.1, err := r.2.2.2 }, r.1, r.2.2.1)
  else
    let r := rfSeq cfg sv sv.data P
    ({ n := r.2.1, err := r.2.2.2 }, r.1, off + r.2.2.1)

/-- WriteTo. Returns (result, new offset). -/
def writeToM (cfg : Cfg) (sv : Served) (off : Nat) : Result × Nat :=
  if !cfg.concReads then
    let r := wtSeq cfg sv (sv.data.length + 1) off
    ({ n := r.1.length, err := r.2.2, data := r.1 }, r.2.1)
  else
    match sv.statFail with
    | some c => ({ n := 0, err := some (.srv c) }, off)
    | none =>
      if sv.data.length ≤ cfg.maxPacket then
        let r := wtSeq cfg sv (sv.data.length + 1) off
        ({ n := r.1.length, err := r.2.2, data := r.1 }, r.2.1)
      else
        let r := chainLoop cfg sv (sv.data.length + 2) off off
        ({ n := r.1.length, err := r.2.2, data := r.1 }, r.2.1)

/-- Seek target as a mathematical integer; `none` for an unknown whence. -/
def seekTarget (cur size : Nat) (off : Int) (whence : Nat) : Option Int :=
  match whence with
  | 0 => some off
  | 1 => some (off + cur)
  | 2 => some (off + size)
  | _ => none

def resize (f : Bytes) (n : Nat) : Bytes := f.take n ++ List.replicate (n - f.length) 0

def fileStep (cfg : Cfg) (sv : Served) (s : FileSt) (c : Call) : FileSt × Result × Served :=
  if s.closed then (s, { err := some .closed }, sv) else
  match c with
  | .read n =>
    let r := readAtM cfg sv s.offset n
    ({ s with offset := s.offset + r.n }, r, sv)
  | .readAt n off => (s, readAtM cfg sv off n, sv)
  | .write d =>
    let r := writeAtM cfg sv s.offset d
    ({ s with offset := s.offset + r.1.n }, r.1, { sv with data := r.2 })
  | .writeAt d off =>
    let r := writeAtM cfg sv off d
    (s, r.1, { sv with data := r.2 })
  | .readFrom src sized =>
    let r := readFromM cfg sv s.offset src (cfg.concWrites && sized && decide (cfg.maxPacket < src.length))
    ({ s with offset := r.2.2 }, r.1, { sv with data := r.2.1 })
  | .readFromConc src _ =>
    let r := readFromM cfg sv s.offset src true
    ({ s with offset := r.2.2 }, r.1, { sv with data := r.2.1 })
  | .writeTo =>
    let r := writeToM cfg sv s.offset
    ({ s with offset := r.2 }, r.1, sv)
  | .seek off whence =>
    match whence, sv.statFail with
    | 2, some c => (s, { n := s.offset, err := some (.srv c) }, sv)
    | _, _ =>
      match seekTarget s.offset sv.data.length off whence with
      | none => (s, { n := s.offset, err := some .whence }, sv)
      | some t =>
        if t < 0 then (s, { n := s.offset, err := some .invalid }, sv)
        else ({ s with offset := t.toNat }, { n := t.toNat }, sv)
  | .close => ({ s with closed := true, closeSent := s.closeSent + 1 }, {}, sv)
  | .stat =>
    match sv.statFail with
    | some c => (s, { err := some (.srv c) }, sv)
    | none => (s, { n := sv.data.length }, sv)
  | .truncate n => (s, {}, { sv with data := resize sv.data n })

/-- Run a list of calls; the state and result after each call. -/
def run (cfg : Cfg) : Served → FileSt → List Call → List (FileSt × Result)
  | _, _, [] => []
  | sv, s, c :: cs =>
    let r := fileStep cfg sv s c
    (r.1, r.2.1) :: run cfg r.2.2 r.1 cs

def finalServed (cfg : Cfg) : Served → FileSt → List Call → Served
  | sv, _, [] => sv
  | sv, s, c :: cs => let r := fileStep cfg sv s c; finalServed cfg r.2.2 r.1 cs

/-- Test pattern shared with the harness: byte i of a generated file is `(seed + i) mod 251`. -/
def pat (seed n : Nat) : Bytes := (List.range n).map (fun i => UInt8.ofNat ((seed + i) % 251))

end Sftp.Transfer
