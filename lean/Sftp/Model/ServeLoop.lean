import Sftp.Prim
/-
  M-ServeLoop (C07): the receive loop of both servers at the level of decoded frames.

  The byte stream has been cut into frames by `recvPacket` (framing theorems: C08); each frame is
  either a well-formed request, an extended request with an unknown name (non-fatal: it is answered
  OP_UNSUPPORTED), or malformed (makePacket error / framing error / end of stream).  The loop
  dispatches requests to the worker pipeline (ordering and exactly-once: C02) until the first
  malformed frame; what it does with that frame is the source fact `stopsOnError`.
-/
namespace Sftp.ServeLoop

inductive Frame (Req : Type) where
  | ok (r : Req)            -- decoded without error
  | unknownExt (r : Req)    -- errUnknownExtendedPacket: dispatched, answered OP_UNSUPPORTED
  | bad (part : Req)        -- makePacket failed; `part` is the partially decoded packet
  deriving Repr, DecidableEq

structure Cfg where
  /-- after a makePacket error (other than unknown-extended) the loop is left before anything is dispatched -/
  stopsOnError : Bool
  /-- an unknown extended request is handed to the workers (which answer OP_UNSUPPORTED) -/
  unknownExtDispatched : Bool
  deriving Repr, DecidableEq

/-- the requests handed to the workers, in order -/
def dispatched {Req} (cfg : Cfg) : List (Frame Req) → List Req
  | [] => []
  | .ok r :: fs => r :: dispatched cfg fs
  | .unknownExt r :: fs => if cfg.unknownExtDispatched then r :: dispatched cfg fs else dispatched cfg fs
  | .bad p :: fs => if cfg.stopsOnError then [] else p :: dispatched cfg fs

/-- the well-formed prefix of a stream -/
def wellFormedPrefix {Req} : List (Frame Req) → List (Frame Req)
  | [] => []
  | .bad _ :: _ => []
  | f :: fs => f :: wellFormedPrefix fs

/-- requests of the well-formed prefix -/
def prefixRequests {Req} (cfg : Cfg) (fs : List (Frame Req)) : List Req := dispatched cfg (wellFormedPrefix fs)

end Sftp.ServeLoop
