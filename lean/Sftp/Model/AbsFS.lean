/-
  M-AbsFS: an abstract file system, the SPEC of the primitives the os-backed server offers (C05 composites).

  * `FS` = finite map (association list, first match wins) from absolute clean paths (`Path` = list of
    components, `[]` = "/") to a node kind: regular file, directory, symbolic link with an absolute clean target.
    The root is implicit (always a directory, never an entry).
  * The primitives are TOTAL functions `FS → Path → FS × Result`; they are the ASSUMED semantics of the kernel
    calls behind `os.Stat`, `os.Lstat`, `os.Mkdir`, unlink(2), rmdir(2), and of Go's `os.Remove` (unlink, then
    rmdir, error choice as in os/file_unix.go) and `(*os.File).Readdir`.  They are tied to the real kernel only
    by differential testing (driver ops `c05c.*`).
  * Everything is defined through `locate`, the classification of a path against the tree:
      dirAt         the path is a real directory (all components real directories, or the root)
      entry n       the parent is a real directory and the path is the non-directory entry `n`
      absent        the parent is a real directory and there is no entry
      blocked r     the walk stops before the parent: missing component (errNoEnt), file (errNotDir),
                    symbolic link in a NON-FINAL position (errOther — OUT OF MODEL, see below).

  Abstractions (documented limits of the spec, not of the theorems):
  * a symbolic link is followed only in FINAL position (`stat`); a path that has to traverse a link in a
    non-final position is answered `errOther` (`inModel fs p = false`; the driver prints `oom` for it);
  * no permissions (`errPerm` is never produced by these primitives; it is in `Result` because the wire mapping
    has a row for it), no hard links, no mount points; `rmdir /` is `errOther` (EBUSY);
  * symbolic link chains are followed up to `fs.length + 1` steps, longer chains (necessarily cyclic) are
    `errOther` (ELOOP).
-/
namespace Sftp.AbsFS

abbrev Path := List String

inductive Node where
  | file
  | dir
  | link (target : Path)
  deriving DecidableEq, Repr

def Node.isDir : Node → Bool
  | .dir => true
  | _ => false

abbrev FS := List (Path × Node)

inductive Result where
  | ok | errNoEnt | errExist | errNotDir | errIsDir | errNotEmpty | errPerm | errOther
  deriving DecidableEq, Repr

def Result.all : List Result :=
  [.ok, .errNoEnt, .errExist, .errNotDir, .errIsDir, .errNotEmpty, .errPerm, .errOther]

theorem Result.mem_all (r : Result) : r ∈ Result.all := by cases r <;> decide

/-- first entry with this path -/
def get : FS → Path → Option Node
  | [], _ => none
  | (q, n) :: rest, p => if q = p then some n else get rest p

/-- deepest prefix made of real directories, and what remains. `split fs [] p = (d, rem)` with `p = d ++ rem`. -/
def split (fs : FS) : Path → Path → Path × Path
  | cur, [] => (cur, [])
  | cur, c :: rest => if get fs (cur ++ [c]) = some .dir then split fs (cur ++ [c]) rest else (cur, c :: rest)

inductive Loc where
  | dirAt
  | entry (n : Node)
  | absent
  | blocked (r : Result)
  deriving DecidableEq, Repr

def locate (fs : FS) (p : Path) : Loc :=
  match split fs [] p with
  | (_, []) => .dirAt
  | (d, [c]) =>
    match get fs (d ++ [c]) with
    | none => .absent
    | some n => .entry n
  | (d, c :: _ :: _) =>
    match get fs (d ++ [c]) with
    | none => .blocked .errNoEnt
    | some .file => .blocked .errNotDir
    | some _ => .blocked .errOther

/-- does the kernel walk stay inside what this model describes faithfully? -/
def inModel (fs : FS) (p : Path) : Bool :=
  match locate fs p with
  | .blocked .errOther => false
  | _ => true

/-- `q` is `p ++ [c]` for some `c` -/
def isChild (p q : Path) : Bool := q.length == p.length + 1 && p.isPrefixOf q

def hasChild (fs : FS) (p : Path) : Bool := fs.any (fun e => isChild p e.1)

/-- remove the entry `p` -/
def del (fs : FS) (p : Path) : FS := fs.filter (fun e => !decide (e.1 = p))

/-- remove `p` and everything below it -/
def delTree (fs : FS) (p : Path) : FS := fs.filter (fun e => !p.isPrefixOf e.1)

/-- the directories `q`, `q/r₁`, `q/r₁/r₂`, … (what creating a path with all its missing parents adds) -/
def chain (q : Path) : List String → FS
  | [] => [(q, .dir)]
  | r :: rest => (q, .dir) :: chain (q ++ [r]) rest

/-! ### the primitives -/

/-- lstat(2): result and node kind (the kind is meaningful only with `ok`). -/
def lstat (fs : FS) (p : Path) : Result × Node :=
  match locate fs p with
  | .dirAt => (.ok, .dir)
  | .entry n => (.ok, n)
  | .absent => (.errNoEnt, .file)
  | .blocked r => (r, .file)

/-- stat(2) with a budget of link traversals. -/
def statN : Nat → FS → Path → Result × Node
  | 0, _, _ => (.errOther, .file)
  | fuel + 1, fs, p =>
    match locate fs p with
    | .dirAt => (.ok, .dir)
    | .entry (.link t) => statN fuel fs t
    | .entry n => (.ok, n)
    | .absent => (.errNoEnt, .file)
    | .blocked r => (r, .file)

def stat (fs : FS) (p : Path) : Result × Node := statN (fs.length + 1) fs p

/-- mkdir(2) -/
def mkdir (fs : FS) (p : Path) : FS × Result :=
  match locate fs p with
  | .dirAt => (fs, .errExist)
  | .entry _ => (fs, .errExist)
  | .absent => (fs ++ [(p, .dir)], .ok)
  | .blocked r => (fs, r)

/-- unlink(2) -/
def unlink (fs : FS) (p : Path) : FS × Result :=
  match locate fs p with
  | .dirAt => (fs, .errIsDir)
  | .entry _ => (del fs p, .ok)
  | .absent => (fs, .errNoEnt)
  | .blocked r => (fs, r)

/-- rmdir(2) -/
def rmdir (fs : FS) (p : Path) : FS × Result :=
  match locate fs p with
  | .dirAt =>
    if p = [] then (fs, .errOther)
    else if hasChild fs p then (fs, .errNotEmpty)
    else (del fs p, .ok)
  | .entry _ => (fs, .errNotDir)
  | .absent => (fs, .errNoEnt)
  | .blocked r => (fs, r)

/-- Go `os.Remove` (os/file_unix.go): unlink; if that fails rmdir; if both fail report rmdir's error unless it
is ENOTDIR, then unlink's. -/
def osRemoveCall (fs : FS) (p : Path) : FS × Result :=
  match unlink fs p with
  | (fs1, .ok) => (fs1, .ok)
  | (fs1, e) =>
    match rmdir fs1 p with
    | (fs2, .ok) => (fs2, .ok)
    | (fs2, e1) => (fs2, if e1 = .errNotDir then e else e1)

/-! ### directory listing -/

def insertSorted (x : String × Bool) : List (String × Bool) → List (String × Bool)
  | [] => [x]
  | y :: ys => if x.1 < y.1 then x :: y :: ys else y :: insertSorted x ys

def sortNames : List (String × Bool) → List (String × Bool)
  | [] => []
  | x :: xs => insertSorted x (sortNames xs)

/-- children of `p`: (name, is a directory — as lstat sees it), in list order -/
def children (fs : FS) (p : Path) : List (String × Bool) :=
  fs.filterMap (fun e => if isChild p e.1 then some (e.1.getLastD "", e.2.isDir) else none)

/-- opendir (the server stats the path: a final link is followed) + readdir until EOF; names sorted.
A link to a directory would have to be traversed: out of model. -/
def readDir (fs : FS) (p : Path) : Result × List (String × Bool) :=
  match stat fs p with
  | (.ok, n) =>
    if n.isDir then
      match locate fs p with
      | .dirAt => (.ok, sortNames (children fs p))
      | _ => (.errOther, [])
    else (.errNotDir, [])
  | (r, _) => (r, [])

/-! ### well-formed trees: unique keys, the root is not an entry, every entry hangs below real directories -/

def wf (fs : FS) : Bool :=
  decide ((fs.map (·.1)).Nodup) &&
  fs.all (fun e => !decide (e.1 = []) &&
    (List.range e.1.length).all (fun k => k == 0 || decide (get fs (e.1.take k) = some .dir)))

/-! ### text form for the driver:  `d:/a/b,f:/a/x,l:/a/l>/a/x`  (`-` = empty tree) -/

def renderPath (p : Path) : String := if p = [] then "/" else String.join (p.map (fun c => "/" ++ c))

def renderEntry : Path × Node → String
  | (p, .file) => "f:" ++ renderPath p
  | (p, .dir) => "d:" ++ renderPath p
  | (p, .link t) => "l:" ++ renderPath p ++ ">" ++ renderPath t

def insertStr (x : String) : List String → List String
  | [] => [x]
  | y :: ys => if x < y then x :: y :: ys else y :: insertStr x ys

def sortStrs : List String → List String
  | [] => []
  | x :: xs => insertStr x (sortStrs xs)

/-- canonical: entries sorted by their text (kind letter first) -/
def renderFS (fs : FS) : String :=
  if fs.isEmpty then "-" else ",".intercalate (sortStrs (fs.map renderEntry))

/-- `/a/b` → ["a","b"]; `/` → []; must start with `/`, no empty, `.` or `..` components -/
def parsePath (s : String) : Option Path :=
  match s.splitOn "/" with
  | "" :: rest =>
    if rest = [""] then some []
    else if rest.all (fun c => c ≠ "" && c ≠ "." && c ≠ "..") then some rest else none
  | _ => none

def parseEntry (s : String) : Option (Path × Node) :=
  match s.splitOn ":" with
  | [k, body] =>
    if k = "f" then (parsePath body).map (·, .file)
    else if k = "d" then (parsePath body).map (·, .dir)
    else if k = "l" then
      match body.splitOn ">" with
      | [p, t] =>
        match parsePath p, parsePath t with
        | some p, some t => some (p, .link t)
        | _, _ => none
      | _ => none
    else none
  | _ => none

def parseEntries : List String → Option FS
  | [] => some []
  | s :: rest =>
    match parseEntry s, parseEntries rest with
    | some e, some l => some (e :: l)
    | _, _ => none

def parseFS (s : String) : Option FS :=
  if s = "-" then some [] else parseEntries (s.splitOn ",")

def Result.render : Result → String
  | .ok => "ok" | .errNoEnt => "noent" | .errExist => "exist" | .errNotDir => "notdir"
  | .errIsDir => "isdir" | .errNotEmpty => "notempty" | .errPerm => "perm" | .errOther => "other"

end Sftp.AbsFS
