import Sftp.Prim
import Sftp.Model.ReplyStep
/-
  C20 model: an interpreter for reply programs with Go slice semantics.

  * what indexes out of range in Go (`b[3]` on a short slice, `b[:n]` with `n > len(b)`) is `Res.panic`;
  * what the code rejects is `Res.err`;
  * the meter counts allocated bytes: a string conversion costs its length, `make([]T, count)` costs
    `sizeof(T) * count`, every completed loop iteration costs 1 (the appended entry / map insert).
-/
namespace Sftp.Reply
open Sftp

structure St where
  data  : Bytes
  last  : Nat := 0
  flags : Nat := 0
  id    : Nat := 0
  meter : Nat := 0
  deriving Repr, DecidableEq

/-- outcome of a program: the final state, or an error / a panic with the meter reading at that point. -/
inductive Res where
  | ok (s : St)
  | err (e : String) (m : Nat)
  | panic (m : Nat)
  deriving Repr, DecidableEq

def Res.isPanic : Res → Bool
  | .panic _ => true
  | _ => false

def Res.meter : Res → Nat
  | .ok s => s.meter
  | .err _ m => m
  | .panic m => m

/-- the error an unchecked / a checked primitive produces on a short input. -/
def short (safe : Bool) (m : Nat) : Res := if safe then .err "short" m else .panic m

/-- `for i := 0; i < n; i++ { f }`, one unit of allocation per completed iteration. -/
def iter (f : St → Res) : Nat → St → Res
  | 0, st => .ok st
  | n + 1, st =>
    match f st with
    | .ok st' => iter f n { st' with meter := st'.meter + 1 }
    | r => r

/-- `for len(data) > 0 { f }`.  The fuel is the initial length; an iteration that does not consume anything
would spin forever in Go and is reported as the error "no-progress" (never reached by a consuming body). -/
def iterRest (f : St → Res) : Nat → St → Res
  | 0, st => if st.data.isEmpty then .ok st else .err "no-progress" st.meter
  | n + 1, st =>
    if st.data.isEmpty then .ok st else
    match f st with
    | .ok st' =>
      if st'.data.length < st.data.length then iterRest f n { st' with meter := st'.meter + 1 }
      else .err "no-progress" st'.meter
    | r => r

mutual
/-- `cap` is the capacity of the request's own buffer (only used by `sliceBuf`). -/
def runStep (cap : Nat) : RStep → St → Res
  | .u32 safe, st =>
    match get32? st.data with
    | some (v, r) => .ok { st with data := r, last := v }
    | none => short safe st.meter
  | .u64 safe, st =>
    match get64? st.data with
    | some (_, r) => .ok { st with data := r }
    | none => short safe st.meter
  | .str safe, st =>
    match get32? st.data with
    | none => short safe st.meter
    | some (n, b1) =>
      if n ≤ b1.length then .ok { st with data := b1.drop n, meter := st.meter + n }
      else short safe st.meter
  | .strOpt, st =>
    match get32? st.data with
    | none => .ok { st with data := [] }
    | some (n, b1) =>
      if n ≤ b1.length then .ok { st with data := b1.drop n, meter := st.meter + n }
      else .ok { st with data := [] }
  | .flags safe, st =>
    match get32? st.data with
    | some (v, r) => .ok { st with data := r, flags := v }
    | none => short safe st.meter
  | .call _, st => .err "unresolved-call" st.meter
  | .checkId, st => if st.last = st.id then .ok st else .err "id" st.meter
  | .idFromLast, st => .ok { st with id := st.last }
  | .checkCountIs n, st => if st.last = n then .ok st else .err "count" st.meter
  | .sliceLen safe, st => if st.last ≤ st.data.length then .ok st else short safe st.meter
  | .sliceBuf safe, st => if st.last ≤ cap then .ok st else short safe st.meter
  | .loopCount guard prealloc body, st =>
    let count := st.last
    match guard with
    | some u =>
      if count > st.data.length / u then .err "short" st.meter
      else iter (runProg cap body) count { st with meter := st.meter + prealloc * count }
    | none => iter (runProg cap body) count { st with meter := st.meter + prealloc * count }
  | .loopRest body, st => iterRest (runProg cap body) st.data.length st
  | .ifFlag mask body, st => if st.flags &&& mask = mask then runProg cap body st else .ok st
  | .binaryRead n, st =>
    if n ≤ st.data.length then .ok { st with data := st.data.drop n } else .err "short" st.meter
  | .peek body, st =>
    match runProg cap body st with
    | .ok st' => .ok { st' with data := st.data }
    | r => r

def runProg (cap : Nat) : List RStep → St → Res
  | [], st => .ok st
  | s :: rest, st =>
    match runStep cap s st with
    | .ok st' => runProg cap rest st'
    | r => r
end

/-! ### inlining the calls of extracted decoders -/

mutual
def inlineStep (env : List (String × List RStep)) : RStep → List RStep
  | .call fn => match env.lookup fn with
    | some p => p
    | none => [.call fn]
  | .loopCount g p body => [.loopCount g p (inlineProg env body)]
  | .loopRest body => [.loopRest (inlineProg env body)]
  | .ifFlag m body => [.ifFlag m (inlineProg env body)]
  | .peek body => [.peek (inlineProg env body)]
  | s => [s]
def inlineProg (env : List (String × List RStep)) : List RStep → List RStep
  | [] => []
  | s :: rest => inlineStep env s ++ inlineProg env rest
end

/-- Two rounds resolve `unmarshalAttrs → unmarshalFileStat`; a call still left afterwards is an
"unresolved-call" error in the interpreter and is never `Safe`. -/
def inline (env : List (String × List RStep)) (p : List RStep) : List RStep :=
  inlineProg env (inlineProg env p)

/-! ### the static check -/

mutual
/-- `safeStep avail s = some avail'`: with `avail` bytes known to be present, step `s` cannot panic, and
afterwards `avail'` bytes are known to be present. -/
def safeStep (avail : Nat) : RStep → Option Nat
  | .u32 safe => if safe || 4 ≤ avail then some (avail - 4) else none
  | .u64 safe => if safe || 8 ≤ avail then some (avail - 8) else none
  | .str safe => if safe then some 0 else none
  | .strOpt => some 0
  | .flags safe => if safe || 4 ≤ avail then some (avail - 4) else none
  | .call _ => none
  | .checkId => some avail
  | .idFromLast => some avail
  | .checkCountIs _ => some avail
  | .sliceLen safe => if safe then some avail else none
  | .sliceBuf safe => if safe then some avail else none
  | .loopCount _ _ body => if (safeProg 0 body).isSome then some 0 else none
  | .loopRest body => if (safeProg 0 body).isSome then some 0 else none
  | .ifFlag _ body => if (safeProg avail body).isSome then some 0 else none
  | .binaryRead _ => some 0
  | .peek body => if (safeProg avail body).isSome then some avail else none
def safeProg (avail : Nat) : List RStep → Option Nat
  | [] => some avail
  | s :: rest =>
    match safeStep avail s with
    | some a => safeProg a rest
    | none => none
end

/-- No unchecked operation that the `avail` bytes known to be present do not cover. -/
def SafeFrom (avail : Nat) (p : List RStep) : Prop := (safeProg avail p).isSome = true
instance (avail : Nat) (p : List RStep) : Decidable (SafeFrom avail p) := by unfold SafeFrom; infer_instance

/-! ### proportional allocation -/

mutual
/-- at top level the step makes `data` strictly shorter whenever it succeeds -/
def consumesStep : RStep → Bool
  | .u32 _ | .u64 _ | .str _ | .flags _ => true
  | .binaryRead n => 0 < n
  | _ => false
def consumesProg : List RStep → Bool
  | [] => false
  | s :: rest => consumesStep s || consumesProg rest
end

def guardPos : Option Nat → Bool
  | some u => 0 < u
  | none => false

mutual
/-- "paid": whatever the step allocates is covered by the bytes it consumes: no `peek`, no unresolved call,
every loop body consumes, `make([]T, count)` only behind a count guard. -/
def paidStep : RStep → Bool
  | .peek _ => false
  | .call _ => false
  | .loopCount g p body =>
    paidProg body && consumesProg body && (p == 0 || guardPos g)
  | .loopRest body => paidProg body
  | .ifFlag _ body => paidProg body
  | _ => true
def paidProg : List RStep → Bool
  | [] => true
  | s :: rest => paidStep s && paidProg rest
end

mutual
/-- bytes allocated per byte consumed -/
def rateStep : RStep → Nat
  | .str _ | .strOpt => 1
  | .loopCount _ p body => p + 1 + rateProg body
  | .loopRest body => 1 + rateProg body
  | .ifFlag _ body => rateProg body
  | .peek body => rateProg body
  | _ => 0
def rateProg : List RStep → Nat
  | [] => 0
  | s :: rest => rateStep s + rateProg rest
end

mutual
/-- a sequence of paid steps and of `peek`s of such sequences (that is what reply sites look like) -/
def linearStep : RStep → Bool
  | .peek body => linearProg body
  | s => paidStep s
def linearProg : List RStep → Bool
  | [] => true
  | s :: rest => linearStep s && linearProg rest
end

/-- The hypothesis of the C20 theorems. -/
def AllSafe (p : List RStep) : Prop := SafeFrom 0 p ∧ linearProg p = true
instance (p : List RStep) : Decidable (AllSafe p) := by unfold AllSafe; infer_instance

/-! ### entry points -/

def Res.outcome : Res → Outcome Unit
  | .ok _ => .ok ()
  | .err e _ => .err e
  | .panic _ => .panic

/-- Run a reply program on the reply body `data` for a request with id `id` and an own buffer of `cap` bytes. -/
def runReplyWith (cap id : Nat) (prog : List RStep) (data : Bytes) : Outcome Unit :=
  (runProg cap prog { data := data, id := id }).outcome

def meterWith (cap id : Nat) (prog : List RStep) (data : Bytes) : Nat :=
  (runProg cap prog { data := data, id := id }).meter

/-- default: expected id 0, buffer of 32768 bytes -/
def runReply (prog : List RStep) (data : Bytes) : Outcome Unit := runReplyWith 32768 0 prog data
def meter (prog : List RStep) (data : Bytes) : Nat := meterWith 32768 0 prog data

/-! ### the table the extractor emits -/

/-- a client function: its reply cases by type byte, what happens for any other type, and the extracted
decoders it may call. -/
def lookupRow (tbl : List (String × Nat × List RStep)) (fn : String) (typ : Nat) : Option (List RStep) :=
  match tbl.find? (fun r => r.1 == fn && r.2.1 == typ) with
  | some r => some r.2.2
  | none => none

/-- `handle m typ data`: the reply case for `typ` if the function has one, else its `default:` (an error). -/
def handle (tbl : List (String × Nat × List RStep)) (env : List (String × List RStep))
    (cap id : Nat) (fn : String) (typ : Nat) (data : Bytes) : Outcome Unit :=
  match lookupRow tbl fn typ with
  | some p => runReplyWith cap id (inline env p) data
  | none => .err "unexpected-type"

/-! ### printing -/

mutual
def showStep : RStep → String
  | .u32 s => if s then "u32" else "u32!"
  | .u64 s => if s then "u64" else "u64!"
  | .str s => if s then "str" else "str!"
  | .strOpt => "str?"
  | .flags s => if s then "flags" else "flags!"
  | .call fn => "call:" ++ fn
  | .checkId => "checkId"
  | .idFromLast => "idFromLast"
  | .checkCountIs n => "count=" ++ toString n
  | .sliceLen s => if s then "slice" else "slice!"
  | .sliceBuf s => if s then "bufslice" else "bufslice!"
  | .loopCount g p body =>
    "loop(" ++ (match g with | some u => "guard/" ++ toString u | none => "noguard") ++ ",make*" ++ toString p ++
      ")[" ++ showProg body ++ "]"
  | .loopRest body => "rest[" ++ showProg body ++ "]"
  | .ifFlag m body => "if&" ++ toString m ++ "[" ++ showProg body ++ "]"
  | .binaryRead n => "binread" ++ toString n
  | .peek body => "peek[" ++ showProg body ++ "]"
def showProg : List RStep → String
  | [] => ""
  | [s] => showStep s
  | s :: rest => showStep s ++ "," ++ showProg rest
end

end Sftp.Reply
