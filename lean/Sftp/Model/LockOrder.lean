/-
  M-LockOrder: a sender, the peer and the client's receive loop around two mutexes and two pipes.

  * the sender (clientConn.dispatchRequest after putChannel → conn.sendPacket) takes the WRITE lock `W`, writes one
    frame to the client→server pipe (blocks while the pipe is full), releases `W`;
  * the peer answers requests: while it has replies to write it writes them to the server→client pipe (blocks while
    that pipe is full) and does NOT read; with nothing to write it reads one request and owes one more reply;
  * the receive loop (clientConn.recv) reads one reply, takes the INFLIGHT lock `L` (getChannel), delivers, releases.

  `same = true` means `L` and `W` are one mutex (seed C03_g: clientConn's own Mutex deleted, `c.Lock()` in
  getChannel / putChannel / broadcastErr resolves to the embedded conn's).  Lock state is a function of the program
  counters, so every state is consistent by construction.  Both pipes hold one frame.
-/
namespace Sftp.LockOrder

inductive SPc where
  | want | writing | wrote | fin
  deriving DecidableEq, Repr

inductive RPc where
  | reading | needLock | holding
  deriving DecidableEq, Repr

structure St where
  c2s : Nat        -- frames in the client→server pipe
  s2c : Nat        -- frames in the server→client pipe
  pending : Nat    -- replies the peer still has to write
  spc : SPc
  rpc : RPc
  deriving DecidableEq, Repr

def pipeCap : Nat := 1

inductive Act where
  | sAcquire | sWrite | sRelease | pWrite | pRead | rRead | rLock | rDeliver
  deriving DecidableEq, Repr

def Act.all : List Act := [.sAcquire, .sWrite, .sRelease, .pWrite, .pRead, .rRead, .rLock, .rDeliver]

/-- the sender holds `W` -/
def wHeld (s : St) : Bool := s.spc = .writing || s.spc = .wrote
/-- the receive loop holds `L` -/
def lHeld (s : St) : Bool := s.rpc = .holding

def step (same : Bool) (s : St) : Act → Option St
  | .sAcquire => if s.spc = .want && !(same && lHeld s) then some { s with spc := .writing } else none
  | .sWrite => if s.spc = .writing && decide (s.c2s < pipeCap) then some { s with spc := .wrote, c2s := s.c2s + 1 } else none
  | .sRelease => if s.spc = .wrote then some { s with spc := .fin } else none
  | .pWrite => if decide (0 < s.pending) && decide (s.s2c < pipeCap) then some { s with pending := s.pending - 1, s2c := s.s2c + 1 } else none
  | .pRead => if decide (s.pending = 0) && decide (0 < s.c2s) then some { s with c2s := s.c2s - 1, pending := s.pending + 1 } else none
  | .rRead => if s.rpc = .reading && decide (0 < s.s2c) then some { s with rpc := .needLock, s2c := s.s2c - 1 } else none
  | .rLock => if s.rpc = .needLock && !(same && wHeld s) then some { s with rpc := .holding } else none
  | .rDeliver => if s.rpc = .holding then some { s with rpc := .reading } else none

def run (same : Bool) : St → List Act → Option St
  | s, [] => some s
  | s, a :: as => match step same s a with
    | some s' => run same s' as
    | none => none

/-- everything sent, answered and delivered -/
def final (s : St) : Bool :=
  s.spc = .fin && s.c2s = 0 && s.s2c = 0 && s.pending = 0 && s.rpc = .reading

/-- deadlock: work left and no action enabled -/
def stuck (same : Bool) (s : St) : Bool :=
  !final s && Act.all.all (fun a => (step same s a).isNone)

/-- one earlier request still in the pipe, the peer busy with a batch of three replies, a caller about to send -/
def St.init : St := ⟨1, 0, 3, .want, .reading⟩

/-- with two distinct mutexes NO state is a deadlock (not only the reachable ones): the receive loop can always go on,
so the peer can, so the sender can -/
theorem distinct_never_stuck (s : St) : stuck false s = false := by
  obtain ⟨c2s, s2c, pending, spc, rpc⟩ := s
  cases rpc <;> cases spc <;> rcases c2s with _ | c2s <;> rcases s2c with _ | s2c <;> rcases pending with _ | pending <;>
    simp [stuck, final, step, Act.all, pipeCap, wHeld, lHeld]

/-- with one mutex for both a deadlock is reachable: the sender holds it blocked in Write, the peer is blocked writing
its third reply, the receive loop has read the first reply and waits for the mutex -/
theorem same_lock_deadlocks :
    run true St.init [.sAcquire, .pWrite, .rRead, .pWrite] = some ⟨1, 1, 1, .writing, .needLock⟩ ∧
    stuck true ⟨1, 1, 1, .writing, .needLock⟩ = true := by decide

/-- a deadlock state is reachable iff the two locks coincide -/
theorem deadlock_iff_same_lock (same : Bool) :
    (∃ acts s, run same St.init acts = some s ∧ stuck same s = true) ↔ same = true := by
  constructor
  · intro ⟨acts, s, _, hs⟩
    cases same with
    | true => rfl
    | false => rw [distinct_never_stuck] at hs; cases hs
  · intro h
    subst h
    exact ⟨_, _, same_lock_deadlocks.1, same_lock_deadlocks.2⟩

end Sftp.LockOrder
