/-
  M-ServeTail: what Serve does after its receive loop has ended (server.go `(*Server).Serve`, request-server.go
  `(*RequestServer).Serve`), against the workers that are still busy with the requests already received.

  State: `pending` = requests that were received and are still queued or running in a worker (nothing is received any
  more: the loop has ended, so it only goes down); `closed` = the worker channel has been closed; `todo` = the steps Serve
  still has to execute, in EXECUTION order (plain statements in source order, then the deferred ones in reverse);
  `swept` = the sweep over the handle table has run; `bad` = the sweep closed the objects while a received request
  could still be running (or could still register a handle afterwards).
  Actions (any interleaving = any schedule): a worker finishes one request; Serve executes its next step.
  `wg.Wait()` returns only when every worker has exited, i.e. the channel is closed and nothing is pending — otherwise
  the step is not enabled (Serve blocks).
  The order of the steps is read off the source by translator unit ServeShape (/verif/extract/round5.go).
-/
namespace Sftp.ServeTail

inductive Step where
  | closeChan     -- close(pktChan): lets the workers exit once the channel is drained
  | waitWorkers   -- wg.Wait()
  | waitReplies   -- pktMgr.wait()
  | sweep         -- the loop over openFiles / openRequests that closes what is still open
  | other         -- mu.Lock(), return err, allocator Free, cancel(): irrelevant for the order
  deriving DecidableEq, Repr

structure St where
  pending : Nat
  closed : Bool
  todo : List Step
  swept : Bool
  bad : Bool
  deriving DecidableEq, Repr

inductive Act where
  | workerDone
  | serve
  deriving DecidableEq, Repr

def step (s : St) : Act → Option St
  | .workerDone => if s.pending > 0 then some { s with pending := s.pending - 1 } else none
  | .serve =>
    match s.todo with
    | [] => none
    | .closeChan :: r => some { s with todo := r, closed := true }
    | .waitWorkers :: r => if s.pending = 0 ∧ s.closed = true then some { s with todo := r } else none
    | .sweep :: r => some { s with todo := r, swept := true, bad := s.bad || decide (s.pending > 0) }
    | _ :: r => some { s with todo := r }

def run (s : St) : List Act → Option St
  | [] => some s
  | a :: as =>
    match step s a with
    | some s' => run s' as
    | none => none

/-- Serve leaves its loop with `n` received requests unfinished -/
def init (n : Nat) (todo : List Step) : St := ⟨n, false, todo, false, false⟩

/-! ### reading the extracted statement kinds -/

/-- (statement kind of unit ServeShape) ↦ (deferred?, step) -/
def stepTable : List (String × (Bool × Step)) :=
  [("close(pktChan)", (false, .closeChan)), ("close(pktChan)@serveLoop", (false, .closeChan)),
   ("wg.Wait()", (false, .waitWorkers)), ("pktMgr.wait()", (false, .waitReplies)),
   ("sweep(openFiles)", (false, .sweep)), ("sweep(openRequests)", (false, .sweep)),
   ("defer close(pktChan)", (true, .closeChan)), ("defer wg.Wait()", (true, .waitWorkers)),
   ("defer pktMgr.wait()", (true, .waitReplies)),
   ("defer allocFree()", (true, .other)), ("defer cancel()", (true, .other)), ("defer mu.Unlock()", (true, .other)),
   ("mu.Lock()", (false, .other)), ("mu.Unlock()", (false, .other)), ("return err", (false, .other))]

def known (s : String) : Bool := (stepTable.lookup s).isSome

def parse (s : String) : Bool × Step := (stepTable.lookup s).getD (false, .other)

/-- execution order: the plain statements of the tail, then every deferred call (those registered before the loop and
those of the tail) in reverse order of registration -/
def execOrder (prefixDefers tail : List String) : List Step :=
  let all := (prefixDefers ++ tail).map parse
  ((tail.map parse).filter (fun p => !p.1)).map (·.2) ++ ((all.filter (fun p => p.1)).map (·.2)).reverse

/-- no sweep before the first wg.Wait() -/
def guarded : List Step → Bool
  | [] => true
  | .waitWorkers :: _ => true
  | .sweep :: _ => false
  | _ :: r => guarded r

/-- the channel is closed before the first wg.Wait() -/
def closesFirst : List Step → Bool
  | [] => true
  | .closeChan :: _ => true
  | .waitWorkers :: _ => false
  | _ :: r => closesFirst r

/-! ### safety: the sweep never overtakes a received request -/

structure Inv (s : St) : Prop where
  notBad : s.bad = false
  safe : s.pending = 0 ∨ guarded s.todo = true
  sweepDue : s.swept = true ∨ Step.sweep ∈ s.todo

theorem step_inv (s s' : St) (a : Act) (h : Inv s) (hs : step s a = some s') : Inv s' := by
  cases a with
  | workerDone =>
    simp only [step] at hs
    split at hs
    · cases hs
      refine ⟨h.notBad, ?_, h.sweepDue⟩
      rcases h.safe with h0 | hg
      · left; show s.pending - 1 = 0; omega
      · right; exact hg
    · cases hs
  | serve =>
    simp only [step] at hs
    split at hs
    · cases hs
    · rename_i r htodo
      cases hs
      refine ⟨h.notBad, ?_, ?_⟩
      · rcases h.safe with h0 | hg
        · left; exact h0
        · right; rw [htodo] at hg; simpa [guarded] using hg
      · rcases h.sweepDue with h1 | h1
        · left; exact h1
        · right; rw [htodo] at h1; simpa using h1
    · rename_i r htodo
      split at hs
      · rename_i hc
        cases hs
        refine ⟨h.notBad, Or.inl hc.1, ?_⟩
        rcases h.sweepDue with h1 | h1
        · left; exact h1
        · right; rw [htodo] at h1; simpa using h1
      · cases hs
    · rename_i r htodo
      cases hs
      have h0 : s.pending = 0 := by
        rcases h.safe with h0 | hg
        · exact h0
        · rw [htodo] at hg; simp [guarded] at hg
      refine ⟨?_, Or.inl h0, Or.inl rfl⟩
      show (s.bad || decide (s.pending > 0)) = false
      simp [h.notBad, h0]
    · rename_i st r hne1 hne2 hne3 htodo
      cases hs
      refine ⟨h.notBad, ?_, ?_⟩
      · rcases h.safe with h0 | hg
        · left; exact h0
        · right
          rw [htodo] at hg
          cases st with
          | closeChan => exact absurd rfl hne1
          | waitWorkers => exact absurd rfl hne2
          | sweep => exact absurd rfl hne3
          | waitReplies => simpa [guarded] using hg
          | other => simpa [guarded] using hg
      · rcases h.sweepDue with h1 | h1
        · left; exact h1
        · right
          rw [htodo] at h1
          cases st with
          | sweep => exact absurd rfl hne3
          | closeChan => simpa using h1
          | waitWorkers => simpa using h1
          | waitReplies => simpa using h1
          | other => simpa using h1

theorem run_inv (acts : List Act) : ∀ (s s' : St), Inv s → run s acts = some s' → Inv s' := by
  induction acts with
  | nil => intro s s' h hr; simp only [run] at hr; cases hr; exact h
  | cons a as ih =>
    intro s s' h hr
    simp only [run] at hr
    split at hr
    · rename_i s1 hs1
      exact ih s1 s' (step_inv s s1 a h hs1) hr
    · cases hr

/-- for every number of unfinished requests and EVERY schedule: if the steps have no sweep before the first wg.Wait()
and do contain a sweep, the sweep never runs while a received request is unfinished, and when Serve is through
(`todo = []`) the sweep has run -/
theorem sweep_safe (todo : List Step) (hg : guarded todo = true) (hs : Step.sweep ∈ todo)
    (n : Nat) (acts : List Act) (s' : St) (hr : run (init n todo) acts = some s') :
    s'.bad = false ∧ (s'.todo = [] → s'.swept = true) := by
  have h := run_inv acts (init n todo) s' ⟨rfl, Or.inr hg, Or.inr hs⟩ hr
  refine ⟨h.notBad, ?_⟩
  intro he
  rcases h.sweepDue with h1 | h1
  · exact h1
  · rw [he] at h1; cases h1

/-! ### progress: Serve is not blocked for ever -/

theorem run_append (a b : List Act) : ∀ (s : St), run s (a ++ b) = (run s a).bind (fun s1 => run s1 b) := by
  induction a with
  | nil => intro s; rfl
  | cons x xs ih =>
    intro s
    simp only [List.cons_append, run]
    cases step s x with
    | none => rfl
    | some s1 => exact ih s1

theorem run_workers (n : Nat) : ∀ (c : Bool) (todo : List Step) (sw b : Bool),
    run ⟨n, c, todo, sw, b⟩ (List.replicate n .workerDone) = some ⟨0, c, todo, sw, b⟩ := by
  induction n with
  | zero => intro c todo sw b; rfl
  | succ k ih =>
    intro c todo sw b
    simp only [List.replicate, run, step]
    simp only [Nat.succ_pos, if_true, Nat.add_sub_cancel]
    exact ih c todo sw b

theorem run_serve (todo : List Step) : ∀ (c sw b : Bool), (c = true ∨ closesFirst todo = true) →
    ∃ s', run ⟨0, c, todo, sw, b⟩ (List.replicate todo.length .serve) = some s' ∧ s'.todo = [] := by
  induction todo with
  | nil => intro c sw b _; exact ⟨_, rfl, rfl⟩
  | cons st r ih =>
    intro c sw b hc
    cases st with
    | closeChan =>
      simp only [List.length_cons, List.replicate, run, step]
      exact ih true sw b (Or.inl rfl)
    | waitWorkers =>
      have hc' : c = true := by
        rcases hc with h | h
        · exact h
        · simp [closesFirst] at h
      subst hc'
      simp only [List.length_cons, List.replicate, run, step]
      simp only [and_self, if_true]
      exact ih true sw b (Or.inl rfl)
    | waitReplies =>
      simp only [List.length_cons, List.replicate, run, step]
      exact ih c sw b (by simpa [closesFirst] using hc)
    | sweep =>
      simp only [List.length_cons, List.replicate, run, step]
      exact ih c true _ (by simpa [closesFirst] using hc)
    | other =>
      simp only [List.length_cons, List.replicate, run, step]
      exact ih c sw b (by simpa [closesFirst] using hc)

/-- if the channel is closed before the first wg.Wait(), the schedule "let the workers finish, then run Serve" completes -/
theorem can_complete (todo : List Step) (hc : closesFirst todo = true) (n : Nat) :
    ∃ s', run (init n todo) (List.replicate n .workerDone ++ List.replicate todo.length .serve) = some s' ∧ s'.todo = [] := by
  rw [run_append, init, run_workers]
  exact run_serve todo false false false (Or.inr hc)

end Sftp.ServeTail
