/-
  M-AttrConv: the VALUE conversions of the numeric file attributes (C17).

  SFTP v3 carries sizes as unsigned 64-bit, times as unsigned 32-bit seconds since the epoch and ids as unsigned
  32-bit numbers.  The Go code moves them between the wire (`FileStat` fields), `os.FileInfo` values and the
  arguments of the os calls through chains of integer conversions `T1(T2(… x …))`.  The fact extractor regenerates
  these chains from attrs.go / server.go / client.go (Generated/AttrConv.lean); this file gives them a meaning:
  a Go conversion between integer types wraps the mathematical value into the target type's range.
-/
namespace Sftp

/-- Go integer types (linux/amd64: int and uint are 64 bits wide — the target the extractor loads the package for) -/
inductive IntTy | u8 | u16 | u32 | u64 | uint | i8 | i16 | i32 | i64 | int
  deriving DecidableEq, Repr

namespace IntTy

/-- width in bits -/
def bits : IntTy → Nat
  | u8 | i8 => 8 | u16 | i16 => 16 | u32 | i32 => 32 | u64 | i64 | uint | int => 64

def signed : IntTy → Bool
  | i8 | i16 | i32 | i64 | int => true
  | _ => false

/-- smallest value -/
def lo (t : IntTy) : Int := if t.signed then -(2 ^ (t.bits - 1) : Nat) else 0
/-- one past the largest value -/
def hi (t : IntTy) : Int := if t.signed then (2 ^ (t.bits - 1) : Nat) else (2 ^ t.bits : Nat)

/-- the value of the Go conversion `T(x)` of an integer x: x modulo 2^bits, read in T's range -/
def wrap (t : IntTy) (x : Int) : Int := (x - t.lo) % (2 ^ t.bits : Nat) + t.lo

theorem hi_sub_lo (t : IntTy) : t.hi - t.lo = (2 ^ t.bits : Nat) := by
  cases t <;> simp [hi, lo, signed, bits]

/-- a conversion keeps every value of the target type -/
theorem wrap_id (t : IntTy) (x : Int) (h1 : t.lo ≤ x) (h2 : x < t.hi) : t.wrap x = x := by
  unfold wrap
  have h := hi_sub_lo t
  rw [Int.emod_eq_of_lt (by omega) (by omega)]
  omega

end IntTy

/-- one converted operand: `chain` applied (innermost first) to the operand `src` -/
structure ConvFact where
  src   : String
  chain : List IntTy
  /-- the source expression is exactly such a chain over a recognised operand (helper functions that are themselves
  chains over their parameter inlined); false: not recognised, `chain` means nothing -/
  ok    : Bool
  deriving DecidableEq, Repr

def applyChain (c : List IntTy) (x : Int) : Int := c.foldl (fun v t => t.wrap v) x

/-- the value the expression has when its operand has the value x (none: shape not recognised) -/
def ConvFact.eval (f : ConvFact) (x : Int) : Option Int := if f.ok then some (applyChain f.chain x) else none

/-- every type of the chain contains the interval [lo, hi) -/
def chainKeeps (c : List IntTy) (lo hi : Int) : Bool := c.all (fun t => decide (t.lo ≤ lo) && decide (hi ≤ t.hi))

theorem applyChain_id (c : List IntTy) (lo hi : Int) (hk : chainKeeps c lo hi = true) (x : Int)
    (h1 : lo ≤ x) (h2 : x < hi) : applyChain c x = x := by
  induction c generalizing x with
  | nil => rfl
  | cons t c ih =>
    unfold chainKeeps at hk
    rw [List.all_cons, Bool.and_eq_true, Bool.and_eq_true, decide_eq_true_eq, decide_eq_true_eq] at hk
    unfold applyChain
    rw [List.foldl_cons, IntTy.wrap_id t x (by omega) (by omega)]
    exact ih hk.2 x h1 h2

/-- a conversion fact that keeps every value of [lo, hi) -/
def ConvFact.keeps (f : ConvFact) (lo hi : Int) : Bool := f.ok && chainKeeps f.chain lo hi

theorem ConvFact.eval_id (f : ConvFact) (lo hi : Int) (hk : f.keeps lo hi = true) (x : Int)
    (h1 : lo ≤ x) (h2 : x < hi) : f.eval x = some x := by
  unfold ConvFact.keeps at hk
  rw [Bool.and_eq_true] at hk
  unfold ConvFact.eval
  rw [if_pos hk.1, applyChain_id f.chain lo hi hk.2 x h1 h2]

/-- `func (fs *FileStat) ModTime() time.Time { return time.Unix(sec, nsec) }` -/
structure TimeDecode where
  sec    : ConvFact
  nsec   : Int
  /-- the method body is that single return statement (no special cases, no other statements) -/
  single : Bool
  deriving DecidableEq, Repr

/-- the instant (seconds, nanoseconds since the epoch) the method returns for the wire value t -/
def TimeDecode.decode (d : TimeDecode) (t : Nat) : Option (Int × Int) :=
  if d.single then (d.sec.eval t).map (fun s => (s, d.nsec)) else none

/-- SFTP v3: the wire value t denotes the instant t seconds after the epoch — unsigned, no special values -/
def wireTimeToUnix (t : Nat) : Int := t

/-- the decidable shape fact: one return, nanoseconds 0, reads the given field, every conversion keeps [0, 2^32) -/
def TimeDecode.unsignedOf (d : TimeDecode) (field : String) : Bool :=
  d.single && d.nsec == 0 && d.sec.src == field && d.sec.keeps 0 4294967296

theorem TimeDecode.decode_of_unsigned (d : TimeDecode) (field : String) (h : d.unsignedOf field = true)
    (t : Nat) (ht : t < 2 ^ 32) : d.decode t = some (wireTimeToUnix t, 0) := by
  unfold TimeDecode.unsignedOf at h
  simp only [Bool.and_eq_true, beq_iff_eq] at h
  obtain ⟨⟨⟨h1, h2⟩, _⟩, h4⟩ := h
  unfold TimeDecode.decode wireTimeToUnix
  rw [if_pos h1, ConvFact.eval_id d.sec 0 4294967296 h4 t (by omega) (by omega), h2]
  rfl

/-! ### the attribute-applying calls of SETSTAT / FSETSTAT -/

/-- the attribute values a set-attributes request carries -/
structure WireAttrs where
  size : Nat
  uid : Nat
  gid : Nat
  atime : Nat
  mtime : Nat
  deriving Repr

/-- the value one argument of an applying call has: an integer (size, id) or an instant -/
inductive ArgVal
  | int (v : Int)
  | time (sec nsec : Int)
  | mode
  deriving DecidableEq, Repr

/-- value of the argument `a` (operands: fields and methods of the decoded `fs`) for the request's values -/
def argValue (acc mod : TimeDecode) (w : WireAttrs) (a : ConvFact) : Option ArgVal :=
  if a.src = "Size" then (a.eval w.size).map .int
  else if a.src = "UID" then (a.eval w.uid).map .int
  else if a.src = "GID" then (a.eval w.gid).map .int
  else if a.src = "AccessTime()" then
    (if a.ok && a.chain.isEmpty then acc.decode w.atime else none).map (fun p => .time p.1 p.2)
  else if a.src = "ModTime()" then
    (if a.ok && a.chain.isEmpty then mod.decode w.mtime else none).map (fun p => .time p.1 p.2)
  else if a.src = "FileMode()" then (if a.ok && a.chain.isEmpty then some .mode else none)
  else none

/-- all elements present -/
def allSome {α : Type} : List (Option α) → Option (List α)
  | [] => some []
  | none :: _ => none
  | some a :: r => (allSome r).map (a :: ·)

/-- the calls a request with `flags` makes (when none fails), each with the values of its arguments -/
def appliedCalls (steps : List (Nat × String × List ConvFact)) (acc mod : TimeDecode) (flags : Nat) (w : WireAttrs) :
    List (String × Option (List ArgVal)) :=
  (steps.filter (fun s => flags &&& s.1 != 0)).map (fun s => (s.2.1, allSome (s.2.2.map (argValue acc mod w))))

end Sftp
