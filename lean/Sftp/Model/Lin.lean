import Sftp.Prim
/-
  M-Lin: histories of single-packet reads/writes/size queries on one file, the sequential
  specification `SeqFile`, linearizability, and an executable checker for *stamped* traces
  (property C15).

  A stamped trace is what the Go harness records: every completed client operation with its call
  and return instants and its observed result, plus the global sequence number that the backing
  store gave to the (atomic) ReadAt/WriteAt/Stat step of that operation.
-/
namespace Sftp.C15
open Sftp

/-! ### sequential specification of a plain file -/

inductive Op where
  | read (off len : Nat)
  | write (off : Nat) (data : Bytes)
  | size
  deriving DecidableEq, Repr

inductive Res where
  | bytes (b : Bytes)
  | unit
  | size (n : Nat)
  deriving DecidableEq, Repr

/-- `SeqFile`: the effect of one operation on the file contents and its result.
A write past the end zero-fills the gap (plain-file semantics); inside the extent nothing is padded. -/
def apply (f : Bytes) : Op → Bytes × Res
  | .read off len => (f, .bytes ((f.drop off).take len))
  | .write off data =>
    let g := f ++ List.replicate (off - f.length) 0
    (g.take off ++ data ++ g.drop (off + data.length), .unit)
  | .size => (f, .size f.length)

/-- the operation lies within a file of `size` bytes. -/
def withinExtent (size : Nat) : Op → Bool
  | .read off len => off + len ≤ size
  | .write off data => off + data.length ≤ size
  | .size => true

/-! ### histories -/

/-- one completed operation as the client saw it. -/
structure Event where
  op : Op
  res : Res
  call : Nat
  ret : Nat
  deriving DecidableEq, Repr

/-- replaying `ord` sequentially from contents `f` yields exactly the observed results. -/
def replayOk (f : Bytes) : List Event → Bool
  | [] => true
  | e :: es => (apply f e.op).2 == e.res && replayOk (apply f e.op).1 es

/-- contents after replaying. -/
def replayFile (f : Bytes) : List Event → Bytes
  | [] => f
  | e :: es => replayFile (apply f e.op).1 es

/-- `ord` respects real time: nothing is ordered before an operation that had already returned
when it was called. -/
def RespectsRT (ord : List Event) : Prop :=
  ord.Pairwise (fun a b => ¬ b.ret < a.call)

/-- The history `h` (a multiset of completed operations) is linearizable w.r.t. `SeqFile` from `init`. -/
def Linearizable (h : List Event) (init : Bytes) : Prop :=
  ∃ ord : List Event, ord.Perm h ∧ RespectsRT ord ∧ replayOk init ord = true

/-! ### stamped traces and the checker -/

structure SEvent where
  ev : Event
  /-- instant (global sequence number) of the atomic store step of this operation. -/
  stamp : Nat
  deriving DecidableEq, Repr

def insertByStamp (x : SEvent) : List SEvent → List SEvent
  | [] => [x]
  | y :: ys => if x.stamp ≤ y.stamp then x :: y :: ys else y :: insertByStamp x ys

/-- insertion sort by stamp (structural, so it evaluates in the kernel; linear on sorted input). -/
def sortByStamp : List SEvent → List SEvent
  | [] => []
  | x :: xs => insertByStamp x (sortByStamp xs)

/-- adjacent stamps strictly increase. -/
def strictlyIncreasing : List SEvent → Bool
  | [] => true
  | [_] => true
  | a :: b :: rest => a.stamp < b.stamp && strictlyIncreasing (b :: rest)

def stampInside (e : SEvent) : Bool := e.ev.call < e.stamp && e.stamp < e.ev.ret

/-- The trace checker: every stamp lies strictly inside its operation's interval, stamps are
pairwise distinct, every operation is within the file's extent, and replaying the operations in
stamp order through `SeqFile` gives exactly the observed results. -/
def checkStamped (init : Bytes) (hs : List SEvent) : Bool :=
  hs.all stampInside &&
  hs.all (fun e => withinExtent init.length e.ev.op) &&
  strictlyIncreasing (sortByStamp hs) &&
  replayOk init ((sortByStamp hs).map (·.ev))

/-! ### diagnosis (not part of the proved path: only used to explain a `false`) -/

def findIdx (p : SEvent → Bool) : List SEvent → Nat → Option Nat
  | [], _ => none
  | e :: es, i => if p e then some i else findIdx p es (i + 1)

/-- first position in stamp order where the replay disagrees; returns the stamp. -/
def firstMismatch (f : Bytes) : List SEvent → Option Nat
  | [] => none
  | e :: es => if (apply f e.ev.op).2 == e.ev.res then firstMismatch (apply f e.ev.op).1 es else some e.stamp

def firstDupStamp : List SEvent → Option Nat
  | [] => none
  | [_] => none
  | a :: b :: rest => if a.stamp < b.stamp then firstDupStamp (b :: rest) else some b.stamp

/-- reason and index (position in the input) of the first violated clause. -/
def diagnose (init : Bytes) (hs : List SEvent) : String × Nat :=
  match findIdx (fun e => !stampInside e) hs 0 with
  | some i => ("stamp-outside", i)
  | none =>
    match findIdx (fun e => !withinExtent init.length e.ev.op) hs 0 with
    | some i => ("extent", i)
    | none =>
      match firstDupStamp (sortByStamp hs) with
      | some st => ("dup-stamp", (findIdx (fun e => e.stamp == st) hs 0).getD 0)
      | none =>
        match firstMismatch init (sortByStamp hs) with
        | some st => ("result", (findIdx (fun e => e.stamp == st) hs 0).getD 0)
        | none => ("unknown", 0)

end Sftp.C15
