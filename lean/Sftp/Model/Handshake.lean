import Sftp.Prim
/-
  M-Handshake (C19): `Client.recvVersion` over the bytes of the server's answer, the extension map the client
  keeps, and `SetSFTPExtensions` over name lists.
-/
namespace Sftp.Handshake
open Sftp

/-- facts of `Client.recvVersion` (client.go) the model depends on -/
structure Cfg where
  /-- `if typ != sshFxpVersion { return &unexpectedPacketErr… }` -/
  versionTyp : Nat
  /-- `unmarshalUint32Safe` with the error returned (false: the unchecked variant) -/
  versionSafe : Bool
  /-- the operator of `if version <op> sftpProtocolVersion { return &unexpectedVersionErr… }` -/
  reject : String
  version : Nat
  deriving Repr, DecidableEq

def Cfg.current : Cfg := ⟨2, true, "!=", 3⟩

def rejects (op : String) (v k : Nat) : Bool :=
  if op = "!=" then v != k
  else if op = "<" then decide (v < k)
  else if op = ">" then decide (v > k)
  else if op = "<=" then decide (v ≤ k)
  else if op = ">=" then decide (v ≥ k)
  else if op = "==" then v == k
  else true

abbrev Pair := Bytes × Bytes

/-- `for len(data) > 0 { ext, data, err = unmarshalExtensionPair(data); … }`: `none` for a short packet.
The fuel is the length of the input (every pair consumes at least 8 bytes). -/
def parsePairs : Nat → Bytes → Option (List Pair)
  | 0, b => if b.isEmpty then some [] else none
  | fuel + 1, b =>
    if b.isEmpty then some [] else
    (getStr? b).bind fun nb =>
      (getStr? nb.2).bind fun db =>
        (parsePairs fuel db.2).map fun ps => (nb.1, db.1) :: ps

/-- `c.ext[name] = data` on an association list -/
def insert : List Pair → Bytes → Bytes → List Pair
  | [], k, v => [(k, v)]
  | (k', v') :: r, k, v => if k' = k then (k, v) :: r else (k', v') :: insert r k v

/-- `HasExtension` -/
def get : List Pair → Bytes → Option Bytes
  | [], _ => none
  | (k', v') :: r, k => if k' = k then some v' else get r k

def store (ps : List Pair) : List Pair := ps.foldl (fun m p => insert m p.1 p.2) []

/-- `Client.recvVersion` after `recvPacket` delivered `(typ, data)`: the extension map, or an error. -/
def recvVersion (cfg : Cfg) (typ : Nat) (data : Bytes) : Outcome (List Pair) :=
  if typ ≠ cfg.versionTyp then .err "type"
  else
    (if cfg.versionSafe then goU32Safe data else goU32 data).bind fun vr =>
      if rejects cfg.reject vr.1 cfg.version then .err "version"
      else match parsePairs vr.2.length vr.2 with
        | some ps => .ok (store ps)
        | none => .err shortPacket

/-! ### the server side -/

/-- what `sshFxVersionPacket.MarshalBinary` puts after the type byte -/
def encodePairs : List Pair → Bytes
  | [] => []
  | p :: r => putStr p.1 ++ putStr p.2 ++ encodePairs r

def versionBody (version : Nat) (exts : List Pair) : Bytes := be32 version ++ encodePairs exts

def WellSized (ps : List Pair) : Prop := ∀ p ∈ ps, p.1.length < 2^32 ∧ p.2.length < 2^32

/-- the value a client finds for `name` when the server listed `ps`: the last pair with that name -/
def lastWins : List Pair → Bytes → Option Bytes
  | [], _ => none
  | p :: r, k =>
    match lastWins r k with
    | some v => some v
    | none => if p.1 = k then some p.2 else none

/-! ### SetSFTPExtensions -/

/-- `SetSFTPExtensions(names…)` on the package state `cur`: `assignInLoop = false` is today's shape
(validate everything into a temporary slice, then assign); `true` models an assignment inside the loop. -/
def setExtLoop (assignInLoop : Bool) (supported : List (String × String)) :
    List String → List (String × String) → List (String × String) → Option String × List (String × String)
  | [], temp, cur => (none, if assignInLoop then cur else temp)
  | n :: rest, temp, cur =>
    match supported.find? (fun p => p.1 == n) with
    | none => (some ("unsupported extension: " ++ n), cur)
    | some p =>
      let temp' := temp ++ [p]
      setExtLoop assignInLoop supported rest temp' (if assignInLoop then temp' else cur)

/-- returns the error (if any) and the new value of `sftpExtensions` -/
def setExtensions (assignInLoop : Bool) (supported cur : List (String × String)) (names : List String) :
    Option String × List (String × String) :=
  setExtLoop assignInLoop supported names [] cur

end Sftp.Handshake
