import Sftp.Model.Pipe
import Sftp.Model.Lin
/-
  M-PipeLin: the request pipeline (Model/Pipe.lean) running over an ATOMIC store, instrumented with a ghost log,
  and the history (in the sense of Model/Lin.lean) that an execution produces.  Used by C15
  (`pipeline_has_lin_points`, Props/C15Pipe.lean).

  The pipeline model knows a request only by order id (arrival number), request id and kind.  What a request
  does to the file under observation is therefore a parameter: `ops o` is the file operation carried by the o-th
  request received (`none` = the request is not an operation on that file: OPEN, CLOSE, an operation on another
  file …).  Nothing is assumed about `ops`; in particular it need not agree with the kind (a size query = FSTAT
  is a command-worker request, READ/WRITE are pool requests).  The order id, not the SFTP request id, identifies
  a request: clients may reuse request ids, the arrival number is unique.

  Atomic store (the premise of C15): the file is one value `Log.file`; the operation of a request is applied to it
  in ONE step, at the action at which the request's handler returns (`workerHandle i` / `cmdHandle`, the
  linearisation convention of Model/Pipe.lean), and the result computed there is the result the client sees.

  The log is computed from the state differences of each step, not from the action label: at the k-th action
  (0-based) of the schedule
    * every request that `received` gained is logged as received at k  (call instant),
    * every order id that `handled` gained is logged as handled at k, the store step is taken  (stamp),
    * every response that `sent` gained is logged as sent at k  (return instant).
  That these really are the `recv`, the `workerHandle/cmdHandle` and the controller actions of the schedule is
  proved (`LogInv.recvIs/handIs/sendIs`), not assumed.
-/
namespace Sftp.C15Pipe
open Sftp Sftp.Pipe Sftp.C15

/-- one handler return: whose, at which action index, and (if the request is a file operation) the operation
with the result the atomic store produced. -/
structure HEntry where
  oid : Nat
  idx : Nat
  eff : Option (Op × Res)
  deriving DecidableEq, Repr

structure Log where
  /-- (order id, index of the action at which the request was received) -/
  recvAt : List (Nat × Nat) := []
  /-- handler returns, in action order -/
  handleAt : List HEntry := []
  /-- (order id, index of the action at which the response was written to the connection) -/
  sendAt : List (Nat × Nat) := []
  /-- contents of the file -/
  file : Bytes
  deriving DecidableEq, Repr

/-- the store step of request `o` on contents `f`. -/
def fileStep (ops : Nat → Option Op) (f : Bytes) (o : Nat) : Bytes :=
  match ops o with
  | none => f
  | some op => (apply f op).1

/-- operation and result of request `o` when its store step is taken on contents `f`. -/
def effAt (ops : Nat → Option Op) (f : Bytes) (o : Nat) : Option (Op × Res) :=
  (ops o).map fun op => (op, (apply f op).2)

/-- the handlers of `os` return (in this order) at action `k`. -/
def applyHandled (ops : Nat → Option Op) (k : Nat) : Bytes → List Nat → List HEntry × Bytes
  | f, [] => ([], f)
  | f, o :: os =>
    let t := applyHandled ops k (fileStep ops f o) os
    (⟨o, k, effAt ops f o⟩ :: t.1, t.2)

/-- what the k-th action, which took the pipeline from `s` to `s'`, adds to the log. -/
def logStep (ops : Nat → Option Op) (k : Nat) (s s' : State) (l : Log) : Log :=
  let t := applyHandled ops k l.file (s'.handled.drop s.handled.length)
  { recvAt := l.recvAt ++ (s'.received.drop s.received.length).map (fun r => (r.oid, k)),
    handleAt := l.handleAt ++ t.1,
    sendAt := l.sendAt ++ (s'.sent.drop s.sent.length).map (fun p => (p.oid, k)),
    file := t.2 }

/-- `Pipe.run` with the log; `k` is the index of the next action. -/
def runLog (cfg : PipeCfg) (ops : Nat → Option Op) : Nat → State → Log → List Action → Option (State × Log)
  | _, s, l, [] => some (s, l)
  | k, s, l, a :: as =>
    match step cfg s a with
    | none => none
    | some s' => runLog cfg ops (k + 1) s' (logStep ops k s s' l) as

/-- the instrumented execution of a schedule from the initial state over a file with contents `f0`. -/
def exec (cfg : PipeCfg) (ops : Nat → Option Op) (f0 : Bytes) (as : List Action) : Option (State × Log) :=
  runLog cfg ops 0 (init cfg) { file := f0 } as

/-- the log of a schedule (the empty log if the schedule is not accepted by the model). -/
def logOf (cfg : PipeCfg) (ops : Nat → Option Op) (f0 : Bytes) (as : List Action) : Log :=
  match exec cfg ops f0 as with
  | some (_, l) => l
  | none => { file := f0 }

/-! ### the three instants of a request -/

/-- index of the action at which request `o` was received (call). -/
def recvIdx (l : Log) (o : Nat) : Option Nat := l.recvAt.lookup o

/-- index of the action at which the handler of request `o` returned (linearisation stamp). -/
def stampIdx (l : Log) (o : Nat) : Option Nat := (l.handleAt.find? (fun e => e.oid == o)).map (·.idx)

/-- index of the action at which the response to request `o` was sent (return). -/
def sendIdx (l : Log) (o : Nat) : Option Nat := l.sendAt.lookup o

/-! ### the history of an execution -/

/-- The client-side event of a handler return: the operation, the result produced by the store, called when the
request was received, returned when the response was sent.  A request that has been handled but whose response
is still inside the server is PENDING; it is completed with a return at the horizon `n` (the length of the
schedule, i.e. later than every action), which is the completion Herlihy–Wing linearizability allows for pending
invocations that have taken effect.  Requests that are not file operations give no event. -/
def eventOf (n : Nat) (l : Log) (e : HEntry) : Option SEvent :=
  e.eff.map fun x => ⟨⟨x.1, x.2, (recvIdx l e.oid).getD 0, (sendIdx l e.oid).getD n⟩, e.idx⟩

/-- stamped history of the execution: one event per handled file operation, pending ones completed at `n`. -/
def stamped (n : Nat) (l : Log) : List SEvent := l.handleAt.filterMap (eventOf n l)

/-- the history (Model/Lin.lean) of the execution. -/
def history (n : Nat) (l : Log) : List Event := (stamped n l).map (·.ev)

/-- the operations whose response has left the server, with exactly the observed instants. -/
def completedStamped (l : Log) : List SEvent :=
  (l.handleAt.filter (fun e => (sendIdx l e.oid).isSome)).filterMap (eventOf 0 l)

def completedHistory (l : Log) : List Event := (completedStamped l).map (·.ev)

/-- the handled operations whose response has not been sent, completed at `n`. -/
def pendingStamped (n : Nat) (l : Log) : List SEvent :=
  (l.handleAt.filter (fun e => !(sendIdx l e.oid).isSome)).filterMap (eventOf n l)

/-- every handled request has been answered (a quiescent point as far as the store is concerned). -/
def allAnswered (l : Log) : Bool := l.handleAt.all (fun e => (sendIdx l e.oid).isSome)

end Sftp.C15Pipe
