/-
  M-Mode: interpreter for the bit-mapping functions of stat.go / client.go
  (`toFileMode`, `fromFileMode`, `toChmodPerm`), whose switch tables are
  regenerated from the source on every run (Generated/Mode.lean).
  All arithmetic is over `Nat`; every input the theorems quantify over is
  below 2^32, where `Nat` bit operations coincide with Go's `uint32`.
-/
namespace Sftp

structure BitMap where
  initMask : Nat
  switchMask : Nat
  cases : List (Nat × Nat)
  ifs : List (Nat × Nat)
  deriving Repr

/-- `out := in & initMask; switch in & switchMask {case k: out |= v}; if in&t != 0 {out |= v}…` -/
def BitMap.apply (bm : BitMap) (m : Nat) : Nat :=
  let base := m &&& bm.initMask
  let sw := match bm.cases.lookup (m &&& bm.switchMask) with
    | some v => v
    | none => 0
  bm.ifs.foldl (fun acc tb => if m &&& tb.1 ≠ 0 then acc ||| tb.2 else acc) (base ||| sw)

end Sftp
