/-
  M-HandleTail: one request going through the big type switch of a server's packet handler (server.go `handlePacket`,
  request-server.go `(*RequestServer).packetWorker`).

  The body of the case that serves the request either falls out of the switch — then the common tail runs, and the tail
  is the ONLY place where a reply is queued (`pktMgr.readyPacket(pktMgr.newOrderedResponse(rpkt, orderID))`) — or it
  leaves the function / the loop iteration at one of its early exits (a `return`, `continue`, `goto`, panic …): then the
  tail is skipped.  A request is answered iff the tail is reached.
  Which cases have early exits and what the tail does is read off the source by translator unit HandleTail
  (/verif/extract/round6.go).
-/
namespace Sftp.HandleTail

/-- a row of the generated table: (packet types of the case, number of early exits in its body, is the response
variable assigned on every path) -/
abbrev Row := String × Nat × String

/-- one execution of a case body: it falls out of the switch, or it takes its k-th early exit -/
inductive Path where
  | fallsOut
  | leavesAt (k : Nat)
  deriving DecidableEq, Repr

/-- the path exists in a body with `exits` early exits -/
def Path.valid (exits : Nat) : Path → Bool
  | .fallsOut => true
  | .leavesAt k => decide (k < exits)

/-- replies queued for the request on this path -/
def replies (tailQueues : Bool) : Path → Nat
  | .fallsOut => if tailQueues then 1 else 0
  | .leavesAt _ => 0

/-- the table says: no case but `default` has an early exit -/
def noEarlyExit (rows : List Row) : Bool :=
  rows.all (fun r => r.1 == "default" || r.2.1 == 0)

/-- every case but `default` leaves the response variable assigned -/
def alwaysAssigns (rows : List Row) : Bool :=
  rows.all (fun r => r.1 == "default" || r.2.2 == "always" || r.2.2 == "ok-or-err")

/-- with no early exit in the case and a tail that queues the reply, every path yields exactly one reply -/
theorem one_reply (rows : List Row) (tailQueues : Bool) (hq : tailQueues = true) (hn : noEarlyExit rows = true)
    (r : Row) (hr : r ∈ rows) (hd : r.1 ≠ "default") (p : Path) (hv : p.valid r.2.1 = true) :
    replies tailQueues p = 1 := by
  have h0 : r.2.1 = 0 := by
    have := List.all_eq_true.mp hn r hr
    simp only [Bool.or_eq_true, beq_iff_eq] at this
    rcases this with h | h
    · exact absurd h hd
    · exact h
  cases p with
  | fallsOut => simp [replies, hq]
  | leavesAt k =>
    rw [h0] at hv
    simp [Path.valid] at hv

/-- a case with an early exit has a path with no reply at all -/
theorem early_exit_unanswered (tailQueues : Bool) (exits : Nat) (h : 0 < exits) :
    ∃ p : Path, p.valid exits = true ∧ replies tailQueues p = 0 :=
  ⟨.leavesAt 0, by simp [Path.valid, h], rfl⟩

end Sftp.HandleTail
