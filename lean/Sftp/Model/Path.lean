import Sftp.Prim
/-
  M-Path: Go's `path.Clean`, `path.Join`, `path.IsAbs` and pkg/sftp's
  `cleanPathWithBase` / `cleanPath` (request-server.go) on byte strings.

  `path.Clean` (and, on Linux, `filepath.Clean`, which is the same algorithm with
  `Separator = '/'`, no volume names and `ToSlash`/`FromSlash` the identity) is modelled
  by its result semantics: the input is cut at every '/', the components are folded
  over an output stack (`push` = one iteration of the `for r < n` loop of Clean;
  the lazybuf indices `w`/`dotdot` are represented by the stack itself: `w > dotdot`
  iff the stack is non-empty and its top is not a ".." that was appended by the
  "cannot backtrack, not rooted" case), and the stack is joined with single slashes.

  Strings are `Bytes`: Go strings are byte sequences and Clean works bytewise, so
  non-UTF-8 input is covered.
-/
namespace Sftp.Path

def slash : UInt8 := 47
def dot : UInt8 := 46

/-- `strings.Split(s, "/")`: cut at every '/'. Never returns `[]`. -/
def split : Bytes → List Bytes
  | [] => [[]]
  | c :: cs =>
    if c = slash then [] :: split cs
    else match split cs with
      | [] => [[c]]          -- unreachable (`split_ne_nil`)
      | s :: ss => (c :: s) :: ss

/-- `strings.Join(segs, "/")`. -/
def join : List Bytes → Bytes
  | [] => []
  | [s] => s
  | s :: s' :: ss => s ++ slash :: join (s' :: ss)

/-- The non-empty '/'-separated components of a path. -/
def components (p : Bytes) : List Bytes := (split p).filter (fun s => s ≠ [])

def isDot (s : Bytes) : Bool := s == [dot]
def isDotDot (s : Bytes) : Bool := s == [dot, dot]

/-- One iteration of Clean's loop on the component `seg`; `st` is the output written so far,
    as a list of components (top of stack = last). -/
def push (rooted : Bool) (st : List Bytes) (seg : Bytes) : List Bytes :=
  if seg = [] || isDot seg then st                         -- empty element, "." element
  else if isDotDot seg then
    match st.getLast? with
    | some top => if isDotDot top then st ++ [seg]          -- w == dotdot, !rooted: append ".."
                  else st.dropLast                          -- w > dotdot: backtrack
    | none => if rooted then st else st ++ [seg]            -- w == dotdot (== 0 or 1)
  else st ++ [seg]                                          -- real path element

/-- `path.IsAbs`. -/
def isAbs (p : Bytes) : Bool := p.head? = some slash

/-- `path.Clean` (= `filepath.Clean` on Linux). -/
def clean (p : Bytes) : Bytes :=
  if p = [] then [dot] else
  let rooted := isAbs p
  let st := (split p).foldl (push rooted) []
  if rooted then slash :: join st
  else if st = [] then [dot] else join st

/-- `path.Join(a, b)`: empty elements are ignored, the rest is joined with '/' and Cleaned;
    all empty gives "". -/
def join2 (a b : Bytes) : Bytes :=
  if a = [] then (if b = [] then [] else clean b)
  else if b = [] then clean a
  else clean (a ++ slash :: b)

/-- `cleanPathWithBase(base, p)`. -/
def withBase (base p : Bytes) : Bytes :=
  let c := clean p                      -- filepath.ToSlash(filepath.Clean(p))
  if isAbs c then c else join2 base c

/-- `cleanPath(p)`. -/
def cleanPath (p : Bytes) : Bytes := withBase [slash] p

/-- A component that Clean keeps verbatim: not empty, not ".", not "..". -/
def normalSeg (s : Bytes) : Bool := s != [] && s != [dot] && s != [dot, dot]

/-- Absolute and lexically clean: starts with '/', and is either "/" itself or what follows the
    first '/' is a '/'-separated sequence of components none of which is empty (so no "//" and no
    trailing '/'), "." or "..". -/
def absClean : Bytes → Bool
  | [] => false
  | c :: rest => c == slash && (rest == [] || (split rest).all normalSeg)

def AbsClean (s : Bytes) : Prop := absClean s = true

instance (s : Bytes) : Decidable (AbsClean s) := inferInstanceAs (Decidable (absClean s = true))

/-- How a handler places the (absolute, clean) request path `q` under a directory `root`:
    plain concatenation, except that a "/" on either side contributes nothing.
    `Sftp.C10.confined` shows this equals `path.Join(root, q)` for AbsClean arguments. -/
def under (root q : Bytes) : Bytes :=
  if q = [slash] then root else if root = [slash] then q else root ++ q

end Sftp.Path
