import Sftp.Model.Err
import Sftp.Generated.ErrTables
namespace Sftp
open Sftp.Err

/-- errno names of a `case` of translateErrno ↦ their (linux) values, through `G.errnoValues`. -/
def G.errnoResolve (names : List String) : List Nat := names.filterMap (fun n => G.errnoValues.lookup n)

/-- The error tables of the source as it is now (Generated/ErrTables.lean). -/
def G.errCfg : ErrCfg :=
  { tests := (parseTests G.statusFromErrorTests).getD [],
    errnoCases := G.translateErrnoCases.map (fun c => (G.errnoResolve c.1, c.2)),
    errnoDefault := G.translateErrnoDefault,
    syscallShapes := G.translateSyscallErrorShapes }

def G.normCfg : NormCfg :=
  { cases := (parseNCases G.normaliseErrorCases).getD [],
    dflt := (parseNRes G.normaliseErrorDefault).getD .same }

/-- every generated row was understood by the parsers above (no `getD` default was used), every errno name has a
value, and normaliseError leaves non-status errors alone. -/
def G.errTablesUnderstood : Bool :=
  (parseTests G.statusFromErrorTests).isSome && (parseNCases G.normaliseErrorCases).isSome &&
  (parseNRes G.normaliseErrorDefault).isSome &&
  G.translateErrnoCases.all (fun c => c.1.all (fun n => (G.errnoValues.lookup n).isSome)) &&
  G.normaliseErrorNonStatus == "same"

end Sftp
