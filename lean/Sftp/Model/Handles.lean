import Sftp.Prim
/-
  M-Handles (property C11): the handle table of a server session and the release of what it refers to.

  Go source modelled
  * server.go          nextHandle (`handleCount++; strconv.Itoa`), getHandle, closeHandle (delete, then
                       Close; EBADF if absent), the sweep at the end of Serve (closes every file left,
                       does NOT delete the map entries), READ / WRITE / READDIR (`getHandle`, then the
                       file's own ReadAt / WriteAt / Readdir whatever the file is)
  * request-server.go  nextRequest, getRequest, closeRequest (delete, then `r.close()`), packetWorker's
                       Open/Opendir cases (handle allocated BEFORE the handler is asked; on a non-HANDLE
                       reply `rs.closeRequest(handle)`), packetWorker's `hasHandle` case (getRequest, then
                       `request.servesPacket(pkt)`, then `request.call`), Serve's final sweep
                       (`transferError(err)`, `delete`, `close` for every remaining request)
  * request.go         Request.close (closes lister / writer / rw / reader if set, then cancels ctx),
                       Request.transferError (tells writer / rw / reader — never the ListerAt),
                       Request.servesPacket (READ through Get/Open, WRITE through Put/Open, READDIR
                       through List handles only)

  Handles are the NUMBERS before `strconv.Itoa`; that `strconv.Itoa` is injective is the one trusted fact
  (two handle strings are equal iff the numbers are).  A client naming a string that is not the decimal
  form of a number is a `use`/`close` of a number that was never issued.

  Every `open`/`opendir` creates an OBJECT (the *Request with its context, and the reader / writer /
  reader-writer / lister the handler returned; for the os-backed server the *os.File opened read-only /
  write-only / read-write / as a directory).  An object has a KIND and records how many times it was
  closed, notified of a transfer error, had its context cancelled, and was used through a handle.
  A failed open on the request server creates a PLACEHOLDER object: the *Request was registered, but no
  reader/writer/lister was ever set, so `Request.close` only cancels the context.

  All table operations run under the server's mutex, so each action is atomic.  `use` models a
  handle-bearing request that fits every handle (FSTAT, FSETSTAT) and `useAs h need` one that needs a
  particular kind of handle (READ, WRITE, READDIR) as lookup (+ kind check) + call in one step: the
  property is about what a client that has seen the reply to CLOSE can observe.

  After the sweep Serve has returned: no request is processed any more (`step = none`, the driver's
  `blocked`), whether or not the sweep also emptied the table.
-/
namespace Sftp.Handles
open Sftp

/-- What stands behind a handle. -/
inductive Kind where
  /-- request server: `io.ReaderAt` of Fileread (Method "Get"); os-backed: file opened O_RDONLY. -/
  | reader
  /-- request server: `io.WriterAt` of Filewrite (Method "Put"); os-backed: file opened O_WRONLY. -/
  | writer
  /-- request server: `WriterAtReaderAt` of OpenFile (Method "Open"); os-backed: file opened O_RDWR. -/
  | readerWriter
  /-- request server: `ListerAt` of Filelist (Method "List"); os-backed: an opened directory. -/
  | lister
  /-- the *Request of a failed open / opendir: nothing to close, nothing to notify. -/
  | placeholder
  deriving Repr, DecidableEq

def Kind.all : List Kind := [.reader, .writer, .readerWriter, .lister, .placeholder]

/-- The objects that take part in a transfer (the ones `Request.transferError` looks at). -/
def Kind.isTransfer : Kind → Bool
  | .reader | .writer | .readerWriter => true
  | .lister | .placeholder => false

/-- What a handle-bearing request needs of its handle. -/
inductive Need where
  /-- SSH_FXP_READ -/
  | read
  /-- SSH_FXP_WRITE -/
  | write
  /-- SSH_FXP_READDIR -/
  | readdir
  deriving Repr, DecidableEq

/-- `Request.servesPacket` (request.go:305-315), read off the object instead of `r.Method`
("Get" ↔ reader, "Put" ↔ writer, "Open" ↔ readerWriter, "List" ↔ lister).  For the os-backed server:
the requests the file itself can serve (ReadAt needs a file open for reading, WriteAt one open for
writing, Readdir a directory).  A placeholder is only ever in the table when `closeOnFailedOpen` is
off; it is treated like by `use` (nothing stands behind it). -/
def fits : Need → Kind → Bool
  | .read, .reader | .read, .readerWriter => true
  | .write, .writer | .write, .readerWriter => true
  | .readdir, .lister => true
  | _, .placeholder => true
  | _, _ => false

/-- Facts of the Go source that a mutation could change. -/
structure Cfg where
  /-- closeHandle / closeRequest delete the table entry. -/
  deleteOnClose : Bool
  /-- packetWorker: `rs.closeRequest(handle)` when open / opendir did not answer with a HANDLE. -/
  closeOnFailedOpen : Bool
  /-- the loop at the end of Serve closes every entry left (`req.close()` request-server.go:217,
      `file.Close()` server.go:424). -/
  sweepClosesAll : Bool
  /-- request server: `req.transferError(err)` in the final sweep (request-server.go:214; the os-backed
      server has none). -/
  sweepNotifiesTransferError : Bool
  /-- the counter is only ever incremented (`handleCount++` is its only assignment). -/
  counterMonotone : Bool
  /-- request server: the handle is allocated before the handler is asked (`true`);
      os-backed server: `os.OpenFile` first, `nextHandle` only on success (`false`). -/
  allocBeforeOpen : Bool
  /-- the loop at the end of Serve also removes the entries it closes
      (`delete(rs.openRequests, handle)` request-server.go:216: `true`; server.go:422-425 has no
      `delete(svr.openFiles, handle)`: `false`). -/
  sweepEmptiesTable : Bool := true
  /-- the kinds of object `Request.transferError` notifies (request.go:289 `wr.(TransferError)` → writer,
      :293 `rw.(TransferError)` → readerWriter, :297 `rd.(TransferError)` → reader; no line for
      `r.state.listerAt`). -/
  notifyKinds : List Kind := [.reader, .writer, .readerWriter]
  /-- a READ / WRITE / READDIR that does not fit the kind of its (live) handle is refused before the
      object is called (`else if !request.servesPacket(pkt)` request-server.go:321 in front of
      `request.call`: `true`; server.go:329-333, 349-352, 529-534 call `f.ReadAt` / `f.WriteAt` /
      `f.Readdir` right after `getHandle`: `false`). -/
  useKindChecked : Bool := true
  deriving Repr, DecidableEq

def Cfg.notifies (cfg : Cfg) (k : Kind) : Bool := cfg.notifyKinds.contains k

/-- The request server today. -/
def Cfg.current : Cfg :=
  { deleteOnClose := true, closeOnFailedOpen := true, sweepClosesAll := true,
    sweepNotifiesTransferError := true, counterMonotone := true, allocBeforeOpen := true,
    sweepEmptiesTable := true, notifyKinds := [.reader, .writer, .readerWriter], useKindChecked := true }

/-- The os-backed server today. -/
def Cfg.currentOs : Cfg :=
  { Cfg.current with sweepNotifiesTransferError := false, allocBeforeOpen := false,
                     sweepEmptiesTable := false, notifyKinds := [], useKindChecked := false }

/-! All nine fields are regenerated from the source (`Generated/AllocHandles.lean`, translator unit
/verif/extract/allochandles.go): `sweepEmptiesTable` from the `delete(<table>, handle)` statement of the sweep loop
of Serve, `notifyKinds` from the `X.(TransferError)` tests of `Request.transferError`, `useKindChecked` from the
`!request.servesPacket(pkt)` branch in front of `request.call` in packetWorker's `case hasHandle`.
`cfgOfRS` / `cfgOfOS` used to complete a generated value with hand-written constants; they are the identity now
and only kept for the files that name them (Props/C11Inst.lean, Driver/C11.lean). -/
def cfgOfRS (g : Cfg) : Cfg := g

def cfgOfOS (g : Cfg) : Cfg := g

structure Obj where
  /-- number of Close calls on the reader / writer / lister / file. -/
  closed : Nat
  /-- number of TransferError notifications. -/
  terr : Nat
  /-- number of times the context's cancel function ran. -/
  ctx : Nat
  /-- number of handler / file calls made through a handle. -/
  touched : Nat
  kind : Kind
  deriving Repr, DecidableEq

/-- `false` for the placeholder request of a failed open. -/
def Obj.real (o : Obj) : Bool := o.kind != .placeholder

def Obj.new (kind : Kind) : Obj := { closed := 0, terr := 0, ctx := 0, touched := 0, kind := kind }

/-- `Request.close` / `file.Close`. -/
def Obj.close (o : Obj) : Obj := { o with closed := o.closed + o.real.toNat, ctx := o.ctx + 1 }
def Obj.notify (o : Obj) : Obj := { o with terr := o.terr + 1 }
def Obj.touch (o : Obj) : Obj := { o with touched := o.touched + 1 }

inductive Action where
  /-- open / opendir answered with a HANDLE for an object of kind `k` (never `placeholder` in a real
      session; the model does not depend on that). -/
  | openOk (k : Kind)
  | openFail
  /-- FSTAT / FSETSTAT: served through every live handle. -/
  | use (h : Nat)
  /-- READ / WRITE / READDIR. -/
  | useAs (h : Nat) (n : Need)
  | close (h : Nat)
  /-- end of Serve; `err` = the session ended with a non-nil error. -/
  | sweep (err : Bool)
  deriving Repr, DecidableEq

inductive Status where
  | ok
  | ebadf
  | fail
  /-- the handle is live but the request does not fit its kind.  Request server: a failure status and
      the object is not called; os-backed server: the object is called and its own error is the reply. -/
  | wrongKind
  deriving Repr, DecidableEq

structure State where
  count : Nat
  /-- handle number ↦ object id. -/
  «open» : List (Nat × Nat)
  nobj : Nat
  objs : Nat → Obj
  /-- every handle number ever allocated, in order. -/
  issued : List Nat
  /-- every handle number on which a close succeeded. -/
  closedH : List Nat
  /-- one status per action. -/
  log : List Status
  ended : Bool

def State.init : State :=
  { count := 0, «open» := [], nobj := 0, objs := fun _ => Obj.new .placeholder, issued := [], closedH := [],
    log := [], ended := false }

def upd {α} (f : Nat → α) (k : Nat) (v : α) : Nat → α := fun i => if i = k then v else f i

def ids (s : State) : List Nat := s.open.map (·.2)
def keys (s : State) : List Nat := s.open.map (·.1)

/-- closeHandle / closeRequest on a present entry `(h, id)`. -/
def closeEntry (cfg : Cfg) (s : State) (h id : Nat) : State :=
  { s with «open» := if cfg.deleteOnClose then s.open.filter (fun e => !(e.1 == h)) else s.open,
           objs := upd s.objs id (s.objs id).close,
           count := if cfg.counterMonotone then s.count else s.count - 1,
           closedH := s.closedH ++ [h] }

/-- nextHandle / nextRequest: the counter is incremented, its new value is the handle, the object is registered. -/
def opened (s : State) (kind : Kind) : State :=
  { s with count := s.count + 1, «open» := s.open ++ [(s.count + 1, s.nobj)], nobj := s.nobj + 1,
           objs := upd s.objs s.nobj (Obj.new kind), issued := s.issued ++ [s.count + 1] }

/-- What the final sweep does to one object that is still in the table. -/
def sweepObj (cfg : Cfg) (err : Bool) (o : Obj) : Obj :=
  let o := if cfg.sweepNotifiesTransferError && err && cfg.notifies o.kind then o.notify else o
  if cfg.sweepClosesAll then o.close else o

/-- One action of a session that has not ended. -/
def live (cfg : Cfg) (s : State) : Action → Option State
  | .openOk k =>
    some { opened s k with log := s.log ++ [.ok] }
  | .openFail =>
    if cfg.allocBeforeOpen then
      let s1 := { opened s .placeholder with log := s.log ++ [.fail] }
      if cfg.closeOnFailedOpen then some (closeEntry cfg s1 (s.count + 1) s.nobj) else some s1
    else some { s with log := s.log ++ [.fail] }
  | .use h =>
    match s.open.lookup h with
    | some id => some { s with objs := upd s.objs id (s.objs id).touch, log := s.log ++ [.ok] }
    | none => some { s with log := s.log ++ [.ebadf] }
  | .useAs h n =>
    match s.open.lookup h with
    | some id =>
      if fits n (s.objs id).kind then
        some { s with objs := upd s.objs id (s.objs id).touch, log := s.log ++ [.ok] }
      else if cfg.useKindChecked then
        some { s with log := s.log ++ [.wrongKind] }
      else
        some { s with objs := upd s.objs id (s.objs id).touch, log := s.log ++ [.wrongKind] }
    | none => some { s with log := s.log ++ [.ebadf] }
  | .close h =>
    match s.open.lookup h with
    | some id => some { closeEntry cfg s h id with log := s.log ++ [.ok] }
    | none => some { s with log := s.log ++ [.ebadf] }
  | .sweep err =>
    let live := s.open.map (·.2)
    some { s with
      objs := fun id => if id ∈ live then sweepObj cfg err (s.objs id) else s.objs id,
      «open» := if cfg.sweepEmptiesTable then [] else s.open,
      log := s.log ++ [.ok], ended := true }

/-- After the sweep Serve has returned: nothing more happens. -/
def step (cfg : Cfg) (s : State) (act : Action) : Option State :=
  if s.ended then none else live cfg s act

def run (cfg : Cfg) : State → List Action → Option State
  | s, [] => some s
  | s, a :: as =>
    match step cfg s a with
    | some s' => run cfg s' as
    | none => none

end Sftp.Handles
