import Sftp.Prim
/-
  M-Handles (property C11): the handle table of a server session and the release of what it refers to.

  Go source modelled
  * server.go          nextHandle (`handleCount++; strconv.Itoa`), getHandle, closeHandle (delete, then
                       Close; EBADF if absent), the sweep at the end of Serve
  * request-server.go  nextRequest, getRequest, closeRequest (delete, then `r.close()`), packetWorker's
                       Open/Opendir cases (handle allocated BEFORE the handler is asked; on a non-HANDLE
                       reply `rs.closeRequest(handle)`), Serve's final sweep
                       (`transferError(err)`, `delete`, `close` for every remaining request)
  * request.go         Request.close (closes lister / writer / rw / reader if set, then cancels ctx),
                       Request.transferError

  Handles are the NUMBERS before `strconv.Itoa`; that `strconv.Itoa` is injective is the one trusted fact
  (two handle strings are equal iff the numbers are).  A client naming a string that is not the decimal
  form of a number is a `use`/`close` of a number that was never issued.

  Every `open`/`opendir` creates an OBJECT (the *Request with its context, and the reader / writer /
  lister the handler returned; for the os-backed server the *os.File).  An object records how many times
  it was closed, notified of a transfer error, had its context cancelled, and was used through a handle.
  A failed open on the request server creates a PLACEHOLDER object (`real = false`): the *Request was
  registered, but no reader/writer/lister was ever set, so `Request.close` only cancels the context.

  All table operations run under the server's mutex, so each action is atomic.  `use` models a
  handle-bearing request (READ, WRITE, FSTAT, FSETSTAT, READDIR) as lookup + call in one step: the
  property is about what a client that has seen the reply to CLOSE can observe.
-/
namespace Sftp.Handles
open Sftp

/-- Facts of the Go source that a mutation could change. -/
structure Cfg where
  /-- closeHandle / closeRequest delete the table entry. -/
  deleteOnClose : Bool
  /-- packetWorker: `rs.closeRequest(handle)` when open / opendir did not answer with a HANDLE. -/
  closeOnFailedOpen : Bool
  /-- the loop at the end of Serve closes (and forgets) every entry left. -/
  sweepClosesAll : Bool
  /-- request server: `req.transferError(err)` in the final sweep (the os-backed server has none). -/
  sweepNotifiesTransferError : Bool
  /-- the counter is only ever incremented (`handleCount++` is its only assignment). -/
  counterMonotone : Bool
  /-- request server: the handle is allocated before the handler is asked (`true`);
      os-backed server: `os.OpenFile` first, `nextHandle` only on success (`false`). -/
  allocBeforeOpen : Bool
  deriving Repr, DecidableEq

/-- The request server today. -/
def Cfg.current : Cfg :=
  { deleteOnClose := true, closeOnFailedOpen := true, sweepClosesAll := true,
    sweepNotifiesTransferError := true, counterMonotone := true, allocBeforeOpen := true }

/-- The os-backed server today. -/
def Cfg.currentOs : Cfg :=
  { Cfg.current with sweepNotifiesTransferError := false, allocBeforeOpen := false }

structure Obj where
  /-- number of Close calls on the reader / writer / lister / file. -/
  closed : Nat
  /-- number of TransferError notifications. -/
  terr : Nat
  /-- number of times the context's cancel function ran. -/
  ctx : Nat
  /-- number of handler / file calls made through a handle. -/
  touched : Nat
  /-- `false` for the placeholder request of a failed open. -/
  real : Bool
  deriving Repr, DecidableEq

def Obj.new (real : Bool) : Obj := { closed := 0, terr := 0, ctx := 0, touched := 0, real := real }

/-- `Request.close` / `file.Close`. -/
def Obj.close (o : Obj) : Obj := { o with closed := o.closed + o.real.toNat, ctx := o.ctx + 1 }
def Obj.notify (o : Obj) : Obj := { o with terr := o.terr + 1 }
def Obj.touch (o : Obj) : Obj := { o with touched := o.touched + 1 }

inductive Action where
  | openOk
  | openFail
  | use (h : Nat)
  | close (h : Nat)
  /-- end of Serve; `err` = the session ended with a non-nil error. -/
  | sweep (err : Bool)
  deriving Repr, DecidableEq

inductive Status where
  | ok
  | ebadf
  | fail
  deriving Repr, DecidableEq

structure State where
  count : Nat
  /-- handle number ↦ object id. -/
  «open» : List (Nat × Nat)
  nobj : Nat
  objs : Nat → Obj
  /-- every handle number ever allocated, in order. -/
  issued : List Nat
  /-- every handle number on which a close succeeded. -/
  closedH : List Nat
  /-- one status per action. -/
  log : List Status
  ended : Bool

def State.init : State :=
  { count := 0, «open» := [], nobj := 0, objs := fun _ => Obj.new false, issued := [], closedH := [],
    log := [], ended := false }

def upd {α} (f : Nat → α) (k : Nat) (v : α) : Nat → α := fun i => if i = k then v else f i

def ids (s : State) : List Nat := s.open.map (·.2)
def keys (s : State) : List Nat := s.open.map (·.1)

/-- closeHandle / closeRequest on a present entry `(h, id)`. -/
def closeEntry (cfg : Cfg) (s : State) (h id : Nat) : State :=
  { s with «open» := if cfg.deleteOnClose then s.open.filter (fun e => !(e.1 == h)) else s.open,
           objs := upd s.objs id (s.objs id).close,
           count := if cfg.counterMonotone then s.count else s.count - 1,
           closedH := s.closedH ++ [h] }

/-- nextHandle / nextRequest: the counter is incremented, its new value is the handle, the object is registered. -/
def opened (s : State) (real : Bool) : State :=
  { s with count := s.count + 1, «open» := s.open ++ [(s.count + 1, s.nobj)], nobj := s.nobj + 1,
           objs := upd s.objs s.nobj (Obj.new real), issued := s.issued ++ [s.count + 1] }

/-- One action of a session that has not ended. -/
def live (cfg : Cfg) (s : State) : Action → Option State
  | .openOk =>
    some { opened s true with log := s.log ++ [.ok] }
  | .openFail =>
    if cfg.allocBeforeOpen then
      let s1 := { opened s false with log := s.log ++ [.fail] }
      if cfg.closeOnFailedOpen then some (closeEntry cfg s1 (s.count + 1) s.nobj) else some s1
    else some { s with log := s.log ++ [.fail] }
  | .use h =>
    match s.open.lookup h with
    | some id => some { s with objs := upd s.objs id (s.objs id).touch, log := s.log ++ [.ok] }
    | none => some { s with log := s.log ++ [.ebadf] }
  | .close h =>
    match s.open.lookup h with
    | some id => some { closeEntry cfg s h id with log := s.log ++ [.ok] }
    | none => some { s with log := s.log ++ [.ebadf] }
  | .sweep err =>
    let live := s.open.map (·.2)
    some { s with
      objs := fun id =>
        if id ∈ live then
          let o := s.objs id
          let o := if cfg.sweepNotifiesTransferError && err then o.notify else o
          if cfg.sweepClosesAll then o.close else o
        else s.objs id,
      «open» := if cfg.sweepClosesAll then [] else s.open,
      log := s.log ++ [.ok], ended := true }

/-- After the sweep Serve has returned: nothing more happens. -/
def step (cfg : Cfg) (s : State) (act : Action) : Option State :=
  if s.ended then none else live cfg s act

def run (cfg : Cfg) : State → List Action → Option State
  | s, [] => some s
  | s, a :: as =>
    match step cfg s a with
    | some s' => run cfg s' as
    | none => none

end Sftp.Handles
