import Sftp.Model.LsMode
import Sftp.Spec.LsMode
import Sftp.Generated.LsMode
/- Boolean check evaluated by the kernel over all 2^16 mode words (C17, long names). -/
namespace Sftp.C17
open Sftp

/-- `FileMode(m).String()` (regenerated statement table) is the POSIX rendering of `m`. -/
def lsCheck (m : Nat) : Bool := G.lsMode.render m == Spec.LsMode.lsModeCodes m

end Sftp.C17
