import Sftp.Prim
/-
  The translation of open flags (C05 / C09 / C10).

      os flag word  --Client.toPflags-->  SSH_FXF_* word  --(*sshFxpOpenPacket).respond-->  os flag word of os.OpenFile
                                               |--newFileOpenFlags--> FileOpenFlags (what handlers see)
                                               |--Request.open------> method "Put" / "Get" / "Open"

  Each arrow is a small table of "guarded OR" rules in the Go source.  The tables are PARAMETERS here
  (regenerated from the source into Sftp/Generated/OpenFlags.lean by /verif/extract/openflags.go); this file is
  the evaluator.  Flag words are `Nat` (Go: `int` on the os side — non-negative words; the rules only look at
  bits 0..10, see `orAll_local` —, `uint32` on the wire).
-/
namespace Sftp.OpenFlags

/-- one test `(isEq, mask, want)`: `x &&& mask == want` (isEq) or `x &&& mask != want` (not isEq).
    Go: `f&os.O_X == os.O_X`, `case os.O_X:` of `switch f & M`, `p.Pflags&f != 0` inside hasPflags. -/
abbrev Atom := Bool × Nat × Nat
/-- if all atoms hold, OR the bits in -/
abbrev Rule := List Atom × Nat

def atomHolds (x : Nat) (a : Atom) : Bool :=
  if a.1 then x &&& a.2.1 == a.2.2 else x &&& a.2.1 != a.2.2

def ruleHolds (x : Nat) (r : Rule) : Bool := r.1.all (atomHolds x)

/-- `out |= bits` for every rule that holds (a sequence of independent `if`s / a switch with distinct cases) -/
def orAll : List Rule → Nat → Nat
  | [], _ => 0
  | r :: rs, x => (if ruleHolds x r then r.2 else 0) ||| orAll rs x

/-- `if … else if … else if …`: the bits of the first rule that holds; `none` = the final else -/
def firstMatch : List Rule → Nat → Option Nat
  | [], _ => none
  | r :: rs, x => if ruleHolds x r then some r.2 else firstMatch rs x

/-- client.go toPflags -/
def toPflags (client : List Rule) (f : Nat) : Nat := orAll client f

/-- server.go (*sshFxpOpenPacket).respond: the word given to os.OpenFile; `none` = refused (final else of the
    access-mode chain, EINVAL) -/
def serverOsFlags (access bits : List Rule) (pf : Nat) : Option Nat :=
  (firstMatch access pf).map (· ||| orAll bits pf)

/-- what os.OpenFile is called with on the server when the client called OpenFile(path, f) -/
def viaServer (client access bits : List Rule) (f : Nat) : Option Nat :=
  serverOsFlags access bits (toPflags client f)

/-! ### Linux values of the os flags (hand-written here: package os / syscall, GOOS=linux; Props compares
    them with the go/types values the extractor saw) and the SSH_FXF_* bits of draft-ietf-secsh-filexfer-02 §6.3 -/
def O_RDONLY : Nat := 0
def O_WRONLY : Nat := 1
def O_RDWR : Nat := 2
def O_ACCMODE : Nat := 3
def O_CREATE : Nat := 0x40
def O_EXCL : Nat := 0x80
def O_TRUNC : Nat := 0x200
def O_APPEND : Nat := 0x400
def osFlagValues : List (String × Nat) :=
  [("O_RDONLY", 0), ("O_WRONLY", 1), ("O_RDWR", 2), ("O_CREATE", 64), ("O_EXCL", 128), ("O_TRUNC", 512), ("O_APPEND", 1024)]

def FXF_READ : Nat := 1
def FXF_WRITE : Nat := 2
def FXF_APPEND : Nat := 4
def FXF_CREAT : Nat := 8
def FXF_TRUNC : Nat := 16
def FXF_EXCL : Nat := 32

/-- the os flags SFTP can express; every other bit of the caller's word is dropped ("Unsupported flags are
    ignored", doc of toPflags) -/
def expressible : Nat := O_ACCMODE ||| O_CREATE ||| O_EXCL ||| O_TRUNC ||| O_APPEND
/-- the flags the server hands on: the expressible ones minus O_APPEND (documented in respond: "The sshFxfAppend
    flag is a no-op here as the client sends the offsets") -/
def handedOn : Nat := O_ACCMODE ||| O_CREATE ||| O_EXCL ||| O_TRUNC

/-- SPEC of the round trip: the local call os.OpenFile(path, f, …) with O_APPEND (and inexpressible bits) removed;
    the access mode 3 (no such mode) is refused. -/
def specServerWord (f : Nat) : Option Nat :=
  if f &&& O_ACCMODE = O_ACCMODE then none else some (f &&& handedOn)

/-- SPEC of the wire word (draft-ietf-secsh-filexfer-02 §6.3 bit values) for os flag word `f` -/
def specPflags (f : Nat) : Nat :=
  (if f &&& O_ACCMODE = O_RDONLY ∨ f &&& O_ACCMODE = O_RDWR then FXF_READ else 0) |||
  (if f &&& O_ACCMODE = O_WRONLY ∨ f &&& O_ACCMODE = O_RDWR then FXF_WRITE else 0) |||
  (if f &&& O_APPEND = 0 then 0 else FXF_APPEND) ||| (if f &&& O_CREATE = 0 then 0 else FXF_CREAT) |||
  (if f &&& O_TRUNC = 0 then 0 else FXF_TRUNC) ||| (if f &&& O_EXCL = 0 then 0 else FXF_EXCL)

/-- all 64 words over {access mode 0..3} × subsets of {O_CREATE, O_EXCL, O_TRUNC, O_APPEND} -/
def relevantWords : List Nat :=
  [0, 1, 2, 3].flatMap fun acc =>
    [0, O_CREATE].flatMap fun c => [0, O_EXCL].flatMap fun e => [0, O_TRUNC].flatMap fun t =>
      [0, O_APPEND].map fun a => acc ||| c ||| e ||| t ||| a

/-! ### handlers -/

/-- request-attrs.go newFileOpenFlags: `Field: flags&mask != 0`, in the order of the literal -/
def handlerView (fields : List (String × Nat)) (pf : Nat) : List (String × Bool) :=
  fields.map fun fm => (fm.1, pf &&& fm.2 != 0)

/-- SPEC: the six booleans of a pflags word (draft bit values) -/
def specView (pf : Nat) : List (String × Bool) :=
  [("Read", pf &&& FXF_READ != 0), ("Write", pf &&& FXF_WRITE != 0), ("Append", pf &&& FXF_APPEND != 0),
   ("Creat", pf &&& FXF_CREAT != 0), ("Trunc", pf &&& FXF_TRUNC != 0), ("Excl", pf &&& FXF_EXCL != 0)]

/-- SPEC: the six booleans as the CLIENT meant them (os flag word) -/
def specViewOfOs (f : Nat) : List (String × Bool) :=
  [("Read", f &&& O_ACCMODE == O_RDONLY || f &&& O_ACCMODE == O_RDWR),
   ("Write", f &&& O_ACCMODE == O_WRONLY || f &&& O_ACCMODE == O_RDWR),
   ("Append", f &&& O_APPEND != 0), ("Creat", f &&& O_CREATE != 0),
   ("Trunc", f &&& O_TRUNC != 0), ("Excl", f &&& O_EXCL != 0)]

/-- request.go Request.open: tagless switch over FileOpenFlags fields, first case with one of its fields set;
    inside a case an upgrade `(base, field, iface, method)` applies when the field is set and the handler
    implements the optional interface. `dflt` = the default clause. -/
def openMethod (cases : List (List String × String)) (dflt : String)
    (ups : List (String × String × String × String)) (view : List (String × Bool)) (ifaces : List String) : String :=
  let isSet := fun n => (view.lookup n).getD false
  match cases.find? (fun c => c.1.any isSet) with
  | none => dflt
  | some c =>
    match ups.find? (fun u => u.1 == c.2 && isSet u.2.1 && ifaces.contains u.2.2.1) with
    | some u => u.2.2.2
    | none => c.2

/-- SPEC of the method: anything that writes is "Put" (or "Open" for read+write when the handler can), a pure
    read is "Get", a word without READ or any writing bit is an error -/
def specMethod (pf : Nat) (hasOpenFileWriter : Bool) : String :=
  if pf &&& (FXF_WRITE ||| FXF_APPEND ||| FXF_CREAT ||| FXF_TRUNC) != 0 then
    if pf &&& FXF_READ != 0 && hasOpenFileWriter then "Open" else "Put"
  else if pf &&& FXF_READ != 0 then "Get" else "error"

/-! ### locality: the rules only look at the bits of their masks -/

def masksWithin (M : Nat) (rules : List Rule) : Bool :=
  rules.all fun r => r.1.all fun a => M &&& a.2.1 == a.2.1

theorem atomHolds_local {M : Nat} {a : Atom} (h : M &&& a.2.1 = a.2.1) (x : Nat) :
    atomHolds (x &&& M) a = atomHolds x a := by
  unfold atomHolds
  rw [Nat.and_assoc, h]

theorem ruleHolds_local {M : Nat} {r : Rule} (h : ∀ a ∈ r.1, M &&& a.2.1 = a.2.1) (x : Nat) :
    ruleHolds (x &&& M) r = ruleHolds x r := by
  unfold ruleHolds
  rw [Bool.eq_iff_iff, List.all_eq_true, List.all_eq_true]
  constructor
  · intro h1 a ha; rw [← atomHolds_local (h a ha) x]; exact h1 a ha
  · intro h1 a ha; rw [atomHolds_local (h a ha) x]; exact h1 a ha

theorem masksWithin_rule {M : Nat} {rules : List Rule} (h : masksWithin M rules = true) {r : Rule}
    (hr : r ∈ rules) : ∀ a ∈ r.1, M &&& a.2.1 = a.2.1 := by
  unfold masksWithin at h
  rw [List.all_eq_true] at h
  have h1 := h r hr
  rw [List.all_eq_true] at h1
  intro a ha
  simpa using h1 a ha

theorem orAll_local {M : Nat} : ∀ {rules : List Rule}, masksWithin M rules = true → ∀ x : Nat,
    orAll rules (x &&& M) = orAll rules x
  | [], _, _ => rfl
  | r :: rs, h, x => by
    have hr := masksWithin_rule h (List.mem_cons_self)
    have hrs : masksWithin M rs = true := by
      unfold masksWithin at h ⊢
      rw [List.all_cons, Bool.and_eq_true] at h
      exact h.2
    rw [orAll, orAll, ruleHolds_local hr, orAll_local hrs]

theorem firstMatch_local {M : Nat} : ∀ {rules : List Rule}, masksWithin M rules = true → ∀ x : Nat,
    firstMatch rules (x &&& M) = firstMatch rules x
  | [], _, _ => rfl
  | r :: rs, h, x => by
    have hr := masksWithin_rule h (List.mem_cons_self)
    have hrs : masksWithin M rs = true := by
      unfold masksWithin at h ⊢
      rw [List.all_cons, Bool.and_eq_true] at h
      exact h.2
    rw [firstMatch, firstMatch, ruleHolds_local hr, firstMatch_local hrs]

theorem serverOsFlags_local {M : Nat} {access bits : List Rule} (ha : masksWithin M access = true)
    (hb : masksWithin M bits = true) (pf : Nat) :
    serverOsFlags access bits (pf &&& M) = serverOsFlags access bits pf := by
  unfold serverOsFlags
  rw [firstMatch_local ha, orAll_local hb]

theorem handlerView_local {M : Nat} {fields : List (String × Nat)}
    (h : (fields.all fun fm => M &&& fm.2 == fm.2) = true) (pf : Nat) :
    handlerView fields (pf &&& M) = handlerView fields pf := by
  unfold handlerView
  rw [List.all_eq_true] at h
  refine List.map_congr_left fun fm hfm => ?_
  have := h fm hfm
  rw [Nat.and_assoc, show M &&& fm.2 = fm.2 by simpa using this]

/-- a word masked to `n` bits is below `2^n` — what turns "for all words" into a complete finite table -/
theorem and_mask_lt (x n : Nat) : x &&& (2 ^ n - 1) < 2 ^ n :=
  Nat.and_lt_two_pow x (Nat.sub_lt (Nat.two_pow_pos n) Nat.one_pos)

end Sftp.OpenFlags
