import Sftp.Prim
/-
  M-Codec: the generic wire codec of pkg/sftp.

  Packet layouts are DATA (`List FieldD`, regenerated from the Go source by the
  extractor); the codec is an INTERPRETER of those tables:

    encodeFields : List FieldD → List Val → Option Bytes
    decodeFields : DecCfg → List FieldD → Bytes → Outcome (List Val × Bytes)
    decodeMeter  : DecCfg → List FieldD → Bytes → Nat        (allocation meter)
    frame / recvFrame                                         (packet framing)

  One interpreter serves both codecs of the package (packet.go and
  internal/encoding/ssh/filexfer); what differs between them (count guards,
  which allocations are made) is in `DecCfg`.

  The filexfer `Buffer` has a *sticky* error: after the first short read every
  further `ConsumeX` returns the zero value and allocates nothing, and the entry
  point returns `buf.Err`.  As to the result (value or error) that is the same
  as stopping at the first error, which is what the interpreter does; the one
  observable difference — `make([]ExtendedAttribute, count)` happens whether or
  not the following reads succeed — is accounted for in the meter.
-/
namespace Sftp.Codec
open Sftp

/-! ### layouts and values -/

inductive FKind where
  | u8 | u32 | u64 | str | rest | lenData | attrs | pairs | names
  | cstr (s : Bytes)
  deriving DecidableEq, Repr

/-- One field of a packet layout.  `safe`: the bounds-checked Go primitive is used. -/
structure FieldD where
  kind : FKind
  name : String
  safe : Bool
  deriving DecidableEq, Repr

/-- Bytes of a Go string constant (UTF-8). -/
def strBytes (s : String) : Bytes := s.toList.flatMap String.utf8EncodeChar

structure Attrs where
  flags : Nat
  size : Nat
  uid : Nat
  gid : Nat
  perm : Nat
  atime : Nat
  mtime : Nat
  ext : List (Bytes × Bytes)
  deriving DecidableEq, Repr

structure NameEntry where
  name : Bytes
  long : Bytes
  attrs : Attrs
  deriving DecidableEq, Repr

inductive Val where
  | n (v : Nat)
  | b (v : Bytes)
  | attrs (a : Attrs)
  | pairs (l : List (Bytes × Bytes))
  | names (l : List NameEntry)
  deriving DecidableEq, Repr

/-- Facts of the Go source that a change could alter. -/
structure DecCfg where
  /-- packet.go `unmarshalFileStat`: `if count > uint32(len(b)/8) { return errShortPacket }` before `make`. -/
  extCountGuard : Bool
  /-- filexfer `Attributes.XXX_UnmarshalByFlags` / `NamePacket.UnmarshalPacketBody`: a guard on
  `count` before the `make` (absent today). -/
  fxCountGuard : Bool
  /-- which decoder is modelled: `false` = packet.go / client.go, `true` = internal filexfer. -/
  fx : Bool
  deriving DecidableEq, Repr

/-- The code as it is today, main codec. -/
def DecCfg.current : DecCfg := ⟨true, false, false⟩
/-- The code as it is today, filexfer codec. -/
def DecCfg.currentFx : DecCfg := ⟨true, false, true⟩

/-- Is the extended-attribute count checked against the remaining bytes before allocating? -/
def DecCfg.extGuard (c : DecCfg) : Bool := if c.fx then c.fxCountGuard else c.extCountGuard
/-- Is the name-entry count checked before `make([]*NameEntry, 0, count)`?  (packet.go has no
NAME decoder that pre-allocates: client.go appends entry by entry.) -/
def DecCfg.nameGuard (c : DecCfg) : Bool := c.fx && c.fxCountGuard

/-! ### encoder -/

def encPairs : List (Bytes × Bytes) → Bytes
  | [] => []
  | p :: l => putStr p.1 ++ (putStr p.2 ++ encPairs l)

/-- A field that is on the wire only when its flag bit is set. -/
def optBytes (c : Bool) (b : Bytes) : Bytes := if c then b else []

/-- `marshalFileStat` / `Attributes.MarshalInto` preceded by the flags word. -/
def encAttrs (a : Attrs) : Bytes :=
  be32 a.flags ++
  (optBytes (a.flags.testBit 0) (be64 a.size) ++
  (optBytes (a.flags.testBit 1) (be32 a.uid) ++
  (optBytes (a.flags.testBit 1) (be32 a.gid) ++
  (optBytes (a.flags.testBit 2) (be32 a.perm) ++
  (optBytes (a.flags.testBit 3) (be32 a.atime) ++
  (optBytes (a.flags.testBit 3) (be32 a.mtime) ++
  optBytes (a.flags.testBit 31) (be32 a.ext.length ++ encPairs a.ext)))))))

def encNames : List NameEntry → Bytes
  | [] => []
  | e :: l => putStr e.name ++ (putStr e.long ++ (encAttrs e.attrs ++ encNames l))

def encField : FKind → Val → Option Bytes
  | .u8, .n v => some [UInt8.ofNat v]
  | .u32, .n v => some (be32 v)
  | .u64, .n v => some (be64 v)
  | .str, .b s => some (putStr s)
  | .rest, .b s => some s
  | .lenData, .b s => some (putStr s)
  | .attrs, .attrs a => some (encAttrs a)
  | .pairs, .pairs l => some (encPairs l)
  | .names, .names l => some (be32 l.length ++ encNames l)
  | .cstr c, .b s => if s = c then some (putStr s) else none
  | _, _ => none

/-- `none`: the record does not fit the layout. -/
def encodeFields : List FieldD → List Val → Option Bytes
  | [], [] => some []
  | f :: fs, v :: vs =>
    match encField f.kind v with
    | none => none
    | some a =>
      match encodeFields fs vs with
      | none => none
      | some b => some (a ++ b)
  | _, _ => none

/-! ### decoder -/

def rdU8 (safe : Bool) : Bytes → Outcome (Nat × Bytes)
  | x :: r => .ok (x.toNat, r)
  | [] => if safe then .err shortPacket else .panic

def rdU32 (safe : Bool) (b : Bytes) : Outcome (Nat × Bytes) := if safe then goU32Safe b else goU32 b
def rdU64 (safe : Bool) (b : Bytes) : Outcome (Nat × Bytes) := if safe then goU64Safe b else goU64 b
def rdStr (safe : Bool) (b : Bytes) : Outcome (Bytes × Bytes) := if safe then goStrSafe b else goStr b

def optU32 (safe c : Bool) (b : Bytes) : Outcome (Nat × Bytes) := if c then rdU32 safe b else .ok (0, b)
def optU64 (safe c : Bool) (b : Bytes) : Outcome (Nat × Bytes) := if c then rdU64 safe b else .ok (0, b)

/-- `count` (type, data) pairs. -/
def decPairsN (safe : Bool) : Nat → Bytes → Outcome (List (Bytes × Bytes) × Bytes)
  | 0, bs => .ok ([], bs)
  | n + 1, bs =>
    (rdStr safe bs).bind fun k =>
    (rdStr safe k.2).bind fun v =>
    (decPairsN safe n v.2).bind fun l =>
    .ok ((k.1, v.1) :: l.1, l.2)

/-- (name, data) pairs until the bytes end (`for len(b) > 0`).  Every iteration consumes at least
eight bytes, so `fuel = len(b)` always suffices. -/
def decPairsAll (safe : Bool) : Nat → Bytes → Outcome (List (Bytes × Bytes))
  | _, [] => .ok []
  | 0, _ :: _ => .err "fuel"
  | fuel + 1, bs =>
    (rdStr safe bs).bind fun k =>
    (rdStr safe k.2).bind fun v =>
    (decPairsAll safe fuel v.2).bind fun l =>
    .ok ((k.1, v.1) :: l)

/-- The extended part of an attribute block. -/
def decExt (cfg : DecCfg) (safe c : Bool) (b : Bytes) : Outcome (List (Bytes × Bytes) × Bytes) :=
  if c then
    (rdU32 safe b).bind fun cnt =>
    if cfg.extGuard && decide (cnt.1 > cnt.2.length / 8) then .err shortPacket
    else decPairsN safe cnt.1 cnt.2
  else .ok ([], b)

/-- The fixed part of an attribute block: flags word and the by-flag integer fields. -/
def decAttrsHead (safe : Bool) (bs : Bytes) : Outcome (Attrs × Bytes) :=
  (rdU32 safe bs).bind fun fl =>
  (optU64 safe (fl.1.testBit 0) fl.2).bind fun size =>
  (optU32 safe (fl.1.testBit 1) size.2).bind fun uid =>
  (optU32 safe (fl.1.testBit 1) uid.2).bind fun gid =>
  (optU32 safe (fl.1.testBit 2) gid.2).bind fun perm =>
  (optU32 safe (fl.1.testBit 3) perm.2).bind fun atime =>
  (optU32 safe (fl.1.testBit 3) atime.2).bind fun mtime =>
  .ok (⟨fl.1, size.1, uid.1, gid.1, perm.1, atime.1, mtime.1, []⟩, mtime.2)

/-- `unmarshalAttrs` / `Attributes.UnmarshalFrom`. -/
def decAttrs (cfg : DecCfg) (safe : Bool) (bs : Bytes) : Outcome (Attrs × Bytes) :=
  (decAttrsHead safe bs).bind fun h =>
  (decExt cfg safe (h.1.flags.testBit 31) h.2).bind fun e =>
  .ok ({ h.1 with ext := e.1 }, e.2)

/-- `count` name entries.  The `safe` flag governs the two strings (client.go `ReadDir` uses the
unchecked `unmarshalString`); the attribute block is always decoded by the checked primitives
(`unmarshalAttrs` is the only attribute decoder of packet.go). -/
def decNamesN (cfg : DecCfg) (safe : Bool) : Nat → Bytes → Outcome (List NameEntry × Bytes)
  | 0, bs => .ok ([], bs)
  | n + 1, bs =>
    (rdStr safe bs).bind fun nm =>
    (rdStr safe nm.2).bind fun lg =>
    (decAttrs cfg true lg.2).bind fun a =>
    (decNamesN cfg safe n a.2).bind fun l =>
    .ok (⟨nm.1, lg.1, a.1⟩ :: l.1, l.2)

def decNames (cfg : DecCfg) (safe : Bool) (bs : Bytes) : Outcome (List NameEntry × Bytes) :=
  (rdU32 safe bs).bind fun cnt =>
  if cfg.nameGuard && decide (cnt.1 > cnt.2.length / 12) then .err shortPacket
  else decNamesN cfg safe cnt.1 cnt.2

def decField (cfg : DecCfg) (k : FKind) (safe : Bool) (bs : Bytes) : Outcome (Val × Bytes) :=
  match k with
  | .u8 => (rdU8 safe bs).bind fun r => .ok (.n r.1, r.2)
  | .u32 => (rdU32 safe bs).bind fun r => .ok (.n r.1, r.2)
  | .u64 => (rdU64 safe bs).bind fun r => .ok (.n r.1, r.2)
  | .str => (rdStr safe bs).bind fun r => .ok (.b r.1, r.2)
  | .cstr _ => (rdStr safe bs).bind fun r => .ok (.b r.1, r.2)
  | .lenData => (rdStr safe bs).bind fun r => .ok (.b r.1, r.2)
  | .rest => .ok (.b bs, [])
  | .attrs => (decAttrs cfg safe bs).bind fun r => .ok (.attrs r.1, r.2)
  | .pairs => (decPairsAll safe bs.length bs).bind fun l => .ok (.pairs l, [])
  | .names => (decNames cfg safe bs).bind fun r => .ok (.names r.1, r.2)

/-- Decode a field list; the second component is what is left of the input. -/
def decodeFields (cfg : DecCfg) : List FieldD → Bytes → Outcome (List Val × Bytes)
  | [], bs => .ok ([], bs)
  | f :: fs, bs =>
    (decField cfg f.kind f.safe bs).bind fun v =>
    (decodeFields cfg fs v.2).bind fun vs =>
    .ok (v.1 :: vs.1, vs.2)

/-! ### allocation meter

Bytes requested from the allocator by the modelled decoder, also on the paths that end in an
error (an allocation made before the error is detected counts).  Element sizes are those of
the 64-bit Go ABI: string header 16, slice header 24, pointer 8. -/

/-- `StatExtended` / `ExtendedAttribute` / `extensionPair`: two string headers. -/
def pairSize : Nat := 32
/-- `*NameEntry`. -/
def ptrSize : Nat := 8
/-- `var fs FileStat; return &fs` in `unmarshalFileStat` (56 bytes, size class 64). -/
def fileStatSize : Nat := 64
/-- `var e NameEntry` escaping through `append(p.Entries, &e)` (2 strings + Attributes = 96). -/
def nameEntrySize : Nat := 96

/-- `string(b[:n])`: `n` bytes if the read succeeds. -/
def strCost (bs : Bytes) : Nat :=
  match getStr? bs with
  | some r => r.1.length
  | none => 0

def pairsNMeter : Nat → Bytes → Nat
  | 0, _ => 0
  | n + 1, bs =>
    match getStr? bs with
    | none => 0
    | some k => k.1.length +
      match getStr? k.2 with
      | none => 0
      | some v => v.1.length + pairsNMeter n v.2

def pairsAllMeter : Nat → Bytes → Nat
  | _, [] => 0
  | 0, _ :: _ => 0
  | fuel + 1, bs =>
    match getStr? bs with
    | none => 0
    | some k => k.1.length +
      match getStr? k.2 with
      | none => 0
      | some v => v.1.length + pairSize + pairsAllMeter fuel v.2

def extMeter (cfg : DecCfg) (c : Bool) (b : Bytes) : Nat :=
  if c then
    match get32? b with
    | none => 0
    | some cnt =>
      if cfg.extGuard && decide (cnt.1 > cnt.2.length / 8) then 0
      else pairSize * cnt.1 + pairsNMeter cnt.1 cnt.2
  else 0

/-- Allocations of one attribute block (without the `FileStat` itself). -/
def attrsMeter (cfg : DecCfg) (bs : Bytes) : Nat :=
  match decAttrsHead true bs with
  | .ok h => extMeter cfg (h.1.flags.testBit 31) h.2
  | _ => 0

/-- Fixed cost of one name entry: the `NameEntry` (filexfer) or the `FileStat` (client.go). -/
def entryFixed (cfg : DecCfg) : Nat := if cfg.fx then nameEntrySize else fileStatSize

def namesNMeter (cfg : DecCfg) : Nat → Bytes → Nat
  | 0, _ => 0
  | n + 1, bs =>
    entryFixed cfg +
    match getStr? bs with
    | none => 0
    | some nm => nm.1.length +
      match getStr? nm.2 with
      | none => 0
      | some lg => lg.1.length + attrsMeter cfg lg.2 +
        match decAttrs cfg true lg.2 with
        | .ok a => namesNMeter cfg n a.2
        | _ => 0

def namesMeter (cfg : DecCfg) (bs : Bytes) : Nat :=
  match get32? bs with
  | none => 0
  | some cnt =>
    if cfg.nameGuard && decide (cnt.1 > cnt.2.length / 12) then 0
    else (if cfg.fx then ptrSize * cnt.1 else 0) + namesNMeter cfg cnt.1 cnt.2

def fieldMeter (cfg : DecCfg) (k : FKind) (bs : Bytes) : Nat :=
  match k with
  | .str => strCost bs
  | .cstr _ => strCost bs
  | .attrs => (if cfg.fx then 0 else fileStatSize) + attrsMeter cfg bs
  | .pairs => pairsAllMeter bs.length bs
  | .names => namesMeter cfg bs
  | .u8 => 0
  | .u32 => 0
  | .u64 => 0
  | .rest => 0      -- `p.Attrs = b`: aliases the input
  | .lenData => if cfg.fx then strCost bs else 0
      -- packet.go `p.Data = b[:n]` aliases the input; filexfer `ConsumeByteSliceCopy` copies

def decodeMeter (cfg : DecCfg) : List FieldD → Bytes → Nat
  | [], _ => 0
  | f :: fs, bs =>
    fieldMeter cfg f.kind bs +
    match decField cfg f.kind f.safe bs with
    | .ok v => decodeMeter cfg fs v.2
    | _ => 0

/-! ### framing -/

/-- `sendPacket`: length prefix (everything after it), type byte, body. -/
def frame (typ : Nat) (body : Bytes) : Bytes := be32 (1 + body.length) ++ UInt8.ofNat typ :: body

inductive FrameResult where
  | eof
  | errShortHeader
  | errLong
  | errZero
  | errShortBody (got : Nat)
  | ok (typ : Nat) (payload : Bytes) (rest : Bytes)
  deriving DecidableEq, Repr

/-- `recvPacket` after the four length bytes: `n` the declared length, `r` the bytes that follow. -/
def recvBody (maxLen n : Nat) (r : Bytes) : FrameResult × Bytes :=
  if n > maxLen then (.errLong, r)
  else if n = 0 then (.errZero, r)
  else if r.length < n then (.errShortBody r.length, [])
  else
    match r.take n with
    | t :: p => (.ok t.toNat p (r.drop n), r.drop n)
    | [] => (.errZero, r)      -- unreachable: 0 < n ≤ r.length

/-- `recvPacket` on a reader that delivers exactly the bytes `s` and then EOF.
Second component: the bytes of the stream NOT yet read when `recvPacket` returns. -/
def recvFrameL (maxLen : Nat) (s : Bytes) : FrameResult × Bytes :=
  match s with
  | [] => (.eof, [])
  | _ :: _ =>
    match get32? s with
    | none => (.errShortHeader, [])
    | some nr => recvBody maxLen nr.1 nr.2

def recvFrame (maxLen : Nat) (s : Bytes) : FrameResult := (recvFrameL maxLen s).1

/-- filexfer `readPacket` after the four length bytes: a length below 5 cannot hold the type byte
and the request id (`ErrShortPacket`, reported as `errZero`), then the limit, then `io.ReadFull`.
The type byte is split off as in `RawPacket.UnmarshalFrom`. -/
def recvBodyFx (maxLen n : Nat) (r : Bytes) : FrameResult × Bytes :=
  if n < 5 then (.errZero, r)
  else if n > maxLen then (.errLong, r)
  else if r.length < n then (.errShortBody r.length, [])
  else
    match r.take n with
    | t :: p => (.ok t.toNat p (r.drop n), r.drop n)
    | [] => (.errZero, r)      -- unreachable

def recvFrameFxL (maxLen : Nat) (s : Bytes) : FrameResult × Bytes :=
  match s with
  | [] => (.eof, [])
  | _ :: _ =>
    match get32? s with
    | none => (.errShortHeader, [])
    | some nr => recvBodyFx maxLen nr.1 nr.2

def recvFrameFx (maxLen : Nat) (s : Bytes) : FrameResult := (recvFrameFxL maxLen s).1

/-- Bytes allocated by `recvPacket` without an allocator: `make([]byte, 4)` and `make([]byte, length)`. -/
def recvAlloc (maxLen : Nat) (s : Bytes) : Nat :=
  match get32? s with
  | none => 4
  | some (n, _) => if n > maxLen ∨ n = 0 then 4 else 4 + n

end Sftp.Codec
