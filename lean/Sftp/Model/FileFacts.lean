/-
  C12 (closed-state part): what `extract/filemethods.go` records about each exported method of `*File`
  (client.go), and a small RWMutex transition system for the lock-discipline lemma.
-/
namespace Sftp

/-- one exported method of `*File` -/
structure FileMethodFact where
  name : String
  /-- first statement: `f.mu.Lock()` ("Lock"), `f.mu.RLock()` ("RLock"), or none ("none") -/
  lock : String
  /-- `defer f.mu.Unlock()` / `defer f.mu.RUnlock()` (matching the lock) is the very next statement -/
  deferUnlock : Bool
  /-- no other `f.mu.*` call anywhere in the method or the unexported `f.*` methods it calls -/
  holdsToEnd : Bool
  /-- the method (or a callee) uses `f.handle` / `f.c`: it can put a request on the wire -/
  sends : Bool
  /-- `if f.handle == "" { return …os.ErrClosed }` is the first thing done under the lock … -/
  checksClosed : Bool
  /-- … in this function (the method itself, or the single unexported callee it delegates to first) -/
  checkIn : String
  /-- every assignment to `f.offset` reachable through unexported `f.*` methods, as "function: statement" -/
  offsetAssigns : List String
  /-- Close only: `handle := f.handle; f.handle = ""` precede `f.c.close(handle)` (the local copy is sent) -/
  clearsBeforeSend : Bool
  deriving Repr, DecidableEq

namespace FileLock

/-- the three facts of the source the lock argument depends on -/
structure Cfg where
  /-- `Close` takes `f.mu.Lock()` (false: `RLock`) -/
  closeExclusive : Bool
  /-- a method keeps its lock from reading `f.handle` until after its last request (`defer …Unlock()`) -/
  methodsHold : Bool
  /-- `Close` does `f.handle = ""` before it sends CLOSE (false: after) -/
  clearFirst : Bool
  deriving DecidableEq, Repr

def Cfg.current : Cfg := ⟨true, true, true⟩

/-- what is written to the connection: a request carrying the handle, or CLOSE of the handle -/
inductive Msg | req | close
  deriving DecidableEq, Repr

inductive Phase | idle | locked | using | done
  deriving DecidableEq, Repr

structure Thread where
  isClose : Bool := false
  phase : Phase := .idle
  cleared : Bool := false
  sent : Bool := false

structure State where
  /-- `f.handle != ""` -/
  isOpen : Bool := true
  wire : List Msg := []
  th : Nat → Thread := fun _ => {}
  /-- RWMutex: the exclusive holder, the shared holders -/
  writer : Option Nat := none
  holders : List Nat := []

def setT (f : Nat → Thread) (i : Nat) (v : Thread) : Nat → Thread := fun j => if j = i then v else f j

inductive Action
  | acquire (t : Nat) (asClose : Bool)   -- `f.mu.Lock()` / `f.mu.RLock()` returns
  | readHandle (t : Nat)                 -- `if f.handle == ""` / `handle := f.handle`
  | send (t : Nat)                       -- a packet carrying the handle read is written
  | clear (t : Nat)                      -- `f.handle = ""`
  | release (t : Nat)                    -- the deferred unlock

def unlock (s : State) (t : Nat) : State :=
  { s with writer := if s.writer = some t then none else s.writer, holders := s.holders.erase t }

def step (cfg : Cfg) (s : State) : Action → Option State
  | .acquire t c =>
    if (s.th t).phase ≠ .idle then none
    else if c && cfg.closeExclusive then
      if s.writer = none ∧ s.holders = [] then
        some { s with writer := some t, th := setT s.th t { isClose := c, phase := .locked } }
      else none
    else if s.writer = none then
      some { s with holders := t :: s.holders, th := setT s.th t { isClose := c, phase := .locked } }
    else none
  | .readHandle t =>
    if (s.th t).phase ≠ .locked then none
    else if s.isOpen then
      let s' := { s with th := setT s.th t { s.th t with phase := .using } }
      some (if !cfg.methodsHold && !(s.th t).isClose then unlock s' t else s')
    else some (unlock { s with th := setT s.th t { s.th t with phase := .done } } t)
  | .send t =>
    if (s.th t).phase ≠ .using then none
    else if (s.th t).isClose then
      if (s.th t).sent || (cfg.clearFirst && !(s.th t).cleared) then none
      else some { s with wire := s.wire ++ [.close], th := setT s.th t { s.th t with sent := true } }
    else some { s with wire := s.wire ++ [.req] }
  | .clear t =>
    if (s.th t).phase ≠ .using || !(s.th t).isClose || (s.th t).cleared
        || (!cfg.clearFirst && !(s.th t).sent) then none
    else some { s with isOpen := false, th := setT s.th t { s.th t with cleared := true } }
  | .release t =>
    if (s.th t).phase ≠ .using then none
    else if (s.th t).isClose && !((s.th t).cleared && (s.th t).sent) then none
    else some (unlock { s with th := setT s.th t { s.th t with phase := .done } } t)

def run (cfg : Cfg) : State → List Action → Option State
  | s, [] => some s
  | s, a :: as => match step cfg s a with
    | some s' => run cfg s' as
    | none => none

/-- scanning the wire left to right: no request carrying the handle after its CLOSE -/
def okW : Bool → List Msg → Bool
  | _, [] => true
  | _, .close :: r => okW true r
  | c, .req :: r => !c && okW c r

def noUseAfterClose (w : List Msg) : Bool := okW false w

end FileLock
end Sftp
