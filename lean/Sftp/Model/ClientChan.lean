import Sftp.Prim
/-
  M-ClientChan: result channels of the client as RESOURCES.

  M-ClientConn (Sftp/Model/ClientConn.lean) gives every request its own channel (channel id = caller index)
  and every caller performs one call that always consumes its result.  The real code is richer:

    conn.go   clientConn.sendPacket(ctx, ch, p): `if cap(ch) < 1 { ch = make(chan result, 1) }`, dispatchRequest,
              then `select { case <-ctx.Done(): return …ctx.Err()   case s := <-ch: … }` — on the ctx arm the
              call returns while `inflight[sid] = ch` is still registered; the channel is simply forgotten.
    client.go File.readAt / WriteTo / writeAtConcurrent / ReadFromWithConcurrency: `res := pool.Get()`
              (resChanPool) before `dispatchRequest(res, …)`; the worker does `s := <-work.res; pool.Put(work.res)`.
              File.writeToSequential / writeAt's loop / ReadFrom / readAtSequential: ONE `ch := make(chan result, 1)
              // reusable channel` handed to readChunkAt/writeChunkAt for strictly sequential requests.

  This model keeps of M-ClientConn only what routing needs (the `inflight` map sid ↦ channel, the receiver that
  looks the sid up, deletes the entry and sends into that channel, one-slot buffers) and adds: channels with an
  identity that outlives a call, an owner, a pool of free channels, re-use of a channel by the same caller,
  and abandoning a request (ctx cancelled) while it is outstanding.

  A "caller" is one logical call chain (a sync call; a work item of a concurrent transfer from Get to Put; the
  sequential loop of a transfer), NOT a goroutine: in File.readAt the goroutine that Gets and dispatches is
  not the one that receives and Puts, but the channel is handed from one to the other with the work item.
  Callers are all natural numbers — there is no bound on their number — and every caller may make any number of
  calls one after the other.  The model has ONE pool shared by everybody; the code has one pool per transfer
  invocation, so the model allows strictly more sharing than the code.

  Transport failure, broadcastErr, connection mutex and framing are M-ClientConn's business and not repeated.
-/
namespace Sftp.ClientChan
open Sftp

/-- Facts of the Go source about how result channels are obtained, re-used and given back.
`true`/`false` as commented is the code today (`ChanCfg.current`); every field set the other way ENABLES one
more kind of step in the model. -/
structure ChanCfg where
  /-- conn.go sendPacket: the channel of a call that brings none is `make(chan result, 1)`: a channel nobody
  ever saw before.  `false`: such a call may pick up any existing channel that no caller holds at that moment
  (a cache / free list filled on every exit path), including the channel of an abandoned request. -/
  freshPerSyncCall : Bool
  /-- client.go: every `pool.Put(x)` of a `resChanPool` is preceded, in the same goroutine, by the receive
  `<-x` of the reply of the one request dispatched with `x` since its `Get`.  `false`: `release` is possible
  while the request is still outstanding. -/
  poolPutOnlyAfterRecv : Bool
  /-- conn.go sendPacket `case <-ctx.Done():` and the `case <-cancel: return` arms of the transfer feeders:
  the channel of the abandoned request is not put anywhere (it becomes garbage once the late reply is in it).
  `false`: `abandon` puts the channel into the pool. -/
  abandonedNotReturned : Bool
  /-- client.go: a `ch := make(chan result, 1) // reusable channel` is passed only to readChunkAt /
  writeChunkAt, which call `sendPacket(context.Background(), ch, …)`, i.e. always consume the reply before
  the loop dispatches the next request with `ch`.  `false`: `reuseOwn` is possible while a request is
  outstanding on the channel. -/
  reuseOnlySequential : Bool
  /-- `true` would be: a result channel reachable from several call chains at once (a struct field of type
  `chan result`, a package variable, a channel captured by several goroutines that dispatch).  `false` today.
  `true`: `acquireExisting` may take a channel that another caller holds. -/
  sharedAcrossCallers : Bool
  /-- client.go nextID (`atomic.AddUint32`), C03.ids_distinct: a request id is not drawn twice (within 2^32
  draws).  `false`: `dispatch` accepts an id that was issued before. -/
  idsDistinctInFlight : Bool
  deriving Repr, DecidableEq

def ChanCfg.current : ChanCfg := ⟨true, true, true, true, false, true⟩

/-- The discipline: all six facts as they are today. -/
def ChanCfg.Disciplined (cfg : ChanCfg) : Prop :=
  cfg.freshPerSyncCall = true ∧ cfg.poolPutOnlyAfterRecv = true ∧ cfg.abandonedNotReturned = true ∧
  cfg.reuseOnlySequential = true ∧ cfg.sharedAcrossCallers = false ∧ cfg.idsDistinctInFlight = true

instance (cfg : ChanCfg) : Decidable cfg.Disciplined := by unfold ChanCfg.Disciplined; infer_instance

/-- `make(chan result, 1)` -/
def chanCap : Nat := 1

/-- A reply frame as the receiver hands it on: `sid` is the id in the frame (the ghost tag: which request the
environment answered), `payload` the rest. -/
structure Msg where
  sid : Nat
  payload : Bytes
  deriving Repr, DecidableEq

/-- Program counter of a caller. -/
inductive PC where
  /-- between calls: holds no channel -/
  | idle
  /-- has a channel, no request of this caller dispatched on it since it last received -/
  | holding (ch : Nat)
  /-- dispatched `sid` with `ch`, in `<-ch` (or in the `select` with ctx.Done()) -/
  | waiting (ch sid : Nat)
  /-- took `m` out of `ch` as the result of request `sid` -/
  | got (ch sid : Nat) (m : Msg)
  deriving Repr, DecidableEq

/-- channel the caller has a reference to -/
def PC.ch? : PC → Option Nat
  | .idle => none
  | .holding ch | .waiting ch _ | .got ch _ _ => some ch

structure Chan where
  /-- buffered replies, oldest first; at most `chanCap` -/
  buf : List Msg
  /-- the caller that holds the channel (acquired it and has not released / dropped / abandoned it) -/
  owner : Option Nat
  deriving Repr, DecidableEq

/-- One completed receive: caller, the sid it had dispatched, what it found in its channel. -/
structure RecvEvent where
  caller : Nat
  sid : Nat
  msg : Msg
  deriving Repr, DecidableEq

structure State where
  pc : Nat → PC
  chan : Nat → Chan
  /-- channels 0 … nchan-1 have been made -/
  nchan : Nat
  /-- `inflight` map as association list with unique keys: sid ↦ channel id -/
  inflight : List (Nat × Nat)
  /-- free channels, oldest first -/
  pool : List Nat
  /-- ghost: every sid ever dispatched -/
  issued : List Nat
  /-- request frames put on the wire: (caller, sid) -/
  wire : List (Nat × Nat)
  /-- the receiver met a sid that is not in `inflight` and returned (conn.go recv "sid not found") -/
  recvDead : Bool
  /-- ghost: every receive, oldest first -/
  log : List RecvEvent
  /-- ghost: every abandoned request (caller, sid), oldest first -/
  gaveUp : List (Nat × Nat)

inductive Action where
  /-- `make(chan result, 1)` -/
  | acquireFresh (c : Nat)
  /-- `pool.Get()` returning the pooled channel `ch` -/
  | acquirePool (c ch : Nat)
  /-- take an existing channel that is not in the pool: one nobody holds (needs `¬freshPerSyncCall`) or one
  that another caller holds (needs `sharedAcrossCallers`) -/
  | acquireExisting (c ch : Nat)
  /-- dispatchRequest(ch, p) with `p.id() = sid`: `inflight[sid] = ch`, frame on the wire -/
  | dispatch (c sid : Nat)
  /-- a frame with id `sid` arrives: the receiver looks up and deletes `inflight[sid]` and sends into that
  channel; not enabled (the receiver blocks) while that channel's buffer is full -/
  | envReply (sid : Nat) (payload : Bytes)
  /-- `s := <-ch` on the caller's channel: takes whatever is at the head -/
  | callerRecv (c : Nat)
  /-- ctx cancelled while waiting: the call returns, the request stays registered -/
  | abandon (c : Nat)
  /-- next iteration of a sequential loop with the same channel -/
  | reuseOwn (c : Nat)
  /-- `pool.Put(ch)` -/
  | release (c : Nat)
  /-- the call returns and forgets its channel (also: Put on a full pool) -/
  | drop (c : Nat)
  deriving Repr, DecidableEq

def init : State :=
  { pc := fun _ => .idle, chan := fun _ => ⟨[], none⟩, nchan := 0, inflight := [], pool := [], issued := [],
    wire := [], recvDead := false, log := [], gaveUp := [] }

def State.setPc (s : State) (c : Nat) (p : PC) : State :=
  { s with pc := fun k => if k = c then p else s.pc k }

def State.setOwner (s : State) (ch : Nat) (o : Option Nat) : State :=
  { s with chan := fun k => if k = ch then ⟨(s.chan ch).buf, o⟩ else s.chan k }

def State.setBuf (s : State) (ch : Nat) (b : List Msg) : State :=
  { s with chan := fun k => if k = ch then ⟨b, (s.chan ch).owner⟩ else s.chan k }

def lookupSid : List (Nat × Nat) → Nat → Option Nat
  | [], _ => none
  | (k, v) :: rest, sid => if k = sid then some v else lookupSid rest sid

def eraseSid (l : List (Nat × Nat)) (sid : Nat) : List (Nat × Nat) :=
  l.filter (fun e => e.1 != sid)

/-- may caller-less channel `ch` / held channel `ch` be taken by `acquireExisting`? -/
def existingOk (cfg : ChanCfg) (s : State) (ch : Nat) : Bool :=
  match (s.chan ch).owner with
  | none => !cfg.freshPerSyncCall
  | some _ => cfg.sharedAcrossCallers

/-- `pool.Put(ch)` and the caller forgets the channel -/
def State.putBack (s : State) (c ch : Nat) : State :=
  ({ s with pool := s.pool ++ [ch] }.setOwner ch none).setPc c .idle

def step (cfg : ChanCfg) (s : State) : Action → Option State
  | .acquireFresh c =>
    match s.pc c with
    | .idle => some (({ s with nchan := s.nchan + 1 }.setOwner s.nchan (some c)).setPc c (.holding s.nchan))
    | _ => none
  | .acquirePool c ch =>
    match s.pc c with
    | .idle =>
      if ch ∈ s.pool then
        some (({ s with pool := s.pool.erase ch }.setOwner ch (some c)).setPc c (.holding ch))
      else none
    | _ => none
  | .acquireExisting c ch =>
    match s.pc c with
    | .idle =>
      if ch < s.nchan ∧ ch ∉ s.pool ∧ existingOk cfg s ch = true then
        some ((s.setOwner ch (some c)).setPc c (.holding ch))
      else none
    | _ => none
  | .dispatch c sid =>
    match s.pc c with
    | .holding ch =>
      if cfg.idsDistinctInFlight = true ∧ sid ∈ s.issued then none
      else
        some ({ s with inflight := (sid, ch) :: eraseSid s.inflight sid, issued := sid :: s.issued,
                       wire := s.wire ++ [(c, sid)] }.setPc c (.waiting ch sid))
    | _ => none
  | .envReply sid payload =>
    if s.recvDead then none
    else
      match lookupSid s.inflight sid with
      | none => some { s with recvDead := true }
      | some ch =>
        if (s.chan ch).buf.length < chanCap then
          some ({ s with inflight := eraseSid s.inflight sid }.setBuf ch ((s.chan ch).buf ++ [Msg.mk sid payload]))
        else none
  | .callerRecv c =>
    match s.pc c with
    | .waiting ch sid =>
      match (s.chan ch).buf with
      | [] => none
      | m :: rest => some (({ s with log := s.log ++ [RecvEvent.mk c sid m] }.setBuf ch rest).setPc c (.got ch sid m))
    | _ => none
  | .abandon c =>
    match s.pc c with
    | .waiting ch sid =>
      let s1 : State := { s with gaveUp := s.gaveUp ++ [(c, sid)] }
      if cfg.abandonedNotReturned then some ((s1.setOwner ch none).setPc c .idle)
      else some (s1.putBack c ch)
    | _ => none
  | .reuseOwn c =>
    match s.pc c with
    | .got ch _ _ => some (s.setPc c (.holding ch))
    | .waiting ch _ => if cfg.reuseOnlySequential then none else some (s.setPc c (.holding ch))
    | _ => none
  | .release c =>
    match s.pc c with
    | .got ch _ _ => some (s.putBack c ch)
    | .holding ch => some (s.putBack c ch)
    | .waiting ch _ => if cfg.poolPutOnlyAfterRecv then none else some (s.putBack c ch)
    | _ => none
  | .drop c =>
    match s.pc c with
    | .got ch _ _ => some ((s.setOwner ch none).setPc c .idle)
    | .holding ch => some ((s.setOwner ch none).setPc c .idle)
    | _ => none

def run (cfg : ChanCfg) : State → List Action → Option State
  | s, [] => some s
  | s, a :: rest =>
    match step cfg s a with
    | none => none
    | some s' => run cfg s' rest

/-- States reachable from `init` by the schedule `acts`. -/
def Reach (cfg : ChanCfg) (acts : List Action) (s : State) : Prop :=
  run cfg init acts = some s

theorem run_append (cfg : ChanCfg) (s : State) (as bs : List Action) :
    run cfg s (as ++ bs) = (run cfg s as).bind (fun s' => run cfg s' bs) := by
  induction as generalizing s with
  | nil => rfl
  | cons a as ih =>
    simp only [List.cons_append, run]
    cases step cfg s a with
    | none => rfl
    | some s' => exact ih s'

/-- Induction over reachable states (schedule extended at the end). -/
theorem Reach.induction {cfg : ChanCfg} (P : List Action → State → Prop)
    (h0 : P [] init)
    (hs : ∀ acts s a s', Reach cfg acts s → P acts s → step cfg s a = some s' → P (acts ++ [a]) s') :
    ∀ acts s, Reach cfg acts s → P acts s := by
  have key : ∀ (rev : List Action) s, Reach cfg rev.reverse s → P rev.reverse s := by
    intro rev
    induction rev with
    | nil => intro s h; simp only [Reach, List.reverse_nil, run, Option.some.injEq] at h; exact h ▸ h0
    | cons a as ih =>
      intro s h
      simp only [List.reverse_cons] at h ⊢
      simp only [Reach, run_append] at h
      cases hr : run cfg init as.reverse with
      | none => simp [hr] at h
      | some s1 =>
        simp only [hr, Option.bind_some, run] at h
        cases hst : step cfg s1 a with
        | none => simp [hst] at h
        | some s2 =>
          simp only [hst, Option.some.injEq] at h
          exact h ▸ hs as.reverse s1 a s2 hr (ih s1 hr) hst
  intro acts s h
  have := key acts.reverse s (by rwa [List.reverse_reverse])
  rwa [List.reverse_reverse] at this

/-! ### vocabulary of the property statements -/

/-- channels that some registered request points to -/
def State.targets (s : State) : List Nat := s.inflight.map (·.2)

def enabled (cfg : ChanCfg) (s : State) (a : Action) : Prop := (step cfg s a).isSome = true

instance (cfg : ChanCfg) (s : State) (a : Action) : Decidable (enabled cfg s a) := by
  unfold enabled; infer_instance

/-- executable check of the visible part of the discipline: no channel twice in the range of `inflight`;
pool channels are no targets, empty and unheld; target channels are empty -/
def State.disciplineOk (s : State) : Bool :=
  decide s.targets.Nodup &&
  s.pool.all (fun ch => !s.targets.contains ch && (s.chan ch).buf.isEmpty && (s.chan ch).owner.isNone) &&
  s.targets.all (fun ch => (s.chan ch).buf.isEmpty)

/-- caller an action belongs to (`none`: the environment) -/
def Action.caller? : Action → Option Nat
  | .acquireFresh c | .acquirePool c _ | .acquireExisting c _ | .dispatch c _ | .callerRecv c | .abandon c
  | .reuseOwn c | .release c | .drop c => some c
  | .envReply _ _ => none

def Action.isRecv : Action → Bool
  | .callerRecv _ => true
  | _ => false

/-- a receive that is NOT the reply to the receiving caller's own request -/
def RecvEvent.foreign (e : RecvEvent) : Bool := e.msg.sid != e.sid

end Sftp.ClientChan
