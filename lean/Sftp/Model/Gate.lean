import Sftp.Prim
/-
  M-Gate: the read-only gate of the os-backed server (server.go sftpServerWorker),
  as an interpreter of the tables regenerated from the source (Generated/Gate.lean).
-/
namespace Sftp

structure GateCfg where
  notReadOnly : List String          -- types carrying the notReadOnly marker method
  workerGate : List (String × String) -- the worker's type switch: case type ↦ "false" | "true" | "readonly()"
  shapeOK : Bool                     -- `readonly := true; switch…; if !readonly && svr.readOnly {EPERM; continue}` recognised
  denyError : String
  openReadonly : List Bool           -- sshFxpOpenPacket.readonly() for pflags 0..63
  extSwitch : List (String × String) -- extended request name ↦ specific packet type
  readonlyConst : List (String × Bool)
  extDelegates : Bool
  makePacket : List (Nat × String)   -- type byte ↦ packet type

/-- A request as far as the gate can see it. -/
structure GReq where
  typ : Nat
  pflags : Nat
  extName : String

def openType : String := "sshFxpOpenPacket"
def extType : String := "sshFxpExtendedPacket"

/-- value of `pkt.readonly()` for the two types that have such a method at the top level -/
def readonlyMethod (cfg : GateCfg) (t : String) (r : GReq) : Option Bool :=
  if t = openType then cfg.openReadonly[r.pflags % 64]?
  else if t = extType then
    if cfg.extDelegates then
      match cfg.extSwitch.lookup r.extName with
      | none => some true            -- SpecificPacket == nil
      | some st => cfg.readonlyConst.lookup st
    else none
  else none

/-- first matching clause of the worker's type switch -/
def gateSwitch (cfg : GateCfg) (t : String) (r : GReq) : List (String × String) → Option Bool
  | [] => some true                       -- `readonly := true` stays
  | (c, act) :: rest =>
    let hit := if c = "notReadOnly" then cfg.notReadOnly.contains t else c = t || c = "default"
    if hit then
      if act = "false" then some false
      else if act = "true" then some true
      else if act = "readonly()" then readonlyMethod cfg t r
      else none
    else gateSwitch cfg t r rest

/-- `some ro`: the request is decoded to a packet and the worker computes `readonly = ro`;
`none`: unknown type byte (not dispatched to a handler) or an unrecognised shape. -/
def gateReadonly (cfg : GateCfg) (r : GReq) : Option Bool :=
  if !cfg.shapeOK then none else
  match cfg.makePacket.lookup r.typ with
  | none => none
  | some t => gateSwitch cfg t r cfg.workerGate

/-- On a read-only server: is the request refused before any handler runs? -/
def denied (cfg : GateCfg) (r : GReq) : Bool := gateReadonly cfg r == some false

def deniedWithPermission (cfg : GateCfg) : Bool :=
  cfg.denyError = "syscall.EPERM" || cfg.denyError = "syscall.EACCES"

end Sftp
