/-
  M-Err: the error algebra of property C10 ("whatever the handler returns reaches the client unchanged in kind").

  * `GoErr`: abstract Go error values a handler (or package os) may return.
  * HAND-WRITTEN, TRUSTED models of the standard library predicates used by server.go `statusFromError`:
    `osIsNotExist`, `osIsPermission`, `osIsExist` (os.underlyingErrorIs: looks through exactly ONE level of
    *PathError / *LinkError / *SyscallError, then `== target` or `syscall.Errno.Is`), `errorsIsEOF`
    (errors.Is: follows `Unwrap` chains), `errorsAsFxerr` (errors.As with a target of type `fxerr`).
    They model code outside /repo and are tied to it by correspondence testing only (driver ops `c10.*`).
  * `statusFromError cfg e`: an INTERPRETER of the ordered statement list the extractor reads off
    server.go `statusFromError` (`ErrCfg.tests`), of errno_posix.go `translateErrno` (`errnoCases`) and of the
    shapes `translateSyscallError` looks through (`syscallShapes`).
  * `normalise nc code`: interpreter of client.go `normaliseError` (`NormCfg`).
  * `kindOf e`: what the property says the client must see for `e` (hand-written, independent of the tables).

  Abstractions: the text of an error is not modelled beyond "a message was set" (`hasMsg`), since the property
  asks only that a failure carries the error's text, which is `ret.StatusError.msg = err.Error()`;
  errno values are those of GOOS=linux (ENOENT = 2, EACCES = 13, EPERM = 1, EEXIST = 17, ENOTEMPTY = 39).
-/
namespace Sftp.Err

/-- Abstract Go error values. -/
inductive GoErr where
  | nil                          -- no error
  | errno (n : Nat)              -- syscall.Errno(n)
  | pathError (e : GoErr)        -- &os.PathError{Err: e}
  | linkError (e : GoErr)        -- &os.LinkError{Err: e}
  | syscallError (e : GoErr)     -- &os.SyscallError{Err: e}
  | wrapped (e : GoErr)          -- fmt.Errorf("…%w", e)
  | ioEOF                        -- io.EOF
  | osErrNotExist                -- os.ErrNotExist  (= fs.ErrNotExist)
  | osErrPermission              -- os.ErrPermission
  | osErrExist                   -- os.ErrExist
  | fxerr (code : Nat)           -- sftp.ErrSSHFx… (type fxerr)
  | statusErr (code : Nat)       -- &sftp.StatusError{Code: code}
  | other (text : String)        -- errors.New(text): anything else
  deriving DecidableEq, Repr

def ENOENT : Nat := 2
def EACCES : Nat := 13
def EPERM : Nat := 1
def EEXIST : Nat := 17
def ENOTEMPTY : Nat := 39

/-! ### trusted models of the standard library -/

/-- os.underlyingError: one level of *PathError / *LinkError / *SyscallError. -/
def underlying : GoErr → GoErr
  | .pathError e => e
  | .linkError e => e
  | .syscallError e => e
  | e => e

/-- os.IsNotExist. -/
def osIsNotExist (e : GoErr) : Bool :=
  match underlying e with
  | .osErrNotExist => true
  | .errno n => n == ENOENT
  | _ => false

/-- os.IsPermission. -/
def osIsPermission (e : GoErr) : Bool :=
  match underlying e with
  | .osErrPermission => true
  | .errno n => n == EACCES || n == EPERM
  | _ => false

/-- os.IsExist. -/
def osIsExist (e : GoErr) : Bool :=
  match underlying e with
  | .osErrExist => true
  | .errno n => n == EEXIST || n == ENOTEMPTY
  | _ => false

/-- errors.Is(err, io.EOF): follows the Unwrap chain (PathError, LinkError, SyscallError and `%w` all unwrap;
`syscall.Errno.Is(io.EOF)` is false). -/
def errorsIsEOF : GoErr → Bool
  | .ioEOF => true
  | .pathError e => errorsIsEOF e
  | .linkError e => errorsIsEOF e
  | .syscallError e => errorsIsEOF e
  | .wrapped e => errorsIsEOF e
  | _ => false

/-- `var e fxerr; errors.As(err, &e)`: the first fxerr on the Unwrap chain. -/
def errorsAsFxerr : GoErr → Option Nat
  | .fxerr c => some c
  | .pathError e => errorsAsFxerr e
  | .linkError e => errorsAsFxerr e
  | .syscallError e => errorsAsFxerr e
  | .wrapped e => errorsAsFxerr e
  | _ => none

/-! ### the server side: statusFromError as an interpreter of extracted tables -/

/-- One statement of `statusFromError`. -/
inductive Test where
  | setCode (c : Nat)      -- `ret.StatusError.Code = c` (also the initial value in the literal)
  | setMsg                 -- `ret.StatusError.msg = err.Error()`
  | retIfNil               -- `if err == nil { return ret }`
  | ret                    -- `return ret`
  | ifNotExist (c : Nat)   -- `if os.IsNotExist(err) { Code = c; return ret }`
  | ifPermission (c : Nat) -- `if os.IsPermission(err) { Code = c; return ret }`
  | ifExist (c : Nat)      -- `if os.IsExist(err) { Code = c; return ret }`
  | ifSyscall              -- `if code, ok := translateSyscallError(err); ok { Code = code; return ret }`
  | ifIsEOF (c : Nat)      -- `if errors.Is(err, io.EOF) { Code = c; return ret }`
  | ifAsFxerr              -- `var e fxerr; if errors.As(err, &e) { Code = uint32(e); return ret }`
  deriving DecidableEq, Repr

/-- A row of `G.statusFromErrorTests`. -/
def parseTest (row : String × Nat) : Option Test :=
  if row.1 = "init" then some (.setCode row.2)
  else if row.1 = "default" then some (.setCode row.2)
  else if row.1 = "msg" then some .setMsg
  else if row.1 = "nil" then some .retIfNil
  else if row.1 = "return" then some .ret
  else if row.1 = "os.IsNotExist" then some (.ifNotExist row.2)
  else if row.1 = "os.IsPermission" then some (.ifPermission row.2)
  else if row.1 = "os.IsExist" then some (.ifExist row.2)
  else if row.1 = "translateSyscallError" then some .ifSyscall
  else if row.1 = "errors.Is(io.EOF)" then some (.ifIsEOF row.2)
  else if row.1 = "errors.As(fxerr)" then some .ifAsFxerr
  else none

/-- all rows, or `none` if one is not understood. -/
def parseTests : List (String × Nat) → Option (List Test)
  | [] => some []
  | r :: rs =>
    match parseTest r, parseTests rs with
    | some t, some ts => some (t :: ts)
    | _, _ => none

structure ErrCfg where
  /-- server.go statusFromError, statement by statement -/
  tests : List Test
  /-- errno_posix.go translateErrno: (errno values of one `case`, status code) -/
  errnoCases : List (List Nat × Nat)
  /-- the `return` after the switch of translateErrno -/
  errnoDefault : Nat
  /-- the shapes translateSyscallError recognises: "syscall.Errno", "*os.PathError/syscall.Errno", … -/
  syscallShapes : List String
  deriving DecidableEq, Repr

def translateErrno (cfg : ErrCfg) (n : Nat) : Nat :=
  go cfg.errnoCases
where
  go : List (List Nat × Nat) → Nat
    | [] => cfg.errnoDefault
    | (vals, code) :: rest => if vals.contains n then code else go rest

def translateSyscallError (cfg : ErrCfg) : GoErr → Option Nat
  | .errno n => if cfg.syscallShapes.contains "syscall.Errno" then some (translateErrno cfg n) else none
  | .pathError (.errno n) =>
    if cfg.syscallShapes.contains "*os.PathError/syscall.Errno" then some (translateErrno cfg n) else none
  | .linkError (.errno n) =>
    if cfg.syscallShapes.contains "*os.LinkError/syscall.Errno" then some (translateErrno cfg n) else none
  | .syscallError (.errno n) =>
    if cfg.syscallShapes.contains "*os.SyscallError/syscall.Errno" then some (translateErrno cfg n) else none
  | _ => none

/-- the statements of statusFromError executed in order on `e`; state = (code so far, message set). -/
def runTests (cfg : ErrCfg) (e : GoErr) : List Test → Nat → Bool → Nat × Bool
  | [], code, msg => (code, msg)
  | .setCode c :: rest, _, msg => runTests cfg e rest c msg
  | .setMsg :: rest, code, _ => runTests cfg e rest code true
  | .retIfNil :: rest, code, msg => if e = .nil then (code, msg) else runTests cfg e rest code msg
  | .ret :: _, code, msg => (code, msg)
  | .ifNotExist c :: rest, code, msg => if osIsNotExist e then (c, msg) else runTests cfg e rest code msg
  | .ifPermission c :: rest, code, msg => if osIsPermission e then (c, msg) else runTests cfg e rest code msg
  | .ifExist c :: rest, code, msg => if osIsExist e then (c, msg) else runTests cfg e rest code msg
  | .ifSyscall :: rest, code, msg =>
    match translateSyscallError cfg e with
    | some c => (c, msg)
    | none => runTests cfg e rest code msg
  | .ifIsEOF c :: rest, code, msg => if errorsIsEOF e then (c, msg) else runTests cfg e rest code msg
  | .ifAsFxerr :: rest, code, msg =>
    match errorsAsFxerr e with
    | some c => (c, msg)
    | none => runTests cfg e rest code msg

/-- server.go `statusFromError(id, e)`: (status code on the wire, whether the message is `e.Error()`). -/
def statusFromError (cfg : ErrCfg) (e : GoErr) : Nat × Bool := runTests cfg e cfg.tests 0 false

/-! ### the client side: normaliseError -/

inductive Kind where
  | ok                     -- nil
  | eof                    -- io.EOF
  | notExist               -- os.ErrNotExist
  | permission             -- os.ErrPermission
  | status (code : Nat)    -- *StatusError with a code other than OK, EOF, NO_SUCH_FILE, PERMISSION_DENIED, FAILURE
  | failure                -- *StatusError{Code: SSH_FX_FAILURE}
  deriving DecidableEq, Repr

def SSH_FX_FAILURE : Nat := 4

/-- the client's `*StatusError{Code: c}` as a kind. -/
def Kind.ofStatus (c : Nat) : Kind := if c = SSH_FX_FAILURE then .failure else .status c

/-- result of one `case` of normaliseError's inner switch. -/
inductive NRes where
  | nil | ioEOF | osErrNotExist | osErrPermission | same
  deriving DecidableEq, Repr

def parseNRes (s : String) : Option NRes :=
  if s = "nil" then some .nil
  else if s = "io.EOF" then some .ioEOF
  else if s = "os.ErrNotExist" then some .osErrNotExist
  else if s = "os.ErrPermission" then some .osErrPermission
  else if s = "same" then some .same
  else none

def parseNCases : List (Nat × String) → Option (List (Nat × NRes))
  | [] => some []
  | (c, s) :: rs =>
    match parseNRes s, parseNCases rs with
    | some r, some l => some ((c, r) :: l)
    | _, _ => none

structure NormCfg where
  /-- client.go normaliseError: `case CODE: return …` of the switch on `err.Code` -/
  cases : List (Nat × NRes)
  /-- its `default:` -/
  dflt : NRes
  deriving DecidableEq, Repr

/-- what the caller of the client sees for `res` when the status code was `c`. -/
def NRes.kind (c : Nat) : NRes → Kind
  | .nil => .ok
  | .ioEOF => .eof
  | .osErrNotExist => .notExist
  | .osErrPermission => .permission
  | .same => Kind.ofStatus c

/-- client.go `normaliseError(&StatusError{Code: c})`. -/
def normalise (nc : NormCfg) (c : Nat) : Kind :=
  match nc.cases.lookup c with
  | some r => r.kind c
  | none => nc.dflt.kind c

/-! ### the specification: what the client must see -/

/-- the hand-written reading of "SFTP status codes as given": SSH_FX_OK ↦ no error, SSH_FX_EOF ↦ io.EOF,
NO_SUCH_FILE ↦ os.ErrNotExist, PERMISSION_DENIED ↦ os.ErrPermission, any other code as that code. -/
def kindOfCode (c : Nat) : Kind :=
  if c = 0 then .ok else if c = 1 then .eof else if c = 2 then .notExist else if c = 3 then .permission
  else Kind.ofStatus c

/-- the standard errors of os / io / syscall, bare. -/
def stdKind : GoErr → Option Kind
  | .ioEOF => some .eof
  | .osErrNotExist => some .notExist
  | .osErrPermission => some .permission
  | .errno n =>
    if n = ENOENT then some .notExist else if n = EACCES ∨ n = EPERM then some .permission else none
  | _ => none

/-- What the property says the client must see when the handler returned `e`:
nil ↦ ok; io.EOF ↦ eof; the not-exist family (os.ErrNotExist, ENOENT) ↦ notExist and the permission family
(os.ErrPermission, EACCES, EPERM) ↦ permission, bare or inside ONE *PathError / *LinkError / *SyscallError;
an SFTP status code ↦ that code (through the fixed reading `kindOfCode`); anything else ↦ failure. -/
def kindOf : GoErr → Kind
  | .nil => .ok
  | .fxerr c => kindOfCode c
  | .statusErr c => kindOfCode c
  | .pathError e => (stdKind e).getD .failure
  | .linkError e => (stdKind e).getD .failure
  | .syscallError e => (stdKind e).getD .failure
  | e => (stdKind e).getD .failure

/-! ### rendering / parsing for the driver -/

def Kind.render : Kind → String
  | .ok => "ok"
  | .eof => "eof"
  | .notExist => "notexist"
  | .permission => "permission"
  | .status c => "status:" ++ toString c
  | .failure => "failure"

/-- Compact prefix syntax for error terms (one token, no spaces):
`NIL` nil · `E<n>` syscall.Errno(n) · `P(t)` *os.PathError · `L(t)` *os.LinkError · `S(t)` *os.SyscallError ·
`W(t)` fmt.Errorf("%w") · `EOF` io.EOF · `NX` os.ErrNotExist · `PERM` os.ErrPermission · `EX` os.ErrExist ·
`F<n>` fxerr(n) · `T<n>` &StatusError{Code: n} · `X` errors.New("x"). -/
def digits : List Char → Option (Nat × List Char)
  | [] => none
  | c :: cs =>
    if c.isDigit then some (go (c.toNat - 48) cs) else none
where
  go (acc : Nat) : List Char → Nat × List Char
    | [] => (acc, [])
    | c :: cs => if c.isDigit then go (acc * 10 + (c.toNat - 48)) cs else (acc, c :: cs)

/-- recursive descent with fuel (the length of the input suffices). -/
def parseTerm : Nat → List Char → Option (GoErr × List Char)
  | 0, _ => none
  | fuel + 1, cs =>
    let wrap (mk : GoErr → GoErr) (rest : List Char) : Option (GoErr × List Char) :=
      match parseTerm fuel rest with
      | some (e, ')' :: rest') => some (mk e, rest')
      | _ => none
    match cs with
    | 'N' :: 'I' :: 'L' :: rest => some (.nil, rest)
    | 'N' :: 'X' :: rest => some (.osErrNotExist, rest)
    | 'P' :: 'E' :: 'R' :: 'M' :: rest => some (.osErrPermission, rest)
    | 'E' :: 'O' :: 'F' :: rest => some (.ioEOF, rest)
    | 'E' :: 'X' :: rest => some (.osErrExist, rest)
    | 'P' :: '(' :: rest => wrap .pathError rest
    | 'L' :: '(' :: rest => wrap .linkError rest
    | 'S' :: '(' :: rest => wrap .syscallError rest
    | 'W' :: '(' :: rest => wrap .wrapped rest
    | 'E' :: rest => (digits rest).map fun (n, r) => (.errno n, r)
    | 'F' :: rest => (digits rest).map fun (n, r) => (.fxerr n, r)
    | 'T' :: rest => (digits rest).map fun (n, r) => (.statusErr n, r)
    | 'X' :: rest => some (.other "x", rest)
    | _ => none

def parseErr (s : String) : Option GoErr :=
  match parseTerm (s.length + 1) s.toList with
  | some (e, []) => some e
  | _ => none

def GoErr.render : GoErr → String
  | .nil => "NIL"
  | .errno n => "E" ++ toString n
  | .pathError e => "P(" ++ e.render ++ ")"
  | .linkError e => "L(" ++ e.render ++ ")"
  | .syscallError e => "S(" ++ e.render ++ ")"
  | .wrapped e => "W(" ++ e.render ++ ")"
  | .ioEOF => "EOF"
  | .osErrNotExist => "NX"
  | .osErrPermission => "PERM"
  | .osErrExist => "EX"
  | .fxerr c => "F" ++ toString c
  | .statusErr c => "T" ++ toString c
  | .other _ => "X"

end Sftp.Err
