/-
  M-AllocFree: the page table of the server allocator (allocator.go) against the moment `Free` runs.

  `allocator.used` is a Go map: `nil` or allocated.  Reading, ranging over and deleting from a nil map is fine;
  `a.used[id] = …` on a nil map panics ("assignment to entry in nil map").  `GetPage` index-assigns into `used`
  unconditionally, `ReleasePages` deletes, `Free` sets `used` to a fresh map (HEAD) or to nil (seed C07_n, first edit).

  One session: `queued` READs wait for a worker; the receive loop may still be running and receive more; somebody hangs up
  (`conn.Close`: the receive loop on a malformed packet, a worker on an error, the application); `Serve` returns when the
  loop has ended and every worker has finished (`wg.Wait()`), and its deferred epilogue calls `Free`.
  `freeAtHangup` = `Free` is (also) called where the connection is closed (seed C07_n, second edit);
  `freeUsedNil`  = `Free` leaves `used` nil.
  Both are read off the source by translator unit AllocFreeSites (/verif/extract/round7.go).
-/
namespace Sftp.AllocFree

structure Cfg where
  freeAtHangup : Bool
  freeUsedNil : Bool
  deriving DecidableEq, Repr

structure St where
  /-- READs received and not yet taken by a worker -/
  queued : Nat
  /-- the receive loop of Serve is still running -/
  loop : Bool
  /-- conn.Close has been called -/
  closed : Bool
  /-- `allocator.used`: none = nil map, some ids = allocated map holding pages for these order ids -/
  used : Option (List Nat)
  /-- Free has run -/
  freed : Bool
  /-- a GetPage ran after Free (use after free) -/
  uaf : Bool
  /-- assignment to entry in nil map: the process is gone -/
  panicked : Bool
  /-- Serve has returned -/
  done : Bool
  deriving DecidableEq, Repr

def St.init (k : Nat) : St := ⟨k, true, false, some [], false, false, false, false⟩

inductive Act where
  | recv (id : Nat)     -- the receive loop calls recvPacket: GetPage(id), then the read; a READ is queued
  | eof                 -- the stream ends: the receive loop ends
  | hangup              -- conn.Close() by a worker, the application, or the receive loop itself
  | serve (id : Nat)    -- a worker takes a queued READ: getDataSlice → GetPage(id)
  | release (id : Nat)  -- the packet manager has sent the reply: ReleasePages(id)
  | epilogue            -- wg.Wait() has returned, Serve returns, its deferred literal calls Free
  deriving DecidableEq, Repr

/-- allocator.GetPage: `a.used[id] = append(a.used[id], page)` — panics on a nil map -/
def getPage (s : St) (id : Nat) : St :=
  match s.used with
  | none => { s with panicked := true, uaf := s.uaf || s.freed }
  | some l => { s with used := some (id :: l), uaf := s.uaf || s.freed }

/-- allocator.ReleasePages: `delete(a.used, id)` — a no-op on a nil map -/
def releasePages (s : St) (id : Nat) : St :=
  match s.used with
  | none => s
  | some l => { s with used := some (l.filter (· != id)) }

/-- allocator.Free -/
def free (c : Cfg) (s : St) : St :=
  { s with used := if c.freeUsedNil then none else some [], freed := true }

def step (c : Cfg) (s : St) : Act → Option St
  | .recv id =>
    if s.loop = true ∧ s.panicked = false then
      let s1 := getPage s id
      if s1.panicked then some s1
      else if s.closed then some { s1 with loop := false }   -- the read fails on the closed transport: the loop ends
      else some { s1 with queued := s1.queued + 1 }
    else none
  | .eof => if s.loop = true ∧ s.panicked = false then some { s with loop := false } else none
  | .hangup =>
    if s.panicked = false then
      let s1 := { s with closed := true }
      some (if c.freeAtHangup then free c s1 else s1)
    else none
  | .serve id =>
    if s.queued > 0 ∧ s.panicked = false then
      let s1 := getPage s id
      some { s1 with queued := s1.queued - 1 }
    else none
  | .release id => if s.panicked = false then some (releasePages s id) else none
  | .epilogue =>
    if s.loop = false ∧ s.queued = 0 ∧ s.done = false ∧ s.panicked = false then
      some { free c s with done := true }
    else none

def run (c : Cfg) (s : St) : List Act → Option St
  | [] => some s
  | a :: as =>
    match step c s a with
    | some s' => run c s' as
    | none => none

/-! ### Free only in the epilogue -/

structure InvEp (s : St) : Prop where
  noPanic : s.panicked = false
  noUaf : s.uaf = false
  live : s.freed = false → s.used.isSome = true
  over : s.freed = true → s.loop = false ∧ s.queued = 0

theorem invEp_init (k : Nat) : InvEp (St.init k) :=
  ⟨rfl, rfl, fun _ => rfl, fun h => by cases h⟩

theorem getPage_live (s : St) (id : Nat) (h : InvEp s) (hf : s.freed = false) :
    (getPage s id).panicked = false ∧ (getPage s id).uaf = false ∧ (getPage s id).freed = false ∧
    (getPage s id).used.isSome = true ∧ (getPage s id).queued = s.queued ∧ (getPage s id).loop = s.loop := by
  have hl := h.live hf
  unfold getPage
  cases hu : s.used with
  | none => rw [hu] at hl; cases hl
  | some l => simp [h.noPanic, h.noUaf, hf]

theorem step_invEp (c : Cfg) (hc : c.freeAtHangup = false) (s s' : St) (a : Act) (h : InvEp s)
    (hs : step c s a = some s') : InvEp s' := by
  cases a with
  | recv id =>
    simp only [step] at hs
    split at hs
    · rename_i hg
      have hf : s.freed = false := by
        cases hfr : s.freed with
        | false => rfl
        | true => have := (h.over hfr).1; rw [hg.1] at this; cases this
      obtain ⟨g1, g2, g3, g4, g5, g6⟩ := getPage_live s id h hf
      split at hs
      · rename_i hp; rw [g1] at hp; cases hp
      · split at hs
        · cases hs
          exact ⟨g1, g2, fun _ => g4, fun hfr => by simp [g3] at hfr⟩
        · cases hs
          exact ⟨g1, g2, fun _ => g4, fun hfr => by simp [g3] at hfr⟩
    · cases hs
  | eof =>
    simp only [step] at hs
    split at hs
    · cases hs
      exact ⟨h.noPanic, h.noUaf, h.live, fun hfr => ⟨rfl, (h.over hfr).2⟩⟩
    · cases hs
  | hangup =>
    simp only [step, hc] at hs
    split at hs
    · cases hs
      exact ⟨h.noPanic, h.noUaf, h.live, h.over⟩
    · cases hs
  | serve id =>
    simp only [step] at hs
    split at hs
    · rename_i hg
      have hf : s.freed = false := by
        cases hfr : s.freed with
        | false => rfl
        | true => have := (h.over hfr).2; omega
      obtain ⟨g1, g2, g3, g4, g5, g6⟩ := getPage_live s id h hf
      cases hs
      exact ⟨g1, g2, fun _ => g4, fun hfr => by simp [g3] at hfr⟩
    · cases hs
  | release id =>
    simp only [step] at hs
    split at hs
    · cases hs
      unfold releasePages
      cases hu : s.used with
      | none => exact h
      | some l =>
        refine ⟨h.noPanic, h.noUaf, fun _ => rfl, h.over⟩
    · cases hs
  | epilogue =>
    simp only [step] at hs
    split at hs
    · rename_i hg
      cases hs
      exact ⟨h.noPanic, h.noUaf, fun hfr => by simp [free] at hfr, fun _ => ⟨hg.1, hg.2.1⟩⟩
    · cases hs

theorem run_invEp (c : Cfg) (hc : c.freeAtHangup = false) (acts : List Act) :
    ∀ s s', InvEp s → run c s acts = some s' → InvEp s' := by
  induction acts with
  | nil => intro s s' h hr; simp only [run] at hr; cases hr; exact h
  | cons a as ih =>
    intro s s' h hr
    simp only [run] at hr
    split at hr
    · rename_i s1 hs1
      exact ih s1 s' (step_invEp c hc s s1 a h hs1) hr
    · cases hr

/-- Free only in the epilogue of Serve: whatever `Free` leaves in `used`, for every number of queued READs and every
schedule, no GetPage runs on a freed table and nothing panics -/
theorem epilogue_only_no_use_after_free (c : Cfg) (hc : c.freeAtHangup = false) (k : Nat) (acts : List Act) (s : St)
    (hr : run c (St.init k) acts = some s) : s.uaf = false ∧ s.panicked = false :=
  let h := run_invEp c hc acts (St.init k) s (invEp_init k) hr
  ⟨h.noUaf, h.noPanic⟩

/-! ### Free leaves an allocated table -/

structure InvMk (s : St) : Prop where
  noPanic : s.panicked = false
  live : s.used.isSome = true

theorem step_invMk (c : Cfg) (hc : c.freeUsedNil = false) (s s' : St) (a : Act) (h : InvMk s)
    (hs : step c s a = some s') : InvMk s' := by
  have hgp : ∀ id, (getPage s id).panicked = false ∧ (getPage s id).used.isSome = true := by
    intro id
    have hl := h.live
    unfold getPage
    cases hu : s.used with
    | none => rw [hu] at hl; cases hl
    | some l => simp [h.noPanic]
  cases a with
  | recv id =>
    simp only [step] at hs
    split at hs
    · split at hs
      · rename_i hp; rw [(hgp id).1] at hp; cases hp
      · split at hs <;> (cases hs; exact ⟨(hgp id).1, (hgp id).2⟩)
    · cases hs
  | eof =>
    simp only [step] at hs
    split at hs
    · cases hs; exact ⟨h.noPanic, h.live⟩
    · cases hs
  | hangup =>
    simp only [step] at hs
    split at hs
    · cases hs
      split
      · exact ⟨h.noPanic, by simp [free, hc]⟩
      · exact ⟨h.noPanic, h.live⟩
    · cases hs
  | serve id =>
    simp only [step] at hs
    split at hs
    · cases hs; exact ⟨(hgp id).1, (hgp id).2⟩
    · cases hs
  | release id =>
    simp only [step] at hs
    split at hs
    · cases hs
      unfold releasePages
      cases hu : s.used with
      | none => exact h
      | some l => exact ⟨h.noPanic, rfl⟩
    · cases hs
  | epilogue =>
    simp only [step] at hs
    split at hs
    · cases hs; exact ⟨h.noPanic, by simp [free, hc]⟩
    · cases hs

/-- `Free` re-creating the table: wherever it is called, nothing panics (each edit of seed C07_n alone is harmless) -/
theorem fresh_table_never_panics (c : Cfg) (hc : c.freeUsedNil = false) (acts : List Act) :
    ∀ s s', InvMk s → run c s acts = some s' → s'.panicked = false := by
  induction acts with
  | nil => intro s s' h hr; simp only [run] at hr; cases hr; exact h.noPanic
  | cons a as ih =>
    intro s s' h hr
    simp only [run] at hr
    split at hr
    · rename_i s1 hs1
      exact ih s1 s' (step_invMk c hc s s1 a h hs1) hr
    · cases hr

theorem invMk_init (k : Nat) : InvMk (St.init k) := ⟨rfl, rfl⟩

/-- both edits: hang up while a READ is queued, the worker's GetPage hits the nil map -/
theorem free_at_hangup_nil_panics (k : Nat) :
    ∃ s, run ⟨true, true⟩ (St.init (k + 1)) [.hangup, .serve 0] = some s ∧ s.panicked = true ∧ s.uaf = true := by
  refine ⟨_, rfl, rfl, rfl⟩

end Sftp.AllocFree
