import Sftp.Spec.Mode
/-
  M-FileInfoAcc: the accessor methods of the client-side `fileInfo` (attrs.go) — the os.FileInfo the client builds from
  every ATTRS reply and every NAME entry.

  The wire mode word is a `Nat`; `conv` stands for the conversion `Mode()` goes through (stat.go `toFileMode`, whose
  table is the subject of Props/C17 — there it is proved equal to the hand-written reference `Spec.Mode.toOs` on every
  16-bit word, which is the only thing assumed about it here).  `IsDirImpl` is HOW `IsDir()` decides; which variant the
  tree holds is read off the source by translator unit FileInfoAcc (/verif/extract/round5.go).
-/
namespace Sftp.FileInfoAcc
open Sftp.Spec.Mode

/-- `(io/fs).FileMode.IsDir`: `m&ModeDir != 0`. -/
def osIsDir (fm : Nat) : Bool := fm &&& ModeDir != 0

/-- how `(*fileInfo).IsDir` decides -/
inductive IsDirImpl where
  | viaMode                 -- `return fi.Mode().IsDir()`
  | bitTest (mask : Nat)    -- `return fi.stat.Mode&mask != 0` (seeds C05_j, C16_i, C17_i with mask = S_IFDIR)
  deriving DecidableEq, Repr

/-- `fi.IsDir()` for a fileInfo whose stat carries the wire mode word `w` -/
def isDir (impl : IsDirImpl) (conv : Nat → Nat) (w : Nat) : Bool :=
  match impl with
  | .viaMode => osIsDir (conv w)
  | .bitTest mask => w &&& mask != 0

/-- the accessor table of attrs.go as the property needs it (method, body with the receiver printed as `fi`) -/
def expectedMethods : List (String × String) :=
  [("IsDir", "return fi.Mode().IsDir()"),
   ("ModTime", "return fi.stat.ModTime()"),
   ("Mode", "return fi.stat.FileMode()"),
   ("Name", "return fi.name"),
   ("Size", "return int64(fi.stat.Size)"),
   ("Sys", "return fi.stat")]

/-- the IsDir variant a method table stands for: `viaMode` only if IsDir is literally `fi.Mode().IsDir()`, resolved by
the type checker to fileInfo.Mode and FileMode.IsDir (`viaModeByObjects`), and Mode is toFileMode of the stored word -/
def implOf (methods : List (String × String)) (viaModeByObjects modeViaConv : Bool) : Option IsDirImpl :=
  if methods.lookup "IsDir" = some "return fi.Mode().IsDir()" ∧ viaModeByObjects = true ∧ modeViaConv = true then
    some .viaMode
  else none

/-! ### bit lemmas -/

theorem and_pow_ne_zero (a k : Nat) : (a &&& 2^k != 0) = a.testBit k := by
  cases h : a.testBit k
  · have : a &&& 2^k = 0 := by
      apply Nat.eq_of_testBit_eq
      intro i
      rw [Nat.testBit_and, Nat.testBit_two_pow, Nat.zero_testBit]
      by_cases hi : k = i
      · subst hi; simp [h]
      · simp [hi]
    simp [this]
  · have : (a &&& 2^k).testBit k = true := by
      rw [Nat.testBit_and, Nat.testBit_two_pow, h]; simp
    have hne : a &&& 2^k ≠ 0 := by
      intro h0; rw [h0, Nat.zero_testBit] at this; cases this
    simp [hne]

theorem special_no31 (m : Nat) :
    (specialPairs.foldl (fun (acc : Nat) (p : Nat × Nat) => if m &&& p.1 ≠ 0 then acc ||| p.2 else acc) 0).testBit 31
      = false := by
  simp only [specialPairs, List.foldl, S_ISUID, S_ISGID, S_ISVTX, ModeSetuid, ModeSetgid, ModeSticky]
  split <;> split <;> split <;> decide

theorem lookup_none (t : Nat) (h1 : t ≠ S_IFREG) (h2 : t ≠ S_IFDIR) (h3 : t ≠ S_IFLNK) (h4 : t ≠ S_IFIFO)
    (h5 : t ≠ S_IFSOCK) (h6 : t ≠ S_IFBLK) (h7 : t ≠ S_IFCHR) : typePairs.lookup t = none := by
  have e : ∀ a : Nat, t ≠ a → (t == a) = false := fun a h => by simp [h]
  simp only [typePairs, List.lookup, e _ h1, e _ h2, e _ h3, e _ h4, e _ h5, e _ h6, e _ h7]

theorem type_31 (t : Nat) : ((typePairs.lookup t).getD 0).testBit 31 = (t == S_IFDIR) := by
  by_cases h1 : t = S_IFREG
  · subst h1; decide
  by_cases h2 : t = S_IFDIR
  · subst h2; decide
  by_cases h3 : t = S_IFLNK
  · subst h3; decide
  by_cases h4 : t = S_IFIFO
  · subst h4; decide
  by_cases h5 : t = S_IFSOCK
  · subst h5; decide
  by_cases h6 : t = S_IFBLK
  · subst h6; decide
  by_cases h7 : t = S_IFCHR
  · subst h7; decide
  rw [lookup_none t h1 h2 h3 h4 h5 h6 h7]
  simp [h2]

/-- the reference conversion sets os.ModeDir exactly for the type nibble S_IFDIR — for EVERY word, whatever its
permission, special and (ignored) high bits -/
theorem toOs_isDir (w : Nat) : osIsDir (toOs w) = (w &&& S_IFMT == S_IFDIR) := by
  unfold osIsDir toOs
  rw [show ModeDir = 2^31 from rfl, and_pow_ne_zero, Nat.testBit_or, Nat.testBit_or, special_no31, Nat.testBit_and]
  have hp : ModePerm.testBit 31 = false := by decide
  have h31 := type_31 (w &&& S_IFMT)
  generalize typePairs.lookup (w &&& S_IFMT) = r at h31 ⊢
  cases r with
  | none => simpa [hp] using h31
  | some v => simpa [hp] using h31

/-- the single-bit test looks at bit 14 of the word -/
theorem bitTest_ifdir (w : Nat) : isDir (.bitTest S_IFDIR) toOs w = w.testBit 14 := by
  show (w &&& S_IFDIR != 0) = w.testBit 14
  rw [show S_IFDIR = 2^14 from rfl, and_pow_ne_zero]

/-- … and bit 14 of the word is bit 14 of its type nibble -/
theorem testBit14_nibble (w : Nat) : w.testBit 14 = (w &&& S_IFMT).testBit 14 := by
  rw [Nat.testBit_and]
  have : S_IFMT.testBit 14 = true := by decide
  simp [this]

end Sftp.FileInfoAcc
