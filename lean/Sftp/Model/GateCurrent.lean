import Sftp.Model.Gate
import Sftp.Generated.Gate
namespace Sftp
/-- The gate configuration of the source as it is now. -/
def G.gateCfg : GateCfg :=
  { notReadOnly := G.notReadOnlyTypes, workerGate := G.workerGate, shapeOK := G.gateShapeOK,
    denyError := G.gateDenyError, openReadonly := G.openReadonlyTable, extSwitch := G.extSwitch,
    readonlyConst := G.readonlyConst, extDelegates := G.extendedReadonlyDelegates,
    makePacket := G.makePacketSwitch }
end Sftp
