/-
  M-Pipe: the server request pipeline of pkg/sftp as a labelled transition system.

  Source: packet-manager.go (packetManager, incomingPacket, readyPacket, close, workerChan,
  controller, maybeSendPackets), server.go (Serve, sftpServerWorker, handlePacket) and
  request-server.go (Serve, serveLoop, packetWorker).

  Processes of the real server and their model actions
  * receive loop (Serve / serveLoop): `recv r` gives the next request the order id
    `packetCount+1` (= number of requests received so far + 1, `newOrderedRequest`) and puts it on
    `pktChan`; `closeInput` is `close(pktChan)` after recvPacket failed.
  * dispatcher goroutine of `workerChan`: `dispatch` treats the head of `pktChan`
    (type switch: pool kinds / CLOSE with `working.Wait()` / everything else), `dispatcherShutdown` is the code
    after the `for … range pktChan` loop (`close(rwChan); close(cmdChan); s.close()`), enabled only when the
    WaitGroup counter is 0, and closes `fini`.
  * `workers` pool workers on rwChan and one command worker on cmdChan (sftpServerWorker / packetWorker):
    `workerTake i` (receive from the channel), `workerHandle i` (the handler call; linearised at the moment
    the handler RETURNS: a slot in state `holding` covers "not started" as well as "in progress"),
    `workerReady i` (`readyPacket`: response on the `responses` channel, then `working.Done()`).
    `cmdTake / cmdHandle / cmdReady` likewise for the single sequential command worker.
  * controller goroutine: `ctlTakeReq`, `ctlTakeResp` (append, Sort, maybeSendPackets), `ctlFini` (the
    `<-s.fini` branch of the select: may fire while the other two channels still hold packets; with
    `drainOnFini` it first drains them and sends, see `drainState`).  `controllerStopped` is what
    `pktMgr.wait()` in the Serve functions waits for.

  Abstractions (all in the sound direction for safety properties = they only ADD schedules)
  * every channel is unbounded (the real ones have capacity SftpServerWorkerCount, cmdChan has capacity 0);
  * `incomingPacket` followed by the hand-off `rwChan <- pkt` / `cmdChan <- pkt` is ONE atomic `dispatch` step when
    `registerBeforeHandoff` holds: between the two Go statements only the controller can observe the new request
    (it sits in `requests`), and the controller never looks at rwChan/cmdChan, so the hand-off commutes
    with every interleaved step of the other processes.  When `registerBeforeHandoff` is false the two are
    separate steps (`pendingReg`), because then a worker can finish the request before it is registered.
  * a negative WaitGroup counter panics in Go (`sync: negative WaitGroup counter`): `panicked`, after
    which no step is enabled.
  * the response is a record (order id, request id it was built with, kind of the request whose handler branch built it).
-/
namespace Sftp.Pipe

inductive ReqKind where
  | rw      -- SSH_FXP_READ / SSH_FXP_WRITE
  | close   -- SSH_FXP_CLOSE
  | cmd     -- everything else
  deriving DecidableEq, Repr, Inhabited

/-- A request as sent by the client: its request id and kind. -/
structure Req where
  id : Nat
  kind : ReqKind
  deriving DecidableEq, Repr

/-- `orderedRequest`. -/
structure OReq where
  oid : Nat
  id : Nat
  kind : ReqKind
  deriving DecidableEq, Repr

/-- `orderedResponse`: order id, the request id the packet carries, and the kind of the request whose handler
branch produced it. -/
structure Resp where
  oid : Nat
  id : Nat
  kind : ReqKind
  deriving DecidableEq, Repr

/-- What the handler of request `r` hands to `readyPacket` (`newOrderedResponse(rpkt, orderID)` with
`rpkt.ID = p.ID`). -/
def mkResp (r : OReq) : Resp := ⟨r.oid, r.id, r.kind⟩

inductive Slot where
  | idle
  | holding (r : OReq)   -- request taken from the channel, handler has not returned yet
  | done (p : Resp)      -- handler returned, readyPacket not yet executed
  deriving DecidableEq, Repr

/-- Facts of the Go source the pipeline depends on. -/
structure PipeCfg where
  /-- kinds the dispatcher's type switch sends to rwChan (first `case` of the switch in workerChan) -/
  poolKinds : List ReqKind
  /-- `case *sshFxpClosePacket: s.working.Wait()` is present in workerChan -/
  closeWaits : Bool
  /-- `s.incomingPacket(pkt)` precedes `rwChan <- pkt` / `cmdChan <- pkt` in workerChan -/
  registerBeforeHandoff : Bool
  /-- maybeSendPackets sends only if `in.orderID() == out.orderID()` -/
  headMatch : Bool
  /-- controller: `s.incoming.Sort()` after the append -/
  sortIncoming : Bool
  /-- controller: `s.outgoing.Sort()` after the append -/
  sortOutgoing : Bool
  /-- SftpServerWorkerCount -/
  workers : Nat
  /-- controller, `case <-s.fini:` first takes everything still queued on `requests` / `responses`
  (non-blocking loop, append + Sort), runs maybeSendPackets once more and only then returns; the Serve functions
  wait for the controller to exit (`pktMgr.wait()`).  `false` = the pinned behaviour: plain `return`.
  (Has a default so that a configuration written without it still type-checks.) -/
  drainOnFini : Bool := false
  deriving DecidableEq, Repr

/-- The pipeline as it is in the source today. -/
def PipeCfg.current : PipeCfg :=
  { poolKinds := [.rw], closeWaits := true, registerBeforeHandoff := true, headMatch := true,
    sortIncoming := true, sortOutgoing := true, workers := 8, drainOnFini := true }

/-- The pipeline as it was at the pinned commit (before the repair of F5): the controller returned on `fini`
without draining its channels. -/
def PipeCfg.pinned : PipeCfg := { PipeCfg.current with drainOnFini := false }

structure State where
  /-- ghost: every request received so far, in arrival order (its length is `packetCount`) -/
  received : List OReq := []
  /-- ghost: requests the dispatcher has taken off pktChan, in order -/
  dispatched : List OReq := []
  pktChan : List OReq := []
  /-- only when `registerBeforeHandoff = false`: handed off, `incomingPacket` still to be executed -/
  pendingReg : Option OReq := none
  /-- the WaitGroup counter -/
  working : Nat := 0
  reqInbox : List OReq := []    -- channel `requests`
  respInbox : List Resp := []   -- channel `responses`
  incoming : List OReq := []
  outgoing : List Resp := []
  sent : List Resp := []        -- what `sendPacket` was called with, in order
  poolQueue : List OReq := []   -- rwChan
  slots : List Slot := []       -- the pool workers
  cmdQueue : List OReq := []    -- cmdChan
  cmdSlot : Slot := .idle       -- the command worker
  /-- order ids in the order in which their handler call returned -/
  handled : List Nat := []
  inputClosed : Bool := false
  finiClosed : Bool := false
  controllerStopped : Bool := false
  panicked : Bool := false
  deriving Repr

/-- For C14: the requests whose handler has finished. -/
def State.finished (s : State) : List Nat := s.handled

def init (cfg : PipeCfg) : State := { slots := List.replicate cfg.workers .idle }

inductive Action where
  | recv (r : Req)
  | dispatch
  | workerTake (i : Nat) | workerHandle (i : Nat) | workerReady (i : Nat)
  | cmdTake | cmdHandle | cmdReady
  | ctlTakeReq | ctlTakeResp
  | closeInput | dispatcherShutdown | ctlFini
  deriving DecidableEq, Repr

/-- Insert into a list sorted by `key` (= append followed by `Sort()` when the list was sorted and the keys are
distinct, which is the only situation in which the controller uses it). -/
def insertBy {α : Type} (key : α → Nat) (x : α) : List α → List α
  | [] => [x]
  | y :: ys => if key x ≤ key y then x :: y :: ys else y :: insertBy key x ys

/-- `maybeSendPackets`: returns (incoming, outgoing, sent). -/
def sendLoop (headMatch : Bool) : List OReq → List Resp → List Resp → List OReq × List Resp × List Resp
  | i :: is, o :: os, sn =>
    if headMatch = false ∨ i.oid = o.oid then sendLoop headMatch is os (sn ++ [o]) else (i :: is, o :: os, sn)
  | [], os, sn => ([], os, sn)
  | is, [], sn => (is, [], sn)

def applySend (cfg : PipeCfg) (s : State) : State :=
  let t := sendLoop cfg.headMatch s.incoming s.outgoing s.sent
  { s with incoming := t.1, outgoing := t.2.1, sent := t.2.2 }

def recvStep (s : State) (r : Req) : Option State :=
  if s.inputClosed then none
  else
    let o : OReq := ⟨s.received.length + 1, r.id, r.kind⟩
    some { s with received := s.received ++ [o], pktChan := s.pktChan ++ [o] }

def dispatchStep (cfg : PipeCfg) (s : State) : Option State :=
  match s.pendingReg with
  | some r => some { s with pendingReg := none, working := s.working + 1, reqInbox := s.reqInbox ++ [r] }
  | none =>
    match s.pktChan with
    | [] => none
    | r :: rest =>
      if r.kind ∈ cfg.poolKinds then
        if cfg.registerBeforeHandoff then
          some { s with pktChan := rest, dispatched := s.dispatched ++ [r], working := s.working + 1,
                        reqInbox := s.reqInbox ++ [r], poolQueue := s.poolQueue ++ [r] }
        else
          some { s with pktChan := rest, dispatched := s.dispatched ++ [r], poolQueue := s.poolQueue ++ [r],
                        pendingReg := some r }
      else if r.kind = .close ∧ cfg.closeWaits = true ∧ s.working ≠ 0 then none   -- blocked in working.Wait()
      else if cfg.registerBeforeHandoff then
        some { s with pktChan := rest, dispatched := s.dispatched ++ [r], working := s.working + 1,
                      reqInbox := s.reqInbox ++ [r], cmdQueue := s.cmdQueue ++ [r] }
      else
        some { s with pktChan := rest, dispatched := s.dispatched ++ [r], cmdQueue := s.cmdQueue ++ [r],
                      pendingReg := some r }

def workerTakeStep (s : State) (i : Nat) : Option State :=
  match s.slots[i]?, s.poolQueue with
  | some .idle, r :: rest => some { s with poolQueue := rest, slots := s.slots.set i (.holding r) }
  | _, _ => none

def workerHandleStep (s : State) (i : Nat) : Option State :=
  match s.slots[i]? with
  | some (.holding r) => some { s with slots := s.slots.set i (.done (mkResp r)), handled := s.handled ++ [r.oid] }
  | _ => none

def workerReadyStep (s : State) (i : Nat) : Option State :=
  match s.slots[i]? with
  | some (.done p) =>
    if s.working = 0 then some { s with panicked := true }
    else some { s with slots := s.slots.set i .idle, respInbox := s.respInbox ++ [p], working := s.working - 1 }
  | _ => none

def cmdTakeStep (s : State) : Option State :=
  match s.cmdSlot, s.cmdQueue with
  | .idle, r :: rest => some { s with cmdQueue := rest, cmdSlot := .holding r }
  | _, _ => none

def cmdHandleStep (s : State) : Option State :=
  match s.cmdSlot with
  | .holding r => some { s with cmdSlot := .done (mkResp r), handled := s.handled ++ [r.oid] }
  | _ => none

def cmdReadyStep (s : State) : Option State :=
  match s.cmdSlot with
  | .done p =>
    if s.working = 0 then some { s with panicked := true }
    else some { s with cmdSlot := .idle, respInbox := s.respInbox ++ [p], working := s.working - 1 }
  | _ => none

def ctlTakeReqStep (cfg : PipeCfg) (s : State) : Option State :=
  if s.controllerStopped then none
  else match s.reqInbox with
    | [] => none
    | r :: rest =>
      some (applySend cfg { s with reqInbox := rest,
                                   incoming := if cfg.sortIncoming then insertBy OReq.oid r s.incoming
                                               else s.incoming ++ [r] })

def ctlTakeRespStep (cfg : PipeCfg) (s : State) : Option State :=
  if s.controllerStopped then none
  else match s.respInbox with
    | [] => none
    | p :: rest =>
      some (applySend cfg { s with respInbox := rest,
                                   outgoing := if cfg.sortOutgoing then insertBy Resp.oid p s.outgoing
                                               else s.outgoing ++ [p] })

def closeInputStep (s : State) : Option State :=
  if s.inputClosed then none else some { s with inputClosed := true }

def dispatcherShutdownStep (s : State) : Option State :=
  if s.inputClosed = true ∧ s.pktChan = [] ∧ s.pendingReg = none ∧ s.finiClosed = false ∧ s.working = 0 then
    some { s with finiClosed := true }
  else none

/-- The drain loop of the repaired `fini` branch followed by its maybeSendPackets: every queued request and
response is appended (and sorted in) WITHOUT sending in between, then the send loop runs once.  When `fini` is
closed nobody can send on the two channels any more (input closed, pktChan empty, WaitGroup counter 0), so
their contents are fixed and taking them all in one step is exact; the two lists are independent, so the order in
which the inner `select` alternates between the channels does not matter. -/
def drainState (cfg : PipeCfg) (s : State) : State :=
  applySend cfg
    { s with reqInbox := [], respInbox := [],
             incoming := s.reqInbox.foldl
               (fun acc r => if cfg.sortIncoming then insertBy OReq.oid r acc else acc ++ [r]) s.incoming,
             outgoing := s.respInbox.foldl
               (fun acc p => if cfg.sortOutgoing then insertBy Resp.oid p acc else acc ++ [p]) s.outgoing }

def ctlFiniStep (cfg : PipeCfg) (s : State) : Option State :=
  if s.finiClosed = true ∧ s.controllerStopped = false then
    if cfg.drainOnFini then some { drainState cfg s with controllerStopped := true }
    else some { s with controllerStopped := true }
  else none

def step (cfg : PipeCfg) (s : State) (a : Action) : Option State :=
  if s.panicked then none
  else match a with
    | .recv r => recvStep s r
    | .dispatch => dispatchStep cfg s
    | .workerTake i => workerTakeStep s i
    | .workerHandle i => workerHandleStep s i
    | .workerReady i => workerReadyStep s i
    | .cmdTake => cmdTakeStep s
    | .cmdHandle => cmdHandleStep s
    | .cmdReady => cmdReadyStep s
    | .ctlTakeReq => ctlTakeReqStep cfg s
    | .ctlTakeResp => ctlTakeRespStep cfg s
    | .closeInput => closeInputStep s
    | .dispatcherShutdown => dispatcherShutdownStep s
    | .ctlFini => ctlFiniStep cfg s

def run (cfg : PipeCfg) : State → List Action → Option State
  | s, [] => some s
  | s, a :: as =>
    match step cfg s a with
    | none => none
    | some s' => run cfg s' as

/-- Replay for the driver: the final state, or the index of the first action that was not enabled. -/
def runIdx (cfg : PipeCfg) : Nat → State → List Action → Except Nat State
  | _, s, [] => .ok s
  | k, s, a :: as =>
    match step cfg s a with
    | none => .error k
    | some s' => runIdx cfg (k + 1) s' as

/-! ### the close barrier, as a decidable state predicate -/

/-- C14 condition in state `s`: every CLOSE that has left the dispatcher is preceded only by pool requests
whose handler has already returned. -/
def closeSafe (cfg : PipeCfg) (s : State) : Bool :=
  s.dispatched.all fun c =>
    c.kind != .close ||
      s.received.all fun r => !(decide (r.oid < c.oid) && decide (r.kind ∈ cfg.poolKinds)) || decide (r.oid ∈ s.finished)

/-- Replay and evaluate `closeSafe` after every step: `some none` = holds throughout, `some (some k)` = false
after the k-th action (0-based, counted from the first argument), `none` = an action before any violation was not
enabled. -/
def checkClose (cfg : PipeCfg) : Nat → State → List Action → Option (Option Nat)
  | _, _, [] => some none
  | k, s, a :: as =>
    match step cfg s a with
    | none => none
    | some s' => if closeSafe cfg s' then checkClose cfg (k + 1) s' as else some (some k)

end Sftp.Pipe
