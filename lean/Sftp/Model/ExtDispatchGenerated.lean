import Sftp.Model.ExtDispatch
import Sftp.Generated.Gate
import Sftp.Generated.Handshake
import Sftp.Generated.ServerCalls
import Sftp.Generated.PipeCfg
import Sftp.Generated.ReqServer
import Sftp.Generated.ReqReplies
/-
  `ExtCfg.generated`: the configuration of M-ExtDispatch built from the tables /verif/extract regenerates from /repo's
  working tree.  Where a generated fact is only a recognised-shape Bool, the field takes today's value when the Bool is
  true and a value the interpreter answers `unmodelled` / the worst case for otherwise, so that a changed source can
  never silently satisfy the hypotheses of Props/C19Ext.lean.

  Fields with NO generated counterpart yet (taken from `ExtCfg.current`; extractor follow-up, see the report in
  Props/C19Ext.lean):
    * genericRespondDelegates   packet.go:1325-1330 (*sshFxpExtendedPacket).respond
  Fields covered only by a combined or indirect fact:
    * genericNilReadonly, genericDelegates  ← G.extendedReadonlyDelegates (one Bool for the whole body, packet.go:1318-1323)
    * filecmdIface, filecmdClosed           ← candidate rows CONFIRMED against the guard strings of G.wrapperStatusGuards /
                                              G.wrapperEffects (request.go:497-523)
-/
namespace Sftp.ExtDispatch
open Sftp

def unknownErrName : String := "errUnknownExtendedPacket"

/-- "const:PosixRename" ↦ some "PosixRename" -/
def stripConst (v : String) : Option String :=
  let cs := v.toList
  if cs.take 6 = "const:".toList then some (String.ofList (cs.drop 6)) else none

/-- `Method` of the Request literals built inside packetWorker's explicit clauses -/
def rsCaseMethodG : List (String × String) :=
  G.packetWorkerRequestFields.filterMap fun r =>
    if r.2.1 = "Method" then (stripConst r.2.2).map fun m => (r.1, m) else none

/-- `respond` of each specific packet type of the name switch -/
def osRespondG : List (String × List String) :=
  G.extSwitch.filterMap fun p => (G.serverCalls.lookup (p.2 ++ ".respond")).map fun calls => (p.2, calls)

/-- the guard under which filecmd takes the fallback for `method` -/
def filecmdAbsentGuard (method iface : String) : String :=
  "R.Method in [\"" ++ method ++ "\"] && !is(H," ++ iface ++ ")"

/-- is a candidate row of `filecmdIface` what request.go filecmd does?  (fallback status and, for a `Filecmd:<M>`
fallback, the `r.Method = "<M>"` store, both under the interface-absent guard) -/
def filecmdRowConfirmed (row : String × String × String) : Bool :=
  let g := filecmdAbsentGuard row.1 row.2.1
  if row.2.2 = opUnsupported then
    G.wrapperStatusGuards.contains ("filecmd/" ++ row.1, g, opUnsupported)
  else
    G.wrapperStatusGuards.contains ("filecmd/" ++ row.1, g, "Filecmd#0") &&
    G.wrapperEffects.contains ("filecmd/" ++ row.1, g, "R.Method = \"" ++ String.ofList (row.2.2.toList.drop 8) ++ "\"")

def filecmdIfaceG : List (String × String × String) := ExtCfg.current.filecmdIface.filter filecmdRowConfirmed

/-- the last clause of filecmd: every method but the listed ones goes to `h.Filecmd(r)` -/
def filecmdClosedG : Bool :=
  G.wrapperStatusGuards.contains
    ("filecmd", "R.Method not in [" ++ ",".intercalate (filecmdIfaceG.map fun r => "\"" ++ r.1 ++ "\"") ++ "]", "Filecmd#0")

def onFatalG (stops dispatches : Bool) (ends : String) : String :=
  if stops && !dispatches then ends else if dispatches then "dispatch" else "?"

def ExtCfg.generated : ExtCfg :=
  { extSwitch := G.extSwitch
    unknownErr := if G.extUnknownIsError then unknownErrName else "?"
    makePacketReturnsPkt := G.makePacketReturnsPktOnError
    osNonFatal := if G.osRecvUnknownExtNonFatal && G.serveLoopOS_unknownExtendedIsDispatched then [unknownErrName] else []
    rsNonFatal := if G.rsRecvUnknownExtNonFatal && G.serveLoopRS_unknownExtendedIsDispatched then [unknownErrName] else []
    osOnFatal := onFatalG G.serveLoopOS_stopsOnMakePacketError G.serveLoopOS_dispatchesAfterMakePacketError
      G.serveLoopOS_makePacketErrorEnds
    rsOnFatal := onFatalG G.serveLoopRS_stopsOnMakePacketError G.serveLoopRS_dispatchesAfterMakePacketError
      G.serveLoopRS_makePacketErrorEnds
    notReadOnly := G.notReadOnlyTypes
    workerGate := G.workerGate
    gateShapeOK := G.gateShapeOK
    denyError := G.gateDenyError
    readonlyConst := G.readonlyConst
    -- one Bool for `{ if p.SpecificPacket == nil { return true } return p.SpecificPacket.readonly() }`: when the body is
    -- anything else the nil value is taken as `false` (the gate may refuse) and the delegation as absent (unmodelled)
    genericNilReadonly := G.extendedReadonlyDelegates
    genericDelegates := G.extendedReadonlyDelegates
    osNilReply := if G.osUnknownExtUnsupported then opUnsupported else "?"
    osNonNilCalls := (G.serverCalls.lookup extType).getD []
    genericRespondDelegates := ExtCfg.current.genericRespondDelegates
    osRespond := osRespondG
    rsUnwraps := G.packetWorkerUnwrapsExtended
    rsCases := G.rsWorkerCaseTypes
    getPathTypes := G.getPathTypes
    getHandleTypes := G.getHandleTypes
    rsDefaultReply :=
      if G.rsUnknownExtUnsupported &&
         G.packetWorkerCases.lookup "default" == some ["statusFromError(M:pkt.id,V:ErrSSHFxOpUnsupported)"]
      then opUnsupported else "?"
    rsCaseMethod := rsCaseMethodG
    requestMethod := G.requestMethodTable
    requestCall := G.requestCallTable
    filecmdIface := filecmdIfaceG
    filecmdClosed := filecmdClosedG }

end Sftp.ExtDispatch
