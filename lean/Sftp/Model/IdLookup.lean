/-
  M-IdLookup: the owner and group columns of the long name (ls_formatting.go `osIDLookup`).

  `Db` is the account database: the name of a numeric id, separately for users and for groups (the two number spaces
  are independent: on a stock Debian uid 4 is `sync`, gid 4 is `adm`).  `Cfg` says which table each of the two methods
  consults and whether results are memoised — not at all (the tree), per kind, or in ONE map keyed by the number (seed
  C17_j).  Which `Cfg` the tree holds is read off the source by translator unit IdLookup (/verif/extract/round5.go).
  A failed lookup answers the number itself and is not memoised (as in the seed).
-/
namespace Sftp.IdLookup

inductive Kind where
  | user | group
  deriving DecidableEq, Repr

structure Db where
  user : Nat → Option String
  group : Nat → Option String

/-- `user.LookupId` (kind user) / `user.LookupGroupId` (kind group) -/
def Db.find (db : Db) : Kind → Nat → Option String
  | .user, n => db.user n
  | .group, n => db.group n

/-- the column the structured attributes call for: the name of the id in ITS OWN table, the number if there is none -/
def Db.name (db : Db) (k : Kind) (n : Nat) : String := (db.find k n).getD (toString n)

inductive Memo where
  | none      -- every call asks the database
  | perKind   -- one map per method
  | shared    -- one map for both, keyed by the numeric string
  deriving DecidableEq, Repr

structure Cfg where
  /-- the table LookupUserName resolves through -/
  userSrc : Kind
  /-- the table LookupGroupName resolves through -/
  groupSrc : Kind
  memo : Memo
  deriving DecidableEq, Repr

abbrev Cache := List ((Kind × Nat) × String)

def cacheFind (c : Cache) (key : Kind × Nat) : Option String :=
  match c with
  | [] => none
  | (k, s) :: rest => if k = key then some s else cacheFind rest key

/-- the key a result is remembered under -/
def memoKey (m : Memo) (k : Kind) (n : Nat) : Kind × Nat :=
  match m with
  | .shared => (.user, n)
  | _ => (k, n)

/-- one call of LookupUserName (k = user) / LookupGroupName (k = group) -/
def lookup (cfg : Cfg) (db : Db) (c : Cache) (k : Kind) (n : Nat) : String × Cache :=
  let src := match k with
    | .user => cfg.userSrc
    | .group => cfg.groupSrc
  match cfg.memo with
  | .none => ((db.find src n).getD (toString n), c)
  | m =>
    match cacheFind c (memoKey m k n) with
    | some s => (s, c)
    | none =>
      match db.find src n with
      | some s => (s, (memoKey m k n, s) :: c)
      | none => (toString n, c)

/-- a history of lookups (all the listings of a process), the answers in order -/
def run (cfg : Cfg) (db : Db) : Cache → List (Kind × Nat) → List String
  | _, [] => []
  | c, (k, n) :: rest =>
    let r := lookup cfg db c k n
    r.1 :: run cfg db r.2 rest

/-! ### reading the extracted facts -/

def srcOf (fn : String) : Option Kind :=
  if fn = "LookupId" then some .user else if fn = "LookupGroupId" then some .group else none

/-- (method, os/user function, field) rows + the independence flag → configuration; `none` if anything is unrecognised
or the two methods share state -/
def cfgOf (sources : List (String × String × String)) (independent : Bool) : Option Cfg :=
  match sources.lookup "LookupUserName", sources.lookup "LookupGroupName" with
  | some (fu, _), some (fg, _) =>
    match srcOf fu, srcOf fg with
    | some u, some g => if independent then some ⟨u, g, .none⟩ else none
    | _, _ => none
  | _, _ => none

/-! ### lemmas -/

/-- every remembered answer is the database's answer for its own key -/
def Consistent (db : Db) (c : Cache) : Prop := ∀ k n s, cacheFind c (k, n) = some s → db.find k n = some s

theorem consistent_nil (db : Db) : Consistent db [] := by
  intro k n s h; simp [cacheFind] at h

theorem consistent_cons (db : Db) (c : Cache) (k : Kind) (n : Nat) (s : String)
    (hc : Consistent db c) (hs : db.find k n = some s) : Consistent db (((k, n), s) :: c) := by
  intro k' n' s' h
  simp only [cacheFind] at h
  split at h
  · rename_i heq
    cases heq
    cases h
    exact hs
  · exact hc k' n' s' h

/-- without memo, or with one map per kind, each method answers from its own table whatever was asked before -/
theorem lookup_own (cfg : Cfg) (db : Db) (c : Cache) (k : Kind) (n : Nat)
    (hu : cfg.userSrc = .user) (hg : cfg.groupSrc = .group) (hm : cfg.memo ≠ .shared) (hc : Consistent db c) :
    (lookup cfg db c k n).1 = db.name k n ∧ Consistent db (lookup cfg db c k n).2 := by
  have hsrc : (match k with | .user => cfg.userSrc | .group => cfg.groupSrc) = k := by
    cases k <;> simp [hu, hg]
  unfold lookup
  simp only [hsrc]
  cases hmemo : cfg.memo with
  | none => exact ⟨rfl, hc⟩
  | shared => exact absurd hmemo hm
  | perKind =>
    simp only [memoKey]
    cases hf : cacheFind c (k, n) with
    | some s =>
      refine ⟨?_, hc⟩
      simp [Db.name, hc k n s hf]
    | none =>
      cases hd : db.find k n with
      | some s =>
        refine ⟨?_, consistent_cons db c k n s hc hd⟩
        simp [Db.name, hd]
      | none =>
        refine ⟨?_, hc⟩
        simp [Db.name, hd]

theorem run_own (cfg : Cfg) (db : Db) (hu : cfg.userSrc = .user) (hg : cfg.groupSrc = .group) (hm : cfg.memo ≠ .shared) :
    ∀ (hist : List (Kind × Nat)) (c : Cache), Consistent db c → run cfg db c hist = hist.map (fun q => db.name q.1 q.2) := by
  intro hist
  induction hist with
  | nil => intro c _; rfl
  | cons q rest ih =>
    intro c hc
    obtain ⟨k, n⟩ := q
    have h := lookup_own cfg db c k n hu hg hm hc
    simp only [run, List.map]
    rw [h.1, ih _ h.2]

end Sftp.IdLookup
