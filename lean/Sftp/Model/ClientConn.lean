import Sftp.Prim
/-
  M-ClientConn: small-step transition system for the client connection multiplexer
  (conn.go: conn.sendPacket, clientConn.{recv,putChannel,getChannel,sendPacket,dispatchRequest,
  broadcastErr}; client.go: nextID and the receiver goroutine of newClientPipe; packet.go: sendPacket).

  Threads: `n` callers (each performs ONE `clientConn.sendPacket(ctx,nil,pkt)` call with its own
  one-slot result channel, channel id = caller index) and the receiver goroutine.
  A schedule is a list of `Action`s; `step` returns `none` when the action is not enabled
  (wrong program counter, mutex held, or a channel send that would block because the slot is full).
-/
namespace Sftp.ClientConn
open Sftp

/-- Facts of the Go source that the model depends on (all `true` today). -/
structure Cfg where
  /-- conn.go getChannel: `delete(c.inflight, sid)` after the lookup. -/
  getChannelDeletes : Bool
  /-- conn.go putChannel: `select { case <-c.closed: ch <- ConnectionLost; return false }` under c.Lock. -/
  putChecksClosed : Bool
  /-- conn.go broadcastErr: `c.inflight[sid] = make(chan<- result, 1)` after each send. -/
  broadcastReplacesChan : Bool
  /-- conn.go conn.sendPacket: `c.Lock(); defer c.Unlock()` around packet.go sendPacket (two Writes). -/
  sendUnderLock : Bool
  /-- conn.go dispatchRequest: on send error `if ch, ok := c.getChannel(sid); ok { ch <- result{err: err} }`. -/
  sendFailNotifies : Bool
  /-- conn.go recv: `defer c.conn.Close()`. -/
  recvClosesConn : Bool
  /-- client.go nextID: `atomic.AddUint32(&c.nextid, 1)`. -/
  idAtomic : Bool
  deriving Repr, DecidableEq

def Cfg.current : Cfg := ⟨true, true, true, true, true, true, true⟩

/-- 2^32: request ids are uint32. -/
def idMod : Nat := 4294967296

/-- What a caller finds in its channel (`result{typ,data,err}`). -/
inductive Res where
  /-- `result{typ, data}` of a received frame whose first uint32 was `sid`. -/
  | reply (sid : Nat) (payload : Bytes)
  /-- `result{err: ErrSSHFxConnectionLost}` -/
  | lost
  /-- `result{err: err}` with the error of the transport Write -/
  | sendErr
  deriving Repr, DecidableEq

/-- Program counter of a caller inside Client.op → clientConn.sendPacket → dispatchRequest. -/
inductive PC where
  | idle
  /-- only with `¬idAtomic`: has loaded the counter, not yet stored -/
  | loaded (v : Nat)
  | gotId (sid : Nat)
  /-- putChannel returned true -/
  | registered (sid : Nat)
  /-- holds conn.Mutex, nothing written yet -/
  | locked (sid : Nat)
  /-- header written, still holds conn.Mutex -/
  | wroteHeader (sid : Nat)
  /-- Write returned an error, mutex released, about to getChannel(sid) -/
  | sendFailed (sid : Nat)
  /-- in `select { case s := <-ch }`; `sent` tells whether the whole frame reached the wire -/
  | waiting (sid : Nat) (sent : Bool)
  | done (sid : Nat) (r : Res)
  deriving Repr, DecidableEq

/-- Receiver goroutine: in recv loop → recv returned (deferred conn.Close pending) → broadcastErr → exited. -/
inductive RPC where
  | running | closing | broadcasting | stopped
  deriving Repr, DecidableEq

inductive ConnErr where
  | readErr
  | sidNotFound (sid : Nat)
  deriving Repr, DecidableEq

/-- One `Write` call on the transport. -/
inductive Chunk where
  | hdr (c sid : Nat)
  | pay (c sid : Nat)
  deriving Repr, DecidableEq

/-- One-slot buffered channel; `delivered` counts every send ever made into it. -/
structure Chan where
  slot : Option Res
  delivered : Nat
  deriving Repr, DecidableEq

structure State where
  /-- number of ids drawn so far (the Go counter is `nextid % 2^32`) -/
  nextid : Nat
  pc : Nat → PC
  /-- `inflight` map as association list with unique keys: sid ↦ channel id -/
  inflight : List (Nat × Nat)
  chan : Nat → Chan
  /-- next unused channel id (for `make(chan<- result, 1)` in broadcastErr) -/
  nchan : Nat
  /-- `closed` channel has been closed -/
  closed : Bool
  connErr : Option ConnErr
  /-- holder of conn.Mutex -/
  lock : Option Nat
  /-- write side unusable: a Write failed (errors are permanent) or conn.Close() ran -/
  wdead : Bool
  wire : List Chunk
  rpc : RPC
  /-- error recv returned with -/
  rerr : Option ConnErr

inductive Action where
  | callerLoadId (c : Nat)
  | callerNextId (c : Nat)
  | callerPut (c : Nat)
  | callerLock (c : Nat)
  | callerWriteHeader (c : Nat)
  | callerWritePayload (c : Nat)
  | callerWriteFail (c : Nat)
  | callerFailNotify (c : Nat)
  | callerRecvResult (c : Nat)
  | envReply (sid : Nat) (payload : Bytes)
  | envFail
  | recvCloseConn
  | recvBroadcast
  deriving Repr, DecidableEq

def init (n : Nat) : State :=
  { nextid := 0, pc := fun _ => .idle, inflight := [], chan := fun _ => ⟨none, 0⟩, nchan := n,
    closed := false, connErr := none, lock := none, wdead := false, wire := [], rpc := .running,
    rerr := none }

def State.setPc (s : State) (c : Nat) (p : PC) : State :=
  { s with pc := fun k => if k = c then p else s.pc k }

def putChan (f : Nat → Chan) (ch : Nat) (r : Res) : Nat → Chan :=
  fun k => if k = ch then ⟨some r, (f ch).delivered + 1⟩ else f k

/-- `ch <- r`: enabled only when the slot is empty. -/
def send (s : State) (ch : Nat) (r : Res) : Option State :=
  match (s.chan ch).slot with
  | none => some { s with chan := putChan s.chan ch r }
  | some _ => none

def lookupSid : List (Nat × Nat) → Nat → Option Nat
  | [], _ => none
  | (k, v) :: rest, sid => if k = sid then some v else lookupSid rest sid

def eraseSid (l : List (Nat × Nat)) (sid : Nat) : List (Nat × Nat) :=
  l.filter (fun e => e.1 != sid)

/-- clientConn.getChannel -/
def getChannel (cfg : Cfg) (s : State) (sid : Nat) : Option Nat × State :=
  match lookupSid s.inflight sid with
  | none => (none, s)
  | some ch =>
    (some ch, if cfg.getChannelDeletes then { s with inflight := eraseSid s.inflight sid } else s)

/-- the sends of broadcastErr (any iteration order gives the same result; blocks if one send blocks) -/
def deliverAll : List Nat → (Nat → Chan) → Option (Nat → Chan)
  | [], f => some f
  | ch :: rest, f =>
    match (f ch).slot with
    | none => deliverAll rest (putChan f ch .lost)
    | some _ => none

/-- `c.inflight[sid] = make(chan<- result, 1)` for every entry -/
def replaceFrom : Nat → List (Nat × Nat) → List (Nat × Nat)
  | _, [] => []
  | k, (sid, _) :: rest => (sid, k) :: replaceFrom (k + 1) rest

def step (cfg : Cfg) (n : Nat) (s : State) : Action → Option State
  | .callerLoadId c =>
    if c < n ∧ cfg.idAtomic = false then
      match s.pc c with
      | .idle => some (s.setPc c (.loaded s.nextid))
      | _ => none
    else none
  | .callerNextId c =>
    if c < n then
      match s.pc c with
      | .idle =>
        if cfg.idAtomic then
          some ({ s with nextid := s.nextid + 1 }.setPc c (.gotId ((s.nextid + 1) % idMod)))
        else none
      | .loaded v =>
        if cfg.idAtomic then none
        else some ({ s with nextid := v + 1 }.setPc c (.gotId ((v + 1) % idMod)))
      | _ => none
    else none
  | .callerPut c =>
    match s.pc c with
    | .gotId sid =>
      if cfg.putChecksClosed ∧ s.closed then
        (send s c .lost).map (fun s' => s'.setPc c (.waiting sid false))
      else
        some ({ s with inflight := (sid, c) :: eraseSid s.inflight sid }.setPc c (.registered sid))
    | _ => none
  | .callerLock c =>
    match s.pc c with
    | .registered sid =>
      if s.lock = none ∨ cfg.sendUnderLock = false then
        some ({ s with lock := some c }.setPc c (.locked sid))
      else none
    | _ => none
  | .callerWriteHeader c =>
    match s.pc c with
    | .locked sid =>
      if s.wdead then none
      else some ({ s with wire := s.wire ++ [Chunk.hdr c sid] }.setPc c (.wroteHeader sid))
    | _ => none
  | .callerWritePayload c =>
    match s.pc c with
    | .wroteHeader sid =>
      if s.wdead then none
      else some ({ s with wire := s.wire ++ [Chunk.pay c sid], lock := none }.setPc c (.waiting sid true))
    | _ => none
  | .callerWriteFail c =>
    let next (sid : Nat) : PC := if cfg.sendFailNotifies then .sendFailed sid else .waiting sid false
    match s.pc c with
    | .locked sid => some ({ s with lock := none, wdead := true }.setPc c (next sid))
    | .wroteHeader sid => some ({ s with lock := none, wdead := true }.setPc c (next sid))
    | _ => none
  | .callerFailNotify c =>
    match s.pc c with
    | .sendFailed sid =>
      match getChannel cfg s sid with
      | (none, s') => some (s'.setPc c (.waiting sid false))
      | (some ch, s') => (send s' ch .sendErr).map (fun s'' => s''.setPc c (.waiting sid false))
    | _ => none
  | .callerRecvResult c =>
    match s.pc c with
    | .waiting sid _ =>
      match (s.chan c).slot with
      | some r =>
        some ({ s with chan := fun k => if k = c then ⟨none, (s.chan c).delivered⟩ else s.chan k }.setPc c
          (.done sid r))
      | none => none
    | _ => none
  | .envReply sid payload =>
    match s.rpc with
    | .running =>
      match getChannel cfg s sid with
      | (none, s') => some { s' with rpc := .closing, rerr := some (.sidNotFound sid) }
      | (some ch, s') => send s' ch (.reply sid payload)
    | _ => none
  | .envFail =>
    match s.rpc with
    | .running => some { s with rpc := .closing, rerr := some .readErr }
    | _ => none
  | .recvCloseConn =>
    match s.rpc with
    | .closing =>
      if cfg.recvClosesConn then
        (if s.lock = none then some { s with wdead := true, rpc := .broadcasting } else none)
      else some { s with rpc := .broadcasting }
    | _ => none
  | .recvBroadcast =>
    match s.rpc with
    | .broadcasting =>
      match deliverAll (s.inflight.map (·.2)) s.chan with
      | none => none
      | some chan' =>
        some { s with
          chan := chan'
          inflight := if cfg.broadcastReplacesChan then replaceFrom s.nchan s.inflight else s.inflight
          nchan := if cfg.broadcastReplacesChan then s.nchan + s.inflight.length else s.nchan
          connErr := s.rerr, closed := true, rpc := .stopped }
    | _ => none

def run (cfg : Cfg) (n : Nat) : State → List Action → Option State
  | s, [] => some s
  | s, a :: rest =>
    match step cfg n s a with
    | none => none
    | some s' => run cfg n s' rest

/-- States reachable from `init n` by the schedule `acts`. -/
def Reach (cfg : Cfg) (n : Nat) (acts : List Action) (s : State) : Prop :=
  run cfg n (init n) acts = some s

theorem run_append (cfg : Cfg) (n : Nat) (s : State) (as bs : List Action) :
    run cfg n s (as ++ bs) = (run cfg n s as).bind (fun s' => run cfg n s' bs) := by
  induction as generalizing s with
  | nil => rfl
  | cons a as ih =>
    simp only [List.cons_append, run]
    cases step cfg n s a with
    | none => rfl
    | some s' => exact ih s'

/-- Induction over reachable states (schedule extended at the end). -/
theorem Reach.induction {cfg : Cfg} {n : Nat} (P : List Action → State → Prop)
    (h0 : P [] (init n))
    (hs : ∀ acts s a s', Reach cfg n acts s → P acts s → step cfg n s a = some s' → P (acts ++ [a]) s') :
    ∀ acts s, Reach cfg n acts s → P acts s := by
  have key : ∀ (rev : List Action) s, Reach cfg n rev.reverse s → P rev.reverse s := by
    intro rev
    induction rev with
    | nil => intro s h; simp only [Reach, List.reverse_nil, run, Option.some.injEq] at h; exact h ▸ h0
    | cons a as ih =>
      intro s h
      simp only [List.reverse_cons] at h ⊢
      simp only [Reach, run_append] at h
      cases hr : run cfg n (init n) as.reverse with
      | none => simp [hr] at h
      | some s1 =>
        simp only [hr, Option.bind_some, run] at h
        cases hst : step cfg n s1 a with
        | none => simp [hst] at h
        | some s2 =>
          simp only [hst, Option.some.injEq] at h
          exact h ▸ hs as.reverse s1 a s2 hr (ih s1 hr) hst
  intro acts s h
  have := key acts.reverse s (by rwa [List.reverse_reverse])
  rwa [List.reverse_reverse] at this

/-! ### PC classification -/

/-- before putChannel -/
def PC.early : PC → Bool
  | .idle | .loaded _ | .gotId _ => true
  | _ => false

/-- between a successful/refused putChannel and taking the result: sid of the call -/
def PC.active? : PC → Option Nat
  | .registered sid | .locked sid | .wroteHeader sid | .sendFailed sid | .waiting sid _ => some sid
  | _ => none

/-- sid held by the caller (from nextID until it returns) -/
def PC.sid? : PC → Option Nat
  | .gotId sid | .registered sid | .locked sid | .wroteHeader sid | .sendFailed sid
  | .waiting sid _ | .done sid _ => some sid
  | _ => none

/-! ### vocabulary of the property statements -/

/-- the action can fire in `s` (for channel sends: the target slot is empty, for mutexes: free) -/
def enabled (cfg : Cfg) (n : Nat) (s : State) (a : Action) : Prop := (step cfg n s a).isSome = true

instance (cfg : Cfg) (n : Nat) (s : State) (a : Action) : Decidable (enabled cfg n s a) := by
  unfold enabled; infer_instance

/-- every scheduler step a caller thread can take -/
def callerActs (c : Nat) : List Action :=
  [.callerLoadId c, .callerNextId c, .callerPut c, .callerLock c, .callerWriteHeader c,
   .callerWritePayload c, .callerWriteFail c, .callerFailNotify c, .callerRecvResult c]

/-- bytes of whole frames: the header Write immediately followed by the payload Write of the same request;
an entry is (caller, sid) -/
def framesWire (frames : List (Nat × Nat)) : List Chunk :=
  frames.flatMap (fun e => [Chunk.hdr e.1 e.2, Chunk.pay e.1 e.2])

/-- decidable form: whole frames, optionally followed by one lone header -/
def wellFramed : List Chunk → Bool
  | [] => true
  | [.hdr _ _] => true
  | .hdr c sid :: .pay c' sid' :: rest => c == c' && sid == sid' && wellFramed rest
  | _ => false

end Sftp.ClientConn
