/-
  M-FileHandleCell: a client `File` as a lock and a handle cell (client.go).

  `f.handle` holds the server's handle, or "" once the File has been closed.  Every method takes `f.mu` (shared or
  exclusive — for this property only Close's exclusiveness matters), EVALUATES the handle expression of a request packet
  (`read`: the value of the cell at that moment is now in the packet being built) and hands the packet to the connection
  (`put`: it is on the wire).  `Close` takes the lock exclusively, copies the handle, clears the cell, sends CLOSE with the
  copy, unlocks.
  `putUnderLock` = between the evaluation of the handle expression and the dispatch of the packet the call still holds the
  lock: the handle expression is the field itself (evaluated where the packet is built), or a local copied from it in a
  function body that holds the lock to its end.  `false` = a copy taken under the lock may be dispatched by a goroutine
  that outlives the call (seed C12_k: `handle := f.handle` used inside the feeder goroutine of ReadFrom).
  The handle expressions are read off the source by translator unit FileHandleAtDispatch (/verif/extract/round7.go); that
  the goroutines a method starts end before it returns, and that the exported methods hold the lock to their end, are the
  facts of units ClientWorkers and FileMethods.
-/
namespace Sftp.FileHandleCell

inductive Ev where
  | req (live : Bool)   -- a request; live = it carries the server's handle (false: the empty handle of a closed File)
  | close               -- SSH_FXP_CLOSE carrying the handle
  deriving DecidableEq, Repr

inductive ClosePc where
  | idle | locked | cleared | sent
  deriving DecidableEq, Repr

structure St where
  /-- f.handle ≠ "" -/
  cell : Bool
  /-- the calls that hold f.mu -/
  holders : List Nat
  /-- the handle value call i has evaluated into the packet it is building, if any -/
  regs : Nat → Option Bool
  closer : ClosePc
  /-- newest first -/
  wire : List Ev

def St.init : St := ⟨true, [], fun _ => none, .idle, []⟩

inductive Act where
  | acquire (i : Nat)   -- method call i takes f.mu
  | read (i : Nat)      -- … evaluates the handle expression
  | put (i : Nat)       -- the packet built by call i (or by a goroutine it started) goes out
  | release (i : Nat)   -- call i returns (deferred Unlock)
  | cAcquire            -- Close: f.mu.Lock()
  | cClear              -- handle := f.handle; f.handle = ""   (os.ErrClosed if it was "" already)
  | cSend               -- f.c.close(handle)
  | cRelease            -- deferred Unlock
  deriving DecidableEq, Repr

def step (putUnderLock : Bool) (s : St) : Act → Option St
  | .acquire i =>
    if s.closer = .idle ∧ i ∉ s.holders then
      some { s with holders := i :: s.holders, regs := fun j => if j = i then none else s.regs j }
    else none
  | .read i =>
    if i ∈ s.holders then some { s with regs := fun j => if j = i then some s.cell else s.regs j } else none
  | .put i =>
    match s.regs i with
    | some v => if putUnderLock = false ∨ i ∈ s.holders then some { s with wire := .req v :: s.wire } else none
    | none => none
  | .release i => if i ∈ s.holders then some { s with holders := s.holders.filter (· != i) } else none
  | .cAcquire => if s.closer = .idle ∧ s.holders = [] then some { s with closer := .locked } else none
  | .cClear =>
    if s.closer = .locked then
      if s.cell then some { s with cell := false, closer := .cleared } else some { s with closer := .sent }
    else none
  | .cSend => if s.closer = .cleared then some { s with closer := .sent, wire := .close :: s.wire } else none
  | .cRelease => if s.closer = .sent then some { s with closer := .idle } else none

def run (putUnderLock : Bool) (s : St) : List Act → Option St
  | [] => some s
  | a :: as =>
    match step putUnderLock s a with
    | some s' => run putUnderLock s' as
    | none => none

/-- no request carrying the live handle is newer on the wire than a CLOSE -/
def noStale : List Ev → Bool
  | [] => true
  | .req true :: r => !r.contains .close && noStale r
  | _ :: r => noStale r

/-- the number of CLOSE requests on the wire -/
def closes : List Ev → Nat
  | [] => 0
  | .close :: r => closes r + 1
  | _ :: r => closes r

structure Inv (s : St) : Prop where
  good : noStale s.wire = true
  /-- once the cell is cleared nobody who holds the lock has the live handle in a packet under construction -/
  regsDead : s.cell = false → ∀ i, i ∈ s.holders → s.regs i ≠ some true
  /-- CLOSE on the wire: the cell has been cleared -/
  closedCell : s.wire.contains .close = true → s.cell = false
  /-- Close holds the lock exclusively -/
  excl : s.closer ≠ .idle → s.holders = []
  /-- between clearing and sending: cleared, nothing sent yet -/
  mid : s.closer = .cleared → s.cell = false ∧ closes s.wire = 0
  once : closes s.wire ≤ 1
  onceLive : s.cell = true → closes s.wire = 0

theorem inv_init : Inv St.init :=
  ⟨rfl, (fun h => by cases h), (fun h => by cases h), fun _ => rfl, (fun h => by cases h), (by decide), fun _ => rfl⟩

theorem closes_zero_no_close (w : List Ev) (h : closes w = 0) : w.contains .close = false := by
  induction w with
  | nil => rfl
  | cons e r ih =>
    cases e with
    | req v => simp only [closes] at h; simpa using ih h
    | close => simp [closes] at h

theorem step_inv (s s' : St) (a : Act) (h : Inv s) (hs : step true s a = some s') : Inv s' := by
  cases a with
  | acquire i =>
    simp only [step] at hs
    split at hs
    · rename_i hg
      cases hs
      refine ⟨h.good, ?_, h.closedCell, fun hc => absurd hg.1 hc, h.mid, h.once, h.onceLive⟩
      intro hc j hj
      by_cases hji : j = i
      · simp [hji]
      · simp only [hji, if_false]
        have : j ∈ s.holders := by
          cases hj with
          | head => exact absurd rfl hji
          | tail _ hm => exact hm
        exact h.regsDead hc j this
    · cases hs
  | read i =>
    simp only [step] at hs
    split at hs
    · cases hs
      refine ⟨h.good, ?_, h.closedCell, h.excl, h.mid, h.once, h.onceLive⟩
      intro hc j hj
      by_cases hji : j = i
      · have hc' : s.cell = false := hc
        simp [hji, hc']
      · simp only [hji, if_false]
        exact h.regsDead hc j hj
    · cases hs
  | put i =>
    simp only [step] at hs
    split at hs
    · rename_i v hv
      split at hs
      · rename_i hg
        have hi : i ∈ s.holders := by
          cases hg with
          | inl h0 => cases h0
          | inr h1 => exact h1
        cases hs
        refine ⟨?_, h.regsDead, ?_, h.excl, ?_, ?_, ?_⟩
        · cases v with
          | false => simpa [noStale] using h.good
          | true =>
            have hnc : s.wire.contains .close = false := by
              cases hc : s.wire.contains .close with
              | false => rfl
              | true => exact absurd hv (h.regsDead (h.closedCell hc) i hi)
            simp [noStale, h.good] 
            simpa using hnc
        · intro hc
          have : s.wire.contains .close = true := by simpa using hc
          exact h.closedCell this
        · intro hc; exact ⟨(h.mid hc).1, (by simpa [closes] using (h.mid hc).2)⟩
        · simpa [closes] using h.once
        · intro hc; simpa [closes] using h.onceLive hc
      · cases hs
    · cases hs
  | release i =>
    simp only [step] at hs
    split at hs
    · cases hs
      refine ⟨h.good, ?_, h.closedCell, ?_, h.mid, h.once, h.onceLive⟩
      · intro hc j hj
        exact h.regsDead hc j (List.mem_filter.mp hj).1
      · intro hc
        simp [h.excl hc]
    · cases hs
  | cAcquire =>
    simp only [step] at hs
    split at hs
    · rename_i hg
      cases hs
      exact ⟨h.good, h.regsDead, h.closedCell, fun _ => hg.2, (fun hc => by cases hc), h.once, h.onceLive⟩
    · cases hs
  | cClear =>
    simp only [step] at hs
    split at hs
    · rename_i hg
      have hh : s.holders = [] := h.excl (by rw [hg]; simp)
      split at hs
      · rename_i hcell
        cases hs
        refine ⟨h.good, ?_, fun _ => rfl, fun _ => hh, fun _ => ⟨rfl, h.onceLive hcell⟩, h.once, (fun hc => by cases hc)⟩
        intro _ j hj
        rw [hh] at hj
        cases hj
      · cases hs
        exact ⟨h.good, h.regsDead, h.closedCell, fun _ => hh, (fun hc => by cases hc), h.once, h.onceLive⟩
    · cases hs
  | cSend =>
    simp only [step] at hs
    split at hs
    · rename_i hg
      have hm := h.mid hg
      have hh : s.holders = [] := h.excl (by rw [hg]; simp)
      cases hs
      refine ⟨(by simpa [noStale] using h.good), h.regsDead, fun _ => hm.1, fun _ => hh, (fun hc => by cases hc), ?_, ?_⟩
      · simp [closes, hm.2]
      · intro hc; rw [hm.1] at hc; cases hc
    · cases hs
  | cRelease =>
    simp only [step] at hs
    split at hs
    · cases hs
      exact ⟨h.good, h.regsDead, h.closedCell, fun hc => absurd rfl hc, (fun hc => by cases hc), h.once, h.onceLive⟩
    · cases hs

theorem run_inv (acts : List Act) : ∀ s s', Inv s → run true s acts = some s' → Inv s' := by
  induction acts with
  | nil => intro s s' h hr; simp only [run] at hr; cases hr; exact h
  | cons a as ih =>
    intro s s' h hr
    simp only [run] at hr
    split at hr
    · rename_i s1 hs1
      exact ih s1 s' (step_inv s s1 a h hs1) hr
    · cases hr

/-- every request is built from the cell and dispatched under the lock: for any number of method calls and of Close calls
and every interleaving, no request carrying the closed handle is on the wire after the CLOSE, and at most one CLOSE is sent -/
theorem no_stale_handle_after_close (acts : List Act) (s : St) (hr : run true St.init acts = some s) :
    noStale s.wire = true ∧ closes s.wire ≤ 1 :=
  let h := run_inv acts St.init s inv_init hr
  ⟨h.good, h.once⟩

end Sftp.FileHandleCell
