import Sftp.Model.Err
/-
  M-NormWidth: client.go `normaliseError` with the WIDTH of what its switch looks at.

  Model/Err `normalise nc c` interprets the case table of the switch on the status code (property C10 instantiates it
  with the table of Generated/ErrTables).  That interpreter compares the cases with the code itself; Go compares them with
  the VALUE OF THE SWITCH TAG, which is the code only if the tag is the uint32 field `err.Code` and nothing narrower.
  `classify bits nc c` is the same table applied to a tag of `bits` bits: the cases see `c % 2^bits`, while
  `default: return err` still hands back the *StatusError with its full code `c`.  The table semantics (`NRes.kind`,
  `NormCfg`, `kindOfCode`) are Model/Err's; this file adds only the width.
-/
namespace Sftp.NormWidth
open Sftp.Err

def classify (bits : Nat) (nc : NormCfg) (c : Nat) : Kind :=
  match nc.cases.lookup (c % 2^bits) with
  | some r => r.kind c
  | none => nc.dflt.kind c

/-- (code, result) rows and the default, as translator unit NormaliseErr emits them -/
def cfgOf (cases : List (Nat × String)) (dflt : String) : Option NormCfg :=
  match parseNCases cases, parseNRes dflt with
  | some cs, some d => some ⟨cs, d⟩
  | _, _ => none

/-- the table of the draft: OK, EOF, NO_SUCH_FILE, PERMISSION_DENIED have a Go counterpart, every other code stays a
*StatusError -/
def draftCfg : NormCfg :=
  ⟨[(0, .nil), (1, .ioEOF), (2, .osErrNotExist), (3, .osErrPermission)], .same⟩

/-- a tag at least as wide as the code is the code -/
theorem classify_of_lt (bits : Nat) (nc : NormCfg) (c : Nat) (h : c < 2^bits) : classify bits nc c = normalise nc c := by
  unfold classify normalise
  rw [Nat.mod_eq_of_lt h]
  cases List.lookup c nc.cases <;> rfl

theorem normalise_draft (c : Nat) : normalise draftCfg c = kindOfCode c := by
  unfold normalise draftCfg kindOfCode
  by_cases h0 : c = 0
  · subst h0; rfl
  by_cases h1 : c = 1
  · subst h1; rfl
  by_cases h2 : c = 2
  · subst h2; rfl
  by_cases h3 : c = 3
  · subst h3; rfl
  have e : ∀ a : Nat, c ≠ a → (c == a) = false := fun a h => by simp [h]
  simp only [List.lookup, e _ h0, e _ h1, e _ h2, e _ h3, if_neg h0, if_neg h1, if_neg h2, if_neg h3]
  rfl

/-- a narrower tag classifies by the low bits: every code is treated as its residue, except that the default keeps the code -/
theorem classify_narrow (bits : Nat) (c : Nat) :
    classify bits draftCfg c =
      (if c % 2^bits = 0 then .ok else if c % 2^bits = 1 then .eof else if c % 2^bits = 2 then .notExist
       else if c % 2^bits = 3 then .permission else Kind.ofStatus c) := by
  unfold classify draftCfg
  generalize c % 2^bits = r
  by_cases h0 : r = 0
  · subst h0; rfl
  by_cases h1 : r = 1
  · subst h1; rfl
  by_cases h2 : r = 2
  · subst h2; rfl
  by_cases h3 : r = 3
  · subst h3; rfl
  have e : ∀ a : Nat, r ≠ a → (r == a) = false := fun a h => by simp [h]
  simp only [List.lookup, e _ h0, e _ h1, e _ h2, e _ h3, if_neg h0, if_neg h1, if_neg h2, if_neg h3]
  rfl

end Sftp.NormWidth
