import Sftp.Prim
/-
  M-LsMode: the long name of listings (property C17).

  1. Interpreter of the statement table of `sshfx.FileMode.String`
     (internal/encoding/ssh/filexfer/permissions.go), regenerated on every run into
     Generated/LsMode.lean: a fixed byte buffer written by a type switch, one two-way
     assignment per permission bit (the unrolled `for i, c := range "rwxrwxrwx"` loop) and the
     three special-bit blocks, each with the condition it consults.  Statements run in source
     order on the buffer, so a block that tests an already rendered character sees what the
     earlier statements wrote.  Characters are their code points (`Nat`); all arithmetic is over
     `Nat`, which coincides with Go's uint32 on the mode words the theorems quantify over.

  2. Where the owner (uid, gid) of an entry comes from: `fileStatFromInfo` (attributes; ordered
     steps, a later one overrides an earlier one) and `runLs` (long name; first match wins).
-/
namespace Sftp

/-- condition of the inner `if` of a special-bit block -/
inductive LsCond
  | bufEq (idx ch : Nat)      -- `buf[idx] == ch`
  | bitSet (mask : Nat)       -- `m & mask != 0`
  deriving Repr, DecidableEq

inductive LsStmt
  /-- `switch m & mask { case k: buf[idx] = ch … default: buf[idx] = dflt }` -/
  | typeSwitch (idx mask : Nat) (cases : List (Nat × Nat)) (dflt : Nat)
  /-- `if m & mask != 0 { buf[idx] = thenCh } else { buf[idx] = elseCh }` -/
  | bitChar (idx mask thenCh elseCh : Nat)
  /-- `if m & flag != 0 { if cond { buf[idx] = thenCh } else { buf[idx] = elseCh } }` -/
  | special (flag idx : Nat) (cond : LsCond) (thenCh elseCh : Nat)
  deriving Repr

structure LsTable where
  len : Nat
  stmts : List LsStmt
  deriving Repr

/-! The buffer is kept as one number, byte `i` being digit `i` in base 256 (cheap for the kernel,
which evaluates the model on all 2^16 mode words); `LsTable.render` unpacks it. -/

def bufGet (buf i : Nat) : Nat := buf / 256 ^ i % 256
def bufSet (buf i ch : Nat) : Nat := buf - bufGet buf i * 256 ^ i + ch * 256 ^ i

def LsCond.eval (m buf : Nat) : LsCond → Bool
  | .bufEq i ch => bufGet buf i == ch
  | .bitSet mask => m &&& mask != 0

def LsStmt.exec (m buf : Nat) : LsStmt → Nat
  | .typeSwitch idx mask cases dflt =>
    bufSet buf idx (match cases.lookup (m &&& mask) with | some ch => ch | none => dflt)
  | .bitChar idx mask t e => bufSet buf idx (if m &&& mask != 0 then t else e)
  | .special flag idx c t e =>
    if m &&& flag != 0 then bufSet buf idx (if c.eval m buf then t else e) else buf

/-- the buffer after all statements, packed -/
def LsTable.renderN (t : LsTable) (m : Nat) : Nat :=
  t.stmts.foldl (LsStmt.exec m) 0

def bytesOf (buf : Nat) : Nat → List Nat
  | 0 => []
  | n + 1 => buf % 256 :: bytesOf (buf / 256) n

/-- the bytes `FileMode(m).String()` returns -/
def LsTable.render (t : LsTable) (m : Nat) : List Nat := bytesOf (t.renderN m) t.len

def LsTable.string (t : LsTable) (m : Nat) : String :=
  String.ofList ((t.render m).map Char.ofNat)

/-! ### owner sources -/

/-- One place the owner of an entry may be taken from.  `unconditional = false` records that the
source carries an additional guard besides the type test; the model reads it as "only when no
earlier source has delivered an owner" (the theorems require `true`). -/
inductive OwnerSrc
  | sysType (ty : String) (unconditional : Bool)   -- `fi.Sys().(ty)`
  | iface (name : String) (unconditional : Bool)   -- `fi.(name)`
  deriving Repr, DecidableEq

def OwnerSrc.unconditional : OwnerSrc → Bool
  | .sysType _ u => u
  | .iface _ u => u

/-- What matters of an `os.FileInfo` for the owner: the dynamic type of `Sys()` ("nil" for nil) with
the ids found in it, the optional interfaces it implements, and what `Uid()`/`Gid()` return. -/
structure InfoShape where
  sysTy : String
  sysOwner : Nat × Nat
  ifaces : List String
  ifaceOwner : Nat × Nat
  deriving Repr

def OwnerSrc.get (fi : InfoShape) (cur : Option (Nat × Nat)) : OwnerSrc → Option (Nat × Nat)
  | .sysType ty unc => if fi.sysTy = ty ∧ (unc = true ∨ cur = none) then some fi.sysOwner else none
  | .iface n unc => if n ∈ fi.ifaces ∧ (unc = true ∨ cur = none) then some fi.ifaceOwner else none

/-- `fileStatFromInfo`: the steps run in order, each overriding what an earlier one set;
`none` = the UIDGID flag stays clear. -/
def attrsOwner (steps : List OwnerSrc) (fi : InfoShape) : Option (Nat × Nat) :=
  steps.foldl (fun cur s => match s.get fi cur with | some o => some o | none => cur) none

/-- `runLs`: the first source that applies; "0", "0" otherwise. -/
def lsOwner (order : List OwnerSrc) (fi : InfoShape) : Nat × Nat :=
  match order.findSome? (fun s => s.get fi none) with
  | some o => o
  | none => (0, 0)

/-- the `Sys()` types `runLs` consults before it looks for the interface -/
def lsSysFirst : List OwnerSrc → List String
  | .sysType ty _ :: rest => ty :: lsSysFirst rest
  | _ => []

end Sftp
