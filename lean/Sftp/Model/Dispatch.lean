/-
  M-Dispatch: small-step model of the goroutine/channel plumbing of the four concurrent File
  transfer paths of client.go

      (*File).readAt                   (concurrent branch; reached from ReadAt and Read)
      (*File).writeAtConcurrent        (reached from WriteAt / Write with UseConcurrentWrites)
      (*File).readFromWithConcurrency  (reached from ReadFromWithConcurrency and ReadFrom)
      (*File).WriteTo                  (concurrent branch)

  All four have the same three-stage shape

      Slice   one producer goroutine: `for <cond> { prepare chunk; dispatchRequest(res, pkt);
                 select { case workCh <- work: ; case <-cancel: return }; advance }`, `defer close(workCh)`
      Map_i   `concurrency` worker goroutines: `for work := range workCh { s := <-work.res; …;
                 <report> }`, `defer wg.Done()`
      Reduce  the calling goroutine.

  and differ in <cond>, <report> and Reduce:

      fold discipline  (readAt, writeAtConcurrent, readFromWithConcurrency)
          <report>  `if err != nil { errCh <- xErr{off, err} }`       (the worker blocks until the reducer takes it)
          Reduce    `for e := range errCh { if e.off <= firstErr.off {firstErr = e}; close(cancel) once }`;
                    errCh is closed by `go func(){ wg.Wait(); close(errCh) }()`
          <cond>    bounded (`len(b) > 0`, `read < len(b)`, io.ReadFull reporting the end of the source)
      chain discipline (WriteTo)
          <report>  `select { case readWork.cur <- writeWork: ; case <-cancel: }` for EVERY reply (ok or not)
          Reduce    `for { packet := <-cur; …; if packet.err != nil { return }; cur = packet.next }` — consumes the
                    results strictly in chunk order and returns at the first failing one;
                    `defer func(){ close(cancel); wg.Wait() }()`
          <cond>    none (`for {`): the plan is unbounded, the transfer ends with the STATUS EOF chunk.

  A chunk is identified by its index in the plan (offsets strictly increase with the index:
  Proofs/Transfer/Plan.lean).  Whether chunk i produces an error event is a run parameter
  `fails : Nat → Bool` (for the chain discipline "fails" includes the io.EOF status).

  Environment assumptions (outside this model, covered by the clientConn properties): every request
  put on the wire gets exactly one result on its `res` channel (reply, or the broadcast
  connection-lost error — conn.go putChannel / dispatchRequest / broadcastErr), at an arbitrary time.
  `resChanPool.Get` never blocks (pool.go: `default: return make(chan result, 1)`).
  The io.Reader of ReadFrom and the io.Writer of WriteTo are infallible (as in Model/Transfer.lean);
  with a failing io.Writer the WriteTo reducer returns early through the same deferred
  `close(cancel); wg.Wait()`, with a failing io.Reader the ReadFrom producer itself posts one event.

  What the producer's `select` permits.  The request is put on the wire BEFORE the select
  (`dispatchRequest` … `select`), and Go chooses at random among ready arms.  Hence
    * after `cancel` was closed the producer may still hand out any number of further chunks, as long as
      a worker is free (`handOut` stays enabled; `seeCancel` becomes enabled in addition);
    * when it does take the cancel arm, the chunk it holds is already on the wire and is never awaited
      by anybody: `sent` = dispatched ++ [that chunk] (theorems `dispatched_is_prefix`,
      `finished_run_admissible`).  For the write paths this is a WRITE the server may still apply after the
      method has returned; M-Transfer accounts for it by quantifying over the applied list separately
      from the dispatched set (`concWrite`/`rfConc` take `sent`), and readFromWithConcurrency's `read`
      counts it (`read += n` precedes the dispatch).

  State is explicit lists of chunk indices so that a Go harness can replay a recorded schedule
  (Driver/Dispatch.lean) and compare the dispatched / completed / observed sets.
-/
namespace Sftp.Dispatch

/-- Facts of the Go source the model depends on.  The hand-written values are below
(`DispatchCfg.readAt` …); see there for the statements each field stands for. -/
structure DispatchCfg where
  /-- Reduce discipline: `false` = errCh fold, `true` = ordered cur/next chain (WriteTo). -/
  chain : Bool
  /-- The producer loop has an exit condition over the plan (`false`: `for {` of WriteTo). -/
  bounded : Bool
  /-- `dispatchRequest` (request on the wire) precedes the hand-out `select`. -/
  sendFirst : Bool
  /-- The producer advances (`offset += len(rb)` / `read += len(wb)` / `off += n` / `off += chunkSize; cur = next`)
  only after the `workCh <- work` arm was taken, and by exactly one chunk. -/
  inOrder : Bool
  /-- The hand-out `select` has a `case <-cancel:` arm (checked at every hand-out). -/
  cancelArm : Bool
  /-- … and that arm `return`s (it does not fall through to the advance statements). -/
  cancelArmReturns : Bool
  /-- The producer has no way out of its loop other than the loop condition and the cancel arm. -/
  noOtherExit : Bool
  /-- `close(cancel)` occurs only in the reducer: fold — inside `for e := range errCh`, i.e. after an
  event was received; chain — in the deferred function that runs when the reduce loop returned. -/
  cancelByReducerOnly : Bool
  /-- The method returns only after all workers are done: fold — the reduce loop ends when errCh is
  closed, which `wg.Wait(); close(errCh)` does; chain — deferred `wg.Wait()`.  Workers end when workCh
  is closed, which the producer does on return (`defer close(workCh)`); the producer itself is not in
  the WaitGroup, so with ZERO workers the method would return while the producer still sits in its
  select — hence `1 ≤ workers` is a hypothesis of every theorem (client.go: `concurrency` is clamped
  to `f.c.maxConcurrentRequests`, default 64, and `MaxConcurrentRequestsPerFile` rejects n < 1). -/
  awaitWorkers : Bool
  deriving Repr, DecidableEq

/-- client.go `(*File).readAt`, concurrent branch:
  chain=false: `errCh <- rErr{…}` in the worker, `for rErr := range errCh` reducer;
  bounded: `for len(b) > 0 {`;  sendFirst: `f.c.dispatchRequest(res, &sshFxpReadPacket{…})` before the select;
  inOrder: `offset += int64(len(rb)); b = b[len(rb):]` after the select;
  cancelArm / cancelArmReturns: `select { case workCh <- work{id, res, rb, offset}: case <-cancel: return }`;
  noOtherExit: no other `return`/`break` in the producer body;
  cancelByReducerOnly: the only `close(cancel)` is in the reduce loop's `select { case <-cancel: default: close(cancel) }`;
  awaitWorkers: `go func() { wg.Wait(); close(errCh) }()`, `defer wg.Done()` in each worker, `defer close(workCh)`. -/
def DispatchCfg.readAt : DispatchCfg :=
  { chain := false, bounded := true, sendFirst := true, inOrder := true, cancelArm := true,
    cancelArmReturns := true, noOtherExit := true, cancelByReducerOnly := true, awaitWorkers := true }

/-- client.go `(*File).writeAtConcurrent`: same shape; `for read < len(b) {`, `read += len(wb)`,
`errCh <- wErr{work.off, err}`, `for wErr := range errCh`. -/
def DispatchCfg.writeAtConcurrent : DispatchCfg := DispatchCfg.readAt

/-- client.go `(*File).readFromWithConcurrency`: same shape; the loop `for { n, err := io.ReadFull(r, b); if n > 0 {
dispatch; select; off += n }; if err != nil { …; return } }` ends when the source is exhausted, i.e. after
the last chunk of the plan (`chunkWrites` of the source bytes); `errCh <- rwErr{work.off, err}`. -/
def DispatchCfg.readFromWithConcurrency : DispatchCfg := DispatchCfg.readAt

/-- client.go `(*File).WriteTo`, concurrent branch:
  chain=true: worker `select { case readWork.cur <- writeWork: case <-cancel: }`, reducer `packet, ok := <-cur; …;
  if packet.err != nil { return }; cur = packet.next`;  bounded=false: producer `for {`;
  sendFirst: `f.c.dispatchRequest(res, &sshFxpReadPacket{…})` before the select;
  inOrder: `off += int64(chunkSize); cur = next` after the select;
  cancelArm(Returns): `select { case readCh <- readWork: case <-cancel: return }`;
  cancelByReducerOnly / awaitWorkers: `defer func() { close(cancel); wg.Wait() }()`. -/
def DispatchCfg.writeTo : DispatchCfg :=
  { chain := true, bounded := false, sendFirst := true, inOrder := true, cancelArm := true,
    cancelArmReturns := true, noOtherExit := true, cancelByReducerOnly := true, awaitWorkers := true }

/-- What the three errCh-fold paths are today. -/
def DispatchCfg.current : DispatchCfg := DispatchCfg.readAt

/-- The source facts every safety theorem needs (decidable; discharged by `decide` for the
extracted configuration). -/
def DispatchCfg.Sound (c : DispatchCfg) : Prop :=
  c.inOrder = true ∧ c.cancelArmReturns = true ∧ c.noOtherExit = true ∧
  c.cancelByReducerOnly = true ∧ c.awaitWorkers = true

instance (c : DispatchCfg) : Decidable c.Sound := by unfold DispatchCfg.Sound; exact inferInstance

/-- an errCh-fold path over a finite plan (readAt, writeAtConcurrent, readFromWithConcurrency) -/
def DispatchCfg.FoldPath (c : DispatchCfg) : Prop := c.Sound ∧ c.chain = false ∧ c.bounded = true

instance (c : DispatchCfg) : Decidable c.FoldPath := by unfold DispatchCfg.FoldPath; exact inferInstance

/-- an ordered-chain path (WriteTo); the cancel arm is what stops its unbounded producer -/
def DispatchCfg.ChainPath (c : DispatchCfg) : Prop := c.Sound ∧ c.chain = true ∧ c.cancelArm = true

instance (c : DispatchCfg) : Decidable c.ChainPath := by unfold DispatchCfg.ChainPath; exact inferInstance

/-- Per-run parameters: `workers` = `concurrency`, `planLen` = number of chunks of the plan (ignored
by an unbounded producer), `fails i` = chunk i's reply makes its worker report an error. -/
structure Env where
  workers : Nat
  planLen : Nat
  fails : Nat → Bool

structure State where
  /-- index of the chunk the producer is working on -/
  next : Nat := 0
  /-- the producer has prepared chunk `next` (request on the wire when `sendFirst`) and sits in the select -/
  held : Bool := false
  /-- the producer goroutine has returned (`workCh` closed) -/
  prodDone : Bool := false
  /-- chunks whose request was put on the wire, in wire order -/
  sent : List Nat := []
  /-- chunks handed to a worker through workCh, in hand-out order -/
  handed : List Nat := []
  /-- handed out, reply not yet received by the worker -/
  inflight : List Nat := []
  /-- reply received, worker blocked handing its result to the reducer (`errCh <-` / `cur <-`) -/
  reporting : List Nat := []
  /-- replies received by workers, in arrival order -/
  completed : List Nat := []
  /-- fold: error events in the order the reducer received them; chain: packets consumed by the reducer -/
  observed : List Nat := []
  /-- `cancel` is closed -/
  cancelled : Bool := false
  /-- chain: the reduce loop has returned (it consumed a failing packet) -/
  redDone : Bool := false
  /-- the method has returned -/
  finished : Bool := false
  deriving Repr, DecidableEq

def init : State := {}

inductive Action where
  /-- producer: loop condition true, chunk prepared, `dispatchRequest` -/
  | send
  /-- producer select: `workCh <- work` taken by a free worker; advance -/
  | handOut
  /-- producer select: `<-cancel` -/
  | seeCancel
  /-- producer: loop condition false → return -/
  | exhaust
  /-- (only if `inOrder = false`) the producer advances without handing the chunk out -/
  | skip
  /-- (only if `noOtherExit = false`) the producer returns for another reason -/
  | quit
  /-- (only if `cancelByReducerOnly = false`) somebody else closes cancel -/
  | cancel
  /-- environment + worker: the worker holding chunk i receives its result -/
  | reply (i : Nat)
  /-- reducer receives the result of chunk i (fold: an error event, closes cancel;
  chain: packet i in chain order, returns if it failed) -/
  | observe (i : Nat)
  /-- chain only: a worker blocked on `cur <-` takes the `<-cancel` arm -/
  | drop (i : Nat)
  /-- the method returns -/
  | finish
  deriving Repr, DecidableEq

/-- busy workers -/
def State.busy (s : State) : Nat := s.inflight.length + s.reporting.length

def step (c : DispatchCfg) (e : Env) (s : State) (a : Action) : Option State :=
  if s.finished = true then none else
  match a with
  | .send =>
    if s.prodDone = false ∧ s.held = false ∧ (c.bounded = false ∨ s.next < e.planLen) then
      some { s with held := true, sent := if c.sendFirst = true then s.sent ++ [s.next] else s.sent }
    else none
  | .handOut =>
    if s.prodDone = false ∧ s.held = true ∧ s.busy < e.workers then
      some { s with held := false, next := s.next + 1, handed := s.handed ++ [s.next],
                    inflight := s.inflight ++ [s.next],
                    sent := if c.sendFirst = true then s.sent else s.sent ++ [s.next] }
    else none
  | .seeCancel =>
    if c.cancelArm = true ∧ s.prodDone = false ∧ s.held = true ∧ s.cancelled = true then
      if c.cancelArmReturns = true then some { s with prodDone := true }
      else some { s with held := false, next := s.next + 1 }
    else none
  | .exhaust =>
    if c.bounded = true ∧ s.prodDone = false ∧ s.held = false ∧ e.planLen ≤ s.next then
      some { s with prodDone := true }
    else none
  | .skip =>
    if c.inOrder = false ∧ s.prodDone = false ∧ s.held = false then some { s with next := s.next + 1 }
    else none
  | .quit =>
    if c.noOtherExit = false ∧ s.prodDone = false then some { s with prodDone := true } else none
  | .cancel =>
    if c.cancelByReducerOnly = false then some { s with cancelled := true } else none
  | .reply i =>
    if i ∈ s.inflight then
      some { s with inflight := s.inflight.erase i, completed := s.completed ++ [i],
                    reporting := if c.chain = true ∨ e.fails i = true then s.reporting ++ [i] else s.reporting }
    else none
  | .observe i =>
    if c.chain = true then
      if s.redDone = false ∧ i ∈ s.reporting ∧ i = s.observed.length then
        some { s with reporting := s.reporting.erase i, observed := s.observed ++ [i],
                      redDone := e.fails i, cancelled := s.cancelled || e.fails i }
      else none
    else
      if i ∈ s.reporting then
        some { s with reporting := s.reporting.erase i, observed := s.observed ++ [i], cancelled := true }
      else none
  | .drop i =>
    if c.chain = true ∧ s.cancelled = true ∧ i ∈ s.reporting then
      some { s with reporting := s.reporting.erase i }
    else none
  | .finish =>
    if (c.chain = true → s.redDone = true) ∧
       (c.awaitWorkers = true →
          (e.workers = 0 ∨ s.prodDone = true) ∧ s.inflight = [] ∧ s.reporting = []) then
      some { s with finished := true }
    else none

def run (c : DispatchCfg) (e : Env) : State → List Action → Option State
  | s, [] => some s
  | s, a :: as =>
    match step c e s a with
    | some s' => run c e s' as
    | none => none

/-- the states reachable from `init` -/
def Reachable (c : DispatchCfg) (e : Env) (s : State) : Prop := ∃ acts, run c e init acts = some s

/-- `acts` is a complete schedule from `init`: every action was enabled and the method returned in `s`. -/
def FinishedRun (c : DispatchCfg) (e : Env) (acts : List Action) (s : State) : Prop :=
  run c e init acts = some s ∧ s.finished = true

/-- bit i of `mask` -/
def maskFails (mask : Nat) (i : Nat) : Bool := mask.testBit i

end Sftp.Dispatch
