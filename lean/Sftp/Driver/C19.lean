import Sftp.Model.Handshake
import Sftp.Generated.Handshake
namespace Sftp.Driver.C19
open Sftp Sftp.Handshake

def cfg : Cfg := ⟨G.hsVersionTyp, G.hsVersionSafe, G.hsVersionReject, G.hsVersion⟩

def showPairs (m : List Pair) : String :=
  if m.isEmpty then "-"
  else ",".intercalate ((m.map fun p => hexOrDash p.1 ++ "=" ++ hexOrDash p.2).mergeSort (fun a b => decide (a ≤ b)))

/-- `c19.recv <typ> <hex body>`: the client's extension map (hex name=hex data, sorted as strings; `-` for an empty name, data or map) -/
def recv : List String → String
  | [typ, hex] =>
    match typ.toNat?, fromHex hex with
    | some t, some body =>
      match recvVersion cfg t body with
      | .ok m => "ok " ++ showPairs m
      | .err e => "err:" ++ e
      | .panic => "panic"
    | _, _ => "bad-op"
  | _ => "bad-op"

def showExts (l : List (String × String)) : String :=
  if l.isEmpty then "-" else ",".intercalate (l.map fun p => p.1 ++ "=" ++ p.2)

/-- `c19.setext <csv names>` (`-` = no names), starting from the initial advertised list -/
def setext : List String → String
  | [csv] =>
    let names := if csv = "-" then [] else csv.splitOn ","
    match setExtensions G.setExtAssignInLoop G.supportedExtensions G.supportedExtensions names with
    | (none, l) => "ok " ++ showExts l
    | (some _, _) => "err"
  | _ => "bad-op"

/-- `c19.advertised`: the supported (initially advertised) list of sftp.go -/
def advertised : List String → String
  | [] => showExts G.supportedExtensions
  | _ => "bad-op"

def ops : List (String × (List String → String)) :=
  [ ("c19.recv", recv), ("c19.setext", setext), ("c19.advertised", advertised) ]

end Sftp.Driver.C19
