import Sftp.Model.ClientConn
/-
  Line-protocol driver for M-ClientConn.

    conn.run <cfgbits> <ncallers> <token>*

  cfgbits : 7 characters 0/1 = getChannelDeletes putChecksClosed broadcastReplacesChan sendUnderLock
            sendFailNotifies recvClosesConn idAtomic   (today: 1111111)
  tokens  : one scheduler step each
     i<c> callerLoadId      n<c> callerNextId     p<c> callerPut        l<c> callerLock
     h<c> callerWriteHeader w<c> callerWritePayload x<c> callerWriteFail f<c> callerFailNotify
     r<c> callerRecvResult  R<sid>:<hex|-> envReply sid payload          E envFail
     C recvCloseConn        B recvBroadcast
  result  : `ok` (whole schedule enabled) or `disabled@<k>` (token k, 0-based, was not enabled; the state
            printed is the one before it), then
            c<i>=reply:<sid>:<hex|->|lost|senderr|pending   for every caller,
            deliv=<d0,d1,…>   sends made into each caller's channel,
            wire=<items>      whole frames as <sid>, a lone header as <sid>h, a lone payload as <sid>p, `-` if empty,
            recv=running|closing|broadcasting|stopped   closed=0|1   framed=0|1 (wellFramed wire)
    conn.enabled <cfgbits> <ncallers> <token>*  →  tokens of all caller/receiver steps enabled after the schedule
            (envReply is listed as R<sid> for every sid in the inflight map; `-` if none)
    conn.sids <cfgbits> <ncallers> <token>*   →  sid (or `-`) held by each caller after the schedule
-/
namespace Sftp.Driver.ClientConn
open Sftp Sftp.ClientConn

def parseCfg (s : String) : Option Cfg :=
  match s.toList with
  | [a, b, c, d, e, f, g] =>
    if [a, b, c, d, e, f, g].all (fun x => x = '0' || x = '1') then
      some ⟨a = '1', b = '1', c = '1', d = '1', e = '1', f = '1', g = '1'⟩
    else none
  | _ => none

def parseTok (t : String) : Option Action :=
  match t.toList with
  | [] => none
  | 'E' :: [] => some .envFail
  | 'C' :: [] => some .recvCloseConn
  | 'B' :: [] => some .recvBroadcast
  | 'R' :: rest =>
    match (String.ofList rest).splitOn ":" with
    | [a, b] =>
      match a.toNat?, fromHex b with
      | some sid, some p => some (.envReply sid p)
      | _, _ => none
    | _ => none
  | k :: rest =>
    match (String.ofList rest).toNat? with
    | none => none
    | some c =>
      match k with
      | 'i' => some (.callerLoadId c)
      | 'n' => some (.callerNextId c)
      | 'p' => some (.callerPut c)
      | 'l' => some (.callerLock c)
      | 'h' => some (.callerWriteHeader c)
      | 'w' => some (.callerWritePayload c)
      | 'x' => some (.callerWriteFail c)
      | 'f' => some (.callerFailNotify c)
      | 'r' => some (.callerRecvResult c)
      | _ => none

def parseToks : List String → Option (List Action)
  | [] => some []
  | t :: rest =>
    match parseTok t, parseToks rest with
    | some a, some as => some (a :: as)
    | _, _ => none

/-- Run as far as enabled: final state, and index of the first disabled action if any. -/
def runPrefix (cfg : Cfg) (n : Nat) : State → List Action → Nat → State × Option Nat
  | s, [], _ => (s, none)
  | s, a :: rest, k =>
    match step cfg n s a with
    | none => (s, some k)
    | some s' => runPrefix cfg n s' rest (k + 1)

def showOutcome : PC → String
  | .done _ (.reply sid p) => s!"reply:{sid}:{hexOrDash p}"
  | .done _ .lost => "lost"
  | .done _ .sendErr => "senderr"
  | _ => "pending"

def showWire : List Chunk → List String
  | .hdr c sid :: .pay c' sid' :: rest =>
    if c = c' ∧ sid = sid' then toString sid :: showWire rest
    else s!"{sid}h" :: s!"{sid'}p" :: showWire rest
  | .hdr _ sid :: rest => s!"{sid}h" :: showWire rest
  | .pay _ sid :: rest => s!"{sid}p" :: showWire rest
  | [] => []

def showRpc : RPC → String
  | .running => "running" | .closing => "closing" | .broadcasting => "broadcasting" | .stopped => "stopped"

def showState (n : Nat) (s : State) : String :=
  let cs := (List.range n).map (fun c => s!"c{c}={showOutcome (s.pc c)}")
  let dv := (List.range n).map (fun c => toString (s.chan c).delivered)
  let w := showWire s.wire
  " ".intercalate cs ++ (if n = 0 then "" else " ") ++
  s!"deliv={if n = 0 then "-" else ",".intercalate dv} wire={if w.isEmpty then "-" else ",".intercalate w} " ++
  s!"recv={showRpc s.rpc} closed={if s.closed then 1 else 0} framed={if wellFramed s.wire then 1 else 0}"

def withRun (f : Nat → State × Option Nat → String) : List String → String
  | cb :: ns :: toks =>
    match parseCfg cb, ns.toNat?, parseToks toks with
    | some cfg, some n, some acts => if n ≤ 4096 then f n (runPrefix cfg n (init n) acts 0) else "bad-op"
    | _, _, _ => "bad-op"
  | _ => "bad-op"

def opRun : List String → String :=
  withRun fun n r =>
    (match r.2 with | none => "ok " | some k => s!"disabled@{k} ") ++ showState n r.1

def opSids : List String → String :=
  withRun fun n r =>
    let l := (List.range n).map (fun c => match (r.1.pc c).sid? with | some sid => toString sid | none => "-")
    if n = 0 then "-" else " ".intercalate l

def callerTok : Action → String
  | .callerLoadId c => s!"i{c}" | .callerNextId c => s!"n{c}" | .callerPut c => s!"p{c}"
  | .callerLock c => s!"l{c}" | .callerWriteHeader c => s!"h{c}" | .callerWritePayload c => s!"w{c}"
  | .callerWriteFail c => s!"x{c}" | .callerFailNotify c => s!"f{c}" | .callerRecvResult c => s!"r{c}"
  | .envReply sid _ => s!"R{sid}" | .envFail => "E" | .recvCloseConn => "C" | .recvBroadcast => "B"

def opEnabled : List String → String
  | cb :: ns :: toks =>
    match parseCfg cb, ns.toNat?, parseToks toks with
    | some cfg, some n, some acts =>
      if n ≤ 4096 then
        let s := (runPrefix cfg n (init n) acts 0).1
        let cand := ((List.range n).map callerActs).flatten ++
          s.inflight.map (fun e => Action.envReply e.1 []) ++ [.envFail, .recvCloseConn, .recvBroadcast]
        let en := (cand.filter (fun a => (step cfg n s a).isSome)).map callerTok
        if en.isEmpty then "-" else " ".intercalate en
      else "bad-op"
    | _, _, _ => "bad-op"
  | _ => "bad-op"

def ops : List (String × (List String → String)) :=
  [ ("conn.run", opRun), ("conn.sids", opSids), ("conn.enabled", opEnabled) ]

end Sftp.Driver.ClientConn
