import Sftp.Model.Reply
import Sftp.Generated.ClientReplies
namespace Sftp.Driver.C20
open Sftp Sftp.Reply

def table : List (String × Nat × List RStep) := G.clientReplies ++ G.handshakeReplies

/-- the program a function runs on a reply of type `typ` (decoders inlined); `clientConn.recv` runs its
program on every type. -/
def progOf (fn : String) (typ : Nat) : Option (List RStep) :=
  if fn = "clientConn.recv" then some (inline G.decoderProgs G.recvProg)
  else (lookupRow table fn typ).map (inline G.decoderProgs)

def known (fn : String) : Bool :=
  fn = "clientConn.recv" || table.any (fun r => r.1 == fn)

def className : Res → String
  | .ok _ => "ok"
  | .err _ _ => "err"
  | .panic _ => "panic"

/-- the id the waiting request has: `recv` hands a reply to the request whose id equals the first four bytes -/
def defaultId (data : Bytes) : Nat :=
  match get32? data with
  | some (v, _) => v
  | none => 0

def exec (fn typ hex : String) (id? cap? : Option String) : Option Res := do
  let t ← typ.toNat?
  let data ← fromHex hex
  let id ← match id? with
    | some s => s.toNat?
    | none => some (defaultId data)
  let cap ← match cap? with
    | some s => s.toNat?
    | none => some 32768
  if !known fn then none
  else match progOf fn t with
    | some p => some (runProg cap p { data := data, id := id })
    | none => some (.err "unexpected-type" 0)

def run : List String → String
  | [fn, typ, hex] => (exec fn typ hex none none).elim "bad-op" className
  | [fn, typ, hex, id] => (exec fn typ hex (some id) none).elim "bad-op" className
  | [fn, typ, hex, id, cap] => (exec fn typ hex (some id) (some cap)).elim "bad-op" className
  | _ => "bad-op"

def meterOp : List String → String
  | [fn, typ, hex] => (exec fn typ hex none none).elim "bad-op" (fun r => toString r.meter)
  | _ => "bad-op"

def prog : List String → String
  | [fn, typ] =>
    match typ.toNat? with
    | none => "bad-op"
    | some t =>
      if !known fn then "bad-op"
      else match progOf fn t with
        | some p => if p.isEmpty then "-" else showProg p
        | none => "default"
  | _ => "bad-op"

def ops : List (String × (List String → String)) :=
  [ ("c20.run", run), ("c20.prog", prog), ("c20.meter", meterOp) ]

end Sftp.Driver.C20
