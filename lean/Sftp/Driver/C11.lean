import Sftp.Model.Handles
/-
  Line-protocol driver for the handle-table model (C11).

  c11.run <cfg> <action>*      one action per token, executed from the initial state

  <cfg>   six characters `0`/`1`: deleteOnClose, closeOnFailedOpen, sweepClosesAll,
          sweepNotifiesTransferError, counterMonotone, allocBeforeOpen.
          Today's request server is `111111`, today's os-backed server `111010`.
  <action>
          O        openOk    open / opendir answered with a HANDLE (the handle is the next number, from 1)
          N        openFail  open / opendir answered with a STATUS
          U:<h>    use       a handle-bearing request (READ, WRITE, FSTAT, FSETSTAT, READDIR) naming handle <h>
          C:<h>    close     CLOSE of handle <h>
          Z:<0|1>  sweep     Serve returns; 1 = the session ended with a non-nil error
  result  `status=<s>,<s>,… objs=<closed>/<terr>/<ctx>/<touched>/<r|p>,… open=<h>,…`
          one status per action (`ok`, `ebadf`, `fail`), one group per object in creation order
          (`r` real, `p` placeholder of a failed open), the handles still in the table in table order;
          an empty list is `.`.  `blocked@<i>` when action i (from 0) comes after the sweep; `bad-op`.
-/
namespace Sftp.Driver.C11
open Sftp Sftp.Handles

def bit? : Char → Option Bool
  | '0' => some false
  | '1' => some true
  | _ => none

def parseCfg (t : String) : Option Cfg :=
  match t.toList.map bit? with
  | [some a, some b, some c, some d, some e, some f] =>
    some { deleteOnClose := a, closeOnFailedOpen := b, sweepClosesAll := c,
           sweepNotifiesTransferError := d, counterMonotone := e, allocBeforeOpen := f }
  | _ => none

def parseAction (t : String) : Option Action :=
  match t.splitOn ":" with
  | ["O"] => some .openOk
  | ["N"] => some .openFail
  | ["U", h] => h.toNat?.map .use
  | ["C", h] => h.toNat?.map .close
  | ["Z", "0"] => some (.sweep false)
  | ["Z", "1"] => some (.sweep true)
  | _ => none

def parseAll : List String → Option (List Action)
  | [] => some []
  | t :: ts =>
    match parseAction t, parseAll ts with
    | some a, some as => some (a :: as)
    | _, _ => none

def runIdx (cfg : Cfg) : State → Nat → List Action → Except Nat State
  | s, _, [] => .ok s
  | s, i, a :: as =>
    match step cfg s a with
    | some s' => runIdx cfg s' (i + 1) as
    | none => .error i

def showStatus : Status → String
  | .ok => "ok"
  | .ebadf => "ebadf"
  | .fail => "fail"

def showObj (o : Obj) : String :=
  s!"{o.closed}/{o.terr}/{o.ctx}/{o.touched}/{if o.real then "r" else "p"}"

def joinOrDot (l : List String) : String := if l.isEmpty then "." else ",".intercalate l

def showState (s : State) : String :=
  let st := joinOrDot (s.log.map showStatus)
  let ob := joinOrDot ((List.range s.nobj).map (fun i => showObj (s.objs i)))
  let op := joinOrDot (s.open.map (fun e => toString e.1))
  s!"status={st} objs={ob} open={op}"

def runOp : List String → String
  | c :: ts =>
    match parseCfg c, parseAll ts with
    | some cfg, some acts =>
      match runIdx cfg State.init 0 acts with
      | .ok s => showState s
      | .error i => s!"blocked@{i}"
    | _, _ => "bad-op"
  | _ => "bad-op"

def ops : List (String × (List String → String)) :=
  [ ("c11.run", runOp) ]

end Sftp.Driver.C11
