import Sftp.Model.Handles
import Sftp.Generated.AllocHandles
/-
  Line-protocol driver for the handle-table model (C11).

  c11.run <cfg> <action>*      one action per token, executed from the initial state
  c11.cur rs|os                the <cfg> token (extended form) of the configuration REGENERATED from the
                               source on this run, completed with the hand-written constants for the
                               fields that have no generated source yet (`cfgOfRS` / `cfgOfOS`)

  <cfg>   LEGACY form: six characters `0`/`1`: deleteOnClose, closeOnFailedOpen, sweepClosesAll,
          sweepNotifiesTransferError, counterMonotone, allocBeforeOpen (what `cur.cfg c11rs|c11os` print).
          The refined fields are set so that the coarse model of before is reproduced exactly:
          sweepEmptiesTable = sweepClosesAll, every kind of object is notified, useKindChecked = 1;
          the result line has the three legacy fields only.
          EXTENDED form: `<8 bits>:<kinds>` — the six bits above, then sweepEmptiesTable, useKindChecked;
          <kinds> = the kinds of object Request.transferError notifies, letters out of `rwblp`
          (reader, writer, reader-writer ("both"), lister, placeholder) in any order, `.` for none.
          Today's request server is `11111111:rwb`, today's os-backed server `11101000:.`.
          The result line has two more fields at the end (`handles=`, `kinds=`).
  <action>
          O        openOk    open / opendir answered with a HANDLE (the handle is the next number, from 1);
                             `O` alone = `O:b`
          O:<k>    openOk    … for an object of kind <k> = r | w | b | l
          N        openFail  open / opendir answered with a STATUS
          U:<h>    use       a request every live handle serves (FSTAT, FSETSTAT) naming handle <h>
          R:<h>    useAs read     READ naming handle <h>      (fits r, b)
          W:<h>    useAs write    WRITE naming handle <h>     (fits w, b)
          D:<h>    useAs readdir  READDIR naming handle <h>   (fits l)
          C:<h>    close     CLOSE of handle <h>
          Z:<0|1>  sweep     Serve returns; 1 = the session ended with a non-nil error
  result  `status=<s>,<s>,… objs=<closed>/<terr>/<ctx>/<touched>/<r|p>,… open=<h>,…`
          one status per action (`ok`, `ebadf`, `fail`, `wrongkind`), one group per object in creation order
          (`r` real, `p` placeholder of a failed open), the handles still in the table in table order;
          extended form only: ` handles=<h>,… kinds=<k>,…` — the handle issued by each openOk action, in
          order, and the kind letter of each object in creation order (`p` for a placeholder);
          an empty list is `.`.  `blocked@<i>` when action i (from 0) comes after the sweep; `bad-op`.
-/
namespace Sftp.Driver.C11
open Sftp Sftp.Handles

def bit? : Char → Option Bool
  | '0' => some false
  | '1' => some true
  | _ => none

def kind? : Char → Option Kind
  | 'r' => some .reader
  | 'w' => some .writer
  | 'b' => some .readerWriter
  | 'l' => some .lister
  | 'p' => some .placeholder
  | _ => none

def kindLetter : Kind → String
  | .reader => "r"
  | .writer => "w"
  | .readerWriter => "b"
  | .lister => "l"
  | .placeholder => "p"

def allSome {α} : List (Option α) → Option (List α)
  | [] => some []
  | some a :: t => (allSome t).map (a :: ·)
  | none :: _ => none

def parseKinds (t : String) : Option (List Kind) :=
  if t = "." then some [] else if t.isEmpty then none else allSome (t.toList.map kind?)

/-- The configuration and whether the token was of the extended form. -/
def parseCfg (t : String) : Option (Cfg × Bool) :=
  match t.splitOn ":" with
  | [bits] =>
    match bits.toList.map bit? with
    | [some a, some b, some c, some d, some e, some f] =>
      some ({ deleteOnClose := a, closeOnFailedOpen := b, sweepClosesAll := c,
              sweepNotifiesTransferError := d, counterMonotone := e, allocBeforeOpen := f,
              sweepEmptiesTable := c, notifyKinds := Kind.all, useKindChecked := true }, false)
    | _ => none
  | [bits, ks] =>
    match bits.toList.map bit?, parseKinds ks with
    | [some a, some b, some c, some d, some e, some f, some g, some h], some kinds =>
      some ({ deleteOnClose := a, closeOnFailedOpen := b, sweepClosesAll := c,
              sweepNotifiesTransferError := d, counterMonotone := e, allocBeforeOpen := f,
              sweepEmptiesTable := g, notifyKinds := kinds, useKindChecked := h }, true)
    | _, _ => none
  | _ => none

def b (x : Bool) : String := if x then "1" else "0"

/-- The extended token of a configuration (kinds in the canonical order r w b l p). -/
def showCfg (c : Cfg) : String :=
  let ks := (Kind.all.filter c.notifies).map kindLetter
  b c.deleteOnClose ++ b c.closeOnFailedOpen ++ b c.sweepClosesAll ++ b c.sweepNotifiesTransferError ++
  b c.counterMonotone ++ b c.allocBeforeOpen ++ b c.sweepEmptiesTable ++ b c.useKindChecked ++ ":" ++
  (if ks.isEmpty then "." else String.join ks)

def parseAction (t : String) : Option Action :=
  match t.splitOn ":" with
  | ["O"] => some (.openOk .readerWriter)
  | ["O", "r"] => some (.openOk .reader)
  | ["O", "w"] => some (.openOk .writer)
  | ["O", "b"] => some (.openOk .readerWriter)
  | ["O", "l"] => some (.openOk .lister)
  | ["N"] => some .openFail
  | ["U", h] => h.toNat?.map .use
  | ["R", h] => h.toNat?.map (.useAs · .read)
  | ["W", h] => h.toNat?.map (.useAs · .write)
  | ["D", h] => h.toNat?.map (.useAs · .readdir)
  | ["C", h] => h.toNat?.map .close
  | ["Z", "0"] => some (.sweep false)
  | ["Z", "1"] => some (.sweep true)
  | _ => none

def parseAll : List String → Option (List Action)
  | [] => some []
  | t :: ts =>
    match parseAction t, parseAll ts with
    | some a, some as => some (a :: as)
    | _, _ => none

def isOpenOk : Action → Bool
  | .openOk _ => true
  | _ => false

/-- Runs the actions; also collects the handle issued by every openOk action, in order. -/
def runIdx (cfg : Cfg) : State → List Nat → Nat → List Action → Except Nat (State × List Nat)
  | s, hs, _, [] => .ok (s, hs)
  | s, hs, i, a :: as =>
    match step cfg s a with
    | some s' =>
      let hs' := if isOpenOk a then hs ++ [s'.issued.getLastD 0] else hs
      runIdx cfg s' hs' (i + 1) as
    | none => .error i

def showStatus : Status → String
  | .ok => "ok"
  | .ebadf => "ebadf"
  | .fail => "fail"
  | .wrongKind => "wrongkind"

def showObj (o : Obj) : String :=
  s!"{o.closed}/{o.terr}/{o.ctx}/{o.touched}/{if o.real then "r" else "p"}"

def joinOrDot (l : List String) : String := if l.isEmpty then "." else ",".intercalate l

def showState (s : State) : String :=
  let st := joinOrDot (s.log.map showStatus)
  let ob := joinOrDot ((List.range s.nobj).map (fun i => showObj (s.objs i)))
  let op := joinOrDot (s.open.map (fun e => toString e.1))
  s!"status={st} objs={ob} open={op}"

def showExt (s : State) (hs : List Nat) : String :=
  let h := joinOrDot (hs.map toString)
  let k := joinOrDot ((List.range s.nobj).map (fun i => kindLetter (s.objs i).kind))
  s!" handles={h} kinds={k}"

def runOp : List String → String
  | c :: ts =>
    match parseCfg c, parseAll ts with
    | some (cfg, ext), some acts =>
      match runIdx cfg State.init [] 0 acts with
      | .ok (s, hs) => showState s ++ (if ext then showExt s hs else "")
      | .error i => s!"blocked@{i}"
    | _, _ => "bad-op"
  | _ => "bad-op"

def curOp : List String → String
  | ["rs"] => showCfg (cfgOfRS G.handlesCfgRS)
  | ["os"] => showCfg (cfgOfOS G.handlesCfgOS)
  | _ => "bad-op"

def ops : List (String × (List String → String)) :=
  [ ("c11.run", runOp), ("c11.cur", curOp) ]

end Sftp.Driver.C11
