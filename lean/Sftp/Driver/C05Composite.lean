import Sftp.Model.Composite
import Sftp.Spec.OsComposite
import Sftp.Model.ErrCurrent
/-
  Driver ops for the C05 composites (Client.Remove / MkdirAll / RemoveAll over the abstract file system).

  Tokens
    <fs>    the tree: comma-separated entries, `-` for the empty tree
              d:/a/b          directory          f:/a/x   regular file
              l:/a/l>/a/x     symbolic link /a/l with the ABSOLUTE target /a/x (relative to the served root)
            paths are absolute and clean (`/`-separated, no empty, `.` or `..` components); the root is implicit.
            A tree that is not well-formed (duplicate paths, an entry whose parent is not a directory entry, an
            entry for `/`) is answered `bad-op`.
    <path>  `/a/b`, `/` for the root
    <cfg>   `cur` = CompositeCfg.current, or the explicit form printed by `c05c.cfg`:
              <removePkt><rmdirPkt><15 bits><maFileErr>:<rmFallbackOn>
            removePkt / rmdirPkt: o = os.Remove, u = unlink, r = rmdir;
            bits (1/0): rmCompare statusIsByCode rmStats rmStatFollows rmDirGivesErrD maStatFirst maStatFollows
              maDirIsNil maParents maRecheck raLstat raNoEntNil raChildrenFirst raRecurseDirs raRemovesNonDirs;
            maFileErr and the rmFallbackOn letters: k ok, n notexist, p permission, f failure, d enotdir; `-` = none.
            Today: `oo101111111110111d:npf`.
  Results (one line)
    <fs'> <err>[ oom]
      <fs'>  the resulting tree in canonical form (entries sorted as text), `-` if empty
      <err>  client ops: ok | notexist | permission | failure | enotdir      (what the caller can observe)
             os ops:     ok | noent | exist | notdir | isdir | notempty | perm | other   (the errno class)
      oom    appended when the path traverses a symbolic link in a non-final position; for mkdirall (client and
             os) also when some hop of the link chain that Stat follows from the path (target of the link, target
             of that target, …) traverses a link in a non-final position; for removeall with raLstat = 0 also
             when the path is a link to a directory or its chain has such a hop: OUTSIDE the model, do not compare.
  The wire (os error → what the client sees) is the one of the generated tables G.errCfg / G.normCfg.

  Ops
    c05c.remove    <cfg> <fs> <path>     Client.Remove        e.g.  c05c.remove cur d:/a,f:/a/x /a/x      → d:/a ok
                                                                    c05c.remove cur d:/a,f:/a/x /a        → d:/a,f:/a/x failure
                                                                    c05c.remove cur - /zz                 → - notexist
    c05c.mkdirall  <cfg> <fs> <path>     Client.MkdirAll      e.g.  c05c.mkdirall cur d:/a /a/b/c         → d:/a,d:/a/b,d:/a/b/c ok
                                                                    c05c.mkdirall cur f:/f /f/x           → f:/f enotdir
                                                                    c05c.mkdirall cur l:/l>/nowhere /l    → l:/l>/nowhere failure
    c05c.removeall <cfg> <fs> <path>     Client.RemoveAll     e.g.  c05c.removeall cur d:/a,d:/a/b,f:/a/b/x /a  → - ok
                                                                    c05c.removeall cur d:/a /a/zz         → d:/a notexist
                                                                    c05c.removeall cur d:/d,f:/d/x,l:/l>/d /l → d:/d,f:/d/x ok
    c05c.os.remove | c05c.os.mkdirall | c05c.os.removeall  <fs> <path>     the reference semantics (package os)
                                                              e.g.  c05c.os.removeall d:/a /a/zz          → d:/a ok
                                                                    c05c.os.remove d:/a,f:/a/x /a         → d:/a,f:/a/x notempty
    c05c.cfg                              → the current configuration in explicit form
    c05c.agree <op> <cfg> <fs> <path>     → `same` if client op and os op give the same tree and the same outcome
                                            category (ok/notexist/permission/other), else `differ <client> | <os>`
                                            (op = remove | mkdirall | removeall)
-/
namespace Sftp.Driver.C05Composite
open Sftp Sftp.AbsFS Sftp.Composite Sftp.Spec.OsComposite

def W : Result → CErr := wireOf G.errCfg G.normCfg

def cfgOf (s : String) : Option CompositeCfg := if s = "cur" then some .current else parseCfg s

def fsOf (s : String) : Option FS :=
  match parseFS s with
  | some fs => if wf fs then some fs else none
  | none => none

/-- a final link to a directory that the operation would enter -/
def entersLink (fs : FS) (p : Path) : Bool :=
  match locate fs p, stat fs p with
  | .entry (.link _), (.ok, .dir) => true
  | _, _ => false

/-- some hop of the chain stat follows from `p` runs through a link in a non-final position -/
def chainOom : Nat → FS → Path → Bool
  | 0, _, _ => false
  | fuel + 1, fs, p =>
    match locate fs p with
    | .blocked .errOther => true
    | .entry (.link t) => chainOom fuel fs t
    | _ => false

def statOom (fs : FS) (p : Path) : Bool := chainOom (fs.length + 1) fs p

def oomTag (b : Bool) : String := if b then " oom" else ""

def clientOp (name : String) (cfg : CompositeCfg) (fs : FS) (p : Path) : Option ((FS × CErr) × Bool) :=
  if name = "remove" then some (removeC cfg W fs p, !inModel fs p)
  else if name = "mkdirall" then some (mkdirAll cfg W fs p, statOom fs p)
  else if name = "removeall" then
    some (removeAll cfg W fs p, !inModel fs p || (!cfg.raLstat && (entersLink fs p || statOom fs p)))
  else none

def osOp (name : String) (fs : FS) (p : Path) : Option ((FS × Result) × Bool) :=
  if name = "remove" then some (osRemove fs p, !inModel fs p)
  else if name = "mkdirall" then some (osMkdirAll fs p, statOom fs p)
  else if name = "removeall" then some (osRemoveAll fs p, !inModel fs p)
  else none

def runClient (name : String) : List String → String
  | [c, f, p] =>
    match cfgOf c, fsOf f, parsePath p with
    | some cfg, some fs, some path =>
      match clientOp name cfg fs path with
      | some ((fs', e), oom) => renderFS fs' ++ " " ++ e.render ++ oomTag oom
      | none => "bad-op"
    | _, _, _ => "bad-op"
  | _ => "bad-op"

def runOs (name : String) : List String → String
  | [f, p] =>
    match fsOf f, parsePath p with
    | some fs, some path =>
      match osOp name fs path with
      | some ((fs', r), oom) => renderFS fs' ++ " " ++ r.render ++ oomTag oom
      | none => "bad-op"
    | _, _ => "bad-op"
  | _ => "bad-op"

def Cat.render : Cat → String
  | .ok => "ok" | .notExist => "notexist" | .permission => "permission" | .other => "other"

def agree : List String → String
  | [name, c, f, p] =>
    match cfgOf c, fsOf f, parsePath p with
    | some cfg, some fs, some path =>
      match clientOp name cfg fs path, osOp name fs path with
      | some ((fs1, e), oom), some ((fs2, r), _) =>
        if renderFS fs1 = renderFS fs2 && e.cat = osCat r then "same" ++ oomTag oom
        else "differ " ++ renderFS fs1 ++ " " ++ e.render ++ " | " ++ renderFS fs2 ++ " " ++ r.render ++ oomTag oom
      | _, _ => "bad-op"
    | _, _, _ => "bad-op"
  | _ => "bad-op"

def ops : List (String × (List String → String)) :=
  [ ("c05c.remove", runClient "remove"),
    ("c05c.mkdirall", runClient "mkdirall"),
    ("c05c.removeall", runClient "removeall"),
    ("c05c.os.remove", runOs "remove"),
    ("c05c.os.mkdirall", runOs "mkdirall"),
    ("c05c.os.removeall", runOs "removeall"),
    ("c05c.cfg", fun args => if args.isEmpty then CompositeCfg.current.render else "bad-op"),
    ("c05c.agree", agree) ]

end Sftp.Driver.C05Composite
