import Sftp.Generated.PipeCfg
import Sftp.Generated.AllocHandles
import Sftp.Generated.ClientConnCfg
import Sftp.Generated.ListingCfg
import Sftp.Generated.TransferFacts
import Sftp.Generated.DispatchCfg
import Sftp.Generated.CompositeCfg
import Sftp.Generated.ClientChanCfg
/-
  `cur.cfg <model>` prints, in the token syntax of the corresponding driver, the configuration the
  translator REGENERATED from the source on this run, so that the harness replays schedules in the
  model of the code as it is now (not in a hard-coded "expected" configuration):

    cur.cfg pipe   →  PPP-FFFFF-W-D     (c02.run / c14.check / c14.handled)
    cur.cfg c11rs  →  six bits          (c11.run, request server)      cur.cfg c11os → os-backed server
    cur.cfg conn   →  seven bits        (conn.run …)
    cur.cfg c18    →  five bits:pageSize:maxTx   (c18.run; reuse bit = 1)
    cur.cfg c16    →  six bits          (c16.list …: incByN eofOnlyWhenEmpty filterDots stopOnStatus eofIsNil baseName)
    cur.cfg c16os  →  five bits + " " + batch    (c16.oslist)
    cur.cfg dispReadAt|dispWriteAt|dispReadFrom|dispWriteTo → nine bits (disp.runcfg)
    cur.cfg composite → <removePkt><rmdirPkt><15 bits><maFileErr>:<rmFallbackOn>   (c05c.*)
    cur.cfg chan   →  six bits   (chan.run: fresh putAfterRecv abandonedNotReturned reuseSeq shared idsDistinct)
    cur.cfg xfer   →  wtm,rfm           (the two source facts of the xfer.* cfg tuple)
-/
namespace Sftp.Driver.Cur
open Sftp

def b (x : Bool) : String := if x then "1" else "0"

def pipe : String :=
  let c := G.pipeCfg
  b (c.poolKinds.contains .rw) ++ b (c.poolKinds.contains .close) ++ b (c.poolKinds.contains .cmd) ++ "-" ++
  b c.closeWaits ++ b c.registerBeforeHandoff ++ b c.headMatch ++ b c.sortIncoming ++ b c.sortOutgoing ++ "-" ++
  toString c.workers ++ "-" ++ b c.drainOnFini

def handles (c : Sftp.Handles.Cfg) : String :=
  b c.deleteOnClose ++ b c.closeOnFailedOpen ++ b c.sweepClosesAll ++ b c.sweepNotifiesTransferError ++
  b c.counterMonotone ++ b c.allocBeforeOpen

def conn : String :=
  let c := G.clientConnCfg
  b c.getChannelDeletes ++ b c.putChecksClosed ++ b c.broadcastReplacesChan ++ b c.sendUnderLock ++
  b c.sendFailNotifies ++ b c.recvClosesConn ++ b c.idAtomic

def c18 : String :=
  let c := G.allocCfg
  b c.releaseAfterSend ++ b c.getPageMarksUsed ++ b c.popRemovesFromAvailable ++ b c.releaseDeletesKey ++ "1:" ++
  toString c.pageSize ++ ":" ++ toString c.maxTx

def c16 : String :=
  b G.srvCfg.incByN ++ b G.srvCfg.eofOnlyWhenEmpty ++ b G.cliCfg.filterDots ++ b G.cliCfg.stopOnStatus ++
  b G.cliCfg.eofIsNil ++ b G.cliCfg.baseName

def c16os : String :=
  b G.osCfg.errToStatus ++ b G.cliCfg.filterDots ++ b G.cliCfg.stopOnStatus ++ b G.cliCfg.eofIsNil ++
  b G.cliCfg.baseName ++ " " ++ toString G.osCfg.batch

def disp (c : Sftp.Dispatch.DispatchCfg) : String :=
  b c.chain ++ b c.bounded ++ b c.sendFirst ++ b c.inOrder ++ b c.cancelArm ++ b c.cancelArmReturns ++
  b c.noOtherExit ++ b c.cancelByReducerOnly ++ b c.awaitWorkers

def chan : String :=
  let c := G.clientChanCfg
  b c.freshPerSyncCall ++ b c.poolPutOnlyAfterRecv ++ b c.abandonedNotReturned ++ b c.reuseOnlySequential ++
  b c.sharedAcrossCallers ++ b c.idsDistinctInFlight

def cfgOp : List String → String
  | ["chan"] => chan
  | ["dispReadAt"] => disp G.dispReadAt
  | ["dispWriteAt"] => disp G.dispWriteAt
  | ["dispReadFrom"] => disp G.dispReadFrom
  | ["dispWriteTo"] => disp G.dispWriteTo
  | ["pipe"] => pipe
  | ["c11rs"] => handles G.handlesCfgRS
  | ["c11os"] => handles G.handlesCfgOS
  | ["conn"] => conn
  | ["c18"] => c18
  | ["c16"] => c16
  | ["c16os"] => c16os
  | ["composite"] => G.compositeCfg.render
  | ["xfer"] => b G.writeToMovesOnEmpty ++ "," ++ b G.readFromMasksWriteErr
  | _ => "bad-op"

def ops : List (String × (List String → String)) := [("cur.cfg", cfgOp)]

end Sftp.Driver.Cur
