import Sftp.Model.Codec
/-
  Line-protocol handlers for M-Codec.

    codec.dec   <layout> <cfg> <hex>      → ok <values…> rest=<hex> | err | panic
    codec.enc   <layout> <values…>        → <hex> | bad
    codec.meter <layout> <cfg> <hex>      → <decimal>
    codec.recv  <maxLen> <hex stream>     → ok <typ> <hex payload> rest=<hex> | eof | shorthdr | long | zero | shortbody
    codec.recvfx <maxLen> <hex stream>    → the same for filexfer `readPacket` (`zero` = declared length < 5)

  <layout>: field codes joined by `,` (or `-` for the empty layout):
     b u8 · w u32 · q u64 · s str · r rest · d lenData · a attrs · p pairs · m names · c:<hex> cstr
     a `!` suffix marks an UNSAFE field (`w!`).
  <cfg>: two chars 0/1 (extCountGuard, fxCountGuard), optionally followed by `x` = filexfer decoder
     (default: packet.go decoder).
  values: n<dec> · b<hex> (b- empty) · a(<flags>;<size>;<uid>;<gid>;<perm>;<atime>;<mtime>;<ext>)
     · p(<ext>) · m(<hex>/<hex>/a(…)|…)   with <ext> = <hex>=<hex>|… (each hex `-` when empty).
-/
namespace Sftp.Driver.Codec
open Sftp Sftp.Codec

/-- Split at `sep`, only where the parenthesis depth is 0. -/
def splitTop (sep : Char) : List Char → Nat → List Char → List (List Char)
  | [], _, cur => [cur.reverse]
  | c :: cs, depth, cur =>
    if c = sep ∧ depth = 0 then cur.reverse :: splitTop sep cs depth []
    else if c = '(' then splitTop sep cs (depth + 1) (c :: cur)
    else if c = ')' then splitTop sep cs (depth - 1) (c :: cur)
    else splitTop sep cs depth (c :: cur)

def split (sep : Char) (s : List Char) : List (List Char) := splitTop sep s 0 []

def hexL (s : List Char) : Option Bytes :=
  if s = ['-'] then some [] else if s.isEmpty then none else fromHexChars s

def natL (s : List Char) : Option Nat :=
  if s.isEmpty then none
  else s.foldl (fun acc c => acc.bind fun a =>
    if '0' ≤ c ∧ c ≤ '9' then some (a * 10 + (c.toNat - 48)) else none) (some 0)

def mapM? {α β} (f : α → Option β) : List α → Option (List β)
  | [] => some []
  | a :: l => match f a with
    | none => none
    | some b => match mapM? f l with
      | none => none
      | some r => some (b :: r)

/-! #### layouts -/

def parseField (tok : List Char) : Option FieldD :=
  let (body, safe) :=
    match tok.reverse with
    | '!' :: r => (r.reverse, false)
    | _ => (tok, true)
  let mk (k : FKind) : Option FieldD := some ⟨k, "", safe⟩
  match body with
  | ['b'] => mk .u8
  | ['w'] => mk .u32
  | ['q'] => mk .u64
  | ['s'] => mk .str
  | ['r'] => mk .rest
  | ['d'] => mk .lenData
  | ['a'] => mk .attrs
  | ['p'] => mk .pairs
  | ['m'] => mk .names
  | 'c' :: ':' :: h => match hexL h with
    | some bs => mk (.cstr bs)
    | none => none
  | _ => none

def parseLayout (s : String) : Option (List FieldD) :=
  if s = "-" then some [] else mapM? parseField (split ',' s.toList)

def parseCfg (s : String) : Option DecCfg :=
  let bit (c : Char) : Option Bool := if c = '0' then some false else if c = '1' then some true else none
  match s.toList with
  | [a, b] => match bit a, bit b with
    | some x, some y => some ⟨x, y, false⟩
    | _, _ => none
  | [a, b, 'x'] => match bit a, bit b with
    | some x, some y => some ⟨x, y, true⟩
    | _, _ => none
  | _ => none

/-! #### values -/

def showPairs (l : List (Bytes × Bytes)) : String :=
  "|".intercalate (l.map fun p => hexOrDash p.1 ++ "=" ++ hexOrDash p.2)

def showAttrs (a : Attrs) : String :=
  "a(" ++ toString a.flags ++ ";" ++ toString a.size ++ ";" ++ toString a.uid ++ ";" ++ toString a.gid ++ ";" ++
    toString a.perm ++ ";" ++ toString a.atime ++ ";" ++ toString a.mtime ++ ";" ++ showPairs a.ext ++ ")"

def showVal : Val → String
  | .n v => "n" ++ toString v
  | .b v => "b" ++ hexOrDash v
  | .attrs a => showAttrs a
  | .pairs l => "p(" ++ showPairs l ++ ")"
  | .names l => "m(" ++ "|".intercalate (l.map fun e =>
      hexOrDash e.name ++ "/" ++ hexOrDash e.long ++ "/" ++ showAttrs e.attrs) ++ ")"

/-- Strip `pre(` … `)`. -/
def unwrap (pre : Char) (s : List Char) : Option (List Char) :=
  match s with
  | c :: '(' :: r =>
    if c = pre then
      match r.reverse with
      | ')' :: m => some m.reverse
      | _ => none
    else none
  | _ => none

def parsePair (s : List Char) : Option (Bytes × Bytes) :=
  match split '=' s with
  | [k, v] => match hexL k, hexL v with
    | some a, some b => some (a, b)
    | _, _ => none
  | _ => none

def parsePairs (s : List Char) : Option (List (Bytes × Bytes)) :=
  if s.isEmpty then some [] else mapM? parsePair (split '|' s)

def parseAttrs (s : List Char) : Option Attrs :=
  match unwrap 'a' s with
  | none => none
  | some body =>
    match split ';' body with
    | [f, sz, u, g, p, ta, tm, ex] =>
      match natL f, natL sz, natL u, natL g, natL p, natL ta, natL tm, parsePairs ex with
      | some f, some sz, some u, some g, some p, some ta, some tm, some ex => some ⟨f, sz, u, g, p, ta, tm, ex⟩
      | _, _, _, _, _, _, _, _ => none
    | _ => none

def parseEntry (s : List Char) : Option NameEntry :=
  match split '/' s with
  | [n, l, a] => match hexL n, hexL l, parseAttrs a with
    | some n, some l, some a => some ⟨n, l, a⟩
    | _, _, _ => none
  | _ => none

def parseVal (s : String) : Option Val :=
  match s.toList with
  | 'n' :: r => (natL r).map .n
  | 'b' :: r => (hexL r).map .b
  | 'a' :: r => (parseAttrs ('a' :: r)).map .attrs
  | 'p' :: r => match unwrap 'p' ('p' :: r) with
    | some body => (parsePairs body).map .pairs
    | none => none
  | 'm' :: r => match unwrap 'm' ('m' :: r) with
    | some body => if body.isEmpty then some (.names []) else (mapM? parseEntry (split '|' body)).map .names
    | none => none
  | _ => none

/-! #### ops -/

def showOutcome : Outcome (List Val × Bytes) → String
  | .ok r => " ".intercalate ("ok" :: r.1.map showVal) ++ " rest=" ++ hexOrDash r.2
  | .err _ => "err"
  | .panic => "panic"

def opDec : List String → String
  | [lay, cfg, hx] =>
    match parseLayout lay, parseCfg cfg, fromHex hx with
    | some fs, some c, some bs => showOutcome (decodeFields c fs bs)
    | _, _, _ => "bad-op"
  | _ => "bad-op"

def opEnc : List String → String
  | lay :: vals =>
    match parseLayout lay, mapM? parseVal vals with
    | some fs, some vs =>
      match encodeFields fs vs with
      | some bs => hexOrDash bs
      | none => "bad"
    | _, _ => "bad-op"
  | _ => "bad-op"

def opMeter : List String → String
  | [lay, cfg, hx] =>
    match parseLayout lay, parseCfg cfg, fromHex hx with
    | some fs, some c, some bs => toString (decodeMeter c fs bs)
    | _, _, _ => "bad-op"
  | _ => "bad-op"

def showFrame : FrameResult → String
  | .eof => "eof"
  | .errShortHeader => "shorthdr"
  | .errLong => "long"
  | .errZero => "zero"
  | .errShortBody _ => "shortbody"
  | .ok t p r => "ok " ++ toString t ++ " " ++ hexOrDash p ++ " rest=" ++ hexOrDash r

def opRecvWith (f : Nat → Bytes → FrameResult) : List String → String
  | [mx, hx] =>
    match mx.toNat?, fromHex hx with
    | some m, some bs => showFrame (f m bs)
    | _, _ => "bad-op"
  | _ => "bad-op"

def opRecv : List String → String := opRecvWith recvFrame
def opRecvFx : List String → String := opRecvWith recvFrameFx

def ops : List (String × (List String → String)) :=
  [ ("codec.dec", opDec), ("codec.enc", opEnc), ("codec.meter", opMeter), ("codec.recv", opRecv),
    ("codec.recvfx", opRecvFx) ]

end Sftp.Driver.Codec
