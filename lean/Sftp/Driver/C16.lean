import Sftp.Model.Listing
/-
  Line-protocol ops for C16 (directory listing).

  c16.list <cfgbits> <batch> <nentries> <beh> <dotmask>
      cfgbits  six 0/1 characters: incByN eofOnlyWhenEmpty filterDots stopOnStatus eofIsNil baseName
               (today's source: 111111)
      batch    MaxFilelist
      nentries the directory has entries 0 … nentries-1; entry i has attrs = i and name "e<i>"
      beh      <eofWithLast>/<sizes>   eofWithLast ∈ {0,1}; sizes = comma-separated naturals or `-`.
               The scripted lister `scriptBeh`: sizes s1,s2,… cut the list at 0, s1, s1+s2, …; ListAt at
               offset off inside segment [b_i, b_{i+1}) copies min(b_{i+1}-off, buf, rest) entries, past
               the last cut min(buf, rest).  eofWithLast=1: io.EOF is returned together with the last
               entries; 0: only by the following call (n = 0).
      dotmask  `-` or one character per entry (missing = `n`): `d` → name ".", `D` → name "..", other → "e<i>"
    → `ok <rounds> <nil|eof|other> <i,j,…|->`   indices (attrs) of the entries returned, in order
      `nofuel`                                    the loop did not finish within nentries+2 round trips
  c16.listnames <cfgbits> <batch> <beh> <names>
      names    `-` (no entries) or comma-separated tokens, one per entry: lowercase hex of the name, `e` = empty name
    → `ok <rounds> <err> <i:hexname,…|->`        name as returned by the client (hexname `-` = empty)
  c16.oslist <errToStatus><filterDots><stopOnStatus><eofIsNil><baseName> <k> <nentries> <dotmask>
    → as c16.list, for the os-backed server with f.Readdir(k)
  c16.step <incByN><eofOnlyWhenEmpty> <batch> <nentries> <beh> <off>
    → `name <first> <n> <off'>` | `status <eof|other> <off'>`     one `filelist` call at lsoffset = off
-/
namespace Sftp.Driver.C16
open Sftp Sftp.C16

def bits (s : String) (n : Nat) : Option (List Bool) :=
  let cs := s.toList
  if cs.length = n ∧ cs.all (fun c => c = '0' ∨ c = '1') then some (cs.map (· = '1')) else none

def natList (s : String) : Option (List Nat) :=
  if s = "-" then some [] else (s.splitOn ",").mapM (·.toNat?)

def parseBeh (s : String) : Option (Bool × List Nat) :=
  match s.splitOn "/" with
  | [e, sz] =>
    match bits e 1, natList sz with
    | some [b], some l => some (b, l)
    | _, _ => none
  | _ => none

def entryName (i : Nat) : Bytes := (101 : UInt8) :: (toString i).toUTF8.toList

def mkEntries (n : Nat) (mask : String) : List Entry :=
  let cs := if mask = "-" then [] else mask.toList
  (List.range n).map fun i =>
    match cs[i]? with
    | some 'd' => ⟨dot, i⟩
    | some 'D' => ⟨dotdot, i⟩
    | _ => ⟨entryName i, i⟩

def errStr : CErr → String
  | .nil => "nil" | .eof => "eof" | .other => "other"

def joinOrDash (l : List String) : String := if l.isEmpty then "-" else ",".intercalate l

def showOut (withNames : Bool) : Option ListOut → String
  | none => "nofuel"
  | some r =>
    let items := r.entries.map fun e =>
      if withNames then toString e.attrs ++ ":" ++ hexOrDash e.name else toString e.attrs
    s!"ok {r.rounds} {errStr r.err} {joinOrDash items}"

def mkCli : List Bool → Option CliCfg
  | [a, b, c, d] => some { filterDots := a, stopOnStatus := b, eofIsNil := c, baseName := d }
  | _ => none

def list : List String → String
  | [cfg, batch, n, beh, mask] =>
    match bits cfg 6, batch.toNat?, n.toNat?, parseBeh beh with
    | some (i :: e :: cli), some batch, some n, some (eofWithLast, sizes) =>
      match mkCli cli with
      | some cc =>
        let entries := mkEntries n mask
        showOut false (listRequestServer { batch := batch, incByN := i, eofOnlyWhenEmpty := e } cc entries
          (scriptBeh sizes eofWithLast entries.length) (entries.length + 2))
      | none => "bad-op"
    | _, _, _, _ => "bad-op"
  | _ => "bad-op"

def parseNames (s : String) : Option (List Bytes) :=
  if s = "-" then some [] else (s.splitOn ",").mapM (fun t => if t = "e" then some [] else fromHex t)

def listnames : List String → String
  | [cfg, batch, beh, names] =>
    match bits cfg 6, batch.toNat?, parseBeh beh, parseNames names with
    | some (i :: e :: cli), some batch, some (eofWithLast, sizes), some ns =>
      match mkCli cli with
      | some cc =>
        let entries := (List.range ns.length).zipWith (fun i nm => (⟨nm, i⟩ : Entry)) ns
        showOut true (listRequestServer { batch := batch, incByN := i, eofOnlyWhenEmpty := e } cc entries
          (scriptBeh sizes eofWithLast entries.length) (entries.length + 2))
      | none => "bad-op"
    | _, _, _, _ => "bad-op"
  | _ => "bad-op"

def oslist : List String → String
  | [cfg, k, n, mask] =>
    match bits cfg 5, k.toNat?, n.toNat? with
    | some (st :: cli), some k, some n =>
      match mkCli cli with
      | some cc =>
        let entries := mkEntries n mask
        showOut false (listOsServer { batch := k, errToStatus := st } cc entries (entries.length + 2))
      | none => "bad-op"
    | _, _, _ => "bad-op"
  | _ => "bad-op"

def stepOp : List String → String
  | [cfg, batch, n, beh, off] =>
    match bits cfg 2, batch.toNat?, n.toNat?, parseBeh beh, off.toNat? with
    | some [i, e], some batch, some n, some (eofWithLast, sizes), some off =>
      let entries := mkEntries n "-"
      match filelistStep { batch := batch, incByN := i, eofOnlyWhenEmpty := e } entries
          (scriptBeh sizes eofWithLast n) off with
      | (.name es, off') =>
        let first := match es with | e :: _ => toString e.attrs | [] => "-"
        s!"name {first} {es.length} {off'}"
      | (.status .eof, off') => s!"status eof {off'}"
      | (.status .other, off') => s!"status other {off'}"
    | _, _, _, _, _ => "bad-op"
  | _ => "bad-op"

def ops : List (String × (List String → String)) :=
  [ ("c16.list", list),
    ("c16.listnames", listnames),
    ("c16.oslist", oslist),
    ("c16.step", stepOp) ]

end Sftp.Driver.C16
