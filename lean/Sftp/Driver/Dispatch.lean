import Sftp.Model.Dispatch
/-
  Line-protocol handlers for M-Dispatch (ops prefixed `disp.`): replay a recorded schedule of the
  producer / workers / reducer plumbing of a concurrent File transfer in the executable model.

  Tokens (all free of blanks):
    <workers>   natural: `concurrency` of the call
    <planlen>   natural: number of chunks of the plan (ignored by an unbounded producer, i.e. WriteTo)
    <failmask>  string over {0,1}; character i (from the left, 0-based) = 1 iff chunk i's reply makes
                its worker report an error (for WriteTo: any STATUS, EOF included); chunks beyond the
                string do not fail; `-` = no chunk fails.        e.g. `00010` = only chunk 3 fails
    <cfg>       `readAt` | `writeAt` | `readFrom` | `writeTo` | `cur` (= DispatchCfg.current), or nine bits
                chain bounded sendFirst inOrder cancelArm cancelArmReturns noOtherExit cancelByReducerOnly
                awaitWorkers        (readAt = `011111111`, writeTo = `101111111`)
    <act>       one action per token (a token may also hold several actions joined by `,`):
                  s      send       producer: loop condition true, dispatchRequest for chunk `next`
                  h      handOut    producer select took `workCh <- work`
                  c      seeCancel  producer select took `<-cancel`
                  x      exhaust    producer: loop condition false, return
                  r<i>   reply      the worker holding chunk i received its result
                  o<i>   observe    reducer received chunk i's event (fold) / packet i (chain)
                  d<i>   drop       chain: the worker holding result i took `<-cancel`
                  f      finish     the method returned
                  k skip, q quit, C cancel   only enabled in unsound configurations
    <list>      comma-separated naturals, `-` for the empty list

  Ops:
    disp.run <workers> <planlen> <failmask> <act>…          in DispatchCfg.current
    disp.runcfg <cfg> <workers> <planlen> <failmask> <act>…
        → `<status> next=<n> held=<b> prod=<b> cancelled=<b> red=<b> finished=<b> sent=<list> dispatched=<list>
            inflight=<list> reporting=<list> completed=<list> observed=<list>`
          <status> = `ok`, or `rejected@<k>:<act>` when the k-th action (0-based) was not enabled; the
          state printed is then the one reached before it.
    disp.enabled <cfg> <workers> <planlen> <failmask> <act>…
        → the actions enabled in the state reached (same <status> rule), as <act> tokens joined by `,`
          (`-` if none): candidates are s h c x k q C f and r/o/d for every chunk index < next.
    disp.verdict <cfg> <workers> <planlen> <failmask> <act>…
        → `<status> prefix=<b> awaited=<b> admissible=<b> lowest=<m|-> lowestObserved=<b>` for the state
          reached: prefix = dispatched is 0…next-1; awaited = nothing in flight or reporting and completed is
          a permutation of dispatched; admissible = dispatched is the whole plan or contains a failing
          chunk (fold) / the consumed packets are 0…m with m the lowest failing chunk (chain);
          lowest = least failing index below planlen (fold) or below next (chain).
-/
namespace Sftp.Driver.Dispatch
open Sftp.Dispatch

def b (x : Bool) : String := if x then "1" else "0"

def showList (l : List Nat) : String :=
  match l with
  | [] => "-"
  | _ => ",".intercalate (l.map toString)

def parseMask (s : String) : Option (Nat → Bool) :=
  if s = "-" then some (fun _ => false) else
  let cs := s.toList
  if cs.all (fun ch => ch = '0' || ch = '1') then some (fun i => cs[i]? == some '1') else none

def parseCfg (s : String) : Option DispatchCfg :=
  if s = "readAt" then some .readAt
  else if s = "writeAt" then some .writeAtConcurrent
  else if s = "readFrom" then some .readFromWithConcurrency
  else if s = "writeTo" then some .writeTo
  else if s = "cur" then some .current
  else
    match s.toList.map (fun ch => if ch = '1' then some true else if ch = '0' then some false else none) with
    | [some a, some b, some c, some d, some e, some f, some g, some h, some i] =>
      some { chain := a, bounded := b, sendFirst := c, inOrder := d, cancelArm := e, cancelArmReturns := f,
             noOtherExit := g, cancelByReducerOnly := h, awaitWorkers := i }
    | _ => none

def parseAct (t : String) : Option Action :=
  match t.toList with
  | ['s'] => some .send
  | ['h'] => some .handOut
  | ['c'] => some .seeCancel
  | ['x'] => some .exhaust
  | ['k'] => some .skip
  | ['q'] => some .quit
  | ['C'] => some .cancel
  | ['f'] => some .finish
  | 'r' :: rest => (String.ofList rest).toNat?.map .reply
  | 'o' :: rest => (String.ofList rest).toNat?.map .observe
  | 'd' :: rest => (String.ofList rest).toNat?.map .drop
  | _ => none

def showAct : Action → String
  | .send => "s" | .handOut => "h" | .seeCancel => "c" | .exhaust => "x" | .skip => "k" | .quit => "q"
  | .cancel => "C" | .finish => "f"
  | .reply i => "r" ++ toString i | .observe i => "o" ++ toString i | .drop i => "d" ++ toString i

def allSome {α} : List (Option α) → Option (List α)
  | [] => some []
  | none :: _ => none
  | some a :: r => (allSome r).map (a :: ·)

def parseActs (toks : List String) : Option (List Action) :=
  allSome ((toks.flatMap (fun t => t.splitOn ",")).filter (· ≠ "") |>.map parseAct)

/-- run as far as the actions are enabled; `some (k, a)` = the k-th action `a` was rejected -/
def runTrace (c : DispatchCfg) (e : Env) : State → Nat → List Action → State × Option (Nat × Action)
  | s, _, [] => (s, none)
  | s, k, a :: as =>
    match step c e s a with
    | some s' => runTrace c e s' (k + 1) as
    | none => (s, some (k, a))

def status : Option (Nat × Action) → String
  | none => "ok"
  | some (k, a) => s!"rejected@{k}:{showAct a}"

def showState (s : State) : String :=
  s!"next={s.next} held={b s.held} prod={b s.prodDone} cancelled={b s.cancelled} red={b s.redDone} " ++
  s!"finished={b s.finished} sent={showList s.sent} dispatched={showList s.handed} " ++
  s!"inflight={showList s.inflight} reporting={showList s.reporting} completed={showList s.completed} " ++
  s!"observed={showList s.observed}"

def enabledActs (c : DispatchCfg) (e : Env) (s : State) : List Action :=
  let idx := List.range s.next
  let cands : List Action :=
    [.send, .handOut, .seeCancel, .exhaust, .skip, .quit, .cancel, .finish] ++
    idx.map .reply ++ idx.map .observe ++ idx.map .drop
  cands.filter (fun a => (step c e s a).isSome)

/-- least index below `n` satisfying `p` -/
def least (p : Nat → Bool) (n : Nat) : Option Nat := (List.range n).find? p

def isPermOf (l : List Nat) (r : List Nat) : Bool :=
  l.length == r.length && r.all (fun i => l.count i == r.count i)

def verdict (c : DispatchCfg) (e : Env) (s : State) : String :=
  let pre := s.handed == List.range s.next
  let awaited := s.inflight.isEmpty && s.reporting.isEmpty && isPermOf s.completed s.handed
  let lowest := if c.chain then least e.fails s.next else least e.fails e.planLen
  let adm :=
    if c.chain then
      match lowest with
      | some m => s.observed == List.range (m + 1)
      | none => false
    else pre && (s.next == e.planLen || s.handed.any e.fails)
  let lo := match lowest with
    | some m => s.observed.contains m
    | none => s.observed.isEmpty
  let ls := match lowest with
    | some m => toString m
    | none => "-"
  s!"prefix={b pre} awaited={b awaited} admissible={b adm} lowest={ls} lowestObserved={b lo}"

def withRun (cfg w n mask : String) (acts : List String)
    (k : DispatchCfg → Env → State → String) : String :=
  match parseCfg cfg, w.toNat?, n.toNat?, parseMask mask, parseActs acts with
  | some c, some w, some n, some fails, some acts =>
    let e : Env := { workers := w, planLen := n, fails := fails }
    let r := runTrace c e init 0 acts
    status r.2 ++ " " ++ k c e r.1
  | _, _, _, _, _ => "bad-op"

def opRun : List String → String
  | w :: n :: mask :: acts => withRun "cur" w n mask acts (fun _ _ s => showState s)
  | _ => "bad-op"

def opRunCfg : List String → String
  | cfg :: w :: n :: mask :: acts => withRun cfg w n mask acts (fun _ _ s => showState s)
  | _ => "bad-op"

def opEnabled : List String → String
  | cfg :: w :: n :: mask :: acts =>
    withRun cfg w n mask acts (fun c e s =>
      match enabledActs c e s with
      | [] => "-"
      | l => ",".intercalate (l.map showAct))
  | _ => "bad-op"

def opVerdict : List String → String
  | cfg :: w :: n :: mask :: acts => withRun cfg w n mask acts verdict
  | _ => "bad-op"

def ops : List (String × (List String → String)) :=
  [ ("disp.run", opRun), ("disp.runcfg", opRunCfg), ("disp.enabled", opEnabled), ("disp.verdict", opVerdict) ]

end Sftp.Driver.Dispatch
