import Sftp.Model.Alloc
/-
  Line-protocol driver for the allocator model (C18).

  c18.run <cfg> <action>*      one action per token, executed from the initial state

  <cfg>   five characters `0`/`1`: releaseAfterSend, getPageMarksUsed, popRemovesFromAvailable,
          releaseDeletesKey, reuse (allocator on); optionally followed by `:<pageSize>:<maxTx>`
          (decimal; default 262144:32768).  Today's server WithAllocator is `11111`, without `11110`.
  <action>
          L            lend      recvPacket takes a page for the frame of the next order id
          A:<hex>      arrive    the frame <hex> arrives, the request gets the next order id
          T:<oid>:<len> handlerTake   READ handler of request <oid> takes a data page sliced to <len> bytes
          W:<oid>:<hex> handlerFill   it stores <hex> in that page
          D:<oid>:<n>  handlerData   it answers with a DATA packet referring to the first <n> bytes of the page
          O:<oid>:<hex> handlerOther  handler of request <oid> produced a response owning bytes <hex>
          E:<oid>      handlerEcho   response = the request bytes as found in the frame page
          S:<oid>      send
          X:<oid>      release (ReleasePages)
          F            free
          (<hex> lowercase, `-` for empty)
  result  `wire=<hex>,<hex>,… used=<n> avail=<n> panic=<0|1>`  (`wire=.` when nothing was sent), or
          `blocked@<i>` when action number i (from 0) is not enabled in the state reached, or `bad-op`.
-/
namespace Sftp.Driver.C18
open Sftp Sftp.Alloc

def bit? : Char → Option Bool
  | '0' => some false
  | '1' => some true
  | _ => none

def parseCfg (t : String) : Option Cfg :=
  match t.splitOn ":" with
  | [bits] => go bits 262144 32768
  | [bits, ps, mt] =>
    match ps.toNat?, mt.toNat? with
    | some p, some m => go bits p m
    | _, _ => none
  | _ => none
where
  go (bits : String) (ps mt : Nat) : Option Cfg :=
    match bits.toList.map bit? with
    | [some a, some b, some c, some d, some e] =>
      some { releaseAfterSend := a, getPageMarksUsed := b, popRemovesFromAvailable := c,
             releaseDeletesKey := d, reuse := e, pageSize := ps, maxTx := mt }
    | _ => none

def parseAction (t : String) : Option Action :=
  match t.splitOn ":" with
  | ["L"] => some .lend
  | ["F"] => some .free
  | ["A", h] => (fromHex h).map .arrive
  | ["E", o] => o.toNat?.map .handlerEcho
  | ["S", o] => o.toNat?.map .send
  | ["X", o] => o.toNat?.map .release
  | ["T", o, n] =>
    match o.toNat?, n.toNat? with
    | some o, some n => some (.handlerTake o n)
    | _, _ => none
  | ["D", o, n] =>
    match o.toNat?, n.toNat? with
    | some o, some n => some (.handlerData o n)
    | _, _ => none
  | ["W", o, h] =>
    match o.toNat?, fromHex h with
    | some o, some b => some (.handlerFill o b)
    | _, _ => none
  | ["O", o, h] =>
    match o.toNat?, fromHex h with
    | some o, some b => some (.handlerOther o b)
    | _, _ => none
  | _ => none

def parseAll : List String → Option (List Action)
  | [] => some []
  | t :: ts =>
    match parseAction t, parseAll ts with
    | some a, some as => some (a :: as)
    | _, _ => none

/-- Like `run`, but reports the index of the first action that is not enabled. -/
def runIdx (cfg : Cfg) : State → Nat → List Action → Except Nat State
  | s, _, [] => .ok s
  | s, i, a :: as =>
    match step cfg s a with
    | some s' => runIdx cfg s' (i + 1) as
    | none => .error i

def showState (s : State) : String :=
  let w := if s.wire.isEmpty then "." else ",".intercalate (s.wire.map hexOrDash)
  s!"wire={w} used={s.usedCount} avail={s.availCount} panic={if s.panicked then 1 else 0}"

def runOp : List String → String
  | c :: ts =>
    match parseCfg c, parseAll ts with
    | some cfg, some acts =>
      match runIdx cfg State.init 0 acts with
      | .ok s => showState s
      | .error i => s!"blocked@{i}"
    | _, _ => "bad-op"
  | _ => "bad-op"

def ops : List (String × (List String → String)) :=
  [ ("c18.run", runOp) ]

end Sftp.Driver.C18
