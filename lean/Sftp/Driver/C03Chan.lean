import Sftp.Model.ClientChan
/-
  Line-protocol driver for M-ClientChan (result channels as resources; replay of abandoned-request,
  pooled-channel and shared-channel schedules).

    chan.run <cfgbits> <ncallers> <token>*

  cfgbits : 6 characters 0/1 = freshPerSyncCall poolPutOnlyAfterRecv abandonedNotReturned reuseOnlySequential
            sharedAcrossCallers idsDistinctInFlight            (today: 111101; seed C03_b: 100101; seed C03_d: 111111)
  ncallers: callers are 0 … ncallers-1 (≤ 4096); a token naming another caller makes the line `bad-op`
  tokens  : one scheduler step each
     f<c>        acquireFresh     the call makes its channel: `make(chan result, 1)`
     g<c>:<ch>   acquirePool      `pool.Get()` returned pooled channel <ch>
     x<c>:<ch>   acquireExisting  take existing channel <ch> that is not in the pool (unheld: needs bit 1 = 0;
                                  held by another caller: needs bit 5 = 1)
     d<c>:<sid>  dispatch         dispatchRequest(ch, p) with p.id() = <sid> on the caller's channel
     R<sid>:<hex|->  envReply     a frame with id <sid> and that payload arrives at the receiver
     r<c>        callerRecv       `<-ch`
     a<c>        abandon          ctx cancelled while waiting: the call returns
     u<c>        reuseOwn         next round of a sequential loop with the same channel
     p<c>        release          `pool.Put(ch)`
     q<c>        drop             the call returns and forgets its channel
  result  : `ok` (whole schedule enabled) or `disabled@<k>` (token k, 0-based, was not enabled; the state
            printed is the one before it), then
     c<i>=<pc>/<recvs>   for every caller: pc = idle | hold:<ch> | wait:<ch>:<sid> | got:<ch>:<sid>:<msgsid>:<hex|->
                         recvs = everything the caller ever received, oldest first, `,`-separated
                                 <sid>:<msgsid>:<hex|->  (sid it had dispatched : sid of the frame it got : payload),
                                 `-` if none
     chans=<ch>/<owner|->/<buf>,…   channel table, buf = <msgsid>:<hex|-> joined by `+`, `-` if empty; `-` if no channel
     inflight=<sid>><ch>,…  pool=<ch>,…  gaveup=<c>:<sid>,…  wire=<c>:<sid>,…      (`-` if empty)
     dead=0|1       receiver returned "sid not found"
     foreign=<n>    number of receives whose frame sid differs from the sid the caller had dispatched
     disc=0|1       State.disciplineOk
-/
namespace Sftp.Driver.C03Chan
open Sftp Sftp.ClientChan

def parseCfg (s : String) : Option ChanCfg :=
  match s.toList with
  | [a, b, c, d, e, f] =>
    if [a, b, c, d, e, f].all (fun x => x = '0' || x = '1') then
      some ⟨a = '1', b = '1', c = '1', d = '1', e = '1', f = '1'⟩
    else none
  | _ => none

def parse2 (rest : List Char) : Option (Nat × String) :=
  match (String.ofList rest).splitOn ":" with
  | [a, b] =>
    match a.toNat? with
    | some x => some (x, b)
    | none => none
  | _ => none

def parseTok (t : String) : Option Action :=
  match t.toList with
  | [] => none
  | 'R' :: rest =>
    match parse2 rest with
    | some (sid, b) =>
      match fromHex b with
      | some p => some (.envReply sid p)
      | none => none
    | none => none
  | 'g' :: rest =>
    match parse2 rest with
    | some (c, b) => b.toNat?.map (fun ch => .acquirePool c ch)
    | none => none
  | 'x' :: rest =>
    match parse2 rest with
    | some (c, b) => b.toNat?.map (fun ch => .acquireExisting c ch)
    | none => none
  | 'd' :: rest =>
    match parse2 rest with
    | some (c, b) => b.toNat?.map (fun sid => .dispatch c sid)
    | none => none
  | k :: rest =>
    match (String.ofList rest).toNat? with
    | none => none
    | some c =>
      match k with
      | 'f' => some (.acquireFresh c)
      | 'r' => some (.callerRecv c)
      | 'a' => some (.abandon c)
      | 'u' => some (.reuseOwn c)
      | 'p' => some (.release c)
      | 'q' => some (.drop c)
      | _ => none

def parseToks : List String → Option (List Action)
  | [] => some []
  | t :: rest =>
    match parseTok t, parseToks rest with
    | some a, some as => some (a :: as)
    | _, _ => none

/-- Run as far as enabled: final state, and index of the first disabled action if any. -/
def runPrefix (cfg : ChanCfg) : State → List Action → Nat → State × Option Nat
  | s, [], _ => (s, none)
  | s, a :: rest, k =>
    match step cfg s a with
    | none => (s, some k)
    | some s' => runPrefix cfg s' rest (k + 1)

def showMsg (m : Msg) : String := s!"{m.sid}:{hexOrDash m.payload}"

def showPc : PC → String
  | .idle => "idle"
  | .holding ch => s!"hold:{ch}"
  | .waiting ch sid => s!"wait:{ch}:{sid}"
  | .got ch sid m => s!"got:{ch}:{sid}:{showMsg m}"

def listOrDash (sep : String) (l : List String) : String :=
  if l.isEmpty then "-" else sep.intercalate l

def showCaller (s : State) (c : Nat) : String :=
  let rs := (s.log.filter (fun e => e.caller = c)).map (fun e => s!"{e.sid}:{showMsg e.msg}")
  s!"c{c}={showPc (s.pc c)}/{listOrDash "," rs}"

def showChan (s : State) (ch : Nat) : String :=
  let o := match (s.chan ch).owner with | some c => toString c | none => "-"
  s!"{ch}/{o}/{listOrDash "+" ((s.chan ch).buf.map showMsg)}"

def showState (n : Nat) (s : State) : String :=
  let cs := (List.range n).map (showCaller s)
  let pair (sep : String) (e : Nat × Nat) : String := s!"{e.1}{sep}{e.2}"
  " ".intercalate cs ++ (if n = 0 then "" else " ") ++
  s!"chans={listOrDash "," ((List.range s.nchan).map (showChan s))} " ++
  s!"inflight={listOrDash "," (s.inflight.map (pair ">"))} " ++
  s!"pool={listOrDash "," (s.pool.map toString)} " ++
  s!"gaveup={listOrDash "," (s.gaveUp.map (pair ":"))} " ++
  s!"wire={listOrDash "," (s.wire.map (pair ":"))} " ++
  s!"dead={if s.recvDead then 1 else 0} " ++
  s!"foreign={(s.log.filter (·.foreign)).length} " ++
  s!"disc={if s.disciplineOk then 1 else 0}"

def opRun : List String → String
  | cb :: ns :: toks =>
    match parseCfg cb, ns.toNat?, parseToks toks with
    | some cfg, some n, some acts =>
      if n ≤ 4096 ∧ acts.all (fun a => match a.caller? with | some c => decide (c < n) | none => true) then
        let r := runPrefix cfg init acts 0
        (match r.2 with | none => "ok " | some k => s!"disabled@{k} ") ++ showState n r.1
      else "bad-op"
    | _, _, _ => "bad-op"
  | _ => "bad-op"

def ops : List (String × (List String → String)) :=
  [ ("chan.run", opRun) ]

end Sftp.Driver.C03Chan
