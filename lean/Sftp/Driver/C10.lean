import Sftp.Model.ErrCurrent
import Sftp.Spec.Err
/-
  Driver ops for C10's error algebra.  The tables are the GENERATED ones (`G.errCfg`, `G.normCfg`).

  Error terms are ONE token in a compact prefix syntax (no spaces):
    NIL        nil
    E<n>       syscall.Errno(n)                 e.g. E2 = ENOENT, E13 = EACCES, E1 = EPERM
    P(t)       &os.PathError{Err: t}
    L(t)       &os.LinkError{Err: t}
    S(t)       os.NewSyscallError("…", t)
    W(t)       fmt.Errorf("…: %w", t)
    EOF        io.EOF
    NX         os.ErrNotExist
    PERM       os.ErrPermission
    EX         os.ErrExist
    F<n>       fxerr(n)                          e.g. F3 = ErrSSHFxPermissionDenied
    T<n>       &sftp.StatusError{Code: n}
    X          errors.New("x")                   any other error
  e.g. `P(E2)`, `L(E13)`, `S(E1)`, `W(EOF)`, `W(P(F3))`.

  Ops (one output line each; "bad-op" for a malformed line):
    c10.status <term>      → <code>                       status code statusFromError puts on the wire
    c10.statusmsg <term>   → <code> msg|nomsg             … and whether the message is err.Error()
    c10.norm <code>        → <kind>                       what normaliseError makes of *StatusError{Code}
    c10.client <term>      → <kind>                       norm (status term): what the client's caller sees
    c10.kind <term>        → <kind>                       what the property asks for (specification, not code)
    c10.infam <term>       → true|false                   is the term in the families of error_kind_preserved
    c10.isf8 <term>        → true|false                   is it one of the F8 inputs
  <kind> ::= ok | eof | notexist | permission | status:<code> | failure
-/
namespace Sftp.Driver.C10
open Sftp Sftp.Err

def onTerm (f : GoErr → String) : List String → String
  | [a] => match parseErr a with
    | some e => f e
    | none => "bad-op"
  | _ => "bad-op"

def onCode (f : Nat → String) : List String → String
  | [a] => match a.toNat? with
    | some n => f n
    | none => "bad-op"
  | _ => "bad-op"

def ops : List (String × (List String → String)) :=
  [ ("c10.status", onTerm fun e => toString (statusFromError G.errCfg e).1),
    ("c10.statusmsg", onTerm fun e =>
      let r := statusFromError G.errCfg e
      toString r.1 ++ (if r.2 then " msg" else " nomsg")),
    ("c10.norm", onCode fun c => (normalise G.normCfg c).render),
    ("c10.client", onTerm fun e => (normalise G.normCfg (statusFromError G.errCfg e).1).render),
    ("c10.kind", onTerm fun e => (kindOf e).render),
    ("c10.infam", onTerm fun e => toString (Spec.Err.inFamilies e)),
    ("c10.isf8", onTerm fun e => toString (Spec.Err.isF8 e)) ]

end Sftp.Driver.C10
