import Sftp.Model.Pipe
/-
  Line-protocol ops for the pipeline model (C02 ordering, C14 close barrier).

  c02.run  <cfg> <trace>   replay a schedule, print the sent stream
  c14.check <cfg> <trace>  replay a schedule, evaluate the close barrier condition after every step
  c14.handled <cfg> <trace> replay a schedule, print the order ids in the order their handlers returned

  <cfg>   = PPP-FFFFF-W  or  PPP-FFFFF-W-D
            PPP   three 0/1 chars: READ/WRITE, CLOSE, other kinds are sent to the rw pool (today 100)
            FFFFF five 0/1 chars: closeWaits, registerBeforeHandoff, headMatch, sortIncoming, sortOutgoing
                  (today 11111)
            W     decimal pool size (today 8)
            D     optional: `1` (or the letter `D`) = drainOnFini, the controller drains both channels and sends
                  before it returns on fini (today, after the repair of F5); `0` or absent = pinned behaviour
  <trace> = `-` (empty) or comma-separated action tokens
            r<id><k>  recv, request id <id> (decimal), kind <k> = w (READ/WRITE) | c (CLOSE) | o (other)
            d         dispatch
            wt<i> wh<i> wr<i>   pool worker i (0-based): take / handler returns / readyPacket
            ct ch cr            command worker: take / handler returns / readyPacket
            q         controller takes from `requests`
            p         controller takes from `responses`
            x         input closed (close(pktChan))
            s         dispatcher shutdown (working.Wait() passed, fini closed)
            f         controller takes the fini branch

  c02.run result:   `<sent> <n>` where <sent> is `-` or comma-separated `<oid>:<id>:<k>` and <n> the number of
                    requests received; `disabled@<k>` if the k-th action (0-based) is not enabled;
                    `panic@<k>` if the k-th action made the WaitGroup counter negative.
  c14.check result: `ok`, `violated@<k>` (condition false after the k-th action), `disabled@<k>`.
-/
namespace Sftp.Driver.C02
open Sftp.Pipe

def natOfDigits : List Char → Option Nat
  | [] => none
  | cs => cs.foldl (fun acc c => match acc with
      | none => none
      | some n => if c.isDigit then some (n * 10 + (c.toNat - '0'.toNat)) else none) (some 0)

def bit? : Char → Option Bool
  | '0' => some false
  | '1' => some true
  | _ => none

/-- `W` or `W-D` -/
def parseTail (cs : List Char) : Option (Nat × Bool) :=
  match cs.span (· != '-') with
  | (w, []) => (natOfDigits w).map (·, false)
  | (w, ['-', d]) =>
    match natOfDigits w, (if d == 'D' then some true else bit? d) with
    | some w, some d => some (w, d)
    | _, _ => none
  | _ => none

def parseCfg (t : String) : Option PipeCfg :=
  match t.toList with
  | p1 :: p2 :: p3 :: '-' :: f1 :: f2 :: f3 :: f4 :: f5 :: '-' :: w =>
    match bit? p1, bit? p2, bit? p3, bit? f1, bit? f2, bit? f3, bit? f4, bit? f5, parseTail w with
    | some p1, some p2, some p3, some f1, some f2, some f3, some f4, some f5, some (w, d) =>
      some { poolKinds := (if p1 then [ReqKind.rw] else []) ++ (if p2 then [ReqKind.close] else []) ++
                          (if p3 then [ReqKind.cmd] else []),
             closeWaits := f1, registerBeforeHandoff := f2, headMatch := f3, sortIncoming := f4,
             sortOutgoing := f5, workers := w, drainOnFini := d }
    | _, _, _, _, _, _, _, _, _ => none
  | _ => none

def kindOfChar : Char → Option ReqKind
  | 'w' => some .rw
  | 'c' => some .close
  | 'o' => some .cmd
  | _ => none

def charOfKind : ReqKind → String
  | .rw => "w"
  | .close => "c"
  | .cmd => "o"

def parseAction (t : String) : Option Action :=
  match t.toList with
  | ['d'] => some .dispatch
  | ['c', 't'] => some .cmdTake
  | ['c', 'h'] => some .cmdHandle
  | ['c', 'r'] => some .cmdReady
  | ['q'] => some .ctlTakeReq
  | ['p'] => some .ctlTakeResp
  | ['x'] => some .closeInput
  | ['s'] => some .dispatcherShutdown
  | ['f'] => some .ctlFini
  | 'w' :: 't' :: ds => (natOfDigits ds).map .workerTake
  | 'w' :: 'h' :: ds => (natOfDigits ds).map .workerHandle
  | 'w' :: 'r' :: ds => (natOfDigits ds).map .workerReady
  | 'r' :: rest =>
    match rest.reverse with
    | k :: ds => match kindOfChar k, natOfDigits ds.reverse with
      | some k, some id => some (.recv ⟨id, k⟩)
      | _, _ => none
    | [] => none
  | _ => none

def parseTrace (t : String) : Option (List Action) :=
  if t = "-" then some []
  else (t.splitOn ",").foldr (fun tok acc => match parseAction tok, acc with
    | some a, some as => some (a :: as)
    | _, _ => none) (some [])

def showResp (p : Resp) : String := s!"{p.oid}:{p.id}:{charOfKind p.kind}"

def showList (l : List String) : String := if l.isEmpty then "-" else ",".intercalate l

/-- index of the action that caused the panic = length of the trace prefix that was executed − 1; we recompute
it by replaying prefixes. -/
def firstPanic (cfg : PipeCfg) : Nat → State → List Action → Option Nat
  | _, _, [] => none
  | k, s, a :: as =>
    match step cfg s a with
    | none => none
    | some s' => if s'.panicked then some k else firstPanic cfg (k + 1) s' as

def withInput (args : List String) (f : PipeCfg → List Action → String) : String :=
  match args with
  | [c, t] => match parseCfg c, parseTrace t with
    | some cfg, some as => f cfg as
    | _, _ => "bad-op"
  | _ => "bad-op"

def opRun (args : List String) : String :=
  withInput args fun cfg as =>
    match firstPanic cfg 0 (init cfg) as with
    | some k => s!"panic@{k}"
    | none =>
      match runIdx cfg 0 (init cfg) as with
      | .error k => s!"disabled@{k}"
      | .ok s => s!"{showList (s.sent.map showResp)} {s.received.length}"

def opCheck (args : List String) : String :=
  withInput args fun cfg as =>
    match checkClose cfg 0 (init cfg) as with
    | some none => "ok"
    | some (some k) => s!"violated@{k}"
    | none => match runIdx cfg 0 (init cfg) as with
      | .error k => s!"disabled@{k}"
      | .ok _ => "ok"

def opHandled (args : List String) : String :=
  withInput args fun cfg as =>
    match runIdx cfg 0 (init cfg) as with
    | .error k => s!"disabled@{k}"
    | .ok s => showList (s.handled.map toString)

def ops : List (String × (List String → String)) :=
  [ ("c02.run", opRun), ("c14.check", opCheck), ("c14.handled", opHandled) ]

end Sftp.Driver.C02
