import Sftp.Generated.AttrConv
namespace Sftp.Driver.C17Time
open Sftp

/-- `c17.wtime mtime|atime <wire seconds>` → the Unix seconds of the instant FileStat.ModTime resp. AccessTime
returns for that wire value according to the regenerated conversion chain (`none`: shape not recognised;
`<sec>+<nsec>ns` when the nanoseconds argument is not 0) -/
def wtimeOp : List String → String
  | [which, t] =>
    match t.toNat? with
    | some t =>
      if t ≥ 4294967296 then "bad-op" else
      let d := if which = "mtime" then some G.modTime else if which = "atime" then some G.accessTime else none
      match d with
      | none => "bad-op"
      | some d =>
        match d.decode t with
        | some (s, 0) => toString s
        | some (s, n) => s!"{s}+{n}ns"
        | none => "none"
    | none => "bad-op"
  | _ => "bad-op"

def ops : List (String × (List String → String)) :=
  [ ("c17.wtime", wtimeOp) ]

end Sftp.Driver.C17Time
