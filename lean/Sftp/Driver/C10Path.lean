import Sftp.Model.Path
namespace Sftp.Driver.C10Path
open Sftp

def un (f : Bytes → String) : List String → String
  | [a] => match fromHex a with
    | some x => f x
    | none => "bad-op"
  | _ => "bad-op"

def bin (f : Bytes → Bytes → String) : List String → String
  | [a, b] => match fromHex a, fromHex b with
    | some x, some y => f x y
    | _, _ => "bad-op"
  | _ => "bad-op"

def ops : List (String × (List String → String)) :=
  [ ("c10.clean", un fun p => hexOrDash (Path.clean p)),
    ("c10.withbase", bin fun b p => hexOrDash (Path.withBase b p)),
    ("c10.join", bin fun a b => hexOrDash (Path.join2 a b)),
    ("c10.absclean", un fun s => toString (Path.absClean s)) ]

end Sftp.Driver.C10Path
