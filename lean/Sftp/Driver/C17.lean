import Sftp.Model.ModeCheck
import Sftp.Props.C17Setstat
namespace Sftp.Driver.C17
open Sftp

def num (f : Nat → Nat) : List String → String
  | [a] => match a.toNat? with
    | some n => toString (f n)
    | none => "bad-op"
  | _ => "bad-op"

def kindName : Sftp.C17.AttrKind → String
  | .size => "size" | .perm => "perm" | .owner => "owner" | .times => "times"

/-- `c17.changed s|f <flags>` → comma-separated attribute kinds a SETSTAT (s) / FSETSTAT (f) with these
flags changes, in application order, duplicates removed (`-` if none) -/
def changedOp : List String → String
  | [w, fl] =>
    match fl.toNat? with
    | none => "bad-op"
    | some flags =>
      let steps := if w = "s" then some G.setstatSteps else if w = "f" then some G.fsetstatSteps else none
      match steps with
      | none => "bad-op"
      | some st =>
        let ks := ((Sftp.C17.changed st flags).map kindName).eraseDups
        if ks.isEmpty then "-" else ",".intercalate ks
  | _ => "bad-op"

def ops : List (String × (List String → String)) :=
  [ ("c17.tofm", num Sftp.C17.toFileMode),
    ("c17.fromfm", num Sftp.C17.fromFileMode),
    ("c17.chmod", num Sftp.C17.toChmodPerm),
    ("c17.osmode", num Sftp.Spec.Mode.osModeOfIndex),
    ("c17.changed", changedOp) ]

end Sftp.Driver.C17
