import Sftp.Model.ModeCheck
namespace Sftp.Driver.C17
open Sftp

def num (f : Nat → Nat) : List String → String
  | [a] => match a.toNat? with
    | some n => toString (f n)
    | none => "bad-op"
  | _ => "bad-op"

def ops : List (String × (List String → String)) :=
  [ ("c17.tofm", num Sftp.C17.toFileMode),
    ("c17.fromfm", num Sftp.C17.fromFileMode),
    ("c17.chmod", num Sftp.C17.toChmodPerm),
    ("c17.osmode", num Sftp.Spec.Mode.osModeOfIndex) ]

end Sftp.Driver.C17
