import Sftp.Model.GateCurrent
namespace Sftp.Driver.C09
open Sftp

/-- `c09.gate <typ> <pflags> <hex ext name>` → deny | allow | none -/
def gate : List String → String
  | [t, p, n] =>
    match t.toNat?, p.toNat?, fromHex n with
    | some typ, some pf, some name =>
      match String.fromUTF8? (ByteArray.mk name.toArray) with
      | none => "bad-op"
      | some nm =>
        match gateReadonly G.gateCfg ⟨typ, pf, nm⟩ with
        | some false => "deny"
        | some true => "allow"
        | none => "none"
    | _, _, _ => "bad-op"
  | _ => "bad-op"

def ops : List (String × (List String → String)) := [("c09.gate", gate)]

end Sftp.Driver.C09
