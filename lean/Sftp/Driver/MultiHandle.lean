import Sftp.Model.MultiHandle
import Sftp.Driver.Transfer
/-
  Line-protocol handlers for M-MultiHandle (ops prefixed `mh.`): a multi-handle history is run through the model and
  one canonical token per step comes back, to be diffed with what the implementation did on the same history.

    mh.run  <flen> <steps>        runs (S), the inode specification (`MultiHandle.stepS`)
    mh.runi <rot> <flen> <steps>  runs (I), the InMemHandler-shaped model (`MultiHandle.stepI`), rot = 0 | 1 =
                                  `replaceOnTrunc` (1: seed C01_l)

  <flen>   `-`: the name f does not exist at the start; a natural n: f holds `pat 0 n` (byte i = i mod 251).
           The name g never exists at the start.
  <steps>  `;`-separated list (`-`: none) of
             o:<slot>:<name>:<flags>       open; <flags> = letters of `r w c t x` (Read Write Creat Trunc Excl) in any
                                           order, e.g. `rwct` = Client.Create(); `a` (Append) is accepted and ignored
             cl:<slot>                     Close
             wa:<slot>:<len>:<seed>:<off>  WriteAt of `pat seed len` (byte i = (seed+i) mod 251)
             w:<slot>:<len>:<seed>         Write at the File offset (ReadFrom / ReadFromWithConcurrency of a source
                                           holding these bytes are this call)
             ra:<slot>:<len>:<off>         ReadAt
             r:<slot>:<len>                Read at the File offset
             wt:<slot>                     WriteTo: a Read of everything between the File offset and the end of the file
             sk:<slot>:<off>:<whence>      Seek, whence 0 | 1 | 2, off may be negative (`sk:0:-3:2`)
             tr:<slot>:<n>                 Truncate
             st:<slot>                     Stat (size)
             ln:<old>:<new>  rn:<old>:<new>  prn:<old>:<new>  rm:<name>
                                           Link, Rename (SSH_FXP_RENAME), PosixRename, Remove
             cat:<name>                    what the name holds (read on the server side)
           <slot>: a natural the caller picks for the File; the driver binds it to the model's handle number when the
           open succeeds (an open into a bound slot re-binds it); a slot that was never bound answers `closed`.
           <name>: `f` | `g` | a natural (f = 0, g = 1).
  output   one token per step, joined by `;` (`-` for an empty history):
             o                  `ok`
             wa, w              `<n>@<off>`                count, File offset afterwards
             ra, r              `<n>:<eof>:<hash>@<off>`   count, 1 = fewer bytes than asked for (io.EOF), hash of the bytes
             wt                 `<n>:<hash>@<off>`
             sk                 `<pos>`                    the new File offset
             tr                 `ok@<off>`
             st                 `<size>@<off>`
             cl ln rn prn rm    `ok`
             cat                `<len>:<hash>`
             any step           `notExist` | `exist` | `invalid` | `closed` | `access` | `negative` when it fails
           <hash>: h₀ = 7, h ← (31·h + byte + 1) mod 1000000007 (as in xfer.seq).

  Examples
    mh.run - o:0:f:rwc;w:0:3:1;o:1:f:wt;wa:1:1:9:2;ra:0:4:0;st:0     → ok;3@3;ok;1@0;3:1:209539@3;3@3
    mh.run 5 o:0:f:r;ln:f:g;rm:f;o:1:g:rw;wa:1:2:7:4;ra:0:9:0;cat:f;cat:g                → ok;ok;ok;ok;2@0;6:1:243095392@0;notExist;6:243095392
    mh.runi 1 - o:0:f:rwc;o:1:f:wt;wa:1:1:7:0;ra:0:1:0               → ok;ok;1@0;0:1:7@0      (mh.run: …;1:0:225@0)
-/
namespace Sftp.Driver.MultiHandle
open Sftp Sftp.MultiHandle

/-- a step of the textual history (slots, not yet handle numbers) -/
inductive DStep where
  | opn (slot : Nat) (n : Name) (fl : Flags)
  | onH (slot : Nat) (mk : Nat → Op)
  | wt (slot : Nat)
  | plain (op : Op)

def parseName (s : String) : Option Name :=
  if s = "f" then some 0 else if s = "g" then some 1 else s.toNat?

def parseFlags (s : String) : Option Flags :=
  s.toList.foldl (fun acc c => acc.bind (fun (fl : Flags) =>
    if c = 'r' then some { fl with rd := true }
    else if c = 'w' then some { fl with wr := true }
    else if c = 'c' then some { fl with creat := true }
    else if c = 't' then some { fl with trunc := true }
    else if c = 'x' then some { fl with excl := true }
    else if c = 'a' then some fl
    else none)) (some {})

def parseWhence (s : String) : Option Whence :=
  if s = "0" then some .start else if s = "1" then some .cur else if s = "2" then some .fromEnd else none

def parseStep (s : String) : Option DStep :=
  match s.splitOn ":" with
  | ["o", sl, n, fl] => do some (.opn (← sl.toNat?) (← parseName n) (← parseFlags fl))
  | ["cl", sl] => do some (.onH (← sl.toNat?) .close)
  | ["wa", sl, l, sd, o] => do
      let d := Transfer.pat (← sd.toNat?) (← l.toNat?)
      let off ← o.toNat?
      some (.onH (← sl.toNat?) (fun h => .writeAt h off d))
  | ["w", sl, l, sd] => do
      let d := Transfer.pat (← sd.toNat?) (← l.toNat?)
      some (.onH (← sl.toNat?) (fun h => .write h d))
  | ["ra", sl, l, o] => do
      let len ← l.toNat?
      let off ← o.toNat?
      some (.onH (← sl.toNat?) (fun h => .readAt h off len))
  | ["r", sl, l] => do
      let len ← l.toNat?
      some (.onH (← sl.toNat?) (fun h => .read h len))
  | ["wt", sl] => do some (.wt (← sl.toNat?))
  | ["sk", sl, o, wh] => do
      let off ← o.toInt?
      let w ← parseWhence wh
      some (.onH (← sl.toNat?) (fun h => .seek h w off))
  | ["tr", sl, n] => do
      let n ← n.toNat?
      some (.onH (← sl.toNat?) (fun h => .truncate h n))
  | ["st", sl] => do some (.onH (← sl.toNat?) .fstat)
  | ["ln", a, b] => do some (.plain (.link (← parseName a) (← parseName b)))
  | ["rn", a, b] => do some (.plain (.rename (← parseName a) (← parseName b)))
  | ["prn", a, b] => do some (.plain (.posixRename (← parseName a) (← parseName b)))
  | ["rm", a] => do some (.plain (.remove (← parseName a)))
  | ["cat", a] => do some (.plain (.cat (← parseName a)))
  | _ => none

def parseSteps (s : String) : Option (List DStep) :=
  if s = "-" then some [] else Transfer.allSome ((s.splitOn ";").map parseStep)

def errName : Err → String
  | .notExist => "notExist" | .exist => "exist" | .invalid => "invalid"
  | .closed => "closed" | .access => "access" | .negative => "negative"

def showOut (isWt : Bool) : Out → String
  | .opened _ => "ok"
  | .wrote n off => s!"{n}@{off}"
  | .bytes b eof off =>
    if isWt then s!"{b.length}:{Transfer.hashBytes b}@{off}"
    else s!"{b.length}:{if eof then 1 else 0}:{Transfer.hashBytes b}@{off}"
  | .pos off => s!"{off}"
  | .size n off => s!"{n}@{off}"
  | .truncated off => s!"ok@{off}"
  | .ok => "ok"
  | .content b => s!"{b.length}:{Transfer.hashBytes b}"
  | .err e => errName e

/-- a model as the driver sees it: the step function and, for WriteTo, the bytes between a handle's offset and the end of
its file -/
structure Machine (σ : Type) where
  step : σ → Op → σ × Out
  toEnd : σ → Nat → Nat

def machineS : Machine SState :=
  { step := stepS,
    toEnd := fun s h => match s.handles h with
      | some x => (s.inodes x.ino).length - x.off
      | none => 0 }

def machineI (rot : Bool) : Machine IState :=
  { step := stepI rot,
    toEnd := fun s h => match s.handles h with
      | some x => (s.objs x.obj).length - x.off
      | none => 0 }

/-- the file f of the start: created, filled and closed through the model's own calls -/
def prelude (flen : Option Nat) : List Op :=
  match flen with
  | none => []
  | some 0 => [.open 0 { wr := true, creat := true }]
  | some n => [.open 0 { wr := true, creat := true }, .writeAt 0 0 (Transfer.pat 0 n)]

def runSteps {σ : Type} (m : Machine σ) : σ → List (Nat × Nat) → List DStep → List String
  | _, _, [] => []
  | s, slots, st :: rest =>
    match st with
    | .opn slot n fl =>
      let r := m.step s (.open n fl)
      let slots' := match r.2 with
        | .opened h => (slot, h) :: slots.filter (fun p => p.1 != slot)
        | _ => slots
      showOut false r.2 :: runSteps m r.1 slots' rest
    | .onH slot mk =>
      match slots.lookup slot with
      | none => "closed" :: runSteps m s slots rest
      | some h =>
        let r := m.step s (mk h)
        showOut false r.2 :: runSteps m r.1 slots rest
    | .wt slot =>
      match slots.lookup slot with
      | none => "closed" :: runSteps m s slots rest
      | some h =>
        let r := m.step s (.read h (m.toEnd s h))
        showOut true r.2 :: runSteps m r.1 slots rest
    | .plain op =>
      let r := m.step s op
      showOut false r.2 :: runSteps m r.1 slots rest

def startFrom {σ : Type} (m : Machine σ) (s : σ) (flen : Option Nat) : σ :=
  let s1 := (prelude flen).foldl (fun st op => (m.step st op).1) s
  -- the handle of the prelude is closed again: its number is 0 in both models
  match flen with
  | none => s1
  | some _ => (m.step s1 (.close 0)).1

def parseFlen (s : String) : Option (Option Nat) :=
  if s = "-" then some none else s.toNat?.map some

def render (outs : List String) : String := if outs.isEmpty then "-" else ";".intercalate outs

def opRun : List String → String
  | [flen, steps] =>
    match parseFlen flen, parseSteps steps with
    | some fl, some sts => render (runSteps machineS (startFrom machineS SState.init fl) [] sts)
    | _, _ => "bad-op"
  | _ => "bad-op"

def opRunI : List String → String
  | [rot, flen, steps] =>
    match parseFlen flen, parseSteps steps with
    | some fl, some sts =>
      if rot = "0" then render (runSteps (machineI false) (startFrom (machineI false) IState.init fl) [] sts)
      else if rot = "1" then render (runSteps (machineI true) (startFrom (machineI true) IState.init fl) [] sts)
      else "bad-op"
    | _, _ => "bad-op"
  | _ => "bad-op"

def ops : List (String × (List String → String)) :=
  [ ("mh.run", opRun), ("mh.runi", opRunI) ]

end Sftp.Driver.MultiHandle
