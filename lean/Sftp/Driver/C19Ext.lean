import Sftp.Prim
import Sftp.Model.ExtDispatchGenerated
/-
  Driver for M-ExtDispatch (property C19, extended requests), over the REGENERATED configuration `ExtCfg.generated`.

    c19.ext <server> <readOnly> <hex name> <bodyOk>

      <server>    `os`                      the os-backed Server
                  `rs`                      the RequestServer whose Handlers.FileCmd implements no optional interface
                  `rs+I1+I2…`               … implements the optional interfaces I1, I2, … (Go interface names:
                                            PosixRenameFileCmder, StatVFSFileCmder)
      <readOnly>  `0` | `1`                 os-backed server built with ReadOnly() (ignored by the request server)
      <hex name>  lowercase hex of the ExtendedRequest string, `-` for the empty name; bytes that are not UTF-8 are a name
                  no case of the Go switch can equal
      <bodyOk>    `1` the bytes after the name decode with the specific packet's UnmarshalBinary (or the name is unknown:
                  they are not looked at), `0` they do not

    result  `served:<kind>` | `unsupported` | `denied` | `bad` | `ends` | `unmodelled:<why>`
      <kind>  os: comma-separated functions called by the specific packet's respond (`os.Link`, `os.Rename`,
              `getStatVFSForPath`; `-` if none); request server: the handler method reached (`PosixRename`, `StatVFS`,
              `Filecmd:<Request.Method>`)
      unsupported = STATUS 8, denied = STATUS 3 from the read-only gate, bad = STATUS 5, ends = no reply, connection closed

    c19.extnames     the names of the switch, comma-separated hex, in source order

  Examples
    c19.ext os 1 6673796e63406f70656e7373682e636f6d 1                  → unsupported      (fsync@openssh.com)
    c19.ext os 1 686172646c696e6b406f70656e7373682e636f6d 1            → denied           (hardlink@openssh.com)
    c19.ext os 0 686172646c696e6b406f70656e7373682e636f6d 1            → served:os.Link
    c19.ext os 0 686172646c696e6b406f70656e7373682e636f6d 0            → ends
    c19.ext rs 0 73746174766673406f70656e7373682e636f6d 1              → unsupported      (statvfs, handler without StatVFS)
    c19.ext rs+StatVFSFileCmder 0 73746174766673406f70656e7373682e636f6d 1 → served:StatVFS
    c19.ext rs 1 - 1                                                   → unsupported      (empty name)
-/
namespace Sftp.Driver.C19Ext
open Sftp Sftp.ExtDispatch

def cfg : ExtCfg := ExtCfg.generated

def parseSrv (s : String) : Option Srv :=
  match s.splitOn "+" with
  | ["os"] => some .os
  | "rs" :: ifaces => if ifaces.all (· ≠ "") then some (.rs ifaces) else none
  | _ => none

def parseBool (s : String) : Option Bool :=
  if s = "0" then some false else if s = "1" then some true else none

/-- the Go string with these bytes, as far as the name switch can tell: not UTF-8 ⇒ some name outside the table -/
def nameOf (hex : String) (b : Bytes) : Option String :=
  match String.fromUTF8? (ByteArray.mk b.toArray) with
  | some s => some s
  | none =>
    let s := "\uFFFD<not-utf8>" ++ hex
    if (knownNames cfg).contains s then none else some s

def ext : List String → String
  | [srv, ro, hex, ok] =>
    match parseSrv srv, parseBool ro, fromHex hex, parseBool ok with
    | some s, some r, some b, some k =>
      match nameOf hex b with
      | some name => (extOutcome cfg s r name k).render
      | none => "bad-op"
    | _, _, _, _ => "bad-op"
  | _ => "bad-op"

def strBytes' (s : String) : Bytes := s.toUTF8.toList

def extnames : List String → String
  | [] => ",".intercalate ((knownNames cfg).map fun n => hexOrDash (strBytes' n))
  | _ => "bad-op"

def ops : List (String × (List String → String)) := [("c19.ext", ext), ("c19.extnames", extnames)]

end Sftp.Driver.C19Ext
