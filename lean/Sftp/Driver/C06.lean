import Sftp.Driver.Codec
import Sftp.Generated.CodecTables
/-
  Line-protocol ops for C06 / C08 that interpret the REGENERATED layout tables
  (Generated/CodecTables.lean), addressed by logical packet kind ("Open", "Read", "Status",
  "ExtStatVFS", …; the Kind names of VerifPkt):

    c06.frame <main|fx> <Kind> <v1> <v2> …   → hex of the complete frame (length prefix, type byte, body) | bad | nokind
    c06.parse <main|fx> <Kind> <hex body>    → ok <v1> … rest=<hex> | err | panic | nokind      (body = bytes after the type byte)
    c06.meter <main|fx> <Kind> <hex body>    → decimal allocation meter of that decode
    c06.recv <hex stream>                    → recvPacket of packet.go with the regenerated limit: ok <typ> <payload> rest=… | eof | shorthdr | long | zero | shortbody
  values and results in the syntax of Driver/Codec.lean.
-/
namespace Sftp.Driver.C06
open Sftp Sftp.Codec Sftp.Driver.Codec

def marshalRow (codec kind : String) : Option (Nat × List FieldD) :=
  if codec = "main" then
    (G.mainMarshal.find? (fun r => G.kindOfMain.lookup r.1 == some kind)).map (·.2)
  else if codec = "fx" then
    (G.fxMarshal.find? (fun r => G.kindOfFx.lookup r.1 == some kind)).map (·.2)
  else none

def unmarshalRow (codec kind : String) : Option (List FieldD) :=
  if codec = "main" then
    (G.mainUnmarshal.find? (fun r => G.kindOfMain.lookup r.1 == some kind)).map (·.2)
  else if codec = "fx" then
    (G.fxUnmarshal.find? (fun r => G.kindOfFx.lookup r.1 == some kind)).map (·.2)
  else none

def cfgOf (codec : String) : DecCfg := if codec = "fx" then G.decCfgFx else G.decCfgMain

def opFrame : List String → String
  | codec :: kind :: vals =>
    match marshalRow codec kind with
    | none => "nokind"
    | some (typ, fs) =>
      match mapM? parseVal vals with
      | none => "bad-op"
      | some vs =>
        match encodeFields fs vs with
        | some bs => toHex (frame typ bs)
        | none => "bad"
  | _ => "bad-op"

def opParse : List String → String
  | [codec, kind, hx] =>
    match unmarshalRow codec kind, fromHex hx with
    | none, _ => "nokind"
    | some fs, some bs => showOutcome (decodeFields (cfgOf codec) fs bs)
    | _, none => "bad-op"
  | _ => "bad-op"

def opMeter : List String → String
  | [codec, kind, hx] =>
    match unmarshalRow codec kind, fromHex hx with
    | none, _ => "nokind"
    | some fs, some bs => toString (decodeMeter (cfgOf codec) fs bs)
    | _, none => "bad-op"
  | _ => "bad-op"

def opRecv : List String → String
  | [hx] =>
    match fromHex hx with
    | some bs => showFrame (recvFrame G.recvMaxLen bs)
    | none => "bad-op"
  | _ => "bad-op"

def ops : List (String × (List String → String)) :=
  [ ("c06.frame", opFrame), ("c06.parse", opParse), ("c06.meter", opMeter), ("c06.recv", opRecv) ]

end Sftp.Driver.C06
