import Sftp.Model.Transfer
/-
  Line-protocol handlers for M-Transfer (ops prefixed `xfer.`).

  Encodings (all tokens are free of blanks):
    <cfg>      `mp,conc,cr,cw,fstat,maxTx,wtm,rfm`   eight naturals; cr = concurrent reads enabled,
               cw = UseConcurrentWrites, fstat = UseFstat, wtm = cfg.writeToMovesOnEmpty,
               rfm = cfg.readFromMasksWriteErr (booleans as 0/1).  mp = 0 or maxTx = 0 is rejected.
    <filelen>  the served file initially holds `pat 0 filelen`, i.e. byte i = i mod 251.
    <failspec> `-` or a comma list of `r<off>=<code>` (READ at request offset off answers status code),
               `w<off>=<code>` (WRITE at offset off), `s=<code>` (stat/fstat fails).
    <calls>    `;`-separated list of
                 r:<n>              Read into an n-byte buffer
                 ra:<n>:<off>       ReadAt
                 w:<len>:<seed>     Write of `pat seed len` (byte i = (seed+i) mod 251)
                 wa:<len>:<seed>:<off>   WriteAt
                 rf:<len>:<seed>:<sized> ReadFrom a reader holding `pat seed len`; sized=1 when it has Len()
                 rfc:<len>:<seed>:<conc> ReadFromWithConcurrency
                 wt                 WriteTo
                 sk:<off>:<whence>  Seek (off may be negative, e.g. sk:-3:2)
                 cl | st | tr:<n>   Close, Stat, Truncate
    <errclass> ok | eof | closed | invalid | whence | hang | srv<code>
    <hash>     h₀ = 7, h ← (31·h + byte + 1) mod 1000000007 over the bytes.

  Ops:
    xfer.plan <mp> <off> <len>                         → `off:len,off:len,…` or `-`
    xfer.readat <cfg> <filelen> <off> <len> <failspec> → `<n> <errclass> <hash of b[:n]>`
    xfer.seq <cfg> <filelen> <calls> [<failspec>]      → `<offset>:<n>:<errclass>:<hash of data>` per call,
                                                          joined by `;`, then a blank and
                                                          `<len>:<hash>` of the served file afterwards
-/
namespace Sftp.Driver.Transfer
open Sftp Sftp.Transfer

def hashBytes (b : Bytes) : Nat := b.foldl (fun h x => (31 * h + x.toNat + 1) % 1000000007) 7

def errClass : Option Err → String
  | none => "ok"
  | some .eof => "eof"
  | some .closed => "closed"
  | some .invalid => "invalid"
  | some .whence => "whence"
  | some .hang => "hang"
  | some (.srv c) => "srv" ++ toString c

def allSome {α} : List (Option α) → Option (List α)
  | [] => some []
  | none :: _ => none
  | some a :: r => (allSome r).map (a :: ·)

def nats (s : String) (sep : String) : Option (List Nat) :=
  allSome ((s.splitOn sep).map String.toNat?)

def parseCfg (s : String) : Option Cfg :=
  match nats s "," with
  | some [mp, conc, cr, cw, fs, tx, wtm, rfm] =>
    if mp = 0 ∨ tx = 0 then none else
    some { maxPacket := mp, maxConc := conc, concReads := cr != 0, concWrites := cw != 0,
           useFstat := fs != 0, maxTx := tx, writeToMovesOnEmpty := wtm != 0,
           readFromMasksWriteErr := rfm != 0 }
  | _ => none

structure Faults where
  rd : List (Nat × Nat) := []
  wr : List (Nat × Nat) := []
  st : Option Nat := none

def parseFault (acc : Faults) (tok : String) : Option Faults :=
  match tok.splitOn "=" with
  | [k, v] =>
    match v.toNat? with
    | none => none
    | some code =>
      if k = "s" then some { acc with st := some code }
      else match k.toList with
        | 'r' :: rest => (String.ofList rest).toNat?.map (fun o => { acc with rd := acc.rd ++ [(o, code)] })
        | 'w' :: rest => (String.ofList rest).toNat?.map (fun o => { acc with wr := acc.wr ++ [(o, code)] })
        | _ => none
  | _ => none

def parseFaults (s : String) : Option Faults :=
  if s = "-" then some {} else
  (s.splitOn ",").foldl (fun acc tok => acc.bind (parseFault · tok)) (some {})

def mkServed (filelen : Nat) (fl : Faults) : Served :=
  { data := pat 0 filelen, rdFail := fun o => fl.rd.lookup o, wrFail := fun o => fl.wr.lookup o,
    statFail := fl.st }

def parseCall (s : String) : Option Call :=
  match s.splitOn ":" with
  | ["wt"] => some .writeTo
  | ["cl"] => some .close
  | ["st"] => some .stat
  | ["r", n] => n.toNat?.map .read
  | ["tr", n] => n.toNat?.map .truncate
  | ["ra", n, o] => do some (.readAt (← n.toNat?) (← o.toNat?))
  | ["w", l, sd] => do some (.write (pat (← sd.toNat?) (← l.toNat?)))
  | ["wa", l, sd, o] => do some (.writeAt (pat (← sd.toNat?) (← l.toNat?)) (← o.toNat?))
  | ["rf", l, sd, z] => do some (.readFrom (pat (← sd.toNat?) (← l.toNat?)) ((← z.toNat?) != 0))
  | ["rfc", l, sd, c] => do some (.readFromConc (pat (← sd.toNat?) (← l.toNat?)) (← c.toNat?))
  | ["sk", o, wh] => do some (.seek (← o.toInt?) (← wh.toNat?))
  | _ => none

def showStep (p : FileSt × Result) : String :=
  s!"{p.1.offset}:{p.2.n}:{errClass p.2.err}:{hashBytes p.2.data}"

def opPlan : List String → String
  | [mp, off, len] =>
    match mp.toNat?, off.toNat?, len.toNat? with
    | some mp, some off, some len =>
      if mp = 0 then "bad-op" else
      match planChunks mp off len with
      | [] => "-"
      | l => ",".intercalate (l.map (fun c => s!"{c.1}:{c.2}"))
    | _, _, _ => "bad-op"
  | _ => "bad-op"

def opReadAt : List String → String
  | [cfg, flen, off, len, fs] =>
    match parseCfg cfg, flen.toNat?, off.toNat?, len.toNat?, parseFaults fs with
    | some cfg, some flen, some off, some len, some fl =>
      let r := readAtM cfg (mkServed flen fl) off len
      s!"{r.n} {errClass r.err} {hashBytes r.data}"
    | _, _, _, _, _ => "bad-op"
  | _ => "bad-op"

def seqCore (cfg flen calls fs : String) : String :=
  match parseCfg cfg, flen.toNat?, allSome ((calls.splitOn ";").map parseCall), parseFaults fs with
  | some cfg, some flen, some calls, some fl =>
    let sv := mkServed flen fl
    let tr := run cfg sv {} calls
    let fin := finalServed cfg sv {} calls
    ";".intercalate (tr.map showStep) ++ s!" {fin.data.length}:{hashBytes fin.data}"
  | _, _, _, _ => "bad-op"

def opSeq : List String → String
  | [cfg, flen, calls] => seqCore cfg flen calls "-"
  | [cfg, flen, calls, fs] => seqCore cfg flen calls fs
  | _ => "bad-op"

def ops : List (String × (List String → String)) :=
  [ ("xfer.plan", opPlan), ("xfer.readat", opReadAt), ("xfer.seq", opSeq) ]

end Sftp.Driver.Transfer
