import Sftp.Model.Lin
/-
  Line-protocol op for C15: validation of a stamped trace by the proved checker `checkStamped`
  (theorem `Sftp.C15.checker_sound`: `ok` ⇒ the history is linearizable).

  c15.check <hex init file> <op;op;…|->
      op = r,<call>,<stamp>,<ret>,<off>,<hex result>[,<len>]   read of <len> bytes at <off> returned <hex result>
                                                              (<len> defaults to the length of the result)
         | w,<call>,<stamp>,<ret>,<off>,<hex data>            write of <hex data> at <off> completed
         | s,<call>,<stamp>,<ret>,<size>                      size query returned <size>
      <call>/<ret>: instants at which the client issued the call / saw it return; <stamp>: the global sequence
      number the store gave to the ReadAt/WriteAt/Stat step.  All on one clock (naturals).  hex `-` = empty.
    → `ok`
      `bad:<reason>@<index>`   index = 0-based position of the offending op in the input;
         reason ∈ stamp-outside (not call < stamp < ret) | extent (op not within the initial extent)
                | dup-stamp (two ops share a stamp) | result (first op, in stamp order, whose observed
                  result differs from the sequential replay)
-/
namespace Sftp.Driver.C15
open Sftp Sftp.C15

def parseOp (s : String) : Option SEvent :=
  match s.splitOn "," with
  | ["r", c, st, r, off, res] => do
    let b ← fromHex res
    pure ⟨⟨.read (← off.toNat?) b.length, .bytes b, ← c.toNat?, ← r.toNat?⟩, ← st.toNat?⟩
  | ["r", c, st, r, off, res, len] => do
    let b ← fromHex res
    pure ⟨⟨.read (← off.toNat?) (← len.toNat?), .bytes b, ← c.toNat?, ← r.toNat?⟩, ← st.toNat?⟩
  | ["w", c, st, r, off, d] => do
    let b ← fromHex d
    pure ⟨⟨.write (← off.toNat?) b, .unit, ← c.toNat?, ← r.toNat?⟩, ← st.toNat?⟩
  | ["s", c, st, r, n] => do
    pure ⟨⟨.size, .size (← n.toNat?), ← c.toNat?, ← r.toNat?⟩, ← st.toNat?⟩
  | _ => none

def parseOps (s : String) : Option (List SEvent) :=
  if s = "-" then some [] else (s.splitOn ";").mapM parseOp

def check : List String → String
  | [init, ops] =>
    match fromHex init, parseOps ops with
    | some f, some hs =>
      if checkStamped f hs then "ok"
      else
        let (reason, i) := diagnose f hs
        s!"bad:{reason}@{i}"
    | _, _ => "bad-op"
  | _ => "bad-op"

def ops : List (String × (List String → String)) :=
  [ ("c15.check", check) ]

end Sftp.Driver.C15
