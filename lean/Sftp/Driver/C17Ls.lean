import Sftp.Model.LsModeCheck
import Sftp.Generated.LsOwner
namespace Sftp.Driver.C17Ls
open Sftp

/-- `c17.lsmode <mode word>` → the ten characters `FileMode(m).String()` returns according to the
regenerated statement table -/
def lsmodeOp : List String → String
  | [a] => match a.toNat? with
    | some m => G.lsMode.string m
    | none => "bad-op"
  | _ => "bad-op"

def showOwner (o : Nat × Nat) : String := s!"{o.1}:{o.2}"

/-- `c17.owner <type of Sys(), nil for nil> <sys uid> <sys gid> <implements FileInfoUidGid: 0|1> <Uid()> <Gid()>`
→ `attrs=<uid>:<gid>|none ls=<uid>:<gid>`: the owner in the attribute block (none = UIDGID flag clear) and
the numeric owner columns of the long name -/
def ownerOp : List String → String
  | [ty, su, sg, i, iu, ig] =>
    match su.toNat?, sg.toNat?, i.toNat?, iu.toNat?, ig.toNat? with
    | some su, some sg, some i, some iu, some ig =>
      if i > 1 then "bad-op" else
      let fi : InfoShape := ⟨ty, (su, sg), if i = 1 then ["FileInfoUidGid"] else [], (iu, ig)⟩
      let a := match attrsOwner G.attrsOwnerSteps fi with
        | some o => showOwner o
        | none => "none"
      s!"attrs={a} ls={showOwner (lsOwner G.lsOwnerOrder fi)}"
    | _, _, _, _, _ => "bad-op"
  | _ => "bad-op"

def ops : List (String × (List String → String)) :=
  [ ("c17.lsmode", lsmodeOp), ("c17.owner", ownerOp) ]

end Sftp.Driver.C17Ls
