/-
  M-Prim: bytes, big-endian integers, Go-style outcomes.

  Protocol integers are `Nat` with explicit range hypotheses in the lemmas
  (never a silent default).  Unsafe Go slice operations (`b[3]`, `b[:n]`)
  are modelled by `Outcome.panic`, so that "never panics" is a theorem about
  the model and not a by-product of totalisation.
-/
namespace Sftp

abbrev Bytes := List UInt8

/-- Result of running a piece of Go code: a value, an `error`, or a run-time panic. -/
inductive Outcome (α : Type) where
  | ok (a : α)
  | err (e : String)
  | panic
  deriving Repr, DecidableEq

namespace Outcome
def bind {α β} (o : Outcome α) (f : α → Outcome β) : Outcome β :=
  match o with
  | ok a => f a
  | err e => err e
  | panic => panic
def map {α β} (f : α → β) (o : Outcome α) : Outcome β := o.bind (fun a => ok (f a))
def isPanic {α} : Outcome α → Bool
  | panic => true
  | _ => false
def isOk {α} : Outcome α → Bool
  | ok _ => true
  | _ => false
instance : Monad Outcome where
  pure := Outcome.ok
  bind := Outcome.bind
@[simp] theorem bind_ok {α β} (a : α) (f : α → Outcome β) : (ok a).bind f = f a := rfl
@[simp] theorem bind_err {α β} (e : String) (f : α → Outcome β) : (err e : Outcome α).bind f = err e := rfl
@[simp] theorem bind_panic {α β} (f : α → Outcome β) : (panic : Outcome α).bind f = panic := rfl
theorem bind_ne_panic {α β} (o : Outcome α) (f : α → Outcome β)
    (h1 : o ≠ panic) (h2 : ∀ a, f a ≠ panic) : o.bind f ≠ panic := by
  cases o with
  | ok a => exact h2 a
  | err e => intro h; cases h
  | panic => exact absurd rfl h1
end Outcome

/-! ### big-endian integers -/

def be32 (v : Nat) : Bytes :=
  [UInt8.ofNat (v / 2^24 % 256), UInt8.ofNat (v / 2^16 % 256),
   UInt8.ofNat (v / 2^8 % 256), UInt8.ofNat (v % 256)]

@[simp] theorem length_be32 (v : Nat) : (be32 v).length = 4 := rfl

/-- Value of the first four bytes (the Go expression in `unmarshalUint32`). -/
def get32? : Bytes → Option (Nat × Bytes)
  | a :: b :: c :: d :: rest =>
    some (a.toNat * 2^24 + b.toNat * 2^16 + c.toNat * 2^8 + d.toNat, rest)
  | _ => none

theorem get32?_be32 (v : Nat) (h : v < 2^32) (r : Bytes) :
    get32? (be32 v ++ r) = some (v, r) := by
  simp only [be32, List.cons_append, List.nil_append, get32?]
  congr 2
  simp only [UInt8.toNat_ofNat']
  omega

theorem get32?_lt {b : Bytes} {v : Nat} {r : Bytes} (h : get32? b = some (v, r)) : v < 2^32 := by
  match b, h with
  | a :: b :: c :: d :: rest, h =>
    simp only [get32?, Option.some.injEq, Prod.mk.injEq] at h
    have ha := a.toNat_lt; have hb := b.toNat_lt; have hc := c.toNat_lt; have hd := d.toNat_lt
    omega

theorem get32?_length {b : Bytes} {v : Nat} {r : Bytes} (h : get32? b = some (v, r)) :
    b.length = r.length + 4 := by
  match b, h with
  | a :: b :: c :: d :: rest, h =>
    simp only [get32?, Option.some.injEq, Prod.mk.injEq] at h
    simp [← h.2]

theorem get32?_none_iff (b : Bytes) : get32? b = none ↔ b.length < 4 := by
  match b with
  | [] => simp [get32?]
  | [_] => simp [get32?]
  | [_, _] => simp [get32?]
  | [_, _, _] => simp [get32?]
  | _ :: _ :: _ :: _ :: _ => simp [get32?]

def be64 (v : Nat) : Bytes := be32 (v / 2^32) ++ be32 (v % 2^32)

@[simp] theorem length_be64 (v : Nat) : (be64 v).length = 8 := rfl

def get64? (b : Bytes) : Option (Nat × Bytes) :=
  match get32? b with
  | none => none
  | some (h, b1) =>
    match get32? b1 with
    | none => none
    | some (l, b2) => some (h * 2^32 + l, b2)

theorem get64?_be64 (v : Nat) (h : v < 2^64) (r : Bytes) :
    get64? (be64 v ++ r) = some (v, r) := by
  unfold get64? be64
  rw [List.append_assoc, get32?_be32 _ (by omega)]
  simp only
  rw [get32?_be32 _ (by omega)]
  simp only [Option.some.injEq, Prod.mk.injEq, and_true]
  omega

theorem get64?_length {b : Bytes} {v : Nat} {r : Bytes} (h : get64? b = some (v, r)) :
    b.length = r.length + 8 := by
  unfold get64? at h
  split at h
  · cases h
  · next hh b1 h1 =>
    split at h
    · cases h
    · next l b2 h2 =>
      simp only [Option.some.injEq, Prod.mk.injEq] at h
      have := get32?_length h1; have := get32?_length h2
      rw [← h.2]; omega

/-- `string` on the wire: uint32 length followed by that many bytes. -/
def putStr (s : Bytes) : Bytes := be32 s.length ++ s

@[simp] theorem length_putStr (s : Bytes) : (putStr s).length = 4 + s.length := by
  simp [putStr]

/-- `unmarshalStringSafe`: length-checked. -/
def getStr? (b : Bytes) : Option (Bytes × Bytes) :=
  match get32? b with
  | none => none
  | some (n, b1) => if n ≤ b1.length then some (b1.take n, b1.drop n) else none

theorem getStr?_putStr (s : Bytes) (h : s.length < 2^32) (r : Bytes) :
    getStr? (putStr s ++ r) = some (s, r) := by
  unfold getStr? putStr
  rw [List.append_assoc, get32?_be32 _ h]
  simp

theorem getStr?_length {b s r : Bytes} (h : getStr? b = some (s, r)) :
    b.length = 4 + s.length + r.length := by
  unfold getStr? at h
  split at h
  · cases h
  · next n b1 h1 =>
    split at h
    · next hle =>
      simp only [Option.some.injEq, Prod.mk.injEq] at h
      have := get32?_length h1
      rw [← h.1, ← h.2]; simp only [List.length_take, List.length_drop]; omega
    · cases h

/-! ### the Go primitives as outcomes -/

def shortPacket : String := "short"

/-- `unmarshalUint32` (unchecked): indexes `b[3]`, panics on a short slice. -/
def goU32 (b : Bytes) : Outcome (Nat × Bytes) :=
  match get32? b with
  | some r => .ok r
  | none => .panic

/-- `unmarshalUint32Safe`. -/
def goU32Safe (b : Bytes) : Outcome (Nat × Bytes) :=
  match get32? b with
  | some r => .ok r
  | none => .err shortPacket

def goU64 (b : Bytes) : Outcome (Nat × Bytes) :=
  match get64? b with
  | some r => .ok r
  | none => .panic

def goU64Safe (b : Bytes) : Outcome (Nat × Bytes) :=
  match get64? b with
  | some r => .ok r
  | none => .err shortPacket

/-- `unmarshalString` (unchecked): `b[:n]` panics when `n > len(b)`. -/
def goStr (b : Bytes) : Outcome (Bytes × Bytes) :=
  match get32? b with
  | none => .panic
  | some (n, b1) => if n ≤ b1.length then .ok (b1.take n, b1.drop n) else .panic

def goStrSafe (b : Bytes) : Outcome (Bytes × Bytes) :=
  match getStr? b with
  | some r => .ok r
  | none => .err shortPacket

theorem goU32Safe_ne_panic (b : Bytes) : goU32Safe b ≠ .panic := by
  unfold goU32Safe; split <;> intro h <;> cases h
theorem goU64Safe_ne_panic (b : Bytes) : goU64Safe b ≠ .panic := by
  unfold goU64Safe; split <;> intro h <;> cases h
theorem goStrSafe_ne_panic (b : Bytes) : goStrSafe b ≠ .panic := by
  unfold goStrSafe; split <;> intro h <;> cases h

/-! ### finite tables: complete evaluation lifted to a ∀ statement -/

def allBelow (p : Nat → Bool) : Nat → Bool
  | 0 => true
  | n + 1 => p n && allBelow p n

theorem allBelow_spec (p : Nat → Bool) : ∀ n, allBelow p n = true → ∀ m, m < n → p m = true
  | 0, _, m, hm => absurd hm (Nat.not_lt_zero m)
  | n + 1, h, m, hm => by
    simp only [allBelow, Bool.and_eq_true] at h
    by_cases hmn : m = n
    · subst hmn; exact h.1
    · exact allBelow_spec p n h.2 m (by omega)

/-- `allRange p lo n` checks `p lo, …, p (lo+n-1)`. -/
def allRange (p : Nat → Bool) (lo : Nat) : Nat → Bool
  | 0 => true
  | n + 1 => p (lo + n) && allRange p lo n

theorem allRange_spec (p : Nat → Bool) (lo : Nat) :
    ∀ n, allRange p lo n = true → ∀ m, lo ≤ m → m < lo + n → p m = true
  | 0, _, m, h1, h2 => by omega
  | n + 1, h, m, h1, h2 => by
    simp only [allRange, Bool.and_eq_true] at h
    by_cases hmn : m = lo + n
    · subst hmn; exact h.1
    · exact allRange_spec p lo n h.2 m h1 (by omega)

/-! ### hex helpers for the line-protocol driver -/

def hexDigit (n : Nat) : Char :=
  if n < 10 then Char.ofNat (48 + n) else Char.ofNat (87 + n)

def toHex (b : Bytes) : String :=
  String.ofList (b.foldr (fun x acc => hexDigit (x.toNat / 16) :: hexDigit (x.toNat % 16) :: acc) [])

def hexVal (c : Char) : Option Nat :=
  if '0' ≤ c ∧ c ≤ '9' then some (c.toNat - 48)
  else if 'a' ≤ c ∧ c ≤ 'f' then some (c.toNat - 87)
  else if 'A' ≤ c ∧ c ≤ 'F' then some (c.toNat - 55)
  else none

def fromHexChars : List Char → Option Bytes
  | [] => some []
  | [_] => none
  | a :: b :: rest => do
    let x ← hexVal a
    let y ← hexVal b
    let r ← fromHexChars rest
    pure (UInt8.ofNat (x * 16 + y) :: r)

/-- `-` denotes the empty string in the line protocol. -/
def fromHex (s : String) : Option Bytes :=
  if s = "-" then some [] else fromHexChars s.toList

def hexOrDash (b : Bytes) : String := if b.isEmpty then "-" else toHex b

end Sftp
