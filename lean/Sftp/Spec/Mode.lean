/-
  Hand-written expectations for C17, transcribed from POSIX <sys/stat.h>
  (the wire form used by SFTP v3) and from the documentation of Go's
  `os.FileMode`.  Nothing here is derived from /repo.
-/
namespace Sftp.Spec.Mode

-- POSIX
def S_IFMT   : Nat := 0o170000
def S_IFSOCK : Nat := 0o140000
def S_IFLNK  : Nat := 0o120000
def S_IFREG  : Nat := 0o100000
def S_IFBLK  : Nat := 0o060000
def S_IFDIR  : Nat := 0o040000
def S_IFCHR  : Nat := 0o020000
def S_IFIFO  : Nat := 0o010000
def S_ISUID  : Nat := 0o4000
def S_ISGID  : Nat := 0o2000
def S_ISVTX  : Nat := 0o1000

-- Go io/fs.FileMode
def ModeDir        : Nat := 2^31
def ModeSymlink    : Nat := 2^27
def ModeDevice     : Nat := 2^26
def ModeNamedPipe  : Nat := 2^25
def ModeSocket     : Nat := 2^24
def ModeSetuid     : Nat := 2^23
def ModeSetgid     : Nat := 2^22
def ModeCharDevice : Nat := 2^21
def ModeSticky     : Nat := 2^20
def ModePerm       : Nat := 0o777

/-- wire type nibble ↔ os type bits, for the seven file kinds SFTP v3 can express. -/
def typePairs : List (Nat × Nat) :=
  [ (S_IFREG, 0), (S_IFDIR, ModeDir), (S_IFLNK, ModeSymlink), (S_IFIFO, ModeNamedPipe),
    (S_IFSOCK, ModeSocket), (S_IFBLK, ModeDevice), (S_IFCHR, ModeDevice ||| ModeCharDevice) ]

def specialPairs : List (Nat × Nat) :=
  [ (S_ISUID, ModeSetuid), (S_ISGID, ModeSetgid), (S_ISVTX, ModeSticky) ]

def validWireType (t : Nat) : Bool := (typePairs.map (·.1)).contains t

/-- Reference conversion wire → os, written directly from the two tables. -/
def toOs (m : Nat) : Nat :=
  (m &&& ModePerm)
  ||| (match typePairs.lookup (m &&& S_IFMT) with | some v => v | none => 0)
  ||| specialPairs.foldl (fun acc p => if m &&& p.1 ≠ 0 then acc ||| p.2 else acc) 0

/-- Reference conversion os → wire. -/
def toWire (fm : Nat) : Nat :=
  (fm &&& ModePerm)
  ||| (match (typePairs.map (fun p => (p.2, p.1))).lookup
            (fm &&& (ModeDir ||| ModeSymlink ||| ModeDevice ||| ModeNamedPipe ||| ModeSocket ||| ModeCharDevice)) with
       | some v => v | none => 0)
  ||| specialPairs.foldl (fun acc p => if fm &&& p.2 ≠ 0 then acc ||| p.1 else acc) 0

/-- The i-th os.FileMode built from one type (7), three special bits and nine permission bits. -/
def osModeOfIndex (i : Nat) : Nat :=
  let t := (typePairs.map (·.2))[i / 4096]?.getD 0
  let low := i % 4096
  let sp := specialPairs.foldl (fun acc p => if low &&& p.1 ≠ 0 then acc ||| p.2 else acc) 0
  t ||| sp ||| (low &&& ModePerm)

/-- chmod argument expected for an os.FileMode: POSIX permission and special bits. -/
def chmodOf (fm : Nat) : Nat :=
  (fm &&& ModePerm) ||| specialPairs.foldl (fun acc p => if fm &&& p.2 ≠ 0 then acc ||| p.1 else acc) 0

end Sftp.Spec.Mode
