/-
  Hand-written expectations for the request-server adapter tables of C10 (request.go, request-server.go), and the
  small decidable checkers used to compare them with the generated tables (Generated/ReqServer.lean).
-/
namespace Sftp.Spec.ReqServer

/-- The method names a handler can see (doc comment of `Request.Method`, completed by `Request.call`). -/
def methods : List String :=
  ["Get", "Put", "Open", "Setstat", "Rename", "Rmdir", "Mkdir", "Link", "Symlink", "Remove", "Stat", "Lstat",
   "Readlink", "List", "PosixRename", "StatVFS"]

/-- request.go `requestMethod`: packet struct ↦ method name ("" = set later, by open / opendir / the handle). -/
def requestMethod : List (String × String) :=
  [("sshFxpReadPacket", ""), ("sshFxpWritePacket", ""), ("sshFxpOpenPacket", ""),
   ("sshFxpOpendirPacket", ""), ("sshFxpReaddirPacket", ""),
   ("sshFxpSetstatPacket", "Setstat"), ("sshFxpFsetstatPacket", "Setstat"),
   ("sshFxpRenamePacket", "Rename"), ("sshFxpSymlinkPacket", "Symlink"), ("sshFxpRemovePacket", "Remove"),
   ("sshFxpStatPacket", "Stat"), ("sshFxpFstatPacket", "Stat"), ("sshFxpLstatPacket", "Lstat"),
   ("sshFxpRmdirPacket", "Rmdir"), ("sshFxpReadlinkPacket", "Readlink"), ("sshFxpMkdirPacket", "Mkdir"),
   ("sshFxpExtendedPacketHardlink", "Link")]

/-- every other `x.Method = "…"` in the package: OPEN picks Open / Put / Get from the pflags, OPENDIR is List,
and the two documented fallbacks (PosixRename → Rename when PosixRenameFileCmder is missing, Lstat → Stat when
LstatFileLister is missing). -/
def methodAssignments : List (String × String) :=
  [("Request.open", "Open"), ("Request.open", "Put"), ("Request.open", "Get"), ("Request.opendir", "List"),
   ("filecmd", "Rename"), ("filestat", "Stat")]

/-- `Request.call`: method ↦ wrapper. -/
def callTable : List (String × String) :=
  [("Get", "fileget"), ("Put", "fileput"), ("Open", "fileputget"),
   ("Setstat", "filecmd"), ("Rename", "filecmd"), ("Rmdir", "filecmd"), ("Mkdir", "filecmd"),
   ("Link", "filecmd"), ("Symlink", "filecmd"), ("Remove", "filecmd"), ("PosixRename", "filecmd"),
   ("StatVFS", "filecmd"),
   ("List", "filelist"), ("Stat", "filestat"), ("Lstat", "filestat"), ("Readlink", "readlink-or-filestat"),
   ("default", "statusFromError")]

/-- which member of `Handlers` each wrapper is given. -/
def callHandler : List (String × String) :=
  [("Get", "S:handlers.FileGet"), ("Put", "S:handlers.FilePut"), ("Open", "S:handlers.FilePut"),
   ("Setstat", "S:handlers.FileCmd"), ("Rename", "S:handlers.FileCmd"), ("Rmdir", "S:handlers.FileCmd"),
   ("Mkdir", "S:handlers.FileCmd"), ("Link", "S:handlers.FileCmd"), ("Symlink", "S:handlers.FileCmd"),
   ("Remove", "S:handlers.FileCmd"), ("PosixRename", "S:handlers.FileCmd"), ("StatVFS", "S:handlers.FileCmd"),
   ("List", "S:handlers.FileList"), ("Stat", "S:handlers.FileList"), ("Lstat", "S:handlers.FileList"),
   ("Readlink", "S:handlers.FileList.(ReadlinkFileLister)")]

/-- `requestFromPacket`: (case, Request field, provenance).  Every path is `cleanPathWithBase(baseDir, ·)`
EXCEPT the symlink's target text; flags and attribute bytes are copied. -/
def requestFromPacketFields : List (String × String × String) :=
  [("*", "Method", "requestMethod:pkt"),
   ("*", "Filepath", "cleanPathWithBase:pkt.getPath()"),
   ("sshFxpOpenPacket", "Flags", "verbatim:Pflags"),
   ("sshFxpOpenPacket", "Attrs", "bytes:Attrs"),
   ("sshFxpSetstatPacket", "Flags", "verbatim:Flags"),
   ("sshFxpSetstatPacket", "Attrs", "bytes:Attrs"),
   ("sshFxpRenamePacket", "Target", "cleanPathWithBase:p.Newpath"),
   ("sshFxpSymlinkPacket", "Target", "cleanPathWithBase:p.Linkpath"),
   ("sshFxpSymlinkPacket", "Filepath", "verbatim:Targetpath"),
   ("sshFxpExtendedPacketHardlink", "Target", "cleanPathWithBase:p.Newpath")]

/-- the requests `packetWorker` builds itself (FSTAT, FSETSTAT, posix-rename, statvfs). -/
def packetWorkerRequestFields : List (String × String × String) :=
  [("sshFxpFstatPacket", "Method", "const:Stat"),
   ("sshFxpFstatPacket", "Filepath", "cleanPathWithBase:request.Filepath"),
   ("sshFxpFsetstatPacket", "Method", "const:Setstat"),
   ("sshFxpFsetstatPacket", "Filepath", "cleanPathWithBase:request.Filepath"),
   ("sshFxpExtendedPacketPosixRename", "Method", "const:PosixRename"),
   ("sshFxpExtendedPacketPosixRename", "Filepath", "cleanPathWithBase:pkt.Oldpath"),
   ("sshFxpExtendedPacketPosixRename", "Target", "cleanPathWithBase:pkt.Newpath"),
   ("sshFxpExtendedPacketStatVFS", "Method", "const:StatVFS"),
   ("sshFxpExtendedPacketStatVFS", "Filepath", "cleanPathWithBase:pkt.Path")]

/-- FSETSTAT's flags and attribute bytes are copied inside `filecmd`. -/
def filecmdFields : List (String × String × String) :=
  [("sshFxpFsetstatPacket", "Flags", "verbatim:Flags"), ("sshFxpFsetstatPacket", "Attrs", "bytes:Attrs")]

/-- The ONLY path-valued Request field that is not produced by cleanPathWithBase. -/
def verbatimPathFields : List (String × String × String) :=
  [("sshFxpSymlinkPacket", "Filepath", "verbatim:Targetpath")]

/-! ### checkers -/

/-- same finite map: same number of rows, keys pairwise different, every row of `a` is in `b`. -/
def SameTable (a b : List (String × String)) : Prop :=
  a.length = b.length ∧ (a.map Prod.fst).Nodup ∧ ∀ kv ∈ a, b.lookup kv.1 = some kv.2

instance (a b : List (String × String)) : Decidable (SameTable a b) := by unfold SameTable; infer_instance

/-- same set of rows. -/
def SameRows (a b : List (String × String)) : Prop := (∀ x ∈ a, x ∈ b) ∧ (∀ x ∈ b, x ∈ a)

instance (a b : List (String × String)) : Decidable (SameRows a b) := by unfold SameRows; infer_instance

/-- `how` starts with "cleanPathWithBase:" (the base is the start directory: the extractor writes
"cleanPathWithBase[<other base>]:" otherwise). -/
def isCleaned (how : String) : Bool := how.toList.take 18 == "cleanPathWithBase:".toList

def isPathField (f : String) : Bool := f == "Filepath" || f == "Target"

/-- the calls of `packetWorker` that reach handler code. -/
def handlerReaching : List String := ["request.open", "request.opendir", "request.call", "pather.RealPath"]

def reachCount (path : List (String × String)) : Nat :=
  (path.filter (fun c => handlerReaching.contains c.1)).length

def reachCounts (t : List (String × List (List (String × String)))) : List (String × List Nat) :=
  t.map (fun r => (r.1, r.2.map reachCount))

/-- per case of `packetWorker`'s type switch and per control-flow path: the number of handler-reaching calls.
0 only for INIT, CLOSE (closes the handler's objects, no handler call), a stale handle (EBADF), a request that does
not fit the kind of its handle (second path of hasHandle), REALPATH without a custom resolver, and unsupported requests; REALPATH's six paths are {RealPathFileLister, legacy, none} × {err, ok}. -/
def expectedReach : List (String × List Nat) :=
  [("sshFxInitPacket", [0]), ("sshFxpClosePacket", [0]), ("sshFxpRealpathPacket", [1, 1, 0, 1, 1, 0]),
   ("sshFxpOpendirPacket", [1, 1]), ("sshFxpOpenPacket", [1, 1]), ("sshFxpFstatPacket", [0, 1]),
   ("sshFxpFsetstatPacket", [0, 1]), ("sshFxpExtendedPacketPosixRename", [1]),
   ("sshFxpExtendedPacketStatVFS", [1]), ("hasHandle", [0, 0, 1]), ("hasPath", [1]), ("default", [0])]

/-- the same before the handle-kind guard existed (`case hasHandle:` had only the EBADF and the call path). -/
def expectedReachUnguarded : List (String × List Nat) :=
  expectedReach.map fun r => if r.1 = "hasHandle" then (r.1, [0, 1]) else r

/-- Request.servesPacket: READ is served by a read or read-write handle, WRITE by a write or read-write handle,
READDIR by a directory handle; every other handle request (CLOSE, FSTAT, FSETSTAT are dispatched before) passes. -/
def servesPacket : List (String × List String) :=
  [("sshFxpReadPacket", ["Get", "Open"]), ("sshFxpWritePacket", ["Put", "Open"]), ("sshFxpReaddirPacket", ["List"])]

/-- the requests that carry a raw attribute block -/
def attrsTypes : List String := ["sshFxpOpenPacket", "sshFxpSetstatPacket", "sshFxpFsetstatPacket"]

/-- methods of the handler interfaces / of the objects handlers return. -/
def handlerMethods : List String :=
  ["Fileread", "Filewrite", "OpenFile", "Filecmd", "PosixRename", "StatVFS", "Filelist", "Lstat", "Readlink",
   "RealPath"]
def objectMethods : List String := ["ReadAt", "WriteAt", "ListAt"]

def countIn (names : List String) (path : List (String × String)) : Nat :=
  (path.filter (fun c => names.contains c.1)).length

/-- the arguments with which the custom real-path resolver is called, over all paths of the REALPATH case. -/
def realPathArgs (t : List (String × List (List (String × String)))) : List String :=
  ((t.lookup "sshFxpRealpathPacket").getD []).flatMap fun p =>
    (p.filter (fun c => c.1 == "pather.RealPath")).map Prod.snd

end Sftp.Spec.ReqServer
