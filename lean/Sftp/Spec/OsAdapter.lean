/-
  Hand-written expectation for C05: the package os call that corresponds to each SFTP request of
  the os-backed server, in the notation of the translator's call descriptions
  (L:<field> = the request's path field resolved against the server working directory,
   F:<field> = the field verbatim, C:<n> = constant, V:/S:/M: = local values).
  Nothing here is derived from /repo.
-/
namespace Sftp.Spec.OsAdapter

def expectedCalls : List (String × List String) := [
  ("sshFxpStatPacket", ["os.Stat(L:Path)"]),
  ("sshFxpLstatPacket", ["s.lstat(L:Path)"]),
  ("sshFxpMkdirPacket", ["os.Mkdir(L:Path,C:493)"]),                 -- 0755, attributes ignored (documented)
  ("sshFxpRmdirPacket", ["os.Remove(L:Path)"]),
  ("sshFxpRemovePacket", ["os.Remove(L:Filename)"]),
  ("sshFxpRenamePacket", ["os.Rename(L:Oldpath,L:Newpath)"]),
  -- the link text is content, not a location: verbatim (os.Symlink semantics; OpenSSH sftp-server)
  ("sshFxpSymlinkPacket", ["os.Symlink(F:Targetpath,L:Linkpath)"]),
  ("sshFxpReadlinkPacket", ["os.Readlink(L:Path)"]),
  ("sshFxpRealpathPacket", ["filepath.Abs(L:Path)", "cleanPath(V:f)"]),
  ("sshFxpOpendirPacket", ["s.stat(L:Path)", "respond()"]),
  ("sshFxpExtendedPacketHardlink.respond", ["os.Link(L:Oldpath,L:Newpath)"]),
  ("sshFxpExtendedPacketPosixRename.respond", ["os.Rename(L:Oldpath,L:Newpath)"]),
  ("sshFxpExtendedPacketStatVFS.respond", ["getStatVFSForPath(L:Path)"]),
  ("sshFxpOpenPacket.respond", ["os.FileMode(C:420)", "svr.openfile(L:Path,V:osFlags,V:mode)", "svr.nextHandle(V:f)"]),
  -- SETSTAT applies size, permissions, owner, times in this order, each only if flagged (see C17)
  ("sshFxpSetstatPacket.respond",
    ["os.Truncate(L:Path,S:fs.Size)", "os.Chmod(L:Path,M:fs.FileMode)", "os.Chown(L:Path,S:fs.UID,S:fs.GID)",
     "os.Chtimes(L:Path,M:fs.AccessTime,M:fs.ModTime)"]) ]

end Sftp.Spec.OsAdapter
