import Sftp.Model.Err
/-
  Hand-written expectations for the error tables of C10 (server.go statusFromError, errno_posix.go, client.go
  normaliseError).  The theorems of Props/C10.lean are stated over an arbitrary configuration with the decidable
  hypotheses below; `decide` checks them against what the extractor generated from the source.
-/
namespace Sftp.Spec.Err
open Sftp.Err

/-- statusFromError as it was before the F8 repair: no os.IsPermission test. -/
def testsUnfixed : List Test :=
  [.setCode 0, .retIfNil, .setCode 4, .setMsg, .ifNotExist 2, .ifSyscall, .ifIsEOF 1, .ifAsFxerr, .ret]

/-- statusFromError with `if os.IsPermission(err) { Code = SSH_FX_PERMISSION_DENIED; return ret }` right after
the os.IsNotExist test. -/
def testsFixed : List Test :=
  [.setCode 0, .retIfNil, .setCode 4, .setMsg, .ifNotExist 2, .ifPermission 3, .ifSyscall, .ifIsEOF 1, .ifAsFxerr,
   .ret]

/-- translateErrno: 0 ↦ OK, ENOENT ↦ NO_SUCH_FILE, EACCES / EPERM ↦ PERMISSION_DENIED (linux values). -/
def errnoCases : List (List Nat × Nat) := [([0], 0), ([2], 2), ([13, 1], 3)]

/-- translateSyscallError looks at a bare Errno and at an Errno directly inside *os.PathError. -/
def syscallShapes : List String := ["syscall.Errno", "*os.PathError/syscall.Errno"]

/-- normaliseError: EOF ↦ io.EOF, NO_SUCH_FILE ↦ os.ErrNotExist, PERMISSION_DENIED ↦ os.ErrPermission,
OK ↦ nil, every other code unchanged. -/
def norm : NormCfg :=
  { cases := [(1, .ioEOF), (2, .osErrNotExist), (3, .osErrPermission), (0, .nil)], dflt := .same }

def cfgUnfixed : ErrCfg :=
  { tests := testsUnfixed, errnoCases := errnoCases, errnoDefault := 4, syscallShapes := syscallShapes }

def cfgFixed : ErrCfg :=
  { tests := testsFixed, errnoCases := errnoCases, errnoDefault := 4, syscallShapes := syscallShapes }

/-- everything except the test list of statusFromError is as expected. -/
def TablesOk (cfg : ErrCfg) (nc : NormCfg) : Prop :=
  cfg.errnoCases = errnoCases ∧ cfg.errnoDefault = 4 ∧ cfg.syscallShapes = syscallShapes ∧ nc = norm

instance (cfg : ErrCfg) (nc : NormCfg) : Decidable (TablesOk cfg nc) := by unfold TablesOk; infer_instance

/-- statusFromError has the os.IsPermission test, directly after os.IsNotExist. -/
def HasPermTest (cfg : ErrCfg) : Prop := cfg.tests = testsFixed

instance (cfg : ErrCfg) : Decidable (HasPermTest cfg) := by unfold HasPermTest; infer_instance

/-- statusFromError is one of the two versions above. -/
def TestsKnown (cfg : ErrCfg) : Prop := cfg.tests = testsUnfixed ∨ cfg.tests = testsFixed

instance (cfg : ErrCfg) : Decidable (TestsKnown cfg) := by unfold TestsKnown; infer_instance

/-! ### the families of the property -/

/-- the standard errors of os / io / syscall and "any other error", bare.  `syscall.Errno(0)` is not an error
value any library returns and is deliberately answered SSH_FX_OK by translateErrno; it is left out. -/
def isStd : GoErr → Bool
  | .ioEOF => true
  | .osErrNotExist => true
  | .osErrPermission => true
  | .osErrExist => true
  | .other _ => true
  | .errno n => n != 0
  | _ => false

/-- The error values the property speaks about: nil; an SFTP status code (`fxerr`); a standard or other error,
bare or inside ONE of os's wrappers (*PathError, *LinkError, *SyscallError) — for every errno value. -/
def inFamilies : GoErr → Bool
  | .nil => true
  | .fxerr _ => true
  | .pathError e => isStd e
  | .linkError e => isStd e
  | .syscallError e => isStd e
  | e => isStd e

/-- Exactly the inputs of known defect F8: the permission family where statusFromError (without the
os.IsPermission test) does not see it — bare os.ErrPermission, os.ErrPermission inside any wrapper, and
EACCES / EPERM inside *LinkError or *SyscallError. -/
def isF8 : GoErr → Bool
  | .osErrPermission => true
  | .pathError .osErrPermission => true
  | .linkError .osErrPermission => true
  | .syscallError .osErrPermission => true
  | .linkError (.errno n) => n == EACCES || n == EPERM
  | .syscallError (.errno n) => n == EACCES || n == EPERM
  | _ => false

end Sftp.Spec.Err
