import Sftp.Model.Transfer
/-
  OsFile: the reference an sftp.File's implicit offset is compared with (C12) — the offset and
  closed-state semantics of an os.File.

  The reference is told how many bytes the call *transferred* (`moved`) and the current size of
  the file; it does not look at how the client computed its offset.
    Read / Write / ReadFrom / WriteTo  start at the current offset and advance it by `moved`;
    ReadAt / WriteAt / Stat / Truncate leave it alone;
    Seek                               whence 0/1/2 = start/current/end relative, a negative
                                       target or an unknown whence is rejected without moving;
    Close                              closes; a closed file ignores every call (ErrClosed).
-/
namespace Sftp.Spec.OsFile
open Sftp Sftp.Transfer

structure OsSt where
  offset : Nat := 0
  closed : Bool := false
  deriving Repr, DecidableEq

/-- `statOk` = the size needed by an end-relative Seek could be obtained. -/
def osStep (size : Nat) (statOk : Bool) (s : OsSt) (c : Call) (moved : Nat) : OsSt :=
  if s.closed then s else
  match c with
  | .read _ | .write _ | .readFrom _ _ | .readFromConc _ _ | .writeTo =>
    { s with offset := s.offset + moved }
  | .readAt _ _ | .writeAt _ _ | .stat | .truncate _ => s
  | .seek off whence =>
    let target : Option Int :=
      match whence with
      | 0 => some off
      | 1 => some (off + s.offset)
      | 2 => if statOk then some (off + size) else none
      | _ => none
    match target with
    | some t => if t < 0 then s else { s with offset := t.toNat }
    | none => s
  | .close => { s with closed := true }

/-- Result every method of a closed os.File gives. -/
def closedResult : Result := { n := 0, err := some .closed, data := [] }

/-- Length of the intact prefix of a chunked write: total size of the leading chunks the server
accepts (C13: "the File offset marks the end of the intact prefix"). -/
def intactPrefix (wrFail : Nat → Option Nat) : List W → Nat
  | [] => 0
  | w :: rest => if (wrFail w.off).isSome then 0 else w.d.length + intactPrefix wrFail rest

/-- Bytes transferred by a call, as a function of what it returned: the count, except for a
failed ReadFrom, whose count is the bytes *consumed* and whose transfer is the intact prefix. -/
def moved (cfg : Cfg) (sv : Served) (s : FileSt) (c : Call) (r : Result) : Nat :=
  match c with
  | .readFrom src _ | .readFromConc src _ =>
    if r.err.isNone then r.n else intactPrefix sv.wrFail (chunkWrites cfg.maxPacket s.offset src)
  | _ => r.n

end Sftp.Spec.OsFile
