/-
  Hand-written expectation for C09: which SFTP v3 requests may change the file system
  (draft-ietf-secsh-filexfer-02 §6 and OpenSSH PROTOCOL §4), independent of /repo.
-/
namespace Sftp.Spec.Gate

def fxfWrite : Nat := 0x02
def fxfCreat : Nat := 0x08
def fxfTrunc : Nat := 0x10

/-- type bytes of requests that always modify: WRITE SETSTAT FSETSTAT REMOVE MKDIR RMDIR RENAME SYMLINK -/
def mutatingTypes : List Nat := [6, 9, 10, 13, 14, 15, 18, 20]
/-- type bytes of requests that only read: INIT CLOSE READ LSTAT FSTAT OPENDIR READDIR REALPATH STAT READLINK -/
def readingTypes : List Nat := [1, 4, 5, 7, 8, 11, 12, 16, 17, 19]
def mutatingExt : List String := ["posix-rename@openssh.com", "hardlink@openssh.com"]
def readingExt : List String := ["statvfs@openssh.com"]

/-- SSH_FXP_OPEN modifies (or gives a handle that may) iff it asks for write access, creation or truncation. -/
def openMayMutate (pflags : Nat) : Bool :=
  pflags &&& (fxfWrite ||| fxfCreat ||| fxfTrunc) != 0

def mayMutate (typ pflags : Nat) (ext : String) : Bool :=
  mutatingTypes.contains typ || (typ == 3 && openMayMutate pflags) || (typ == 200 && mutatingExt.contains ext)

def onlyReads (typ pflags : Nat) (ext : String) : Bool :=
  readingTypes.contains typ || (typ == 3 && !openMayMutate pflags) || (typ == 200 && readingExt.contains ext)

end Sftp.Spec.Gate
