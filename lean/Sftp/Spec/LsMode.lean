/-
  Hand-written reference: the first column of `ls -l` for a POSIX mode word (POSIX.1 `ls`,
  "file mode" field), as code points.
    type:   S_IFREG '-'  S_IFDIR 'd'  S_IFLNK 'l'  S_IFBLK 'b'  S_IFCHR 'c'  S_IFIFO 'p'  S_IFSOCK 's', else '?'
    per class (user, group, other): 'r' / '-', 'w' / '-', and in the execute position
      'x' / '-'           without the class's special bit,
      lower / upper case  of s (user: S_ISUID), s (group: S_ISGID), t (other: S_ISVTX)
                          with it: lower case iff THE SAME CLASS's execute bit is set.
-/
namespace Sftp.Spec.LsMode

def typeCode (m : Nat) : Nat :=
  let t := m / 4096 % 16
  if t = 8 then 45        -- '-'
  else if t = 4 then 100  -- 'd'
  else if t = 10 then 108 -- 'l'
  else if t = 6 then 98   -- 'b'
  else if t = 2 then 99   -- 'c'
  else if t = 1 then 112  -- 'p'
  else if t = 12 then 115 -- 's'
  else 63                 -- '?'

/-- the three characters of the class whose execute bit is bit `x` (read = x+2, write = x+1);
`sp` is the class's special bit, `lo`/`up` its two renderings -/
def classCodes (m x sp lo up : Nat) : List Nat :=
  [ if m.testBit (x + 2) then 114 else 45,      -- 'r'
    if m.testBit (x + 1) then 119 else 45,      -- 'w'
    match m.testBit sp, m.testBit x with
    | true, true => lo
    | true, false => up
    | false, true => 120                        -- 'x'
    | false, false => 45 ]

def lsModeCodes (m : Nat) : List Nat :=
  typeCode m :: (classCodes m 6 11 115 83       -- user:  setuid 's' / 'S'
    ++ classCodes m 3 10 115 83                 -- group: setgid 's' / 'S'
    ++ classCodes m 0 9 116 84)                 -- other: sticky 't' / 'T'

/-- POSIX `ls -l` mode column of the mode word `m` -/
def lsModeString (m : Nat) : String := String.ofList ((lsModeCodes m).map Char.ofNat)

end Sftp.Spec.LsMode
