import Sftp.Model.Codec
/-
  Spec-Layout: the packet layouts of SFTP protocol version 3, transcribed BY HAND from

    * draft-ietf-secsh-filexfer-02 (sections 3–7: general packet format, initialisation,
      file attributes, requests, responses), and
    * OpenSSH's PROTOCOL file (section "sftp": the reversed SSH_FXP_SYMLINK arguments and the
      extensions statvfs@ / fstatvfs@ / posix-rename@ / hardlink@ / fsync@openssh.com),

  independent of the Go source.  Each row: logical packet kind, SSH_FXP_* type byte, and the kinds
  of the fields that follow the type byte (the request id first, where the packet has one).

  The kind names are those of `VerifPkt.Kind` in /repo/verif_export.go.
-/
namespace Sftp.Spec
open Sftp Sftp.Codec

/-- The fixed extension name that opens an SSH_FXP_EXTENDED request. -/
def ext (s : String) : FKind := .cstr (strBytes s)

/-- `kind ↦ (type byte, field kinds after the type byte)`. -/
def layout : List (String × Nat × List FKind) := [
  -- draft-02 §4: uint32 version, then extension pairs until the packet ends (no request id)
  ("Init", 1, [.u32, .pairs]),
  ("Version", 2, [.u32, .pairs]),
  -- draft-02 §6.3: id, string filename, uint32 pflags, ATTRS attrs
  ("Open", 3, [.u32, .str, .u32, .attrs]),
  ("Close", 4, [.u32, .str]),
  -- §6.4: id, string handle, uint64 offset, uint32 len
  ("Read", 5, [.u32, .str, .u64, .u32]),
  -- §6.4: id, string handle, uint64 offset, string data
  ("Write", 6, [.u32, .str, .u64, .lenData]),
  ("Lstat", 7, [.u32, .str]),
  ("Fstat", 8, [.u32, .str]),
  -- §6.9: id, string path / handle, ATTRS attrs
  ("Setstat", 9, [.u32, .str, .attrs]),
  ("Fsetstat", 10, [.u32, .str, .attrs]),
  ("Opendir", 11, [.u32, .str]),
  ("Readdir", 12, [.u32, .str]),
  ("Remove", 13, [.u32, .str]),
  -- §6.6: id, string path, ATTRS attrs
  ("Mkdir", 14, [.u32, .str, .attrs]),
  ("Rmdir", 15, [.u32, .str]),
  ("Realpath", 16, [.u32, .str]),
  ("Stat", 17, [.u32, .str]),
  -- §6.5: id, string oldpath, string newpath
  ("Rename", 18, [.u32, .str, .str]),
  ("Readlink", 19, [.u32, .str]),
  -- §6.10 says linkpath, targetpath; OpenSSH PROTOCOL §4.1: the arguments are REVERSED on the
  -- wire (targetpath first, then linkpath), and that is what every deployed peer speaks.
  ("Symlink", 20, [.u32, .str, .str]),
  -- §7: id, uint32 error/status code, string error message, string language tag
  ("Status", 101, [.u32, .u32, .str, .str]),
  ("Handle", 102, [.u32, .str]),
  -- §7: id, string data
  ("Data", 103, [.u32, .lenData]),
  -- §7: id, uint32 count, count × (string filename, string longname, ATTRS attrs)
  ("Name", 104, [.u32, .names]),
  ("Attrs", 105, [.u32, .attrs]),
  -- §8 + OpenSSH PROTOCOL: SSH_FXP_EXTENDED = id, string extended-request, request-specific data
  ("ExtStatVFS", 200, [.u32, ext "statvfs@openssh.com", .str]),
  ("ExtFstatVFS", 200, [.u32, ext "fstatvfs@openssh.com", .str]),
  ("ExtPosixRename", 200, [.u32, ext "posix-rename@openssh.com", .str, .str]),
  ("ExtHardlink", 200, [.u32, ext "hardlink@openssh.com", .str, .str]),
  ("ExtFsync", 200, [.u32, ext "fsync@openssh.com", .str]),
  -- OpenSSH PROTOCOL: reply to (f)statvfs = SSH_FXP_EXTENDED_REPLY, id, eleven uint64
  -- (f_bsize f_frsize f_blocks f_bfree f_bavail f_files f_ffree f_favail f_fsid f_flag f_namemax)
  ("VFS", 201, [.u32, .u64, .u64, .u64, .u64, .u64, .u64, .u64, .u64, .u64, .u64, .u64])]

/-- Request kinds of draft-02 (everything a client may send; type bytes 1 and 3…20). -/
def draftRequests : List String :=
  ["Init", "Open", "Close", "Read", "Write", "Lstat", "Fstat", "Setstat", "Fsetstat", "Opendir",
   "Readdir", "Remove", "Mkdir", "Rmdir", "Realpath", "Stat", "Rename", "Readlink", "Symlink"]

/-- The OpenSSH extended requests, with their wire names. -/
def extRequests : List (String × String) :=
  [("ExtStatVFS", "statvfs@openssh.com"), ("ExtFstatVFS", "fstatvfs@openssh.com"),
   ("ExtPosixRename", "posix-rename@openssh.com"), ("ExtHardlink", "hardlink@openssh.com"),
   ("ExtFsync", "fsync@openssh.com")]

/-- SSH_FXP_EXTENDED. -/
def extendedType : Nat := 200

/-- Largest packet length accepted (OpenSSH's SFTP_MAX_MSG_LENGTH, 256 KiB). -/
def maxPacket : Nat := 256 * 1024

/-! ### refinement of the ATTRS block

The main codec (packet.go) does not decode the attribute block of a request while unmarshalling:
it keeps the `uint32 flags` word and the raw by-flag bytes that follow (`u32 Flags`, `rest Attrs`).
For SSH_FXP_MKDIR it keeps (and sends) ONLY the flags word: that is the layout of the draft
exactly when no attribute is present, i.e. under the well-formedness condition `Mkdir.Flags = 0`. -/

inductive Refinement where
  /-- field kinds identical -/
  | exact
  /-- trailing `attrs` represented as `u32 flags` + `rest` -/
  | flagsRest
  /-- trailing `attrs` represented by its `u32 flags` word alone (faithful only for flags = 0) -/
  | flagsOnly
  deriving DecidableEq, Repr

def refinement (impl spec : List FKind) : Option Refinement :=
  if impl = spec then some .exact
  else match spec.reverse, impl.reverse with
    | .attrs :: s, .rest :: .u32 :: i => if s = i then some .flagsRest else none
    | .attrs :: s, .u32 :: i => if s = i then some .flagsOnly else none
    | _, _ => none

/-- `impl` is the layout `spec`, possibly with the trailing ATTRS block in its raw form. -/
def refines (impl spec : List FKind) : Bool := (refinement impl spec).isSome

/-- Kinds for which the flags-only form is tolerated, with the condition that makes it faithful. -/
def flagsOnlyKinds : List (String × String) := [("Mkdir", "Mkdir.Flags = 0")]

/-- The by-flag bytes of an attribute block: what follows the flags word. -/
def attrBody (a : Attrs) : Bytes := (encAttrs a).drop 4

/-! ### field roles

The meaning of each field of a layout, in wire order.  Two adjacent fields of the same kind
(oldpath/newpath, targetpath/linkpath, the eleven statvfs counters) differ only by role, so the
kinds alone cannot tell a swap. -/

def roles : List (String × List String) := [
  ("Init", ["version", "extensions"]),
  ("Version", ["version", "extensions"]),
  ("Open", ["id", "path", "pflags", "attrs"]),
  ("Close", ["id", "handle"]),
  ("Read", ["id", "handle", "offset", "len"]),
  ("Write", ["id", "handle", "offset", "data"]),
  ("Lstat", ["id", "path"]),
  ("Fstat", ["id", "handle"]),
  ("Setstat", ["id", "path", "attrs"]),
  ("Fsetstat", ["id", "handle", "attrs"]),
  ("Opendir", ["id", "path"]),
  ("Readdir", ["id", "handle"]),
  ("Remove", ["id", "path"]),
  ("Mkdir", ["id", "path", "attrs"]),
  ("Rmdir", ["id", "path"]),
  ("Realpath", ["id", "path"]),
  ("Stat", ["id", "path"]),
  ("Rename", ["id", "oldpath", "newpath"]),
  ("Readlink", ["id", "path"]),
  -- OpenSSH order
  ("Symlink", ["id", "targetpath", "linkpath"]),
  ("Status", ["id", "code", "message", "language"]),
  ("Handle", ["id", "handle"]),
  ("Data", ["id", "data"]),
  ("Name", ["id", "entries"]),
  ("Attrs", ["id", "attrs"]),
  ("ExtStatVFS", ["id", "extname", "path"]),
  ("ExtFstatVFS", ["id", "extname", "handle"]),
  ("ExtPosixRename", ["id", "extname", "oldpath", "newpath"]),
  ("ExtHardlink", ["id", "extname", "oldpath", "newpath"]),
  ("ExtFsync", ["id", "extname", "handle"]),
  ("VFS", ["id", "bsize", "frsize", "blocks", "bfree", "bavail", "files", "ffree", "favail", "fsid",
           "flag", "namemax"])]

/-- Go struct field name (either codec) ↦ role. -/
def roleOfName : List (String × String) := [
  ("ID", "id"), ("Version", "version"), ("Extensions", "extensions"),
  ("Path", "path"), ("Filename", "path"), ("Pflags", "pflags"), ("PFlags", "pflags"),
  ("Flags", "attrs.flags"), ("Attrs", "attrs"), ("info", "attrs"),
  ("Handle", "handle"), ("Offset", "offset"), ("Len", "len"), ("Length", "len"), ("Data", "data"),
  ("Oldpath", "oldpath"), ("OldPath", "oldpath"), ("Newpath", "newpath"), ("NewPath", "newpath"),
  ("Targetpath", "targetpath"), ("TargetPath", "targetpath"), ("Linkpath", "linkpath"), ("LinkPath", "linkpath"),
  ("Code", "code"), ("StatusCode", "code"), ("msg", "message"), ("ErrorMessage", "message"),
  ("lang", "language"), ("LanguageTag", "language"),
  ("NameAttrs", "entries"), ("Entries", "entries"),
  ("ext", "extname"), ("ExtendedRequest", "extname"),
  ("Bsize", "bsize"), ("BlockSize", "bsize"), ("Frsize", "frsize"), ("FragmentSize", "frsize"),
  ("Blocks", "blocks"), ("Bfree", "bfree"), ("BlocksFree", "bfree"), ("Bavail", "bavail"), ("BlocksAvail", "bavail"),
  ("Files", "files"), ("Ffree", "ffree"), ("FilesFree", "ffree"), ("Favail", "favail"), ("FilesAvail", "favail"),
  ("Fsid", "fsid"), ("FilesystemID", "fsid"), ("Flag", "flag"), ("MountFlags", "flag"),
  ("Namemax", "namemax"), ("MaxNameLength", "namemax")]

/-- Per-kind exceptions.  filexfer's `FStatVFSExtendedPacket` calls its handle `Path`. -/
def roleOverride : List ((String × String) × String) := [(("ExtFstatVFS", "Path"), "handle")]

/-- Role of an implementation field of a packet of logical kind `kind`. -/
def roleOfField (kind : String) (f : FieldD) : Option String :=
  if f.kind = .rest then some "attrs.body"
  else match roleOverride.lookup (kind, f.name) with
    | some r => some r
    | none => roleOfName.lookup f.name

/-- The roles of the specification, with the trailing ATTRS block in the given form. -/
def refineRoles (r : Refinement) (rs : List String) : List String :=
  match r with
  | .exact => rs
  | .flagsRest => rs.dropLast ++ ["attrs.flags", "attrs.body"]
  | .flagsOnly => rs.dropLast ++ ["attrs.flags"]

end Sftp.Spec
