import Sftp.Model.AbsFS
/-
  Spec-OsComposite: reference semantics of `os.Remove`, `os.MkdirAll`, `os.RemoveAll` on the abstract file
  system, written from the package os documentation (and, for the corners the documentation leaves open —
  symbolic links, components that are files — from the kernel behaviour the harness observes with package os).
  Nothing here is derived from /repo, and nothing here is shaped like the client's algorithms: each function is
  ONE classification of the path followed by ONE change of the tree.

  os.Remove    "Remove removes the named file or (empty) directory."
  os.MkdirAll  "MkdirAll creates a directory named path, along with any necessary parents, and returns nil, or
                else returns an error. … If path is already a directory, MkdirAll does nothing and returns nil."
  os.RemoveAll "RemoveAll removes path and any children it contains. It removes everything it can but returns
                the first error it encounters. If the path does not exist, RemoveAll returns nil."
-/
namespace Sftp.Spec.OsComposite
open Sftp.AbsFS

/-- os.Remove -/
def osRemove (fs : FS) (p : Path) : FS × Result :=
  match locate fs p with
  | .entry _ => (del fs p, .ok)                       -- a file or a symbolic link (the link, not its target)
  | .dirAt =>
    if p = [] then (fs, .errOther)                    -- "/" is busy
    else if hasChild fs p then (fs, .errNotEmpty)     -- only EMPTY directories
    else (del fs p, .ok)
  | .absent => (fs, .errNoEnt)
  | .blocked r => (fs, r)

/-- os.MkdirAll: walk down the existing real directories; at the first component that is not one:
missing → create it and everything after it (`AbsFS.chain`); a file → ENOTDIR; a symbolic link → what it resolves to decides:
a directory is fine when it is the LAST component (beyond that the model does not follow links: errOther),
a non-directory is ENOTDIR, a dangling or looping link cannot be replaced: EEXIST. -/
def osMkdirAll (fs : FS) (p : Path) : FS × Result :=
  match split fs [] p with
  | (_, []) => (fs, .ok)                              -- already a directory
  | (d, c :: rest) =>
    let q := d ++ [c]
    match get fs q with
    | none => (fs ++ chain q rest, .ok)
    | some .file => (fs, .errNotDir)
    | some .dir => (fs, .errOther)                    -- unreachable: `split` would have gone on
    | some (.link _) =>
      match stat fs q with
      | (.ok, .dir) => if rest = [] then (fs, .ok) else (fs, .errOther)
      | (.ok, _) => (fs, .errNotDir)
      | _ => (fs, .errExist)

/-- os.RemoveAll: a missing path (or missing parent) is nil; a component that is a file is ENOTDIR
(unlinkat reports it); a non-directory (file, link — never followed) is removed; a directory is removed with
everything below it; "/" loses everything but cannot be removed itself. -/
def osRemoveAll (fs : FS) (p : Path) : FS × Result :=
  match locate fs p with
  | .absent => (fs, .ok)
  | .blocked .errNoEnt => (fs, .ok)
  | .blocked r => (fs, r)
  | .entry _ => (del fs p, .ok)
  | .dirAt => if p = [] then (delTree fs [], .errOther) else (delTree fs p, .ok)

end Sftp.Spec.OsComposite
