import Sftp.Model.Path
/-
  Helper lemmas for C10 (path cleaning): split/join/components algebra and the
  stack invariants of `push`.
-/
namespace Sftp.Path

/-- A possible stack element: non-empty and slash-free. -/
def Seg (s : Bytes) : Prop := s ≠ [] ∧ slash ∉ s

/-- A component Clean keeps verbatim. -/
def Normal (s : Bytes) : Prop := s ≠ [] ∧ s ≠ [dot] ∧ s ≠ [dot, dot] ∧ slash ∉ s

theorem Normal.seg {s : Bytes} (h : Normal s) : Seg s := ⟨h.1, h.2.2.2⟩

theorem seg_dotdot : Seg [dot, dot] := ⟨by simp, by decide⟩

/-- `"/" ++ strings.Join(segs, "/")` -/
def ofSegs (segs : List Bytes) : Bytes := slash :: join segs

/-! ### split / join -/

theorem split_ne_nil (p : Bytes) : split p ≠ [] := by
  cases p with
  | nil => simp [split]
  | cons c cs =>
    unfold split
    split
    · simp
    · split <;> simp

theorem split_noslash (p : Bytes) : ∀ s ∈ split p, slash ∉ s := by
  induction p with
  | nil => intro s hs; simp [split] at hs; subst hs; simp
  | cons c cs ih =>
    intro s hs
    unfold split at hs
    split at hs
    · rcases List.mem_cons.mp hs with rfl | hs
      · simp
      · exact ih s hs
    · rename_i hc
      split at hs
      · simp at hs; subst hs; simp; exact fun h => hc h.symm
      · rename_i s0 ss heq
        rcases List.mem_cons.mp hs with rfl | hs
        · have := ih s0 (by rw [heq]; simp)
          simp only [List.mem_cons, not_or]
          exact ⟨fun h => hc h.symm, this⟩
        · exact ih s (by rw [heq]; simp [hs])

theorem split_slash_cons (p : Bytes) : split (slash :: p) = [] :: split p := by
  simp [split]

/-- `split` is a monoid-like morphism at every '/'. -/
theorem split_append (a b : Bytes) : split (a ++ slash :: b) = split a ++ split b := by
  induction a with
  | nil => simp [split]
  | cons c cs ih =>
    by_cases hc : c = slash
    · subst hc
      simp only [List.cons_append, split_slash_cons, ih]
    · simp only [List.cons_append]
      rw [split, split]
      simp only [hc, if_false, ih]
      cases h : split cs with
      | nil => exact absurd h (split_ne_nil cs)
      | cons s ss => simp

theorem split_noslash_eq {s : Bytes} (h : slash ∉ s) : split s = [s] := by
  induction s with
  | nil => rfl
  | cons c cs ih =>
    simp only [List.mem_cons, not_or] at h
    rw [split]
    have hc : c ≠ slash := fun e => h.1 e.symm
    simp [hc, ih h.2]

theorem join_cons_cons (s s' : Bytes) (ss : List Bytes) :
    join (s :: s' :: ss) = s ++ slash :: join (s' :: ss) := rfl

theorem join_cons_of_ne_nil (s : Bytes) {ss : List Bytes} (h : ss ≠ []) :
    join (s :: ss) = s ++ slash :: join ss := by
  cases ss with
  | nil => exact absurd rfl h
  | cons s' ss => rfl

theorem join_append {a b : List Bytes} (ha : a ≠ []) (hb : b ≠ []) :
    join (a ++ b) = join a ++ slash :: join b := by
  induction a with
  | nil => exact absurd rfl ha
  | cons s ss ih =>
    cases ss with
    | nil => simp [join_cons_of_ne_nil s hb, join]
    | cons s' ss =>
      have : (s' :: ss) ++ b ≠ [] := by simp
      simp only [List.cons_append] at this ⊢
      rw [join_cons_of_ne_nil s this, join_cons_cons]
      have := ih (by simp)
      simp only [List.cons_append] at this
      rw [this]; simp

theorem join_split (p : Bytes) : join (split p) = p := by
  induction p with
  | nil => rfl
  | cons c cs ih =>
    rw [split]
    split
    · rename_i hc
      rw [join_cons_of_ne_nil _ (split_ne_nil cs), ih, hc]; rfl
    · split
      · rename_i h; exact absurd h (split_ne_nil cs)
      · rename_i s ss h
        rw [h] at ih
        cases ss with
        | nil => simp only [join] at ih ⊢; rw [ih]
        | cons s' ss =>
          rw [join_cons_cons] at ih ⊢
          rw [← ih]; rfl

theorem split_join {segs : List Bytes} (hne : segs ≠ []) (h : ∀ s ∈ segs, slash ∉ s) :
    split (join segs) = segs := by
  induction segs with
  | nil => exact absurd rfl hne
  | cons s ss ih =>
    cases ss with
    | nil => simpa [join] using split_noslash_eq (h s (by simp))
    | cons s' ss =>
      rw [join_cons_cons, split_append, split_noslash_eq (h s (by simp)),
        ih (by simp) (fun x hx => h x (by simp [hx]))]
      rfl

theorem join_eq_nil {segs : List Bytes} (h : ∀ s ∈ segs, s ≠ []) (hj : join segs = []) :
    segs = [] := by
  cases segs with
  | nil => rfl
  | cons s ss =>
    exfalso
    have hs := h s (by simp)
    cases ss with
    | nil => exact hs (by simpa [join] using hj)
    | cons s' ss => rw [join_cons_cons] at hj; simp at hj

theorem head?_join {s : Bytes} {ss : List Bytes} (hs : s ≠ []) :
    (join (s :: ss)).head? = s.head? := by
  cases ss with
  | nil => rfl
  | cons s' ss =>
    rw [join_cons_cons]
    cases s with
    | nil => exact absurd rfl hs
    | cons c cs => rfl

/-! ### components -/

theorem components_append (a b : Bytes) :
    components (a ++ slash :: b) = components a ++ components b := by
  simp [components, split_append]

theorem components_slash_cons (p : Bytes) : components (slash :: p) = components p := by
  simp [components, split_slash_cons]

theorem components_nil : components [] = [] := by simp [components, split]

theorem components_join {segs : List Bytes} (h : ∀ s ∈ segs, Seg s) :
    components (join segs) = segs := by
  cases segs with
  | nil => exact components_nil
  | cons s ss =>
    unfold components
    rw [split_join (by simp) (fun x hx => (h x hx).2)]
    apply List.filter_eq_self.mpr
    intro x hx
    simpa using (h x hx).1

theorem components_ofSegs {segs : List Bytes} (h : ∀ s ∈ segs, Seg s) :
    components (ofSegs segs) = segs := by
  rw [ofSegs, components_slash_cons, components_join h]

theorem components_seg (p : Bytes) : ∀ s ∈ components p, Seg s := by
  intro s hs
  simp only [components, List.mem_filter, decide_eq_true_eq] at hs
  exact ⟨hs.2, split_noslash p s hs.1⟩

/-! ### push -/

theorem push_nil (r : Bool) (st : List Bytes) : push r st [] = st := by simp [push]

theorem push_dot (r : Bool) (st : List Bytes) : push r st [dot] = st := by simp [push, isDot]

theorem push_normal (r : Bool) (st : List Bytes) {s : Bytes} (h : Normal s) :
    push r st s = st ++ [s] := by
  unfold push
  have h1 : s ≠ [] := h.1
  have h2 : isDot s = false := by simpa [isDot] using h.2.1
  have h3 : isDotDot s = false := by simpa [isDotDot] using h.2.2.1
  simp [h1, h2, h3]

theorem foldl_push_filter (r : Bool) (l : List Bytes) (st : List Bytes) :
    l.foldl (push r) st = (l.filter (fun s => s ≠ [])).foldl (push r) st := by
  induction l generalizing st with
  | nil => rfl
  | cons x xs ih =>
    by_cases hx : x = []
    · subst hx; simp [push_nil, ih]
    · simp [hx, ih]

theorem foldl_push_normals (r : Bool) (l : List Bytes) (h : ∀ s ∈ l, Normal s) (st : List Bytes) :
    l.foldl (push r) st = st ++ l := by
  induction l generalizing st with
  | nil => simp
  | cons x xs ih =>
    rw [List.foldl_cons, push_normal r st (h x (by simp)), ih (fun s hs => h s (by simp [hs]))]
    simp

/-- Every component is ignored, is "..", or is Normal. -/
theorem seg_cases {s : Bytes} (h : Seg s) : s = [dot] ∨ s = [dot, dot] ∨ Normal s := by
  by_cases h1 : s = [dot]
  · exact .inl h1
  · by_cases h2 : s = [dot, dot]
    · exact .inr (.inl h2)
    · exact .inr (.inr ⟨h.1, h1, h2, h.2⟩)

theorem push_dotdot_true (st : List Bytes) (h : ∀ s ∈ st, Normal s) :
    push true st [dot, dot] = st.dropLast := by
  unfold push
  have : ([dot, dot] : Bytes) ≠ [] := by simp
  simp only [this, isDot, isDotDot, decide_false, Bool.false_or, beq_self_eq_true, if_true]
  have hd : ([dot, dot] == [dot]) = false := by decide
  simp only [hd, Bool.false_eq_true, if_false]
  split
  · rename_i top htop
    have hmem : top ∈ st := List.mem_of_getLast? htop
    have hn := (h top hmem).2.2.1
    have : (top == [dot, dot]) = false := by simpa using hn
    simp [this]
  · rename_i hnone
    have : st = [] := by simpa using hnone
    subst this; rfl

theorem push_true_normal (st : List Bytes) {seg : Bytes} (hseg : Seg seg)
    (h : ∀ s ∈ st, Normal s) : ∀ s ∈ push true st seg, Normal s := by
  rcases seg_cases hseg with rfl | rfl | hn
  · rw [push_dot]; exact h
  · rw [push_dotdot_true st h]; intro s hs; exact h s (List.dropLast_subset _ hs)
  · rw [push_normal _ _ hn]
    intro s hs
    rcases List.mem_append.mp hs with hs | hs
    · exact h s hs
    · simp at hs; subst hs; exact hn

theorem foldl_push_true_normal (l : List Bytes) (hl : ∀ s ∈ l, Seg s) (st : List Bytes)
    (h : ∀ s ∈ st, Normal s) : ∀ s ∈ l.foldl (push true) st, Normal s := by
  induction l generalizing st with
  | nil => exact h
  | cons x xs ih =>
    simp only [List.foldl_cons]
    exact ih (fun s hs => hl s (by simp [hs])) _ (push_true_normal st (hl x (by simp)) h)

/-- The relative-path stack only ever holds non-empty slash-free components. -/
theorem push_seg (r : Bool) (st : List Bytes) {seg : Bytes} (hseg : Seg seg)
    (h : ∀ s ∈ st, Seg s) : ∀ s ∈ push r st seg, Seg s := by
  have happ : ∀ s ∈ st ++ [seg], Seg s := by
    intro s hs
    rcases List.mem_append.mp hs with hs | hs
    · exact h s hs
    · simp at hs; subst hs; exact hseg
  unfold push
  split
  · exact h
  · split
    · split
      · split
        · exact happ
        · intro s hs; exact h s (List.dropLast_subset _ hs)
      · split
        · exact h
        · exact happ
    · exact happ

theorem foldl_push_seg (r : Bool) (l : List Bytes) (hl : ∀ s ∈ l, Seg s) (st : List Bytes)
    (h : ∀ s ∈ st, Seg s) : ∀ s ∈ l.foldl (push r) st, Seg s := by
  induction l generalizing st with
  | nil => exact h
  | cons x xs ih =>
    simp only [List.foldl_cons]
    exact ih (fun s hs => hl s (by simp [hs])) _ (push_seg r st (hl x (by simp)) h)

/-! ### clean -/

theorem isAbs_iff {p : Bytes} : isAbs p = true ↔ ∃ t, p = slash :: t := by
  cases p with
  | nil => simp [isAbs]
  | cons c cs => simp [isAbs]

theorem clean_abs {p : Bytes} (h : isAbs p = true) :
    clean p = ofSegs ((components p).foldl (push true) []) := by
  have hne : p ≠ [] := by intro e; subst e; simp [isAbs] at h
  unfold clean
  simp only [hne, if_false, h, if_true, ofSegs]
  rw [foldl_push_filter]; rfl

theorem clean_rel {p : Bytes} (h : isAbs p = false) :
    clean p = (let st := (components p).foldl (push false) []
               if st = [] then [dot] else join st) := by
  by_cases hne : p = []
  · subst hne; simp [clean, components_nil]
  · unfold clean
    simp only [hne, if_false, h, Bool.false_eq_true]
    rw [foldl_push_filter]; rfl

theorem clean_ofSegs {segs : List Bytes} (h : ∀ s ∈ segs, Normal s) :
    clean (ofSegs segs) = ofSegs segs := by
  rw [clean_abs (by simp [ofSegs, isAbs]), components_ofSegs (fun s hs => (h s hs).seg),
    foldl_push_normals true segs h]
  simp

/-- Clean of a non-rooted path is never absolute. -/
theorem clean_rel_not_abs {p : Bytes} (h : isAbs p = false) : isAbs (clean p) = false := by
  rw [clean_rel h]
  simp only
  split
  · decide
  · rename_i hne
    have hseg := foldl_push_seg false (components p) (components_seg p) [] (by simp)
    revert hne hseg
    generalize (components p).foldl (push false) [] = st
    intro hne hseg
    cases st with
    | nil => exact absurd rfl hne
    | cons s ss =>
      have hs := hseg s (by simp)
      unfold isAbs
      rw [head?_join hs.1]
      cases s with
      | nil => exact absurd rfl hs.1
      | cons c cs =>
        have : c ≠ slash := fun e => hs.2 (by simp [e])
        simp [this]

/-! ### AbsClean -/

theorem normalSeg_iff {s : Bytes} : normalSeg s = true ↔ (s ≠ [] ∧ s ≠ [dot] ∧ s ≠ [dot, dot]) := by
  simp [normalSeg, and_assoc]

theorem absClean_ofSegs {segs : List Bytes} (h : ∀ s ∈ segs, Normal s) : AbsClean (ofSegs segs) := by
  unfold AbsClean ofSegs absClean
  simp only [beq_self_eq_true, Bool.true_and, Bool.or_eq_true, beq_iff_eq, List.all_eq_true]
  cases segs with
  | nil => left; rfl
  | cons s ss =>
    right
    rw [split_join (by simp) (fun x hx => (h x hx).2.2.2)]
    intro x hx
    have := h x hx
    exact normalSeg_iff.mpr ⟨this.1, this.2.1, this.2.2.1⟩

theorem absClean_iff {p : Bytes} :
    AbsClean p ↔ ∃ segs : List Bytes, (∀ s ∈ segs, Normal s) ∧ p = ofSegs segs := by
  constructor
  · intro h
    cases p with
    | nil => simp [AbsClean, absClean] at h
    | cons c rest =>
      simp only [AbsClean, absClean, Bool.and_eq_true, beq_iff_eq, Bool.or_eq_true,
        List.all_eq_true] at h
      obtain ⟨rfl, h⟩ := h
      rcases h with rfl | h
      · exact ⟨[], by simp, rfl⟩
      · refine ⟨split rest, ?_, by rw [ofSegs, join_split]⟩
        intro s hs
        have := normalSeg_iff.mp (h s hs)
        exact ⟨this.1, this.2.1, this.2.2, split_noslash rest s hs⟩
  · rintro ⟨segs, h, rfl⟩
    exact absClean_ofSegs h

theorem AbsClean.isAbs {p : Bytes} (h : AbsClean p) : isAbs p = true := by
  obtain ⟨segs, _, rfl⟩ := absClean_iff.mp h
  simp [ofSegs, Path.isAbs]

theorem clean_absClean_of_abs {p : Bytes} (h : isAbs p = true) : AbsClean (clean p) := by
  rw [clean_abs h]
  exact absClean_ofSegs (foldl_push_true_normal _ (components_seg p) [] (by simp))

theorem clean_of_absClean {p : Bytes} (h : AbsClean p) : clean p = p := by
  obtain ⟨segs, hn, rfl⟩ := absClean_iff.mp h
  exact clean_ofSegs hn

end Sftp.Path

namespace Sftp.Path

/-! ### ".." on a non-empty stack, and the shape of the relative stack -/

def dd : Bytes := [dot, dot]

theorem eq_nil_or_snoc {α} (l : List α) : l = [] ∨ ∃ l' a, l = l' ++ [a] := by
  rcases List.eq_nil_or_concat l with h | ⟨l', a, h⟩
  · exact .inl h
  · exact .inr ⟨l', a, by rw [h, List.concat_eq_append]⟩

theorem push_dotdot_nil_false : push false [] dd = [dd] := by decide

theorem push_dotdot_concat (r : Bool) (st : List Bytes) (top : Bytes) :
    push r (st ++ [top]) dd = if top = dd then st ++ [top] ++ [dd] else st := by
  unfold push
  have h1 : (dd = [] || isDot dd) = false := by decide
  have h2 : isDotDot dd = true := by decide
  simp only [h1, Bool.false_eq_true, if_false, List.getLast?_append, List.getLast?_singleton,
    Option.some_or, isDotDot, beq_iff_eq, List.dropLast_concat]
  rfl

/-- Stack elements are ".." or Normal (never empty, never "."). -/
def DN (st : List Bytes) : Prop := ∀ s ∈ st, s = dd ∨ Normal s

theorem DN.seg {st : List Bytes} (h : DN st) : ∀ s ∈ st, Seg s := by
  intro s hs
  rcases h s hs with rfl | hn
  · exact seg_dotdot
  · exact hn.seg

theorem DN.concat {st : List Bytes} (h : DN st) {s : Bytes} (hs : s = dd ∨ Normal s) : DN (st ++ [s]) := by
  intro x hx
  rcases List.mem_append.mp hx with hx | hx
  · exact h x hx
  · simp at hx; subst hx; exact hs

theorem DN.of_concat {st : List Bytes} {s : Bytes} (h : DN (st ++ [s])) : DN st :=
  fun x hx => h x (by simp [hx])

theorem push_false_DN (st : List Bytes) {seg : Bytes} (hseg : Seg seg) (h : DN st) :
    DN (push false st seg) := by
  rcases seg_cases hseg with rfl | rfl | hn
  · rw [push_dot]; exact h
  · rcases eq_nil_or_snoc st with rfl | ⟨st', top, rfl⟩
    · intro x hx
      rw [show ([dot, dot] : Bytes) = dd from rfl, push_dotdot_nil_false] at hx
      simp at hx; exact .inl hx
    · rw [show ([dot, dot] : Bytes) = dd from rfl, push_dotdot_concat]
      split
      · exact h.concat (.inl rfl)
      · exact h.of_concat
  · rw [push_normal _ _ hn]; exact h.concat (.inr hn)

theorem foldl_push_false_DN (l : List Bytes) (hl : ∀ s ∈ l, Seg s) (st : List Bytes) (h : DN st) :
    DN (l.foldl (push false) st) := by
  induction l generalizing st with
  | nil => exact h
  | cons x xs ih =>
    simp only [List.foldl_cons]
    exact ih (fun s hs => hl s (by simp [hs])) _ (push_false_DN st (hl x (by simp)) h)

/-- Cleaning the relative prefix first and then continuing under a rooted stack `S` is the same as
    feeding the raw components to the rooted stack (`Clean(base + "/" + Clean(p)) = Clean(base + "/" + p)`). -/
theorem foldl_push_true_push_false (S : List Bytes) (l : List Bytes) (hl : ∀ s ∈ l, Seg s)
    (acc : List Bytes) (hacc : DN acc) :
    (l.foldl (push false) acc).foldl (push true) S = l.foldl (push true) (acc.foldl (push true) S) := by
  induction l generalizing acc with
  | nil => rfl
  | cons x xs ih =>
    simp only [List.foldl_cons]
    rw [ih (fun s hs => hl s (by simp [hs])) _ (push_false_DN acc (hl x (by simp)) hacc)]
    congr 1
    rcases seg_cases (hl x (by simp)) with rfl | rfl | hn
    · simp [push_dot]
    · rw [show ([dot, dot] : Bytes) = dd from rfl]
      rcases eq_nil_or_snoc acc with rfl | ⟨acc', top, rfl⟩
      · rw [push_dotdot_nil_false]; rfl
      · rw [push_dotdot_concat]
        split
        · simp [List.foldl_append]
        · rename_i hne
          have hn : Normal top := by
            rcases hacc top (by simp) with h | h
            · exact absurd h hne
            · exact h
          simp only [List.foldl_append, List.foldl_cons, List.foldl_nil]
          rw [push_normal true _ hn, push_dotdot_concat, if_neg hne]
    · rw [push_normal _ _ hn, push_normal _ _ hn]; simp [List.foldl_append, push_normal _ _ hn]

/-- dot-dots first, then normal components: the shape of a cleaned relative path. -/
def DDN (st : List Bytes) : Prop :=
  ∃ (k : Nat) (ns : List Bytes), st = List.replicate k dd ++ ns ∧ ∀ s ∈ ns, Normal s

theorem DDN.dn {st : List Bytes} (h : DDN st) : DN st := by
  obtain ⟨k, ns, rfl, hn⟩ := h
  intro s hs
  rcases List.mem_append.mp hs with hs | hs
  · exact .inl (List.eq_of_mem_replicate hs)
  · exact .inr (hn s hs)

theorem push_false_replicate (j : Nat) : push false (List.replicate j dd) dd = List.replicate (j + 1) dd := by
  cases j with
  | zero => exact push_dotdot_nil_false
  | succ j =>
    rw [List.replicate_succ', push_dotdot_concat, if_pos rfl, ← List.replicate_succ', ← List.replicate_succ']

theorem push_false_DDN (st : List Bytes) {seg : Bytes} (hseg : Seg seg) (h : DDN st) :
    DDN (push false st seg) := by
  obtain ⟨k, ns, rfl, hn⟩ := h
  rcases seg_cases hseg with rfl | rfl | hnorm
  · rw [push_dot]; exact ⟨k, ns, rfl, hn⟩
  · rw [show ([dot, dot] : Bytes) = dd from rfl]
    rcases eq_nil_or_snoc ns with rfl | ⟨ns', top, rfl⟩
    · rw [List.append_nil, push_false_replicate]; exact ⟨k + 1, [], by simp, by simp⟩
    · rw [← List.append_assoc, push_dotdot_concat]
      have htop : Normal top := hn top (by simp)
      have : top ≠ dd := htop.2.2.1
      rw [if_neg this]
      exact ⟨k, ns', rfl, fun s hs => hn s (by simp [hs])⟩
  · rw [push_normal _ _ hnorm, List.append_assoc]
    refine ⟨k, ns ++ [seg], rfl, ?_⟩
    intro s hs
    rcases List.mem_append.mp hs with hs | hs
    · exact hn s hs
    · simp at hs; subst hs; exact hnorm

theorem foldl_push_false_DDN (l : List Bytes) (hl : ∀ s ∈ l, Seg s) (st : List Bytes) (h : DDN st) :
    DDN (l.foldl (push false) st) := by
  induction l generalizing st with
  | nil => exact h
  | cons x xs ih =>
    simp only [List.foldl_cons]
    exact ih (fun s hs => hl s (by simp [hs])) _ (push_false_DDN st (hl x (by simp)) h)

theorem foldl_push_false_replicate (k j : Nat) :
    (List.replicate k dd).foldl (push false) (List.replicate j dd) = List.replicate (j + k) dd := by
  induction k generalizing j with
  | zero => rfl
  | succ k ih =>
    rw [List.replicate_succ, List.foldl_cons, push_false_replicate, ih]
    congr 1; omega

/-- A cleaned relative stack is a fixed point of the relative fold. -/
theorem foldl_push_false_fix {st : List Bytes} (h : DDN st) : st.foldl (push false) [] = st := by
  obtain ⟨k, ns, rfl, hn⟩ := h
  rw [List.foldl_append]
  have := foldl_push_false_replicate k 0
  simp only [List.replicate_zero, Nat.zero_add] at this
  rw [this, foldl_push_normals false ns hn]

theorem clean_idem (p : Bytes) : clean (clean p) = clean p := by
  cases h : isAbs p with
  | true => exact clean_of_absClean (clean_absClean_of_abs h)
  | false =>
    have hna := clean_rel_not_abs h
    rw [clean_rel h] at hna ⊢
    simp only at hna ⊢
    have hddn := foldl_push_false_DDN (components p) (components_seg p) [] ⟨0, [], rfl, by simp⟩
    revert hna hddn
    generalize (components p).foldl (push false) [] = st
    intro hna hddn
    split
    · decide
    · rename_i hne
      rw [if_neg hne] at hna
      rw [clean_rel hna]
      simp only
      rw [components_join hddn.dn.seg, foldl_push_false_fix hddn, if_neg hne]

theorem clean_ne_nil (p : Bytes) : clean p ≠ [] := by
  cases h : isAbs p with
  | true => rw [clean_abs h]; simp [ofSegs]
  | false =>
    rw [clean_rel h]
    simp only
    split
    · simp
    · rename_i hne
      intro hj
      have hseg := (foldl_push_false_DN (components p) (components_seg p) [] (by intro s hs; simp at hs)).seg
      exact hne (join_eq_nil (fun s hs => (hseg s hs).1) hj)

/-- The components of a cleaned relative path act on a rooted stack like the raw components. -/
theorem foldl_push_true_clean_rel {p : Bytes} (h : isAbs p = false) (S : List Bytes) :
    (components (clean p)).foldl (push true) S = (components p).foldl (push true) S := by
  have hdn := foldl_push_false_DN (components p) (components_seg p) [] (by intro s hs; simp at hs)
  have key := foldl_push_true_push_false S (components p) (components_seg p) [] (by intro s hs; simp at hs)
  simp only [List.foldl_nil] at key
  rw [← key, clean_rel h]
  simp only
  split
  · rename_i hnil
    rw [hnil]
    have : components [dot] = [[dot]] := by decide
    rw [this]; simp [push_dot]
  · rw [components_join hdn.seg]

end Sftp.Path
