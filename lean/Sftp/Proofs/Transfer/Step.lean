import Sftp.Proofs.Transfer.ReadFrom
import Sftp.Proofs.Transfer.WriteTo
/- Helper lemmas: offsets computed by the compound methods, frame properties of fileStep. -/
namespace Sftp.Transfer
open Sftp Sftp.Spec.OsFile

/-- ReadFrom (both disciplines, repaired masking): the new offset is the old one plus the count on
success, plus the intact prefix on failure. -/
theorem readFromM_offset (cfg : Cfg) (sv : Served) (off : Nat) (src : Bytes) (conc : Bool)
    (hmp : 1 ≤ cfg.maxPacket) (hm : cfg.readFromMasksWriteErr = false) :
    (readFromM cfg sv off src conc).2.2 =
      off + (if (readFromM cfg sv off src conc).1.err.isNone then (readFromM cfg sv off src conc).1.n
             else intactPrefix sv.wrFail (chunkWrites cfg.maxPacket off src)) := by
  have hch := chunkWrites_chunked cfg.maxPacket hmp off src
  unfold readFromM
  cases conc with
  | true =>
    simp only [if_true]
    unfold rfConc
    cases hfold : foldEarliest ((chunkWrites cfg.maxPacket off src).filterMap (wrEvent sv)) with
    | none => simp
    | some e =>
      simp only [Option.isNone_some, Bool.false_eq_true, if_false]
      have hs := wrEvents_sorted sv _ (chunkWrites_sorted cfg.maxPacket hmp off src)
        (fun w hw => (chunkWrites_len cfg.maxPacket hmp off src w hw).2.2.1)
      have := foldEarliest_sorted (List.Perm.refl _) hs
      rw [hfold] at this
      exact chunked_first_event hch e this.symm
  | false =>
    simp only [Bool.false_eq_true, if_false]
    rw [rfSeq_adv hch]
    cases herr : (rfSeq cfg sv sv.data (chunkWrites cfg.maxPacket off src)).2.2.2 with
    | none =>
      simp only [Option.isNone_none, if_true]
      rw [rfSeq_nil hm _ _ herr, rfSeq_adv hch]
    | some e => simp

/-- WriteTo (repaired chain): the new offset is the old one plus the count. -/
theorem writeToM_offset (cfg : Cfg) (sv : Served) (off : Nat)
    (hmp : 1 ≤ cfg.maxPacket) (htx : cfg.maxPacket ≤ cfg.maxTx) (hw : cfg.writeToMovesOnEmpty = false) :
    (writeToM cfg sv off).2 = off + (writeToM cfg sv off).1.n := by
  unfold writeToM
  split
  · exact wtSeq_offset cfg sv _ off
  · split
    · rfl
    · split
      · exact wtSeq_offset cfg sv _ off
      · exact chain_offset cfg sv hmp htx hw _ off

/-- WriteTo as a method meets the WriteTo outcome specification (any fault pattern on READs). -/
theorem writeToM_ok (cfg : Cfg) (sv : Served) (off : Nat) (hmp : 1 ≤ cfg.maxPacket)
    (htx : cfg.maxPacket ≤ cfg.maxTx) (hst : sv.statFail = none) :
    WtOK sv off ((writeToM cfg sv off).1.data, (writeToM cfg sv off).1.err) ∧
    (writeToM cfg sv off).1.n = (writeToM cfg sv off).1.data.length := by
  unfold writeToM
  split
  · exact ⟨wtSeq_ok cfg sv hmp (by omega) _ off (by omega), rfl⟩
  · rw [hst]; simp only
    split
    · exact ⟨wtSeq_ok cfg sv hmp (by omega) _ off (by omega), rfl⟩
    · exact ⟨chain_ok cfg sv hmp htx _ off off (by omega), rfl⟩

/-- No method but Close touches `closed` / `closeSent`. -/
theorem fileStep_frame (cfg : Cfg) (sv : Served) (s : FileSt) (c : Call) :
    ((fileStep cfg sv s c).1.closed = s.closed ∧ (fileStep cfg sv s c).1.closeSent = s.closeSent) ∨
    (c = .close ∧ s.closed = false ∧ (fileStep cfg sv s c).1.closed = true ∧
      (fileStep cfg sv s c).1.closeSent = s.closeSent + 1) := by
  unfold fileStep
  by_cases hc : s.closed = true
  · rw [if_pos hc]; exact Or.inl ⟨rfl, rfl⟩
  · rw [if_neg hc]
    cases c with
    | close => exact Or.inr ⟨rfl, by simpa using hc, rfl, rfl⟩
    | seek off whence =>
      left
      simp only
      split
      · exact ⟨rfl, rfl⟩
      · split
        · exact ⟨rfl, rfl⟩
        · split <;> exact ⟨rfl, rfl⟩
    | stat => left; simp only; split <;> exact ⟨rfl, rfl⟩
    | _ => exact Or.inl ⟨rfl, rfl⟩

end Sftp.Transfer
