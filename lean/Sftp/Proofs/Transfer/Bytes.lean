import Sftp.Model.Transfer
/- Helper lemmas: byte-wise characterisation of `writeAt`, order independence of disjoint writes. -/
namespace Sftp.Transfer
open Sftp

theorem length_writeAt (f : Bytes) (off : Nat) (d : Bytes) (hd : d ≠ []) :
    (writeAt f off d).length = max f.length (off + d.length) := by
  simp only [writeAt, hd, if_false, List.length_append, List.length_take, List.length_replicate, List.length_drop]
  omega

theorem length_writeAt' (f : Bytes) (off : Nat) (d : Bytes) :
    (writeAt f off d).length = if d = [] then f.length else max f.length (off + d.length) := by
  by_cases hd : d = []
  · simp [writeAt, hd]
  · rw [if_neg hd, length_writeAt f off d hd]

theorem byteAt_writeAt (f : Bytes) (off : Nat) (d : Bytes) (i : Nat) :
    byteAt (writeAt f off d) i =
      if off ≤ i ∧ i < off + d.length then byteAt d (i - off) else byteAt f i := by
  unfold writeAt byteAt
  by_cases hd : d = []
  · subst hd
    simp only [if_true, List.length_nil, Nat.add_zero]
    rw [if_neg (by omega)]
  · simp only [hd, if_false]
    have hlen : ((f ++ List.replicate (off - f.length) 0).take off).length = off := by
      simp only [List.length_take, List.length_append, List.length_replicate]; omega
    by_cases h1 : i < off
    · rw [if_neg (by omega)]
      rw [List.append_assoc, List.getElem?_append_left (by omega), List.getElem?_take_of_lt h1]
      by_cases h2 : i < f.length
      · rw [List.getElem?_append_left h2]
      · rw [List.getElem?_append_right (by omega), List.getElem?_replicate,
          List.getElem?_eq_none (by omega : f.length ≤ i)]
        split <;> rfl
    · by_cases h3 : i < off + d.length
      · rw [if_pos ⟨by omega, h3⟩]
        rw [List.append_assoc, List.getElem?_append_right (by omega), hlen,
          List.getElem?_append_left (by omega)]
      · rw [if_neg (by omega)]
        rw [List.getElem?_append_right (by simp only [List.length_append, hlen]; omega)]
        simp only [List.length_append, hlen, List.getElem?_drop]
        congr 2
        omega

theorem byteAt_of_le {l : Bytes} {i : Nat} (h : l.length ≤ i) : byteAt l i = 0 := by
  unfold byteAt; rw [List.getElem?_eq_none h]; rfl

theorem byteAt_of_lt {l : Bytes} {i : Nat} (h : i < l.length) : byteAt l i = l[i] := by
  unfold byteAt; rw [List.getElem?_eq_getElem h]; rfl

/-- Two byte lists of the same length that agree at every index are equal. -/
theorem bytes_ext {a b : Bytes} (hl : a.length = b.length) (h : ∀ i, byteAt a i = byteAt b i) : a = b := by
  apply List.ext_getElem hl
  intro i h1 h2
  have := h i
  rwa [byteAt_of_lt h1, byteAt_of_lt h2] at this

theorem byteAt_take (l : Bytes) (n i : Nat) :
    byteAt (l.take n) i = if i < n then byteAt l i else 0 := by
  unfold byteAt
  by_cases h : i < n
  · rw [if_pos h, List.getElem?_take_of_lt h]
  · rw [if_neg h, List.getElem?_eq_none (by simp only [List.length_take]; omega)]; rfl

theorem byteAt_drop (l : Bytes) (n i : Nat) : byteAt (l.drop n) i = byteAt l (n + i) := by
  unfold byteAt; rw [List.getElem?_drop]

theorem byteAt_append (a b : Bytes) (i : Nat) :
    byteAt (a ++ b) i = if i < a.length then byteAt a i else byteAt b (i - a.length) := by
  unfold byteAt
  by_cases h : i < a.length
  · rw [if_pos h, List.getElem?_append_left h]
  · rw [if_neg h, List.getElem?_append_right (by omega)]

def covers (w : W) (i : Nat) : Prop := w.off ≤ i ∧ i < w.off + w.d.length
def WDisjoint (a b : W) : Prop := ∀ i, ¬ (covers a i ∧ covers b i)

theorem applyAll_cons (f : Bytes) (w : W) (ws : List W) :
    applyAll f (w :: ws) = applyAll (writeAt f w.off w.d) ws := rfl

theorem applyAll_append (f : Bytes) (a b : List W) :
    applyAll f (a ++ b) = applyAll (applyAll f a) b := by
  simp [applyAll, List.foldl_append]

theorem byteAt_applyAll_none (ws : List W) (f : Bytes) (i : Nat) (h : ∀ w ∈ ws, ¬ covers w i) :
    byteAt (applyAll f ws) i = byteAt f i := by
  induction ws generalizing f with
  | nil => rfl
  | cons w ws ih =>
    rw [applyAll_cons, ih _ (fun w' hw' => h w' (by simp [hw'])), byteAt_writeAt]
    exact if_neg (h w (by simp))

theorem byteAt_applyAll_some (ws : List W) (hd : ws.Pairwise WDisjoint) (f : Bytes) (i : Nat)
    (w : W) (hw : w ∈ ws) (hc : covers w i) :
    byteAt (applyAll f ws) i = byteAt w.d (i - w.off) := by
  induction ws generalizing f with
  | nil => simp at hw
  | cons w0 ws ih =>
    have hp := List.pairwise_cons.mp hd
    rw [applyAll_cons]
    rcases List.mem_cons.mp hw with rfl | hw'
    · have hnone : ∀ w' ∈ ws, ¬ covers w' i := fun w' hw' hc' => hp.1 w' hw' i ⟨hc, hc'⟩
      rw [byteAt_applyAll_none ws _ i hnone, byteAt_writeAt]; exact if_pos hc
    · exact ih hp.2 _ hw'

theorem wdisjoint_symm {a b : W} (h : WDisjoint a b) : WDisjoint b a :=
  fun i hi => h i ⟨hi.2, hi.1⟩

/-- Order independence: any two orders of the same pairwise-disjoint writes give the same bytes. -/
theorem byteAt_applyAll_perm (ws ws' : List W) (hperm : ws.Perm ws') (hd : ws.Pairwise WDisjoint)
    (f : Bytes) (i : Nat) : byteAt (applyAll f ws) i = byteAt (applyAll f ws') i := by
  have hd' : ws'.Pairwise WDisjoint := hperm.pairwise hd (fun h => wdisjoint_symm h)
  by_cases h : ∃ w ∈ ws, covers w i
  · obtain ⟨w, hw, hc⟩ := h
    rw [byteAt_applyAll_some ws hd f i w hw hc, byteAt_applyAll_some ws' hd' f i w (hperm.mem_iff.mp hw) hc]
  · have h1 : ∀ w ∈ ws, ¬ covers w i := fun w hw hc => h ⟨w, hw, hc⟩
    have h2 : ∀ w ∈ ws', ¬ covers w i := fun w hw => h1 w (hperm.mem_iff.mpr hw)
    rw [byteAt_applyAll_none ws f i h1, byteAt_applyAll_none ws' f i h2]

/-- Length after a list of writes: the maximum of the old length and the ends of the non-empty writes. -/
def endMax (n : Nat) (ws : List W) : Nat :=
  ws.foldl (fun n w => if w.d = [] then n else max n (w.off + w.d.length)) n

theorem length_applyAll (ws : List W) (f : Bytes) : (applyAll f ws).length = endMax f.length ws := by
  induction ws generalizing f with
  | nil => rfl
  | cons w ws ih =>
    rw [applyAll_cons, ih, length_writeAt']; rfl

theorem endMax_cons (n : Nat) (w : W) (ws : List W) :
    endMax n (w :: ws) = endMax (if w.d = [] then n else max n (w.off + w.d.length)) ws := rfl

theorem endMax_le_iff (ws : List W) (n m : Nat) :
    endMax n ws ≤ m ↔ n ≤ m ∧ ∀ w ∈ ws, w.d ≠ [] → w.off + w.d.length ≤ m := by
  induction ws generalizing n with
  | nil => simp [endMax]
  | cons w ws ih =>
    rw [endMax_cons, ih]
    by_cases hw : w.d = []
    · simp [hw]
    · rw [if_neg hw]
      constructor
      · rintro ⟨h1, h2⟩
        refine ⟨by omega, ?_⟩
        intro w' hw' hne
        rcases List.mem_cons.mp hw' with rfl | h
        · omega
        · exact h2 w' h hne
      · rintro ⟨h1, h2⟩
        have := h2 w (by simp) hw
        exact ⟨by omega, fun w' hw' => h2 w' (by simp [hw'])⟩

theorem endMax_perm (ws ws' : List W) (hperm : ws.Perm ws') (n : Nat) : endMax n ws = endMax n ws' := by
  apply Nat.le_antisymm
  · rw [endMax_le_iff]
    have := (endMax_le_iff ws' n (endMax n ws')).mp (Nat.le_refl _)
    exact ⟨this.1, fun w hw => this.2 w (hperm.mem_iff.mp hw)⟩
  · rw [endMax_le_iff]
    have := (endMax_le_iff ws n (endMax n ws)).mp (Nat.le_refl _)
    exact ⟨this.1, fun w hw => this.2 w (hperm.mem_iff.mpr hw)⟩

/-- Full order independence of pairwise-disjoint writes. -/
theorem applyAll_perm (ws ws' : List W) (hperm : ws.Perm ws') (hd : ws.Pairwise WDisjoint)
    (f : Bytes) : applyAll f ws = applyAll f ws' :=
  bytes_ext (by rw [length_applyAll, length_applyAll, endMax_perm ws ws' hperm])
    (byteAt_applyAll_perm ws ws' hperm hd f)

end Sftp.Transfer
