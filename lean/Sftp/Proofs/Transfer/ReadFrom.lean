import Sftp.Proofs.Transfer.Write
/- Helper lemmas: shape of the ReadFrom chunk list; sequential and concurrent ReadFrom. -/
namespace Sftp.Transfer
open Sftp Sftp.Spec.OsFile

/-- Shape of the io.ReadFull chunks: contiguous from `o`, 1..mp bytes each, a short chunk is last. -/
inductive Chunked (mp : Nat) : Nat → List W → Prop where
  | nil (o : Nat) : Chunked mp o []
  | cons (o : Nat) (w : W) (rest : List W) : w.off = o → 1 ≤ w.d.length → w.d.length ≤ mp →
      (w.d.length < mp → rest = []) → Chunked mp (o + w.d.length) rest → Chunked mp o (w :: rest)

theorem chunkWrites_chunked (mp : Nat) (hmp : 1 ≤ mp) (off : Nat) (b : Bytes) :
    Chunked mp off (chunkWrites mp off b) := by
  unfold chunkWrites
  have key := plan_induct mp hmp
    (fun o l L => off ≤ o → o + l = off + b.length →
      Chunked mp o (L.map (fun c => (⟨c.1, (b.drop (c.1 - off)).take c.2⟩ : W))))
    (fun o _ _ => Chunked.nil o) ?_ off b.length
  · exact key (Nat.le_refl _) rfl
  · intro o l hpos ih h1 h2
    rw [List.map_cons]
    have hlen : ((b.drop (o - off)).take (min mp l)).length = min mp l := by
      simp only [List.length_take, List.length_drop]; omega
    refine Chunked.cons o _ _ rfl (by simp only [hlen]; omega) (by simp only [hlen]; omega) ?_ ?_
    · simp only [hlen]
      intro hlt
      have : l - min mp l = 0 := by omega
      rw [this, planChunks_zero]; rfl
    · simp only [hlen]
      exact ih (by omega) (by omega)

/-- Contiguity: the first failing chunk starts where the intact prefix ends. -/
theorem chunked_first_event {mp : Nat} {sv : Served} {o : Nat} {ws : List W} (h : Chunked mp o ws) :
    ∀ e, (ws.filterMap (wrEvent sv)).head? = some e → e.1 = o + intactPrefix sv.wrFail ws := by
  induction h with
  | nil o => intro e he; simp at he
  | cons o w rest hoff _ _ _ _ ih =>
    intro e he
    subst hoff
    rw [List.filterMap_cons] at he
    cases hf : sv.wrFail w.off with
    | some c =>
      have : wrEvent sv w = some (w.off, .srv c) := by simp [wrEvent, hf]
      rw [this] at he
      simp only [List.head?_cons, Option.some.injEq] at he
      rw [← he]; simp [intactPrefix, hf]
    | none =>
      have : wrEvent sv w = none := (wrEvent_none_iff sv w).mpr hf
      rw [this] at he
      have := ih e he
      rw [this]; simp [intactPrefix, hf]; omega

/-- Sequential ReadFrom: the offset advance is always the intact prefix. -/
theorem rfSeq_adv {cfg : Cfg} {sv : Served} {o : Nat} {ws : List W} (h : Chunked cfg.maxPacket o ws) :
    ∀ f, (rfSeq cfg sv f ws).2.2.1 = intactPrefix sv.wrFail ws := by
  induction h with
  | nil o => intro f; rfl
  | cons o w rest _ _ _ hshort _ ih =>
    intro f
    rw [rfSeq]
    cases hf : sv.wrFail w.off with
    | some c => simp only [intactPrefix, hf, Option.isSome_some, if_true]; split <;> rfl
    | none =>
      simp only [intactPrefix, hf, Option.isSome_none, Bool.false_eq_true, if_false]
      by_cases hs : w.d.length < cfg.maxPacket
      · simp only [hs, decide_true, if_true]
        rw [hshort hs]; rfl
      · simp only [hs, decide_false, Bool.false_eq_true, if_false]
        rw [ih]

/-- Sequential ReadFrom, repaired masking: a nil error means everything consumed was written. -/
theorem rfSeq_nil {cfg : Cfg} {sv : Served} (hm : cfg.readFromMasksWriteErr = false) (ws : List W) :
    ∀ f, (rfSeq cfg sv f ws).2.2.2 = none → (rfSeq cfg sv f ws).2.1 = (rfSeq cfg sv f ws).2.2.1 := by
  induction ws with
  | nil => intro f _; rfl
  | cons w rest ih =>
    intro f
    rw [rfSeq]
    cases hf : sv.wrFail w.off with
    | some c => simp [hm]
    | none =>
      by_cases hs : w.d.length < cfg.maxPacket
      · simp [hs]
      · simp only [hs, decide_false, Bool.false_eq_true, if_false]
        intro h
        rw [ih _ h]

/-- Sequential ReadFrom without failing chunk. -/
theorem rfSeq_nofail {cfg : Cfg} {sv : Served} {o : Nat} {ws : List W} (h : Chunked cfg.maxPacket o ws)
    (hok : ∀ w ∈ ws, sv.wrFail w.off = none) :
    ∀ f, rfSeq cfg sv f ws = (applyAll f ws, sumLens ws, sumLens ws, none) := by
  induction h with
  | nil o => intro f; rfl
  | cons o w rest _ _ _ hshort _ ih =>
    intro f
    rw [rfSeq, hok w (by simp)]
    simp only
    by_cases hs : w.d.length < cfg.maxPacket
    · simp only [hs, decide_true, if_true]
      rw [hshort hs]; simp [applyAll, sumLens]
    · simp only [hs, decide_false, Bool.false_eq_true, if_false]
      rw [ih (fun w' hw' => hok w' (by simp [hw'])), applyAll_cons, sumLens_cons]

end Sftp.Transfer
