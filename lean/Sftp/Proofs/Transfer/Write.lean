import Sftp.Proofs.Transfer.Fold
import Sftp.Spec.OsFile
/- Helper lemmas: chunked writes reassemble `writeAt`; write events; sequential write loop. -/
namespace Sftp.Transfer
open Sftp Sftp.Spec.OsFile

/-- Every byte of the request lies in some chunk. -/
theorem plan_cover (mp : Nat) (hmp : 1 ≤ mp) (off len : Nat) :
    ∀ i, off ≤ i → i < off + len → ∃ c ∈ planChunks mp off len, c.1 ≤ i ∧ i < c.1 + c.2 := by
  refine plan_induct mp hmp (fun off len l => ∀ i, off ≤ i → i < off + len → ∃ c ∈ l, c.1 ≤ i ∧ i < c.1 + c.2)
    (fun off i h1 h2 => by omega) ?_ off len
  intro off len hpos ih i h1 h2
  by_cases h : i < off + min mp len
  · exact ⟨(off, min mp len), by simp, h1, h⟩
  · obtain ⟨c, hc, hci⟩ := ih i (by omega) (by omega)
    exact ⟨c, by simp [hc], hci⟩

theorem chunkWrites_cover (mp : Nat) (hmp : 1 ≤ mp) (off : Nat) (b : Bytes) (i : Nat)
    (h1 : off ≤ i) (h2 : i < off + b.length) : ∃ w ∈ chunkWrites mp off b, covers w i := by
  obtain ⟨c, hc, hci⟩ := plan_cover mp hmp off b.length i h1 h2
  have hm := plan_mem mp hmp _ _ c hc
  refine ⟨⟨c.1, (b.drop (c.1 - off)).take c.2⟩, List.mem_map.mpr ⟨c, hc, rfl⟩, ?_⟩
  unfold covers
  simp only [List.length_take, List.length_drop]
  omega

theorem chunkWrites_nil (mp off : Nat) : chunkWrites mp off [] = [] := rfl

/-- The chunk writes, applied in plan order, are one big `writeAt`. -/
theorem applyAll_chunkWrites (mp : Nat) (hmp : 1 ≤ mp) (f : Bytes) (off : Nat) (b : Bytes) :
    applyAll f (chunkWrites mp off b) = writeAt f off b := by
  by_cases hb : b = []
  · subst hb; simp [chunkWrites_nil, applyAll, writeAt]
  have hblen : 0 < b.length := List.length_pos_iff.mpr hb
  apply bytes_ext
  · rw [length_applyAll, length_writeAt f off b hb]
    apply Nat.le_antisymm
    · rw [endMax_le_iff]
      refine ⟨by omega, fun w hw _ => ?_⟩
      have := chunkWrites_len mp hmp off b w hw
      omega
    · have hE := (endMax_le_iff (chunkWrites mp off b) f.length _).mp (Nat.le_refl _)
      obtain ⟨w, hw, hc⟩ := chunkWrites_cover mp hmp off b (off + b.length - 1) (by omega) (by omega)
      have hl := chunkWrites_len mp hmp off b w hw
      have := hE.2 w hw (by intro h; rw [h] at hl; simp at hl)
      unfold covers at hc
      omega
  · intro i
    rw [byteAt_writeAt]
    by_cases hi : off ≤ i ∧ i < off + b.length
    · rw [if_pos hi]
      obtain ⟨w, hw, hc⟩ := chunkWrites_cover mp hmp off b i hi.1 hi.2
      rw [byteAt_applyAll_some _ (chunkWrites_disjoint mp hmp off b) f i w hw hc]
      have hl := chunkWrites_len mp hmp off b w hw
      unfold covers at hc
      rw [hl.2.2.2.2, byteAt_take, if_pos (by omega), byteAt_drop]
      congr 1; omega
    · rw [if_neg hi]
      apply byteAt_applyAll_none
      intro w hw hc
      have hl := chunkWrites_len mp hmp off b w hw
      unfold covers at hc
      omega

/-- Any arrival order of the chunk writes gives the same file. -/
theorem applyAll_chunkWrites_perm (mp : Nat) (hmp : 1 ≤ mp) (f : Bytes) (off : Nat) (b : Bytes)
    (ws : List W) (hp : (chunkWrites mp off b).Perm ws) : applyAll f ws = writeAt f off b := by
  rw [← applyAll_perm _ _ hp (chunkWrites_disjoint mp hmp off b), applyAll_chunkWrites mp hmp]

theorem sumLens_cons (w : W) (ws : List W) : sumLens (w :: ws) = w.d.length + sumLens ws := by
  simp [sumLens]

theorem sumLens_chunkWrites (mp : Nat) (hmp : 1 ≤ mp) (off : Nat) (b : Bytes) :
    sumLens (chunkWrites mp off b) = b.length := by
  have : (chunkWrites mp off b).map (fun w => w.d.length) = (planChunks mp off b.length).map Prod.snd := by
    unfold chunkWrites
    rw [List.map_map]
    apply List.map_congr_left
    intro c hc
    have := plan_mem mp hmp _ _ c hc
    simp only [Function.comp, List.length_take, List.length_drop]
    omega
  unfold sumLens
  rw [this, plan_sum mp hmp]

/-! ### write events -/

def wOk (sv : Served) (w : W) : Bool := (sv.wrFail w.off).isNone

theorem wrEvent_none_iff (sv : Served) (w : W) : wrEvent sv w = none ↔ sv.wrFail w.off = none := by
  unfold wrEvent; split <;> simp_all

theorem wrEvent_some (sv : Served) (w : W) (e : Ev) (h : wrEvent sv w = some e) :
    e.1 = w.off ∧ sv.wrFail w.off = some (match e.2 with | .srv c => c | _ => 0) ∧ ∃ c, e.2 = .srv c := by
  unfold wrEvent at h; split at h
  · next c hc => cases h; exact ⟨rfl, hc, c, rfl⟩
  · cases h

theorem wrEvents_sorted (sv : Served) (ws : List W)
    (hs : ws.Pairwise (fun a c => a.off + a.d.length ≤ c.off)) (hl : ∀ w ∈ ws, 1 ≤ w.d.length) :
    (ws.filterMap (wrEvent sv)).Pairwise (fun a b => a.1 < b.1) := by
  induction ws with
  | nil => exact List.Pairwise.nil
  | cons w ws ih =>
    have hp := List.pairwise_cons.mp hs
    have ih' := ih hp.2 (fun w' hw' => hl w' (by simp [hw']))
    rw [List.filterMap_cons]
    split
    · exact ih'
    · next e he =>
      refine List.pairwise_cons.mpr ⟨?_, ih'⟩
      intro e' he'
      obtain ⟨w', hw', hwe⟩ := List.mem_filterMap.mp he'
      have h1 := (wrEvent_some sv w e he).1
      have h2 := (wrEvent_some sv w' e' hwe).1
      have := hp.1 w' hw'
      have := hl w (by simp)
      omega

/-- Sequential write loop, in terms of the failing-chunk set. -/
theorem seqWrite_spec (sv : Served) (ws : List W) (f : Bytes) :
    (seqWrite sv f ws).1 = applyAll f (ws.takeWhile (wOk sv)) ∧
    (seqWrite sv f ws).2.1 = intactPrefix sv.wrFail ws ∧
    (seqWrite sv f ws).2.2 = ((ws.filterMap (wrEvent sv)).head?).map Prod.snd := by
  induction ws generalizing f with
  | nil => exact ⟨rfl, rfl, rfl⟩
  | cons w ws ih =>
    rw [seqWrite]
    cases hf : sv.wrFail w.off with
    | some c =>
      simp only
      refine ⟨?_, ?_, ?_⟩
      · rw [List.takeWhile_cons]; simp [wOk, hf, applyAll]
      · simp [intactPrefix, hf]
      · rw [List.filterMap_cons]; simp [wrEvent, hf]
    | none =>
      simp only
      obtain ⟨h1, h2, h3⟩ := ih (writeAt f w.off w.d)
      refine ⟨?_, ?_, ?_⟩
      · rw [h1, List.takeWhile_cons]; simp [wOk, hf, applyAll_cons]
      · rw [h2]; simp [intactPrefix, hf]
      · rw [h3, List.filterMap_cons]; simp [wrEvent, hf]

theorem takeWhile_all {α} (p : α → Bool) (l : List α) (h : ∀ a ∈ l, p a = true) : l.takeWhile p = l := by
  induction l with
  | nil => rfl
  | cons a l ih =>
    rw [List.takeWhile_cons, h a (by simp), if_pos rfl, ih (fun b hb => h b (by simp [hb]))]

theorem intactPrefix_all (wrFail : Nat → Option Nat) (ws : List W) (h : ∀ w ∈ ws, wrFail w.off = none) :
    intactPrefix wrFail ws = sumLens ws := by
  induction ws with
  | nil => rfl
  | cons w ws ih =>
    rw [intactPrefix, h w (by simp), sumLens_cons, ih (fun b hb => h b (by simp [hb]))]; rfl

theorem wrEvents_nil (sv : Served) (ws : List W) (h : ∀ w ∈ ws, sv.wrFail w.off = none) :
    ws.filterMap (wrEvent sv) = [] := by
  apply List.filterMap_eq_nil_iff.mpr
  intro w hw
  exact (wrEvent_none_iff sv w).mpr (h w hw)

end Sftp.Transfer
