import Sftp.Proofs.Transfer.Read
/- Helper lemmas: WriteTo (sequential loop and the ordered cur/next chain). -/
namespace Sftp.Transfer
open Sftp

/-- writeToSequential: the offset advances by exactly the delivered bytes. -/
theorem wtSeq_offset (cfg : Cfg) (sv : Served) :
    ∀ fuel off, (wtSeq cfg sv fuel off).2.1 = off + (wtSeq cfg sv fuel off).1.length := by
  intro fuel
  induction fuel with
  | zero => intro off; rfl
  | succ fuel ih =>
    intro off
    rw [wtSeq]
    split
    · rfl
    · rfl
    · simp only [ih, List.length_append]; omega

/-- Outcome specification of WriteTo started at `off`: `r = (delivered, err)`. -/
structure WtOK (sv : Served) (off : Nat) (r : Bytes × Option Err) : Prop where
  /-- delivered bytes are the file's bytes from `off`, in order, exactly once -/
  pref : r.1 = (sv.data.drop off).take r.1.length
  /-- nil error ⇒ delivered up to the end of the file -/
  full : r.2 = none → sv.data.length ≤ off + r.1.length
  /-- io.EOF is never returned -/
  no_eof : r.2 ≠ some .eof
  /-- any other error is a status the server gave at or beyond the end of the delivered prefix -/
  cls : ∀ e, r.2 = some e → ∃ k o, e = .srv k ∧ off + r.1.length ≤ o ∧ sv.rdFail o = some k

theorem WtOK.append {sv : Served} {off c : Nat} {b : Bytes} {r' : Bytes × Option Err}
    (hb : b = (sv.data.drop off).take c) (hbl : b.length = c)
    (h' : WtOK sv (off + c) r') : WtOK sv off (b ++ r'.1, r'.2) where
  pref := by
    simp only [List.length_append, hbl]
    rw [List.take_add, ← hb, List.drop_drop, ← h'.pref]
  full := fun h => by have := h'.full h; simp only [List.length_append]; omega
  no_eof := h'.no_eof
  cls := fun e he => by
    obtain ⟨k, o, h1, h2, h3⟩ := h'.cls e he
    exact ⟨k, o, h1, by simp only [List.length_append]; omega, h3⟩

theorem wtSeq_ok (cfg : Cfg) (sv : Served) (hmp : 1 ≤ cfg.maxPacket) (htx : 1 ≤ cfg.maxTx) :
    ∀ fuel off, sv.data.length - off < fuel →
      WtOK sv off ((wtSeq cfg sv fuel off).1, (wtSeq cfg sv fuel off).2.2) := by
  intro fuel
  induction fuel with
  | zero => intro off h; omega
  | succ fuel ih =>
    intro off hfuel
    rw [wtSeq]
    have h1 := readChunkAt_ok cfg sv htx cfg.maxPacket off cfg.maxPacket (Nat.le_refl _)
    generalize readChunkAt cfg sv cfg.maxPacket off cfg.maxPacket = r at h1
    have hlf := h1.len_le_file
    split
    · next he =>
      rcases h1.cls with h | ⟨_, hl⟩ | ⟨k, h, _⟩
      · rw [he] at h; cases h
      · exact { pref := h1.pref, full := (fun _ => hl), no_eof := (fun h => by cases h),
                cls := (fun e h => by cases h) }
      · rw [he] at h; cases h
    · next e hne he =>
      rcases h1.cls with h | ⟨h, _⟩ | ⟨k, h, hk⟩
      · rw [he] at h; cases h
      · rw [he] at h; exact absurd (Option.some.inj h) (by intro h'; exact hne (by rw [h']))
      · rw [he] at h
        have h' : e = .srv k := Option.some.inj h
        exact { pref := h1.pref, full := (fun h => by cases h),
                no_eof := (fun h => by rw [h'] at h; cases h),
                cls := (fun e' he' => ⟨k, _, by rw [← Option.some.inj he', h'], Nat.le_refl _, hk⟩) }
    · next he =>
      have hf := h1.full he
      have hp := h1.pref
      rw [hf] at hp
      have := ih (off + r.1.length) (by omega)
      rw [hf] at this ⊢
      exact WtOK.append hp hf this

/-! ### the cur/next chain -/

theorem chainWorker_cases (cfg : Cfg) (sv : Served) (_hmp : 1 ≤ cfg.maxPacket)
    (htx : cfg.maxPacket ≤ cfg.maxTx) (po : Nat) :
    (∃ c, sv.rdFail po = some c ∧ chainWorker cfg sv po = ([], some (.srv c))) ∨
    (sv.data.length ≤ po ∧ chainWorker cfg sv po = ([], some .eof)) ∨
    (po < sv.data.length ∧ chainWorker cfg sv po = ((sv.data.drop po).take cfg.maxPacket, none)) := by
  unfold chainWorker
  rcases srvRead_cases cfg sv po cfg.maxPacket with ⟨c, hc, hr⟩ | ⟨_, hle, hr⟩ | ⟨_, hlt, hr⟩
  · exact Or.inl ⟨c, hc, by rw [hr]⟩
  · exact Or.inr (Or.inl ⟨hle, by rw [hr]⟩)
  · refine Or.inr (Or.inr ⟨hlt, ?_⟩)
    rw [hr]; simp only [Nat.min_eq_left htx, List.take_take, Nat.min_self]

/-- Beyond the end of the file the chain delivers nothing more; with the repaired assignment the
offset stays where it is. -/
theorem chain_past_end (cfg : Cfg) (sv : Served) (hmp : 1 ≤ cfg.maxPacket)
    (htx : cfg.maxPacket ≤ cfg.maxTx) (fuel po cur : Nat) (hpo : sv.data.length ≤ po) :
    (chainLoop cfg sv fuel po cur).1 = [] ∧
    (cfg.writeToMovesOnEmpty = false → (chainLoop cfg sv fuel po cur).2.1 = cur) ∧
    (0 < fuel → (chainLoop cfg sv fuel po cur).2.2 = none ∨
       ∃ k, (chainLoop cfg sv fuel po cur).2.2 = some (.srv k) ∧ sv.rdFail po = some k) := by
  cases fuel with
  | zero => exact ⟨rfl, fun _ => rfl, fun h => by omega⟩
  | succ fuel =>
    rw [chainLoop]
    rcases chainWorker_cases cfg sv hmp htx po with ⟨c, hc, hr⟩ | ⟨_, hr⟩ | ⟨hlt, _⟩
    · rw [hr]
      refine ⟨rfl, fun hw => by simp [hw], fun _ => Or.inr ⟨c, rfl, hc⟩⟩
    · rw [hr]
      refine ⟨rfl, fun hw => by simp [hw], fun _ => Or.inl rfl⟩
    · omega

/-- Repaired chain (`f.offset` only assigned for a non-empty packet): the offset advances by
exactly the delivered bytes. -/
theorem chain_offset (cfg : Cfg) (sv : Served) (hmp : 1 ≤ cfg.maxPacket)
    (htx : cfg.maxPacket ≤ cfg.maxTx) (hw : cfg.writeToMovesOnEmpty = false) :
    ∀ fuel po, (chainLoop cfg sv fuel po po).2.1 = po + (chainLoop cfg sv fuel po po).1.length := by
  intro fuel
  induction fuel with
  | zero => intro po; rfl
  | succ fuel ih =>
    intro po
    rw [chainLoop]
    rcases chainWorker_cases cfg sv hmp htx po with ⟨c, hc, hr⟩ | ⟨_, hr⟩ | ⟨hlt, hr⟩
    · rw [hr]; simp [hw]
    · rw [hr]; simp [hw]
    · rw [hr]
      have hlen : ((sv.data.drop po).take cfg.maxPacket).length = min cfg.maxPacket (sv.data.length - po) := by
        simp only [List.length_take, List.length_drop]
      have hpos : 0 < ((sv.data.drop po).take cfg.maxPacket).length := by rw [hlen]; omega
      simp only [hpos, decide_true, Bool.or_true, if_true, List.length_append]
      by_cases hfull : cfg.maxPacket ≤ sv.data.length - po
      · have : ((sv.data.drop po).take cfg.maxPacket).length = cfg.maxPacket := by rw [hlen]; omega
        rw [this, ih]; omega
      · obtain ⟨h1, h2, _⟩ := chain_past_end cfg sv hmp htx fuel (po + cfg.maxPacket)
          (po + ((sv.data.drop po).take cfg.maxPacket).length) (by omega)
        rw [h1, h2 hw]; simp

theorem chain_ok (cfg : Cfg) (sv : Served) (hmp : 1 ≤ cfg.maxPacket) (htx : cfg.maxPacket ≤ cfg.maxTx) :
    ∀ fuel po cur, sv.data.length - po + 1 < fuel →
      WtOK sv po ((chainLoop cfg sv fuel po cur).1, (chainLoop cfg sv fuel po cur).2.2) := by
  intro fuel
  induction fuel with
  | zero => intro po cur h; omega
  | succ fuel ih =>
    intro po cur hfuel
    rw [chainLoop]
    rcases chainWorker_cases cfg sv hmp htx po with ⟨c, hc, hr⟩ | ⟨hle, hr⟩ | ⟨hlt, hr⟩
    · rw [hr]
      exact { pref := (by simp), full := (fun h => by cases h), no_eof := (fun h => by cases h),
              cls := (fun e he => ⟨c, po, (Option.some.inj he).symm, by simp, hc⟩) }
    · rw [hr]
      exact { pref := (by simp), full := (fun _ => by simpa using hle), no_eof := (fun h => by cases h),
              cls := (fun e he => by cases he) }
    · rw [hr]
      simp only
      have hlen : ((sv.data.drop po).take cfg.maxPacket).length = min cfg.maxPacket (sv.data.length - po) := by
        simp only [List.length_take, List.length_drop]
      by_cases hfull : cfg.maxPacket ≤ sv.data.length - po
      · have hl : ((sv.data.drop po).take cfg.maxPacket).length = cfg.maxPacket := by rw [hlen]; omega
        exact WtOK.append rfl hl (ih _ _ (by omega))
      · generalize hcur : (if (cfg.writeToMovesOnEmpty || decide (0 < ((sv.data.drop po).take cfg.maxPacket).length)) = true
            then po + ((sv.data.drop po).take cfg.maxPacket).length else cur) = cur'
        obtain ⟨h1, _, h3⟩ := chain_past_end cfg sv hmp htx fuel (po + cfg.maxPacket) cur' (by omega)
        rw [h1, List.append_nil]
        have hl : ((sv.data.drop po).take cfg.maxPacket).length = sv.data.length - po := by rw [hlen]; omega
        refine { pref := (by rw [List.length_take]; exact List.take_eq_take_min),
                 full := (fun _ => by simp only [hl]; omega), no_eof := ?_, cls := ?_ }
        · rcases h3 (by omega) with h | ⟨k, h, _⟩
          · simp only [h]; intro h'; cases h'
          · simp only [h]; intro h'; cases h'
        · intro e he
          rcases h3 (by omega) with h | ⟨k, h, hk⟩
          · simp only [h] at he; cases he
          · simp only [h] at he
            exact ⟨k, po + cfg.maxPacket, (Option.some.inj he).symm, by simp only [hl]; omega, hk⟩

end Sftp.Transfer
