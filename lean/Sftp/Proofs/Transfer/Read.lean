import Sftp.Proofs.Transfer.Write
/- Helper lemmas: read outcomes (readChunkAt, sequential loop, concurrent workers). -/
namespace Sftp.Transfer
open Sftp

/-- Specification shared by every read path: outcome `r = (bytes, err)` of reading `len` bytes at `off`. -/
structure RdOK (sv : Served) (off len : Nat) (r : Bytes × Option Err) : Prop where
  /-- the bytes are the file's bytes at `[off, off+n)` -/
  pref : r.1 = (sv.data.drop off).take r.1.length
  le : r.1.length ≤ len
  /-- nil error ⇒ everything was read -/
  full : r.2 = none → r.1.length = len
  /-- an error ⇒ short count -/
  short : r.2 ≠ none → r.1.length < len
  /-- the error is EOF at (or beyond) the true end of file, or the status the server gave at `off+n` -/
  cls : r.2 = none ∨ (r.2 = some .eof ∧ sv.data.length ≤ off + r.1.length) ∨
        ∃ c, r.2 = some (.srv c) ∧ sv.rdFail (off + r.1.length) = some c

theorem take_drop_length_le (S : Bytes) (off : Nat) {b : Bytes} {n : Nat}
    (h : b = (S.drop off).take n) : b.length ≤ S.length - off := by
  rw [h]; simp only [List.length_take, List.length_drop]; omega

theorem RdOK.len_le_file {sv off len r} (h : RdOK sv off len r) : r.1.length ≤ sv.data.length - off :=
  take_drop_length_le _ _ h.pref

/-- Gluing a full read of `c` bytes and a following read. -/
theorem RdOK.append {sv : Served} {off len c : Nat} {b : Bytes} {r' : Bytes × Option Err}
    (hb : b = (sv.data.drop off).take c) (hbl : b.length = c) (hc : c ≤ len)
    (h' : RdOK sv (off + c) (len - c) r') : RdOK sv off len (b ++ r'.1, r'.2) where
  pref := by
    simp only [List.length_append, hbl]
    rw [List.take_add, ← hb, List.drop_drop, ← h'.pref]
  le := by have := h'.le; simp only [List.length_append]; omega
  full := fun h => by have := h'.full h; simp only [List.length_append]; omega
  short := fun h => by have := h'.short h; simp only [List.length_append]; omega
  cls := by
    rcases h'.cls with h | ⟨h, hl⟩ | ⟨k, h, hk⟩
    · exact Or.inl h
    · exact Or.inr (Or.inl ⟨h, by simp only [List.length_append]; omega⟩)
    · refine Or.inr (Or.inr ⟨k, h, ?_⟩)
      simp only [List.length_append, hbl]; rw [← hk]; congr 1; omega

theorem RdOK.zero (sv : Served) (off : Nat) : RdOK sv off 0 ([], none) where
  pref := by simp
  le := by simp
  full := fun _ => rfl
  short := fun h => absurd rfl h
  cls := Or.inl rfl

/-- The three possible server answers to READ(o, l), l ≥ 1. -/
theorem srvRead_cases (cfg : Cfg) (sv : Served) (o l : Nat) :
    (∃ c, sv.rdFail o = some c ∧ srvRead cfg sv o l = .status (.srv c)) ∨
    (sv.rdFail o = none ∧ sv.data.length ≤ o ∧ srvRead cfg sv o l = .status .eof) ∨
    (sv.rdFail o = none ∧ o < sv.data.length ∧
      srvRead cfg sv o l = .data ((sv.data.drop o).take (min l cfg.maxTx))) := by
  unfold srvRead
  cases h : sv.rdFail o with
  | some c => exact Or.inl ⟨c, rfl, rfl⟩
  | none =>
    by_cases hle : sv.data.length ≤ o
    · exact Or.inr (Or.inl ⟨rfl, hle, by simp [hle]⟩)
    · exact Or.inr (Or.inr ⟨rfl, by omega, by simp [hle, readAtSrv]⟩)

theorem RdOK.status_srv {sv : Served} {off len c : Nat} (hl : 0 < len) (h : sv.rdFail off = some c) :
    RdOK sv off len ([], some (.srv c)) where
  pref := by simp
  le := by simp
  full := fun h => by cases h
  short := fun _ => hl
  cls := Or.inr (Or.inr ⟨c, rfl, by simpa using h⟩)

theorem RdOK.status_eof {sv : Served} {off len : Nat} (hl : 0 < len) (h : sv.data.length ≤ off) :
    RdOK sv off len ([], some .eof) where
  pref := by simp
  le := by simp
  full := fun h => by cases h
  short := fun _ => hl
  cls := Or.inr (Or.inl ⟨rfl, by simpa using h⟩)

/-- `readChunkAt` meets the read specification (any maxTx ≥ 1; fuel ≥ buffer length). -/
theorem readChunkAt_ok (cfg : Cfg) (sv : Served) (htx : 1 ≤ cfg.maxTx) :
    ∀ fuel off len, len ≤ fuel → RdOK sv off len (readChunkAt cfg sv fuel off len) := by
  intro fuel
  induction fuel with
  | zero =>
    intro off len h
    have : len = 0 := by omega
    subst this; exact RdOK.zero sv off
  | succ fuel ih =>
    intro off len h
    rw [readChunkAt]
    by_cases hl : len = 0
    · subst hl; exact RdOK.zero sv off
    · rw [if_neg hl]
      rcases srvRead_cases cfg sv off len with ⟨c, hc, hr⟩ | ⟨hn, hle, hr⟩ | ⟨hn, hlt, hr⟩
      · rw [hr]; exact RdOK.status_srv (by omega) hc
      · rw [hr]; exact RdOK.status_eof (by omega) hle
      · rw [hr]
        simp only
        have hdl : ((sv.data.drop off).take (min len cfg.maxTx)).length =
            min (min len cfg.maxTx) (sv.data.length - off) := by
          simp only [List.length_take, List.length_drop]
        have htake : ((sv.data.drop off).take (min len cfg.maxTx)).take len =
            (sv.data.drop off).take (min len cfg.maxTx) := by
          apply List.take_of_length_le; rw [hdl]; omega
        rw [htake]
        generalize hb : (sv.data.drop off).take (min len cfg.maxTx) = b at hdl
        have hb1 : 1 ≤ b.length := by omega
        have hb2 : b.length ≤ len := by omega
        apply RdOK.append (c := b.length) _ rfl hb2 (ih _ _ (by omega))
        rw [← hb, List.length_take]
        exact List.take_eq_take_min

/-- The sequential loop over the plan meets the read specification. -/
theorem seqRead_ok (cfg : Cfg) (sv : Served) (htx : 1 ≤ cfg.maxTx) (mp : Nat) (hmp : 1 ≤ mp)
    (off len : Nat) : RdOK sv off len (seqRead cfg sv (planChunks mp off len)) := by
  refine plan_induct mp hmp (fun off len l => RdOK sv off len (seqRead cfg sv l))
    (fun off => RdOK.zero sv off) ?_ off len
  intro off len hpos ih
  rw [seqRead]
  have h1 := readChunkAt_ok cfg sv htx (min mp len) off (min mp len) (Nat.le_refl _)
  simp only
  generalize readChunkAt cfg sv (min mp len) off (min mp len) = r1 at h1
  cases he : r1.2 with
  | some e =>
    simp only
    have hs := h1.short (by rw [he]; simp)
    exact { pref := h1.pref, le := (by have := h1.le; simp only; omega),
            full := (fun h => by cases h), short := (fun _ => by simp only; omega),
            cls := (by have := h1.cls; rw [he] at this; exact this) }
  | none =>
    simp only
    have hf := h1.full he
    refine RdOK.append (c := min mp len) ?_ hf (by omega) ih
    have := h1.pref; rw [hf] at this; exact this

/-- One concurrent worker meets the read specification provided the server can return a whole
chunk (`l ≤ maxTx`): only then does a short DATA reply mean end of file. -/
theorem rdWorker_ok (cfg : Cfg) (sv : Served) (o l : Nat) (hl : 1 ≤ l) (htx : l ≤ cfg.maxTx) :
    RdOK sv o l (rdWorker cfg sv (o, l)) := by
  unfold rdWorker
  rcases srvRead_cases cfg sv o l with ⟨c, hc, hr⟩ | ⟨hn, hle, hr⟩ | ⟨hn, hlt, hr⟩
  · simp only [hr]; exact RdOK.status_srv (by omega) hc
  · simp only [hr]; exact RdOK.status_eof (by omega) hle
  · simp only [hr, Nat.min_eq_left htx, List.take_take, Nat.min_self]
    have hlen : ((sv.data.drop o).take l).length = min l (sv.data.length - o) := by
      simp only [List.length_take, List.length_drop]
    refine { pref := ?_, le := by simp only [hlen]; omega, full := ?_, short := ?_, cls := ?_ }
    · simp only [hlen]; rw [← List.length_drop]; exact List.take_eq_take_min
    · simp only [hlen]; intro h; split at h
      · cases h
      · omega
    · simp only [hlen]; intro h; split at h
      · omega
      · exact absurd rfl h
    · simp only [hlen]
      split
      · exact Or.inr (Or.inl ⟨rfl, by omega⟩)
      · exact Or.inl rfl

end Sftp.Transfer
