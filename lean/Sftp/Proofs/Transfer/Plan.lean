import Sftp.Proofs.Transfer.Bytes
/- Helper lemmas about the chunk plan. -/
namespace Sftp.Transfer
open Sftp

theorem planAux_fuel (mp : Nat) (hmp : 1 ≤ mp) :
    ∀ fuel len off, len ≤ fuel → planAux mp fuel off len = planAux mp len off len := by
  intro fuel
  induction fuel using Nat.strongRecOn with
  | _ fuel ih =>
    intro len off hle
    cases fuel with
    | zero => have : len = 0 := by omega
              subst this; rfl
    | succ fuel =>
      cases len with
      | zero => rfl
      | succ l =>
        rw [planAux, planAux]
        simp only [Nat.add_one_ne_zero, if_false]
        congr 1
        have hc : 1 ≤ min mp (l + 1) := by omega
        rw [ih fuel (by omega) _ _ (by omega), ih l (by omega) _ _ (by omega)]

/-- Unfolding equation of the plan (the slice loop), valid for every `mp ≥ 1`. -/
theorem planChunks_eq (mp : Nat) (hmp : 1 ≤ mp) (off len : Nat) :
    planChunks mp off len =
      if len = 0 then [] else
        (off, min mp len) :: planChunks mp (off + min mp len) (len - min mp len) := by
  unfold planChunks
  cases len with
  | zero => rfl
  | succ l =>
    rw [planAux]
    simp only [Nat.add_one_ne_zero, if_false]
    congr 1
    exact planAux_fuel mp hmp l _ _ (by omega)

theorem planChunks_zero (mp off : Nat) : planChunks mp off 0 = [] := rfl

theorem planChunks_pos (mp : Nat) (hmp : 1 ≤ mp) (off len : Nat) (h : 0 < len) :
    planChunks mp off len = (off, min mp len) :: planChunks mp (off + min mp len) (len - min mp len) := by
  rw [planChunks_eq mp hmp, if_neg (by omega)]

/-- Induction principle following the slice loop. -/
theorem plan_induct (mp : Nat) (hmp : 1 ≤ mp) (motive : Nat → Nat → List (Nat × Nat) → Prop)
    (h0 : ∀ off, motive off 0 [])
    (hstep : ∀ off len, 0 < len →
      motive (off + min mp len) (len - min mp len) (planChunks mp (off + min mp len) (len - min mp len)) →
      motive off len ((off, min mp len) :: planChunks mp (off + min mp len) (len - min mp len))) :
    ∀ off len, motive off len (planChunks mp off len) := by
  intro off len
  induction len using Nat.strongRecOn generalizing off with
  | _ len ih =>
    by_cases h : len = 0
    · subst h; exact h0 off
    · rw [planChunks_pos mp hmp off len (by omega)]
      exact hstep off len (by omega) (ih _ (by omega) _)

/-- Every chunk lies inside the request, is non-empty and at most `mp` long. -/
theorem plan_mem (mp : Nat) (hmp : 1 ≤ mp) (off len : Nat) :
    ∀ c ∈ planChunks mp off len, off ≤ c.1 ∧ c.1 + c.2 ≤ off + len ∧ 1 ≤ c.2 ∧ c.2 ≤ mp := by
  refine plan_induct mp hmp (fun off len l => ∀ c ∈ l, off ≤ c.1 ∧ c.1 + c.2 ≤ off + len ∧ 1 ≤ c.2 ∧ c.2 ≤ mp)
    (fun off c hc => by simp at hc) ?_ off len
  intro off len hpos ih c hc
  rcases List.mem_cons.mp hc with rfl | hc
  · simp only; omega
  · have := ih c hc; omega

/-- Chunks are in increasing offset order with pairwise disjoint ranges. -/
theorem plan_sorted (mp : Nat) (hmp : 1 ≤ mp) (off len : Nat) :
    (planChunks mp off len).Pairwise (fun a b => a.1 + a.2 ≤ b.1) := by
  refine plan_induct mp hmp (fun _ _ l => l.Pairwise (fun a b => a.1 + a.2 ≤ b.1))
    (fun _ => List.Pairwise.nil) ?_ off len
  intro off len hpos ih
  refine List.pairwise_cons.mpr ⟨?_, ih⟩
  intro c hc
  have := plan_mem mp hmp _ _ c hc
  simp only; omega

theorem plan_sum (mp : Nat) (hmp : 1 ≤ mp) (off len : Nat) :
    ((planChunks mp off len).map Prod.snd).sum = len := by
  refine plan_induct mp hmp (fun _ len l => (l.map Prod.snd).sum = len) (fun _ => rfl) ?_ off len
  intro off len hpos ih
  simp only [List.map_cons, List.sum_cons, ih]; omega

theorem plan_count (mp : Nat) (hmp : 1 ≤ mp) (off len : Nat) :
    (planChunks mp off len).length = (len + mp - 1) / mp := by
  refine plan_induct mp hmp (fun _ len l => l.length = (len + mp - 1) / mp) ?_ ?_ off len
  · intro _; simp only [List.length_nil, Nat.zero_add]
    exact (Nat.div_eq_of_lt (by omega)).symm
  · intro off len hpos ih
    simp only [List.length_cons, ih]
    by_cases h : len ≤ mp
    · rw [Nat.min_eq_right h, Nat.sub_self, Nat.zero_add, Nat.div_eq_of_lt (by omega)]
      have : len + mp - 1 = (len - 1) + mp := by omega
      rw [this, Nat.add_div_right _ (by omega), Nat.div_eq_of_lt (by omega)]
    · rw [Nat.min_eq_left (by omega)]
      have : len + mp - 1 = (len - mp + mp - 1) + mp := by omega
      rw [this, Nat.add_div_right _ (by omega)]

/-- Closed form of the k-th chunk. -/
theorem plan_nth (mp : Nat) (hmp : 1 ≤ mp) (off len : Nat) :
    ∀ k (h : k < (planChunks mp off len).length),
      (planChunks mp off len)[k] = (off + k * mp, min mp (len - k * mp)) := by
  refine plan_induct mp hmp (fun off len l => ∀ k (h : k < l.length), l[k] = (off + k * mp, min mp (len - k * mp)))
    (fun _ k h => by simp at h) ?_ off len
  intro off len hpos ih k hk
  cases k with
  | zero => simp
  | succ k =>
    simp only [List.getElem_cons_succ]
    simp only [List.length_cons, Nat.add_lt_add_iff_right] at hk
    rw [ih k hk]
    by_cases h : len ≤ mp
    · -- then the rest of the plan is empty
      exfalso
      rw [Nat.min_eq_right h, Nat.sub_self] at hk
      simp [planChunks_zero] at hk
    · rw [Nat.min_eq_left (by omega), Nat.succ_mul]
      congr 1
      · omega
      · congr 1; omega

/-- k·mp < len for every chunk index k. -/
theorem plan_index_lt (mp : Nat) (hmp : 1 ≤ mp) (off len k : Nat)
    (h : k < (planChunks mp off len).length) : k * mp < len := by
  rw [plan_count mp hmp] at h
  have := (Nat.le_div_iff_mul_le (by omega : 0 < mp)).mp (Nat.succ_le_of_lt h)
  rw [Nat.succ_mul] at this
  omega

/-- The offsets of the chunk writes are those of the plan. -/
theorem chunkWrites_sorted (mp : Nat) (hmp : 1 ≤ mp) (off : Nat) (b : Bytes) :
    (chunkWrites mp off b).Pairwise (fun a c => a.off + a.d.length ≤ c.off) := by
  unfold chunkWrites
  rw [List.pairwise_map]
  refine (plan_sorted mp hmp off b.length).imp_of_mem ?_
  intro a c ha hc h
  have h1 := plan_mem mp hmp _ _ a ha
  simp only [List.length_take, List.length_drop]
  omega

theorem chunkWrites_len (mp : Nat) (hmp : 1 ≤ mp) (off : Nat) (b : Bytes) :
    ∀ w ∈ chunkWrites mp off b, off ≤ w.off ∧ w.off + w.d.length ≤ off + b.length ∧
      1 ≤ w.d.length ∧ w.d.length ≤ mp ∧ w.d = (b.drop (w.off - off)).take w.d.length := by
  intro w hw
  unfold chunkWrites at hw
  obtain ⟨c, hc, rfl⟩ := List.mem_map.mp hw
  have h1 := plan_mem mp hmp _ _ c hc
  have hl : ((b.drop (c.1 - off)).take c.2).length = c.2 := by
    simp only [List.length_take, List.length_drop]; omega
  simp only [hl]
  exact ⟨h1.1, h1.2.1, h1.2.2.1, h1.2.2.2, trivial⟩

theorem chunkWrites_disjoint (mp : Nat) (hmp : 1 ≤ mp) (off : Nat) (b : Bytes) :
    (chunkWrites mp off b).Pairwise WDisjoint := by
  refine (chunkWrites_sorted mp hmp off b).imp ?_
  intro a c h i hi
  unfold covers at hi
  omega

end Sftp.Transfer
