import Sftp.Proofs.Transfer.Read
/- Helper lemmas: the concurrent readAt (slice / map / reduce) under any admissible schedule. -/
namespace Sftp.Transfer
open Sftp

theorem rdEvent_some {cfg : Cfg} {sv : Served} {c : Nat × Nat} {e : Ev} (h : rdEvent cfg sv c = some e) :
    (rdWorker cfg sv c).2 = some e.2 ∧ e.1 = c.1 + (rdWorker cfg sv c).1.length := by
  unfold rdEvent at h
  split at h
  · next e' he' => cases h; exact ⟨he', rfl⟩
  · cases h

theorem rdEvent_of_err {cfg : Cfg} {sv : Served} {c : Nat × Nat} {e : Err} (h : (rdWorker cfg sv c).2 = some e) :
    rdEvent cfg sv c = some (c.1 + (rdWorker cfg sv c).1.length, e) := by
  unfold rdEvent; rw [h]

/-- Hypotheses on a chunk list used by the concurrent read: what `planChunks` guarantees. -/
structure GoodPlan (cfg : Cfg) (sv : Served) (off len : Nat) (P : List (Nat × Nat)) : Prop where
  sorted : P.Pairwise (fun a b => a.1 + a.2 ≤ b.1)
  inside : ∀ c ∈ P, off ≤ c.1 ∧ c.1 + c.2 ≤ off + len
  ok : ∀ c ∈ P, RdOK sv c.1 c.2 (rdWorker cfg sv c)
  cover : ∀ i, off ≤ i → i < off + len → ∃ c ∈ P, c.1 ≤ i ∧ i < c.1 + c.2

theorem goodPlan (cfg : Cfg) (sv : Served) (hmp : 1 ≤ cfg.maxPacket) (htx : cfg.maxPacket ≤ cfg.maxTx)
    (off len : Nat) : GoodPlan cfg sv off len (planChunks cfg.maxPacket off len) where
  sorted := plan_sorted _ hmp off len
  inside := fun c hc => by have := plan_mem _ hmp off len c hc; omega
  ok := fun c hc => by
    have := plan_mem _ hmp off len c hc
    exact rdWorker_ok cfg sv c.1 c.2 (by omega) (by omega)
  cover := plan_cover _ hmp off len

theorem rdEvents_sorted {cfg : Cfg} {sv : Served} (l : List (Nat × Nat))
    (hs : l.Pairwise (fun a b => a.1 + a.2 ≤ b.1))
    (hok : ∀ c ∈ l, RdOK sv c.1 c.2 (rdWorker cfg sv c)) :
    (l.filterMap (rdEvent cfg sv)).Pairwise (fun a b => a.1 < b.1) := by
  induction l with
  | nil => exact List.Pairwise.nil
  | cons c l ih =>
    have hp := List.pairwise_cons.mp hs
    have ih' := ih hp.2 (fun c' hc' => hok c' (by simp [hc']))
    rw [List.filterMap_cons]
    split
    · exact ih'
    · next e he =>
      refine List.pairwise_cons.mpr ⟨?_, ih'⟩
      intro e' he'
      obtain ⟨c', hc', hce⟩ := List.mem_filterMap.mp he'
      obtain ⟨h1, h2⟩ := rdEvent_some he
      obtain ⟨_, h2'⟩ := rdEvent_some hce
      have := (hok c (by simp)).short (by rw [h1]; simp)
      have := hp.1 c' hc'
      omega

theorem bufW_disjoint {cfg : Cfg} {sv : Served} {off len : Nat} {P : List (Nat × Nat)}
    (g : GoodPlan cfg sv off len P) : (P.map (bufW cfg sv off)).Pairwise WDisjoint := by
  rw [List.pairwise_map]
  refine g.sorted.imp_of_mem ?_
  intro a b ha hb hab i hi
  have h1 := (g.ok a ha).le
  have := (g.inside a ha).1
  have := (g.inside b hb).1
  unfold covers bufW at hi
  simp only at hi
  omega

theorem sublist_prefix {α} (D R : List α) : (D).Sublist (D ++ R) := List.sublist_append_left D R

/-- Key lemma: below the boundary `B` (≤ every error event of the dispatched set) each buffer byte
is the file's byte, whatever the dispatched prefix and the copy order. -/
theorem concRead_byte {cfg : Cfg} {sv : Served} {off len : Nat} {P D arrD : List (Nat × Nat)}
    (g : GoodPlan cfg sv off len P) (hadm : Admissible (rdEvent cfg sv) P D) (hperm : D.Perm arrD)
    (buf0 : Bytes) (B : Nat) (hBle : B ≤ off + len)
    (hB : ∀ c ∈ D, ∀ e, rdEvent cfg sv c = some e → B ≤ e.1) (i : Nat) (hi : off + i < B) :
    byteAt (applyAll buf0 (arrD.map (bufW cfg sv off))) i = byteAt sv.data (off + i) ∧
      off + i < sv.data.length := by
  obtain ⟨c, hcP, hc1, hc2⟩ := g.cover (off + i) (by omega) (by omega)
  obtain ⟨R, hPR, hR⟩ := hadm
  have hsorted := g.sorted
  rw [hPR] at hsorted
  have hcross := (List.pairwise_append.mp hsorted).2.2
  -- the covering chunk was dispatched
  have hcD : c ∈ D := by
    rw [hPR] at hcP
    rcases List.mem_append.mp hcP with h | hcR
    · exact h
    · exfalso
      rcases hR with rfl | ⟨c', hc', hs⟩
      · simp at hcR
      · obtain ⟨e, he⟩ := Option.isSome_iff_exists.mp hs
        have hBe := hB c' hc' e he
        obtain ⟨h1, h2⟩ := rdEvent_some he
        have := (g.ok c' (by rw [hPR]; simp [hc'])).short (by rw [h1]; simp)
        have := hcross c' hc' c hcR
        omega
  -- its data reaches beyond i
  have hok := g.ok c hcP
  have hreach : off + i < c.1 + (rdWorker cfg sv c).1.length := by
    cases he : (rdWorker cfg sv c).2 with
    | none => have := hok.full he; omega
    | some e => have := hB c hcD _ (rdEvent_of_err he); simp only at this; omega
  have hin := g.inside c hcP
  have hcov : covers (bufW cfg sv off c) i := by
    unfold covers bufW; simp only; omega
  -- disjointness of the copies
  have hdisjD : (D.map (bufW cfg sv off)).Pairwise WDisjoint := by
    have := bufW_disjoint g
    rw [hPR, List.map_append] at this
    exact (List.pairwise_append.mp this).1
  have hdisj : (arrD.map (bufW cfg sv off)).Pairwise WDisjoint :=
    (hperm.map _).pairwise hdisjD (fun h => wdisjoint_symm h)
  have hmem : bufW cfg sv off c ∈ arrD.map (bufW cfg sv off) :=
    List.mem_map.mpr ⟨c, hperm.mem_iff.mp hcD, rfl⟩
  rw [byteAt_applyAll_some _ hdisj buf0 i _ hmem hcov]
  have hlf := hok.len_le_file
  constructor
  · show byteAt (rdWorker cfg sv c).1 (i - (c.1 - off)) = _
    rw [hok.pref, byteAt_take, if_pos (by omega), byteAt_drop]
    congr 1; omega
  · omega

theorem concRead_buf_length {cfg : Cfg} {sv : Served} {off len : Nat} {P D arrD : List (Nat × Nat)}
    (g : GoodPlan cfg sv off len P) (hadm : Admissible (rdEvent cfg sv) P D) (hperm : D.Perm arrD)
    (buf0 : Bytes) (hbuf : buf0.length = len) :
    (applyAll buf0 (arrD.map (bufW cfg sv off))).length = len := by
  rw [length_applyAll, hbuf]
  apply Nat.le_antisymm
  · rw [endMax_le_iff]
    refine ⟨Nat.le_refl _, ?_⟩
    intro w hw _
    obtain ⟨c, hc, rfl⟩ := List.mem_map.mp hw
    obtain ⟨R, hPR, _⟩ := hadm
    have hcP : c ∈ P := by rw [hPR]; exact List.mem_append_left _ (hperm.mem_iff.mpr hc)
    have := (g.ok c hcP).le
    have := g.inside c hcP
    unfold bufW; simp only; omega
  · exact ((endMax_le_iff _ len _).mp (Nat.le_refl _)).1

/-- The concurrent readAt meets the read specification for every admissible dispatched set, every
order in which workers fill the buffer and every arrival order of the error events. -/
theorem concRead_ok {cfg : Cfg} {sv : Served} {off len : Nat} {P D arrD : List (Nat × Nat)}
    (g : GoodPlan cfg sv off len P) (hadm : Admissible (rdEvent cfg sv) P D) (hperm : D.Perm arrD)
    (arrE : List Ev) (hE : (D.filterMap (rdEvent cfg sv)).Perm arrE)
    (buf0 : Bytes) (hbuf : buf0.length = len) :
    RdOK sv off len ((concRead cfg sv off len buf0 arrD arrE).2.2, (concRead cfg sv off len buf0 arrD arrE).2.1) ∧
    (concRead cfg sv off len buf0 arrD arrE).1 = (concRead cfg sv off len buf0 arrD arrE).2.2.length := by
  have hlenbuf := concRead_buf_length g hadm hperm buf0 hbuf
  -- generic assembly from a boundary B
  have assemble : ∀ B, off ≤ B → B ≤ off + len →
      (∀ c ∈ D, ∀ e, rdEvent cfg sv c = some e → B ≤ e.1) →
      ((applyAll buf0 (arrD.map (bufW cfg sv off))).take (B - off)) =
        (sv.data.drop off).take ((applyAll buf0 (arrD.map (bufW cfg sv off))).take (B - off)).length ∧
      ((applyAll buf0 (arrD.map (bufW cfg sv off))).take (B - off)).length = B - off := by
    intro B hB1 hB2 hB
    have hl : ((applyAll buf0 (arrD.map (bufW cfg sv off))).take (B - off)).length = B - off := by
      rw [List.length_take, hlenbuf]; omega
    refine ⟨?_, hl⟩
    rw [hl]
    have hbyte := fun i hi => concRead_byte g hadm hperm buf0 B hB2 hB i hi
    apply bytes_ext
    · rw [hl, List.length_take, List.length_drop]
      by_cases h0 : B - off = 0
      · omega
      · have := (hbyte (B - off - 1) (by omega)).2
        omega
    · intro i
      rw [byteAt_take, byteAt_take, byteAt_drop]
      by_cases hi : i < B - off
      · rw [if_pos hi, if_pos hi]; exact (hbyte i (by omega)).1
      · rw [if_neg hi, if_neg hi]
  unfold concRead concResult
  cases hfold : foldEarliest arrE with
  | none =>
    simp only
    have hnil : arrE = [] := foldEarliest_eq_none.mp hfold
    subst hnil
    have hevs : D.filterMap (rdEvent cfg sv) = [] := hE.eq_nil
    have hnone : ∀ c ∈ D, rdEvent cfg sv c = none := List.filterMap_eq_nil_iff.mp hevs
    obtain ⟨h1, h2⟩ := assemble (off + len) (by omega) (Nat.le_refl _)
      (fun c hc e he => by rw [hnone c hc] at he; cases he)
    rw [Nat.add_sub_cancel_left] at h1 h2
    refine ⟨{ pref := h1, le := (by simp only; omega), full := (fun _ => h2),
              short := (fun h => absurd rfl h), cls := Or.inl rfl }, h2.symm⟩
  | some e0 =>
    simp only
    obtain ⟨hm, hmin⟩ := foldEarliest_some hfold
    have hm' : e0 ∈ D.filterMap (rdEvent cfg sv) := hE.mem_iff.mpr hm
    obtain ⟨c0, hc0, hce0⟩ := List.mem_filterMap.mp hm'
    obtain ⟨R, hPR, _⟩ := hadm
    have hc0P : c0 ∈ P := by rw [hPR]; exact List.mem_append_left _ hc0
    obtain ⟨h1, h2⟩ := rdEvent_some hce0
    have hok0 := g.ok c0 hc0P
    have hshort := hok0.short (by rw [h1]; simp)
    have hin := g.inside c0 hc0P
    obtain ⟨a1, a2⟩ := assemble e0.1 (by omega) (by omega)
      (fun c hc e he => hmin e (hE.mem_iff.mp (List.mem_filterMap.mpr ⟨c, hc, he⟩)))
    refine ⟨{ pref := a1, le := (by simp only; omega), full := (fun h => by cases h),
              short := (fun _ => by simp only; omega), cls := ?_ }, a2.symm⟩
    simp only [a2]
    have hoff : off + (e0.1 - off) = c0.1 + (rdWorker cfg sv c0).1.length := by omega
    rcases hok0.cls with h | ⟨h, hl⟩ | ⟨k, h, hk⟩
    · rw [h1] at h; cases h
    · rw [h1] at h
      have h' : e0.2 = .eof := Option.some.inj h
      exact Or.inr (Or.inl ⟨by rw [h'], by omega⟩)
    · rw [h1] at h
      have h' : e0.2 = .srv k := Option.some.inj h
      exact Or.inr (Or.inr ⟨k, by rw [h'], by rw [hoff]; exact hk⟩)

end Sftp.Transfer
