import Sftp.Proofs.Transfer.Plan
/- Helper lemmas: the earliest-offset reduce is a minimum, hence order independent. -/
namespace Sftp.Transfer
open Sftp

theorem foldl_foldStep (evs : List Ev) (acc : Option Ev) :
    (evs.foldl foldStep acc = acc ∨ ∃ e ∈ evs, evs.foldl foldStep acc = some e) ∧
    (∀ e ∈ evs, ∃ m, evs.foldl foldStep acc = some m ∧ m.1 ≤ e.1) ∧
    (∀ a, acc = some a → ∃ m, evs.foldl foldStep acc = some m ∧ m.1 ≤ a.1) := by
  induction evs generalizing acc with
  | nil => exact ⟨Or.inl rfl, fun e he => by simp at he, fun a ha => ⟨a, ha, Nat.le_refl _⟩⟩
  | cons x xs ih =>
    rw [List.foldl_cons]
    obtain ⟨h1, h2, h3⟩ := ih (foldStep acc x)
    -- facts about one step
    have hstep : (foldStep acc x = some x ∨ foldStep acc x = acc) ∧
        (∃ s, foldStep acc x = some s ∧ s.1 ≤ x.1) ∧
        (∀ a, acc = some a → ∃ s, foldStep acc x = some s ∧ s.1 ≤ a.1) := by
      cases acc with
      | none => exact ⟨Or.inl rfl, ⟨x, rfl, Nat.le_refl _⟩, fun a ha => by cases ha⟩
      | some a0 =>
        by_cases hle : x.1 ≤ a0.1
        · have e1 : foldStep (some a0) x = some x := by simp only [foldStep, hle, if_true]
          rw [e1]
          exact ⟨Or.inl rfl, ⟨x, rfl, Nat.le_refl _⟩, fun a ha => by cases ha; exact ⟨x, rfl, hle⟩⟩
        · have e1 : foldStep (some a0) x = some a0 := by simp only [foldStep, hle, if_false]
          rw [e1]
          exact ⟨Or.inr rfl, ⟨a0, rfl, by omega⟩, fun a ha => by cases ha; exact ⟨a0, rfl, Nat.le_refl _⟩⟩
    obtain ⟨s1, ⟨s, hs, hsx⟩, s3⟩ := hstep
    refine ⟨?_, ?_, ?_⟩
    · rcases h1 with h1 | ⟨e, he, h1⟩
      · rcases s1 with s1 | s1
        · exact Or.inr ⟨x, by simp, by rw [h1, s1]⟩
        · exact Or.inl (by rw [h1, s1])
      · exact Or.inr ⟨e, by simp [he], h1⟩
    · intro e he
      rcases List.mem_cons.mp he with rfl | he
      · obtain ⟨m, hm, hle⟩ := h3 s hs
        exact ⟨m, hm, by omega⟩
      · exact h2 e he
    · intro a ha
      obtain ⟨s', hs', hle'⟩ := s3 a ha
      obtain ⟨m, hm, hle⟩ := h3 s' hs'
      exact ⟨m, hm, by omega⟩

theorem foldEarliest_nil : foldEarliest [] = none := rfl

theorem foldEarliest_some {evs : List Ev} {m : Ev} (h : foldEarliest evs = some m) :
    m ∈ evs ∧ ∀ e ∈ evs, m.1 ≤ e.1 := by
  unfold foldEarliest at h
  obtain ⟨h1, h2, _⟩ := foldl_foldStep evs none
  constructor
  · rcases h1 with h1 | ⟨e, he, h1⟩
    · rw [h] at h1; cases h1
    · rw [h] at h1; cases h1; exact he
  · intro e he
    obtain ⟨m', hm', hle⟩ := h2 e he
    rw [h] at hm'; cases hm'; exact hle

theorem foldEarliest_ne_none {evs : List Ev} (h : evs ≠ []) : ∃ m, foldEarliest evs = some m := by
  cases evs with
  | nil => exact absurd rfl h
  | cons x xs =>
    obtain ⟨_, h2, _⟩ := foldl_foldStep (x :: xs) none
    obtain ⟨m, hm, _⟩ := h2 x (by simp)
    exact ⟨m, hm⟩

theorem foldEarliest_eq_none {evs : List Ev} : foldEarliest evs = none ↔ evs = [] := by
  constructor
  · intro h
    apply Classical.byContradiction
    intro hne
    obtain ⟨m, hm⟩ := foldEarliest_ne_none hne
    rw [h] at hm; cases hm
  · rintro rfl; rfl

theorem eq_of_nodup_fst {evs : List Ev} (hn : (evs.map Prod.fst).Nodup) {a b : Ev}
    (ha : a ∈ evs) (hb : b ∈ evs) (h : a.1 = b.1) : a = b := by
  induction evs with
  | nil => simp at ha
  | cons x xs ih =>
    rw [List.map_cons, List.nodup_cons] at hn
    rcases List.mem_cons.mp ha with rfl | ha' <;> rcases List.mem_cons.mp hb with rfl | hb'
    · rfl
    · exact absurd (List.mem_map.mpr ⟨b, hb', h.symm⟩) hn.1
    · exact absurd (List.mem_map.mpr ⟨a, ha', h⟩) hn.1
    · exact ih hn.2 ha' hb'

/-- Order independence of the earliest-offset reduce: when the event offsets are pairwise
distinct, every arrival order yields the same `firstErr` (so `<=` versus `<` is irrelevant). -/
theorem foldEarliest_perm {evs evs' : List Ev} (hp : evs.Perm evs')
    (hn : (evs.map Prod.fst).Nodup) : foldEarliest evs = foldEarliest evs' := by
  by_cases hnil : evs = []
  · subst hnil; have := hp.nil_eq; subst this; rfl
  · have hnil' : evs' ≠ [] := fun h => hnil (by subst h; exact hp.eq_nil)
    obtain ⟨m, hm⟩ := foldEarliest_ne_none hnil
    obtain ⟨m', hm'⟩ := foldEarliest_ne_none hnil'
    obtain ⟨h1, h2⟩ := foldEarliest_some hm
    obtain ⟨h1', h2'⟩ := foldEarliest_some hm'
    have hm'in : m' ∈ evs := hp.mem_iff.mpr h1'
    have := h2 m' hm'in
    have := h2' m (hp.mem_iff.mp h1)
    rw [hm, hm', eq_of_nodup_fst hn h1 hm'in (by omega)]

/-- With strictly increasing event offsets (plan order) every arrival order yields the first event. -/
theorem foldEarliest_sorted {evs evs' : List Ev} (hp : evs.Perm evs')
    (hs : evs.Pairwise (fun a b => a.1 < b.1)) : foldEarliest evs' = evs.head? := by
  cases evs with
  | nil => have := hp.nil_eq; subst this; rfl
  | cons h t =>
    have hne : evs' ≠ [] := fun hh => by subst hh; exact absurd hp.eq_nil (by simp)
    obtain ⟨m, hm⟩ := foldEarliest_ne_none hne
    obtain ⟨h1, h2⟩ := foldEarliest_some hm
    have hle := h2 h (hp.mem_iff.mp (by simp))
    rw [hm, List.head?_cons]
    rcases List.mem_cons.mp (hp.mem_iff.mpr h1) with rfl | hmt
    · rfl
    · have := (List.pairwise_cons.mp hs).1 m hmt
      omega

theorem nodup_fst_of_sorted {evs : List Ev} (hs : evs.Pairwise (fun a b => a.1 < b.1)) :
    (evs.map Prod.fst).Nodup := by
  unfold List.Nodup
  rw [List.pairwise_map]
  exact hs.imp (fun h => by omega)

/-- The dispatched prefix of an admissible schedule has the same first event as the whole plan. -/
theorem admissible_head {α} (ev : α → Option Ev) (P D : List α) (h : Admissible ev P D) :
    (D.filterMap ev).head? = (P.filterMap ev).head? := by
  obtain ⟨R, rfl, hR⟩ := h
  rcases hR with rfl | ⟨c, hc, hs⟩
  · rw [List.append_nil]
  · rw [List.filterMap_append]
    have : D.filterMap ev ≠ [] := by
      obtain ⟨e, he⟩ := Option.isSome_iff_exists.mp hs
      intro hnil
      have : e ∈ D.filterMap ev := List.mem_filterMap.mpr ⟨c, hc, he⟩
      rw [hnil] at this; simp at this
    cases hD : D.filterMap ev with
    | nil => exact absurd hD this
    | cons x xs => rfl

theorem admissible_full {α} (ev : α → Option Ev) (P : List α) : Admissible ev P P :=
  ⟨[], (List.append_nil P).symm, Or.inl rfl⟩

end Sftp.Transfer
