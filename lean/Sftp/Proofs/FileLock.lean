import Sftp.Model.FileFacts
/-
  C12 lock-discipline lemma: with an exclusive `Close` and methods that keep their lock while they use the
  handle, no request carrying the handle is written after its CLOSE — for all interleavings.
-/
namespace Sftp.FileLock

theorem okW_append_close (w : List Msg) : ∀ c, okW c (w ++ [.close]) = okW c w := by
  induction w with
  | nil => intro c; rfl
  | cons m r ih => intro c; cases m <;> simp [okW, ih]

theorem okW_append_req (w : List Msg) : ∀ c, okW c (w ++ [.req]) = (okW c w && !c && !w.contains .close) := by
  induction w with
  | nil => intro c; simp [okW]
  | cons m r ih =>
    intro c
    cases m
    · simp only [List.cons_append, okW, ih, List.contains_cons]
      cases c <;> cases okW _ r <;> simp
    · simp only [List.cons_append, okW, ih, List.contains_cons]
      cases okW true r <;> simp

structure Inv (s : State) : Prop where
  excl : ∀ i, s.writer = some i → s.holders = []
  holdsB : ∀ t, ((s.th t).phase = .locked ∨ (s.th t).phase = .using) → (s.writer = some t ∨ t ∈ s.holders)
  closeW : ∀ t, (s.th t).isClose = true → ((s.th t).phase = .locked ∨ (s.th t).phase = .using) → s.writer = some t
  writerClose : ∀ t, s.writer = some t → (s.th t).isClose = true
  noUser : .close ∈ s.wire → ∀ t, (s.th t).phase = .using → (s.th t).isClose = true
  openD : .close ∈ s.wire → s.isOpen = true → ∃ t, s.writer = some t
  clearedClosed : ∀ t, (s.th t).cleared = true → s.isOpen = false
  ok : okW false s.wire = true

theorem inv_init : Inv {} where
  excl := by intro i h; cases h
  holdsB := by intro t h; rcases h with h | h <;> cases h
  closeW := by intro t h; cases h
  writerClose := by intro t h; cases h
  noUser := by intro h; cases h
  openD := by intro h; cases h
  clearedClosed := by intro t h; cases h
  ok := rfl

/-- thread `t` leaves (phase `done`) and drops the lock -/
theorem inv_leave {s : State} (hi : Inv s) (t : Nat) (v : Thread) (hv : v.phase = .done)
    (hc : v.cleared = (s.th t).cleared)
    (hopen : .close ∈ s.wire → s.isOpen = true → s.writer ≠ some t) :
    Inv (unlock { s with th := setT s.th t v } t) := by
  have hne : ∀ j, (setT s.th t v j).phase = .locked ∨ (setT s.th t v j).phase = .using → j ≠ t ∧ setT s.th t v j = s.th j := by
    intro j h
    by_cases hj : j = t
    · subst hj; simp [setT, hv] at h
    · exact ⟨hj, by simp [setT, hj]⟩
  refine ⟨?_, ?_, ?_, ?_, ?_, ?_, ?_, hi.ok⟩
  · intro i h
    simp only [unlock] at h ⊢
    split at h
    · cases h
    · rw [hi.excl i h]; rfl
  · intro j h
    obtain ⟨hj, e⟩ := hne j h
    simp only [unlock] at h ⊢; rw [e] at h
    rcases hi.holdsB j h with h' | h'
    · left; rw [if_neg]; exact h'
      intro hh; rw [h'] at hh; exact hj (Option.some.inj hh)
    · right; exact (List.mem_erase_of_ne hj).2 h'
  · intro j hc' h
    obtain ⟨hj, e⟩ := hne j h
    simp only [unlock] at h hc' ⊢; rw [e] at h hc'
    have h' := hi.closeW j hc' h
    rw [if_neg]; exact h'
    intro hh; rw [h'] at hh; exact hj (Option.some.inj hh)
  · intro j h
    simp only [unlock] at h ⊢
    split at h
    · cases h
    · next hw =>
      have hj : j ≠ t := by intro e; subst e; exact hw h
      simp only [setT, if_neg hj]; exact hi.writerClose j h
  · intro hcl j h
    obtain ⟨_, e⟩ := hne j (.inr h)
    simp only [unlock] at h ⊢; rw [e] at h ⊢
    exact hi.noUser hcl j h
  · intro hcl ho
    simp only [unlock] at hcl ho ⊢
    obtain ⟨t', ht'⟩ := hi.openD hcl ho
    refine ⟨t', ?_⟩
    rw [if_neg (hopen hcl ho)]; exact ht'
  · intro j h
    simp only [unlock] at h ⊢
    by_cases hj : j = t
    · subst hj; simp only [setT, if_pos] at h; rw [hc] at h; exact hi.clearedClosed j h
    · simp only [setT, if_neg hj] at h; exact hi.clearedClosed j h

theorem step_inv (cfg : Cfg) (hx : cfg.closeExclusive = true) (hm : cfg.methodsHold = true)
    {s s' : State} {a : Action} (hi : Inv s) (h : step cfg s a = some s') : Inv s' := by
  cases a with
  | acquire t c =>
    simp only [step, hx, Bool.and_true] at h
    split at h
    · cases h
    · next hidle =>
      have hidle : (s.th t).phase = .idle := by simpa using hidle
      have hother : ∀ j, (setT s.th t { isClose := c, phase := .locked } j).phase = .locked ∨
          (setT s.th t { isClose := c, phase := .locked } j).phase = .using → j ≠ t →
          (s.th j).phase = .locked ∨ (s.th j).phase = .using := by
        intro j hj hne; simpa [setT, hne] using hj
      split at h
      · next hc =>
        split at h
        · next hfree =>
          cases h
          obtain ⟨hw, hh⟩ := hfree
          refine ⟨fun _ _ => hh, ?_, ?_, ?_, ?_, ?_, ?_, hi.ok⟩
          · intro j hj
            by_cases hne : j = t
            · left; rw [hne]
            · rcases hi.holdsB j (hother j hj hne) with h' | h'
              · rw [hw] at h'; cases h'
              · rw [hh] at h'; cases h'
          · intro j _ hj
            by_cases hne : j = t
            · rw [hne]
            · rcases hi.holdsB j (hother j hj hne) with h' | h'
              · rw [hw] at h'; cases h'
              · rw [hh] at h'; cases h'
          · intro j hj
            have : j = t := (Option.some.inj hj).symm
            subst this; simp [setT, hc]
          · intro hcl j hj
            by_cases hne : j = t
            · subst hne; simp [setT] at hj
            · simp only [setT, if_neg hne] at hj ⊢; exact hi.noUser hcl j hj
          · intro _ _; exact ⟨t, rfl⟩
          · intro j hj
            by_cases hne : j = t
            · subst hne; simp [setT] at hj
            · simp only [setT, if_neg hne] at hj; exact hi.clearedClosed j hj
        · cases h
      · next hc =>
        have hc : c = false := by simpa using hc
        split at h
        · next hw =>
          cases h
          refine ⟨?_, ?_, ?_, ?_, ?_, ?_, ?_, hi.ok⟩
          · intro i h'; rw [hw] at h'; cases h'
          · intro j hj
            by_cases hne : j = t
            · right; rw [hne]; exact List.mem_cons_self
            · rcases hi.holdsB j (hother j hj hne) with h' | h'
              · left; exact h'
              · right; exact List.mem_cons_of_mem _ h'
          · intro j hcj hj
            by_cases hne : j = t
            · subst hne; simp [setT, hc] at hcj
            · simp only [setT, if_neg hne] at hcj
              exact hi.closeW j hcj (hother j hj hne)
          · intro j hj; rw [hw] at hj; cases hj
          · intro hcl j hj
            by_cases hne : j = t
            · subst hne; simp [setT] at hj
            · simp only [setT, if_neg hne] at hj ⊢; exact hi.noUser hcl j hj
          · intro hcl ho; exact hi.openD hcl ho
          · intro j hj
            by_cases hne : j = t
            · subst hne; simp [setT] at hj
            · simp only [setT, if_neg hne] at hj; exact hi.clearedClosed j hj
        · cases h
  | readHandle t =>
    simp only [step, hm] at h
    split at h
    · cases h
    · next hl =>
      have hl : (s.th t).phase = .locked := by simpa using hl
      split at h
      · next ho =>
        simp only [Bool.not_true, Bool.false_and, Bool.false_eq_true, if_false, Option.some.injEq] at h
        subst h
        have hph : ∀ j, (setT s.th t { s.th t with phase := .using } j).phase = .locked ∨
            (setT s.th t { s.th t with phase := .using } j).phase = .using →
            (s.th j).phase = .locked ∨ (s.th j).phase = .using := by
          intro j hj
          by_cases hne : j = t
          · subst hne; exact .inl hl
          · simpa [setT, hne] using hj
        have hcl' : ∀ j, (setT s.th t { s.th t with phase := .using } j).isClose = (s.th j).isClose := by
          intro j; by_cases hne : j = t
          · subst hne; simp [setT]
          · simp [setT, hne]
        refine ⟨hi.excl, fun j hj => hi.holdsB j (hph j hj), ?_, ?_, ?_, hi.openD, ?_, hi.ok⟩
        · intro j hcj hj; rw [hcl'] at hcj; exact hi.closeW j hcj (hph j hj)
        · intro j hj; rw [hcl']; exact hi.writerClose j hj
        · intro hcl j hj
          rw [hcl']
          by_cases hne : j = t
          · subst hne
            obtain ⟨t', ht'⟩ := hi.openD hcl ho
            have hh := hi.excl t' ht'
            rcases hi.holdsB j (.inl hl) with h' | h'
            · exact hi.writerClose j h'
            · rw [hh] at h'; cases h'
          · simp only [setT, if_neg hne] at hj; exact hi.noUser hcl j hj
        · intro j hj
          by_cases hne : j = t
          · subst hne; simp only [setT, if_pos] at hj; exact hi.clearedClosed j hj
          · simp only [setT, if_neg hne] at hj; exact hi.clearedClosed j hj
      · next ho =>
        cases h
        have ho : s.isOpen = false := by simpa using ho
        exact inv_leave hi t _ rfl rfl (fun _ h' => by rw [ho] at h'; cases h')
  | send t =>
    simp only [step] at h
    split at h
    · cases h
    · next hu =>
      have hu : (s.th t).phase = .using := by simpa using hu
      split at h
      · next hc =>
        split at h
        · cases h
        · cases h
          have hw := hi.closeW t hc (.inr hu)
          have hh := hi.excl t hw
          have hsame : ∀ j, (setT s.th t { s.th t with sent := true } j).phase = (s.th j).phase ∧
              (setT s.th t { s.th t with sent := true } j).isClose = (s.th j).isClose ∧
              (setT s.th t { s.th t with sent := true } j).cleared = (s.th j).cleared := by
            intro j; by_cases hne : j = t
            · subst hne; simp [setT]
            · simp [setT, hne]
          refine ⟨hi.excl, ?_, ?_, ?_, ?_, fun _ _ => ⟨t, hw⟩, ?_, ?_⟩
          · intro j hj; rw [(hsame j).1] at hj; exact hi.holdsB j hj
          · intro j hcj hj; rw [(hsame j).1] at hj; rw [(hsame j).2.1] at hcj; exact hi.closeW j hcj hj
          · intro j hj; rw [(hsame j).2.1]; exact hi.writerClose j hj
          · intro _ j hj
            rw [(hsame j).1] at hj; rw [(hsame j).2.1]
            rcases hi.holdsB j (.inr hj) with h' | h'
            · exact hi.writerClose j h'
            · rw [hh] at h'; cases h'
          · intro j hj; rw [(hsame j).2.2] at hj; exact hi.clearedClosed j hj
          · show okW false (s.wire ++ [.close]) = true
            rw [okW_append_close]; exact hi.ok
      · next hc =>
        cases h
        have hnc : Msg.close ∉ s.wire := fun hcl => hc (hi.noUser hcl t hu)
        refine ⟨hi.excl, hi.holdsB, hi.closeW, hi.writerClose, ?_, ?_, hi.clearedClosed, ?_⟩
        · intro hcl; exfalso; simp only [List.mem_append, List.mem_singleton] at hcl
          rcases hcl with h' | h'
          · exact hnc h'
          · cases h'
        · intro hcl; exfalso; simp only [List.mem_append, List.mem_singleton] at hcl
          rcases hcl with h' | h'
          · exact hnc h'
          · cases h'
        · show okW false (s.wire ++ [.req]) = true
          rw [okW_append_req, hi.ok]
          simp only [Bool.not_false, Bool.and_self, Bool.true_and, Bool.not_eq_eq_eq_not, Bool.not_true]
          simpa using hnc
  | clear t =>
    simp only [step] at h
    split at h
    · cases h
    · cases h
      have hsame : ∀ j, (setT s.th t { s.th t with cleared := true } j).phase = (s.th j).phase ∧
          (setT s.th t { s.th t with cleared := true } j).isClose = (s.th j).isClose := by
        intro j; by_cases hne : j = t
        · subst hne; simp [setT]
        · simp [setT, hne]
      refine ⟨hi.excl, ?_, ?_, ?_, ?_, fun _ ho => (by cases ho), fun _ _ => rfl, hi.ok⟩
      · intro j hj; rw [(hsame j).1] at hj; exact hi.holdsB j hj
      · intro j hcj hj; rw [(hsame j).1] at hj; rw [(hsame j).2] at hcj; exact hi.closeW j hcj hj
      · intro j hj; rw [(hsame j).2]; exact hi.writerClose j hj
      · intro hcl j hj; rw [(hsame j).1] at hj; rw [(hsame j).2]; exact hi.noUser hcl j hj
  | release t =>
    simp only [step] at h
    split at h
    · cases h
    · split at h
      · cases h
      · next hrel =>
        cases h
        refine inv_leave hi t _ rfl rfl (fun _ ho hw => ?_)
        have hc := hi.writerClose t hw
        have : (s.th t).cleared = true := by
          cases hcl : (s.th t).cleared with
          | true => rfl
          | false => simp [hc, hcl] at hrel
        rw [hi.clearedClosed t this] at ho; cases ho

theorem run_inv (cfg : Cfg) (hx : cfg.closeExclusive = true) (hm : cfg.methodsHold = true) :
    ∀ (as : List Action) (s s' : State), Inv s → run cfg s as = some s' → Inv s'
  | [], s, s', hi, h => by cases h; exact hi
  | a :: as, s, s', hi, h => by
    rw [run] at h
    split at h
    · next s1 h1 => exact run_inv cfg hx hm as s1 s' (step_inv cfg hx hm hi h1) h
    · cases h

end Sftp.FileLock
