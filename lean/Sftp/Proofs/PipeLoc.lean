import Sftp.Proofs.PipeList
/-
  Location invariant of the pipeline: every dispatched request is in exactly one place
  (sent/outgoing, respInbox, a queue or a worker slot), the WaitGroup counter counts exactly the requests
  that are in a queue or a worker slot, and every response anywhere was built by the handler of a dispatched
  request.  Needs only `registerBeforeHandoff`.
-/
set_option linter.unusedSimpArgs false
namespace Sftp.Pipe

def slotOids : Slot → List Nat
  | .idle => []
  | .holding r => [r.oid]
  | .done p => [p.oid]

def slotReqs : Slot → List OReq
  | .holding r => [r]
  | _ => []

def slotResps : Slot → List Resp
  | .done p => [p]
  | _ => []

/-- order ids of the requests registered with the WaitGroup and not yet readied -/
def pendingOids (s : State) : List Nat :=
  s.poolQueue.map OReq.oid ++ s.cmdQueue.map OReq.oid ++ s.slots.flatMap slotOids ++ slotOids s.cmdSlot

/-- order ids of all places a dispatched request's response (or the request on its way to it) can be -/
def locs (s : State) : List Nat :=
  (s.sent ++ s.outgoing).map Resp.oid ++ s.respInbox.map Resp.oid ++ pendingOids s

def pendingReqs (s : State) : List OReq :=
  s.poolQueue ++ s.cmdQueue ++ s.slots.flatMap slotReqs ++ slotReqs s.cmdSlot

def allResps (s : State) : List Resp :=
  (s.sent ++ s.outgoing) ++ s.respInbox ++ s.slots.flatMap slotResps ++ slotResps s.cmdSlot

/-- `p` is what the handler of a dispatched request produced, and that handler has run. -/
def RespOk (d : List OReq) (hd : List Nat) (p : Resp) : Prop := ∃ r ∈ d, p = mkResp r ∧ r.oid ∈ hd

theorem RespOk.mono {d hd p} (h : RespOk d hd p) (d' : List OReq) (hd' : List Nat) :
    RespOk (d ++ d') (hd ++ hd') p := by
  obtain ⟨r, hr, hp, hh⟩ := h
  exact ⟨r, List.mem_append_left _ hr, hp, List.mem_append_left _ hh⟩

structure InvLoc (s : State) : Prop where
  recvOids : s.received.map OReq.oid = List.range' 1 s.received.length
  split : s.received = s.dispatched ++ s.pktChan
  noPend : s.pendingReg = none
  noPanic : s.panicked = false
  work : s.working = (pendingOids s).length
  cnt : (locs s).Perm (List.range' 1 s.dispatched.length)
  reqOk : ∀ r ∈ pendingReqs s, r ∈ s.dispatched
  respOk : ∀ p ∈ allResps s, RespOk s.dispatched s.handled p

theorem flatMap_replicate_idle {β : Type} (f : Slot → List β) (hf : f .idle = []) (n : Nat) :
    (List.replicate n Slot.idle).flatMap f = [] := by
  induction n with
  | zero => rfl
  | succ n ih => simp [List.replicate_succ, hf, ih]

theorem invLoc_init (cfg : PipeCfg) : InvLoc (init cfg) := by
  have h1 := flatMap_replicate_idle slotOids rfl cfg.workers
  have h2 := flatMap_replicate_idle slotReqs rfl cfg.workers
  have h3 := flatMap_replicate_idle slotResps rfl cfg.workers
  constructor
  · rfl
  · rfl
  · rfl
  · rfl
  · simp [init, pendingOids, h1, slotOids]
  · simp [init, locs, pendingOids, h1, slotOids]
  · simp [init, pendingReqs, h2, slotReqs]
  · simp [init, allResps, h3, slotResps]

/-! ### maybeSendPackets only moves responses from the head of `outgoing` to the end of `sent` -/

theorem sendLoop_concat (hm : Bool) (is : List OReq) (os sn : List Resp) :
    (sendLoop hm is os sn).2.2 ++ (sendLoop hm is os sn).2.1 = sn ++ os := by
  induction is generalizing os sn with
  | nil => cases os <;> simp [sendLoop]
  | cons i is ih =>
    cases os with
    | nil => simp [sendLoop]
    | cons o os =>
      rw [sendLoop]
      split
      · rw [ih]; simp
      · rfl

theorem applySend_concat (cfg : PipeCfg) (s : State) :
    (applySend cfg s).sent ++ (applySend cfg s).outgoing = s.sent ++ s.outgoing :=
  sendLoop_concat _ _ _ _

theorem invLoc_applySend (cfg : PipeCfg) (s : State) (h : InvLoc s) : InvLoc (applySend cfg s) := by
  have e := applySend_concat cfg s
  constructor
  · exact h.recvOids
  · exact h.split
  · exact h.noPend
  · exact h.noPanic
  · exact h.work
  · show (((applySend cfg s).sent ++ (applySend cfg s).outgoing).map Resp.oid ++ s.respInbox.map Resp.oid
        ++ pendingOids s).Perm _
    rw [e]; exact h.cnt
  · exact h.reqOk
  · show ∀ p ∈ ((applySend cfg s).sent ++ (applySend cfg s).outgoing) ++ s.respInbox
        ++ s.slots.flatMap slotResps ++ slotResps s.cmdSlot, _
    rw [e]; exact h.respOk

/-! ### one lemma per action -/

theorem invLoc_recv {s s' : State} {r : Req} (h : InvLoc s) (hs : recvStep s r = some s') : InvLoc s' := by
  unfold recvStep at hs
  split at hs
  · simp at hs
  · simp only [Option.some.injEq] at hs
    subst hs
    constructor
    · show (s.received ++ [_]).map OReq.oid = List.range' 1 (s.received ++ [_]).length
      rw [List.map_append, h.recvOids, List.length_append, List.length_singleton, List.range'_concat]
      simp [Nat.add_comm]
    · show s.received ++ [_] = s.dispatched ++ (s.pktChan ++ [_])
      rw [← List.append_assoc, ← h.split]
    · exact h.noPend
    · exact h.noPanic
    · exact h.work
    · exact h.cnt
    · exact h.reqOk
    · exact h.respOk

/-- the head of pktChan carries order id |dispatched|+1 -/
theorem InvLoc.head_oid {s : State} (h : InvLoc s) {r : OReq} {rest : List OReq} (hp : s.pktChan = r :: rest) :
    r.oid = s.dispatched.length + 1 := by
  have := h.recvOids
  rw [h.split, hp] at this
  exact key_at_split OReq.oid this

theorem invLoc_dispatch {cfg : PipeCfg} (hreg : cfg.registerBeforeHandoff = true) {s s' : State}
    (h : InvLoc s) (hs : dispatchStep cfg s = some s') : InvLoc s' := by
  unfold dispatchStep at hs
  rw [h.noPend] at hs
  simp only [hreg, if_true] at hs
  split at hs
  · simp at hs
  · rename_i r rest hp
    have hoid := h.head_oid hp
    have hcnt : ∀ k, (locs s).count k = (List.range' 1 s.dispatched.length).count k :=
      fun k => h.cnt.count_eq k
    have hrange : List.range' 1 (s.dispatched ++ [r]).length = List.range' 1 s.dispatched.length ++ [r.oid] := by
      rw [List.length_append, List.length_singleton, List.range'_concat, hoid]
      simp [Nat.add_comm]
    split at hs
    · -- pool
      simp only [Option.some.injEq] at hs
      subst hs
      constructor
      · exact h.recvOids
      · show s.received = (s.dispatched ++ [r]) ++ rest
        rw [h.split, hp]; simp
      · rfl
      · exact h.noPanic
      · show s.working + 1 = _
        rw [h.work]
        simp only [pendingOids, List.map_append, List.length_append, List.length_map, List.length_cons,
          List.length_nil]
        omega
      · rw [hrange]
        refine List.perm_iff_count.mpr fun k => ?_
        have := hcnt k
        simp only [locs, pendingOids, List.map_append, List.map_cons, List.map_nil, List.count_append] at this ⊢
        omega
      · intro x hx
        have := h.reqOk x
        simp only [pendingReqs, List.mem_append, List.mem_singleton] at hx this ⊢
        grind
      · intro p hp'
        have := (h.respOk p hp').mono [r] []
        simpa using this
    · split at hs
      · simp at hs
      · simp only [Option.some.injEq] at hs
        subst hs
        constructor
        · exact h.recvOids
        · show s.received = (s.dispatched ++ [r]) ++ rest
          rw [h.split, hp]; simp
        · rfl
        · exact h.noPanic
        · show s.working + 1 = _
          rw [h.work]
          simp only [pendingOids, List.map_append, List.length_append, List.length_map, List.length_cons,
            List.length_nil]
          omega
        · rw [hrange]
          refine List.perm_iff_count.mpr fun k => ?_
          have := hcnt k
          simp only [locs, pendingOids, List.map_append, List.map_cons, List.map_nil, List.count_append] at this ⊢
          omega
        · intro x hx
          have := h.reqOk x
          simp only [pendingReqs, List.mem_append, List.mem_singleton] at hx this ⊢
          grind
        · intro p hp'
          have := (h.respOk p hp').mono [r] []
          simpa using this


theorem invLoc_workerTake {s s' : State} {i : Nat} (h : InvLoc s) (hs : workerTakeStep s i = some s') :
    InvLoc s' := by
  unfold workerTakeStep at hs
  split at hs
  · rename_i r rest hsl hq
    simp only [Option.some.injEq] at hs
    subst hs
    constructor
    · exact h.recvOids
    · exact h.split
    · exact h.noPend
    · exact h.noPanic
    · show s.working = _
      rw [h.work]
      have hl := length_flatMap_set slotOids (Slot.holding r) hsl
      simp only [pendingOids, hq, slotOids, List.map_cons, List.length_append, List.length_map, List.length_cons,
        List.length_nil] at hl ⊢
      omega
    · refine List.perm_iff_count.mpr fun k => ?_
      have h0 := h.cnt.count_eq k
      have hl := count_flatMap_set slotOids (Slot.holding r) hsl k
      simp only [locs, pendingOids, hq, slotOids, List.map_append, List.map_cons, List.map_nil, List.count_append,
        List.count_nil] at h0 hl ⊢
      rw [List.count_cons] at h0
      rw [List.count_singleton] at hl
      omega
    · intro x hx
      have h0 := h.reqOk x
      have hm := mem_flatMap_set slotReqs (Slot.holding r) hsl (b := x)
      simp only [pendingReqs, hq, slotReqs, List.mem_append, List.mem_cons, List.mem_singleton,
        List.not_mem_nil] at hx h0 hm ⊢
      grind
    · intro x hx
      have h0 := h.respOk x
      have hm := mem_flatMap_set slotResps (Slot.holding r) hsl (b := x)
      simp only [allResps, slotResps, List.mem_append, List.mem_cons, List.mem_singleton,
        List.not_mem_nil] at hx h0 hm ⊢
      grind
  · simp at hs

theorem invLoc_workerHandle {s s' : State} {i : Nat} (h : InvLoc s) (hs : workerHandleStep s i = some s') :
    InvLoc s' := by
  unfold workerHandleStep at hs
  split at hs
  · rename_i r hsl
    simp only [Option.some.injEq] at hs
    subst hs
    have hr : r ∈ s.dispatched := by
      apply h.reqOk
      have : r ∈ s.slots.flatMap slotReqs :=
        List.mem_flatMap.mpr ⟨_, List.mem_of_getElem? hsl, by simp [slotReqs]⟩
      simp only [pendingReqs, List.mem_append]
      exact Or.inl (Or.inr this)
    constructor
    · exact h.recvOids
    · exact h.split
    · exact h.noPend
    · exact h.noPanic
    · show s.working = _
      rw [h.work]
      have hl := length_flatMap_set slotOids (Slot.done (mkResp r)) hsl
      simp only [pendingOids, slotOids, List.length_append, List.length_map, List.length_cons,
        List.length_nil] at hl ⊢
      omega
    · refine List.perm_iff_count.mpr fun k => ?_
      have h0 := h.cnt.count_eq k
      have hl := count_flatMap_set slotOids (Slot.done (mkResp r)) hsl k
      simp only [locs, pendingOids, slotOids, mkResp, List.map_append, List.count_append] at h0 hl ⊢
      omega
    · intro x hx
      have h0 := h.reqOk x
      have hm := mem_flatMap_set slotReqs (Slot.done (mkResp r)) hsl (b := x)
      simp only [pendingReqs, slotReqs, List.mem_append, List.mem_cons, List.mem_singleton,
        List.not_mem_nil] at hx h0 hm ⊢
      grind
    · intro x hx
      have h0 := fun hx => (h.respOk x hx).mono [] [r.oid]
      have hm := mem_flatMap_set slotResps (Slot.done (mkResp r)) hsl (b := x)
      have hnew : RespOk s.dispatched (s.handled ++ [r.oid]) (mkResp r) := ⟨r, hr, rfl, by simp⟩
      simp only [allResps, slotResps, List.mem_append, List.mem_cons, List.mem_singleton,
        List.not_mem_nil, List.append_nil] at hx h0 hm ⊢
      grind
  · simp at hs

theorem invLoc_workerReady {s s' : State} {i : Nat} (h : InvLoc s) (hs : workerReadyStep s i = some s') :
    InvLoc s' := by
  unfold workerReadyStep at hs
  split at hs
  · rename_i p hsl
    have hl := length_flatMap_set slotOids Slot.idle hsl
    have hw := h.work
    simp only [pendingOids, slotOids, List.length_append, List.length_map, List.length_cons,
      List.length_nil] at hl hw
    rw [if_neg (by omega)] at hs
    simp only [Option.some.injEq] at hs
    subst hs
    constructor
    · exact h.recvOids
    · exact h.split
    · exact h.noPend
    · exact h.noPanic
    · show s.working - 1 = _
      simp only [pendingOids, slotOids, List.length_append, List.length_map, List.length_cons,
        List.length_nil]
      omega
    · refine List.perm_iff_count.mpr fun k => ?_
      have h0 := h.cnt.count_eq k
      have hl := count_flatMap_set slotOids Slot.idle hsl k
      simp only [locs, pendingOids, slotOids, List.map_append, List.map_cons, List.map_nil, List.count_append,
        List.count_nil] at h0 hl ⊢
      omega
    · intro x hx
      have h0 := h.reqOk x
      have hm := mem_flatMap_set slotReqs Slot.idle hsl (b := x)
      simp only [pendingReqs, slotReqs, List.mem_append, List.mem_cons, List.mem_singleton,
        List.not_mem_nil] at hx h0 hm ⊢
      grind
    · intro x hx
      have h0 := h.respOk x
      have hm := mem_flatMap_set slotResps Slot.idle hsl (b := x)
      have hp : p ∈ s.slots.flatMap slotResps :=
        List.mem_flatMap.mpr ⟨_, List.mem_of_getElem? hsl, by simp [slotResps]⟩
      have hp0 := h.respOk p
      simp only [allResps, slotResps, List.mem_append, List.mem_cons, List.mem_singleton,
        List.not_mem_nil] at hx h0 hm hp0 ⊢
      grind
  · simp at hs

theorem invLoc_cmdTake {s s' : State} (h : InvLoc s) (hs : cmdTakeStep s = some s') : InvLoc s' := by
  unfold cmdTakeStep at hs
  split at hs
  · rename_i r rest hsl hq
    simp only [Option.some.injEq] at hs
    subst hs
    constructor
    · exact h.recvOids
    · exact h.split
    · exact h.noPend
    · exact h.noPanic
    · show s.working = _
      rw [h.work]
      simp only [pendingOids, hq, hsl, slotOids, List.map_cons, List.length_append, List.length_map,
        List.length_cons, List.length_nil]
      omega
    · refine List.perm_iff_count.mpr fun k => ?_
      have h0 := h.cnt.count_eq k
      simp only [locs, pendingOids, hq, hsl, slotOids, List.map_append, List.map_cons, List.map_nil,
        List.count_append, List.count_nil] at h0 ⊢
      rw [List.count_cons] at h0
      rw [List.count_singleton]
      omega
    · intro x hx
      have h0 := h.reqOk x
      simp only [pendingReqs, hq, hsl, slotReqs, List.mem_append, List.mem_cons, List.mem_singleton,
        List.not_mem_nil] at hx h0 ⊢
      grind
    · intro x hx
      have h0 := h.respOk x
      simp only [allResps, hsl, slotResps, List.mem_append, List.mem_cons, List.mem_singleton,
        List.not_mem_nil] at hx h0 ⊢
      grind
  · simp at hs

theorem invLoc_cmdHandle {s s' : State} (h : InvLoc s) (hs : cmdHandleStep s = some s') : InvLoc s' := by
  unfold cmdHandleStep at hs
  split at hs
  · rename_i r hsl
    simp only [Option.some.injEq] at hs
    subst hs
    have hr : r ∈ s.dispatched := by
      apply h.reqOk
      simp [pendingReqs, hsl, slotReqs]
    constructor
    · exact h.recvOids
    · exact h.split
    · exact h.noPend
    · exact h.noPanic
    · show s.working = _
      rw [h.work]
      simp only [pendingOids, hsl, slotOids, List.length_append, List.length_map, List.length_cons,
        List.length_nil]
    · refine List.perm_iff_count.mpr fun k => ?_
      have h0 := h.cnt.count_eq k
      simp only [locs, pendingOids, hsl, slotOids, mkResp, List.map_append, List.count_append] at h0 ⊢
      omega
    · intro x hx
      have h0 := h.reqOk x
      simp only [pendingReqs, hsl, slotReqs, List.mem_append, List.mem_cons, List.mem_singleton,
        List.not_mem_nil] at hx h0 ⊢
      grind
    · intro x hx
      have h0 := fun hx => (h.respOk x hx).mono [] [r.oid]
      have hnew : RespOk s.dispatched (s.handled ++ [r.oid]) (mkResp r) := ⟨r, hr, rfl, by simp⟩
      simp only [allResps, hsl, slotResps, List.mem_append, List.mem_cons, List.mem_singleton,
        List.not_mem_nil, List.append_nil] at hx h0 ⊢
      grind
  · simp at hs

theorem invLoc_cmdReady {s s' : State} (h : InvLoc s) (hs : cmdReadyStep s = some s') : InvLoc s' := by
  unfold cmdReadyStep at hs
  split at hs
  · rename_i p hsl
    have hw := h.work
    simp only [pendingOids, hsl, slotOids, List.length_append, List.length_map, List.length_cons,
      List.length_nil] at hw
    rw [if_neg (by omega)] at hs
    simp only [Option.some.injEq] at hs
    subst hs
    constructor
    · exact h.recvOids
    · exact h.split
    · exact h.noPend
    · exact h.noPanic
    · show s.working - 1 = _
      simp only [pendingOids, slotOids, List.length_append, List.length_map, List.length_cons,
        List.length_nil]
      omega
    · refine List.perm_iff_count.mpr fun k => ?_
      have h0 := h.cnt.count_eq k
      simp only [locs, pendingOids, hsl, slotOids, List.map_append, List.map_cons, List.map_nil,
        List.count_append, List.count_nil] at h0 ⊢
      omega
    · intro x hx
      have h0 := h.reqOk x
      simp only [pendingReqs, hsl, slotReqs, List.mem_append, List.mem_cons, List.mem_singleton,
        List.not_mem_nil] at hx h0 ⊢
      grind
    · intro x hx
      have h0 := h.respOk x
      have hp0 := h.respOk p
      simp only [allResps, hsl, slotResps, List.mem_append, List.mem_cons, List.mem_singleton,
        List.not_mem_nil] at hx h0 hp0 ⊢
      grind
  · simp at hs

theorem invLoc_ctlTakeReq {cfg : PipeCfg} {s s' : State} (h : InvLoc s) (hs : ctlTakeReqStep cfg s = some s') :
    InvLoc s' := by
  unfold ctlTakeReqStep at hs
  split at hs
  · simp at hs
  · split at hs
    · simp at hs
    · simp only [Option.some.injEq] at hs
      subst hs
      apply invLoc_applySend
      exact ⟨h.recvOids, h.split, h.noPend, h.noPanic, h.work, h.cnt, h.reqOk, h.respOk⟩

theorem perm_addOutgoing (b : Bool) (p : Resp) (l : List Resp) :
    (if b then insertBy Resp.oid p l else l ++ [p]).Perm (p :: l) := by
  cases b
  · exact List.perm_append_singleton p l
  · exact perm_insertBy _ p l

theorem invLoc_ctlTakeResp {cfg : PipeCfg} {s s' : State} (h : InvLoc s) (hs : ctlTakeRespStep cfg s = some s') :
    InvLoc s' := by
  unfold ctlTakeRespStep at hs
  split at hs
  · simp at hs
  · split at hs
    · simp at hs
    · rename_i p rest hq
      simp only [Option.some.injEq] at hs
      subst hs
      apply invLoc_applySend
      have hperm := perm_addOutgoing cfg.sortOutgoing p s.outgoing
      constructor
      · exact h.recvOids
      · exact h.split
      · exact h.noPend
      · exact h.noPanic
      · exact h.work
      · refine List.perm_iff_count.mpr fun k => ?_
        have h0 := h.cnt.count_eq k
        have h1 := (hperm.map Resp.oid).count_eq k
        simp only [locs, pendingOids, hq, List.map_append, List.map_cons, List.map_nil, List.count_append] at h0 h1 ⊢
        rw [List.count_cons] at h0 h1
        omega
      · exact h.reqOk
      · intro x hx
        have h0 := h.respOk x
        have h1 := hperm.mem_iff (a := x)
        simp only [allResps, hq, List.mem_append, List.mem_cons] at hx h0 h1 ⊢
        grind

theorem invLoc_closeInput {s s' : State} (h : InvLoc s) (hs : closeInputStep s = some s') : InvLoc s' := by
  unfold closeInputStep at hs
  split at hs
  · simp at hs
  · simp only [Option.some.injEq] at hs
    subst hs
    exact ⟨h.recvOids, h.split, h.noPend, h.noPanic, h.work, h.cnt, h.reqOk, h.respOk⟩

theorem invLoc_dispatcherShutdown {s s' : State} (h : InvLoc s) (hs : dispatcherShutdownStep s = some s') :
    InvLoc s' := by
  unfold dispatcherShutdownStep at hs
  split at hs
  · simp only [Option.some.injEq] at hs
    subst hs
    exact ⟨h.recvOids, h.split, h.noPend, h.noPanic, h.work, h.cnt, h.reqOk, h.respOk⟩
  · simp at hs

theorem invLoc_drainState (cfg : PipeCfg) {s : State} (h : InvLoc s) : InvLoc (drainState cfg s) := by
  apply invLoc_applySend
  have hperm := perm_foldl_add Resp.oid cfg.sortOutgoing s.respInbox s.outgoing
  constructor
  · exact h.recvOids
  · exact h.split
  · exact h.noPend
  · exact h.noPanic
  · exact h.work
  · refine List.perm_iff_count.mpr fun k => ?_
    have h0 := h.cnt.count_eq k
    have h1 := (hperm.map Resp.oid).count_eq k
    simp only [locs, pendingOids, List.map_append, List.map_nil, List.count_append, List.count_nil] at h0 h1 ⊢
    omega
  · exact h.reqOk
  · intro x hx
    have h0 := h.respOk x
    have h1 := hperm.mem_iff (a := x)
    simp only [allResps, List.mem_append, List.not_mem_nil, or_false] at hx h0 h1 ⊢
    grind

theorem invLoc_ctlFini {cfg : PipeCfg} {s s' : State} (h : InvLoc s) (hs : ctlFiniStep cfg s = some s') :
    InvLoc s' := by
  unfold ctlFiniStep at hs
  split at hs
  · split at hs
    · simp only [Option.some.injEq] at hs
      subst hs
      have h' := invLoc_drainState cfg h
      exact ⟨h'.recvOids, h'.split, h'.noPend, h'.noPanic, h'.work, h'.cnt, h'.reqOk, h'.respOk⟩
    · simp only [Option.some.injEq] at hs
      subst hs
      exact ⟨h.recvOids, h.split, h.noPend, h.noPanic, h.work, h.cnt, h.reqOk, h.respOk⟩
  · simp at hs

theorem invLoc_step {cfg : PipeCfg} (hreg : cfg.registerBeforeHandoff = true) {s s' : State} {a : Action}
    (h : InvLoc s) (hs : step cfg s a = some s') : InvLoc s' := by
  unfold step at hs
  rw [h.noPanic] at hs
  simp only [Bool.false_eq_true, if_false] at hs
  cases a with
  | recv r => exact invLoc_recv h hs
  | dispatch => exact invLoc_dispatch hreg h hs
  | workerTake i => exact invLoc_workerTake h hs
  | workerHandle i => exact invLoc_workerHandle h hs
  | workerReady i => exact invLoc_workerReady h hs
  | cmdTake => exact invLoc_cmdTake h hs
  | cmdHandle => exact invLoc_cmdHandle h hs
  | cmdReady => exact invLoc_cmdReady h hs
  | ctlTakeReq => exact invLoc_ctlTakeReq h hs
  | ctlTakeResp => exact invLoc_ctlTakeResp h hs
  | closeInput => exact invLoc_closeInput h hs
  | dispatcherShutdown => exact invLoc_dispatcherShutdown h hs
  | ctlFini => exact invLoc_ctlFini h hs

theorem invLoc_run {cfg : PipeCfg} (hreg : cfg.registerBeforeHandoff = true) (as : List Action) {s s' : State}
    (h : InvLoc s) (hr : run cfg s as = some s') : InvLoc s' := by
  induction as generalizing s with
  | nil => simp only [run, Option.some.injEq] at hr; exact hr ▸ h
  | cons a as ih =>
    simp only [run] at hr
    split at hr
    · simp at hr
    · rename_i s1 hs1
      exact ih (invLoc_step hreg h hs1) hr

end Sftp.Pipe
