import Sftp.Proofs.CodecTotal
/-
  The allocation meter is linear in the input (C08).

  Accounting: a successful sub-decoder pays for its allocations with the bytes it consumed
  (strings 1/byte, extended pairs 32 per ≥ 8 bytes, name entries 96 + 8 per ≥ 12 bytes); a failing
  one is bounded by the bytes that were available, thanks to the count guards.
-/
namespace Sftp.Codec
open Sftp

/-- `omega` after re-associating sums (sums that come out of unfolded `match` arms are otherwise
taken as atoms). -/
macro "omega'" : tactic => `(tactic| ((try simp only [← Nat.add_assoc] at *); omega))

theorem bind_eq_ok {α β} {x : Outcome α} {f : α → Outcome β} {y : β} (h : x.bind f = .ok y) :
    ∃ a, x = .ok a ∧ f a = .ok y := by
  cases x with
  | ok a => exact ⟨a, rfl, h⟩
  | err e => cases h
  | panic => cases h

theorem ok_inj {α} {a b : α} (h : (Outcome.ok a) = .ok b) : a = b := by cases h; rfl

theorem rdStr_ok {sf : Bool} {b : Bytes} {x : Bytes × Bytes} (h : rdStr sf b = .ok x) : getStr? b = some x := by
  have := forget_rdStr' sf b
  rw [h] at this
  exact this.symm

theorem rdU32_ok {sf : Bool} {b : Bytes} {x : Nat × Bytes} (h : rdU32 sf b = .ok x) : get32? b = some x := by
  have := forget_rdU32' sf b
  rw [h] at this
  exact this.symm

theorem rdU64_ok {sf : Bool} {b : Bytes} {x : Nat × Bytes} (h : rdU64 sf b = .ok x) : get64? b = some x := by
  have := forget_rdU64' sf b
  rw [h] at this
  exact this.symm

theorem getStr?_len {b : Bytes} {x : Bytes × Bytes} (h : getStr? b = some x) :
    b.length = 4 + x.1.length + x.2.length := getStr?_length (s := x.1) (r := x.2) h

theorem get32?_len {b : Bytes} {x : Nat × Bytes} (h : get32? b = some x) : b.length = x.2.length + 4 :=
  get32?_length (v := x.1) (r := x.2) h

theorem get64?_len {b : Bytes} {x : Nat × Bytes} (h : get64? b = some x) : b.length = x.2.length + 8 :=
  get64?_length (v := x.1) (r := x.2) h

theorem optU32_len {c : Bool} {b : Bytes} {x : Nat × Bytes} (h : optU32 true c b = .ok x) :
    x.2.length ≤ b.length := by
  cases c
  · have := ok_inj h; subst this; exact Nat.le_refl _
  · have := get32?_len (rdU32_ok (sf := true) h); omega'

theorem optU64_len {c : Bool} {b : Bytes} {x : Nat × Bytes} (h : optU64 true c b = .ok x) :
    x.2.length ≤ b.length := by
  cases c
  · have := ok_inj h; subst this; exact Nat.le_refl _
  · have := get64?_len (rdU64_ok (sf := true) h); omega'

/-! ### strings and pairs -/

theorem strCost_le (bs : Bytes) : strCost bs ≤ bs.length := by
  rw [strCost]
  split
  · next r h => have := getStr?_len h; omega'
  · omega'

theorem pairsNMeter_le : ∀ (n : Nat) (bs : Bytes), pairsNMeter n bs ≤ bs.length
  | 0, bs => by rw [pairsNMeter]; omega'
  | n + 1, bs => by
    rw [pairsNMeter]
    split
    · omega'
    · next k hk =>
      have h1 := getStr?_len hk
      split
      · omega'
      · next v hv =>
        have h2 := getStr?_len hv
        have ih := pairsNMeter_le n v.2
        omega'

theorem pairsNMeter_ok : ∀ (n : Nat) (bs : Bytes) (l : List (Bytes × Bytes)) (r : Bytes),
    decPairsN true n bs = .ok (l, r) → pairsNMeter n bs + 8 * n + r.length ≤ bs.length
  | 0, bs, l, r, h => by
    rw [decPairsN] at h
    have := ok_inj h
    simp only [Prod.mk.injEq] at this
    rw [pairsNMeter, ← this.2]; omega'
  | n + 1, bs, l, r, h => by
    rw [decPairsN] at h
    obtain ⟨k, hk, h⟩ := bind_eq_ok h
    obtain ⟨v, hv, h⟩ := bind_eq_ok h
    obtain ⟨l', hl', h⟩ := bind_eq_ok h
    have hr := ok_inj h
    simp only [Prod.mk.injEq] at hr
    have ih := pairsNMeter_ok n v.2 l'.1 l'.2 hl'
    have hk' := rdStr_ok hk
    have hv' := rdStr_ok hv
    have h1 := getStr?_len hk'
    have h2 := getStr?_len hv'
    rw [pairsNMeter, hk']
    dsimp only
    rw [hv']
    dsimp only
    rw [← hr.2]
    omega'

theorem pairsAllMeter_le : ∀ (fuel : Nat) (bs : Bytes), pairsAllMeter fuel bs ≤ 5 * bs.length
  | 0, [] => by rw [pairsAllMeter]; omega'
  | 0, _ :: _ => by rw [pairsAllMeter]; omega'
  | fuel + 1, [] => by rw [pairsAllMeter]; omega'
  | fuel + 1, x :: xs => by
    rw [pairsAllMeter]
    · split
      · omega'
      · next k hk =>
        have h1 := getStr?_len hk
        split
        · omega'
        · next v hv =>
          have h2 := getStr?_len hv
          have ih := pairsAllMeter_le fuel v.2
          simp only [pairSize]
          omega'
    · intro h; cases h

/-! ### attribute blocks -/

theorem guard_ite {α} (p : Prop) [Decidable p] (x y : α) :
    (if (true && decide p) = true then x else y) = if p then x else y := by
  by_cases h : p <;> simp [h]

theorem extMeter_le (cfg : DecCfg) (hE : cfg.extGuard = true) (c : Bool) (b : Bytes) :
    extMeter cfg c b ≤ 5 * b.length := by
  cases c
  · rw [extMeter, if_neg (by decide)]; omega'
  · rw [extMeter, if_pos rfl]
    split
    · omega'
    · next cnt hc =>
      have h1 := get32?_len hc
      rw [hE, guard_ite]
      split
      · omega'
      · next hg =>
        have h2 := pairsNMeter_le cnt.1 cnt.2
        simp only [pairSize]
        omega'

theorem extMeter_ok (cfg : DecCfg) (hE : cfg.extGuard = true) (c : Bool) (b : Bytes)
    (l : List (Bytes × Bytes)) (r : Bytes) (h : decExt cfg true c b = .ok (l, r)) :
    extMeter cfg c b + 4 * r.length + (if c then 16 else 0) ≤ 4 * b.length := by
  cases c
  · rw [decExt, if_neg (by decide)] at h
    have := ok_inj h
    simp only [Prod.mk.injEq] at this
    rw [extMeter, if_neg (by decide), if_neg (by decide), ← this.2]
    omega'
  · rw [decExt, if_pos rfl] at h
    obtain ⟨cnt, hc, h⟩ := bind_eq_ok h
    have hc' := rdU32_ok hc
    have h1 := get32?_len hc'
    rw [hE, guard_ite] at h
    rw [extMeter, if_pos rfl, hc']
    dsimp only
    rw [hE, guard_ite, if_pos rfl]
    split at h
    · cases h
    · next hg =>
      rw [if_neg hg]
      have h2 := pairsNMeter_ok cnt.1 cnt.2 l r h
      simp only [pairSize]
      omega'

theorem decAttrsHead_len {bs : Bytes} {x : Attrs × Bytes} (h : decAttrsHead true bs = .ok x) :
    x.2.length + 4 ≤ bs.length := by
  rw [decAttrsHead] at h
  obtain ⟨fl, h0, h⟩ := bind_eq_ok h
  obtain ⟨size, h1, h⟩ := bind_eq_ok h
  obtain ⟨uid, h2, h⟩ := bind_eq_ok h
  obtain ⟨gid, h3, h⟩ := bind_eq_ok h
  obtain ⟨perm, h4, h⟩ := bind_eq_ok h
  obtain ⟨atime, h5, h⟩ := bind_eq_ok h
  obtain ⟨mtime, h6, h⟩ := bind_eq_ok h
  have hx := ok_inj h
  have l0 := get32?_len (rdU32_ok h0)
  have l1 := optU64_len h1
  have l2 := optU32_len h2
  have l3 := optU32_len h3
  have l4 := optU32_len h4
  have l5 := optU32_len h5
  have l6 := optU32_len h6
  rw [← hx]
  dsimp only
  omega'

theorem attrsMeter_le (cfg : DecCfg) (hE : cfg.extGuard = true) (bs : Bytes) :
    attrsMeter cfg bs ≤ 5 * bs.length := by
  rw [attrsMeter]
  split
  · next h hd =>
    have h1 := decAttrsHead_len hd
    have h2 := extMeter_le cfg hE (h.1.flags.testBit 31) h.2
    omega'
  · omega'

theorem attrsMeter_ok (cfg : DecCfg) (hE : cfg.extGuard = true) (bs : Bytes) (a : Attrs) (r : Bytes)
    (h : decAttrs cfg true bs = .ok (a, r)) :
    attrsMeter cfg bs + 16 + 4 * r.length ≤ 4 * bs.length := by
  rw [decAttrs] at h
  obtain ⟨hh, hd, h⟩ := bind_eq_ok h
  obtain ⟨e, he, h⟩ := bind_eq_ok h
  have hx := ok_inj h
  simp only [Prod.mk.injEq] at hx
  have h1 := decAttrsHead_len hd
  have h2 := extMeter_ok cfg hE _ _ e.1 e.2 he
  rw [attrsMeter, hd]
  dsimp only
  rw [← hx.2]
  omega'

/-! ### name lists -/

theorem entryFixed_le (cfg : DecCfg) : entryFixed cfg ≤ 96 := by
  rw [entryFixed]; split <;> decide

theorem namesNMeter_le (cfg : DecCfg) (hE : cfg.extGuard = true) : ∀ (n : Nat) (bs : Bytes),
    namesNMeter cfg n bs ≤ entryFixed cfg + 8 * bs.length
  | 0, bs => by rw [namesNMeter]; omega'
  | n + 1, bs => by
    have hF := entryFixed_le cfg
    rw [namesNMeter]
    split
    · omega'
    · next nm hnm =>
      have h1 := getStr?_len hnm
      split
      · omega'
      · next lg hlg =>
        have h2 := getStr?_len hlg
        split
        · next a ha =>
          have h3 := attrsMeter_ok cfg hE lg.2 a.1 a.2 ha
          have ih := namesNMeter_le cfg hE n a.2
          omega'
        · have h3 := attrsMeter_le cfg hE lg.2
          omega'

theorem namesNMeter_ok (cfg : DecCfg) (hE : cfg.extGuard = true) : ∀ (n : Nat) (bs : Bytes)
    (l : List NameEntry) (r : Bytes), decNamesN cfg true n bs = .ok (l, r) →
    namesNMeter cfg n bs + 8 * n + 9 * r.length ≤ 9 * bs.length
  | 0, bs, l, r, h => by
    rw [decNamesN] at h
    have := ok_inj h
    simp only [Prod.mk.injEq] at this
    rw [namesNMeter, ← this.2]; omega'
  | n + 1, bs, l, r, h => by
    have hF := entryFixed_le cfg
    rw [decNamesN] at h
    obtain ⟨nm, hnm, h⟩ := bind_eq_ok h
    obtain ⟨lg, hlg, h⟩ := bind_eq_ok h
    obtain ⟨a, ha, h⟩ := bind_eq_ok h
    obtain ⟨l', hl', h⟩ := bind_eq_ok h
    have hr := ok_inj h
    simp only [Prod.mk.injEq] at hr
    have hnm' := rdStr_ok hnm
    have hlg' := rdStr_ok hlg
    have h1 := getStr?_len hnm'
    have h2 := getStr?_len hlg'
    have h3 := attrsMeter_ok cfg hE lg.2 a.1 a.2 ha
    have ih := namesNMeter_ok cfg hE n a.2 l'.1 l'.2 hl'
    rw [namesNMeter, hnm']
    dsimp only
    rw [hlg']
    dsimp only
    rw [ha]
    dsimp only
    rw [← hr.2]
    omega'

theorem nameGuard_of_fx (cfg : DecCfg) (hN : cfg.fx = true → cfg.fxCountGuard = true) (hfx : cfg.fx = true) :
    cfg.nameGuard = true := by
  rw [DecCfg.nameGuard, hfx, hN hfx]; rfl

theorem namesMeter_le (cfg : DecCfg) (hE : cfg.extGuard = true) (hN : cfg.fx = true → cfg.fxCountGuard = true)
    (bs : Bytes) : namesMeter cfg bs ≤ 96 + 9 * bs.length := by
  have hF := entryFixed_le cfg
  rw [namesMeter]
  split
  · omega'
  · next cnt hc =>
    have h1 := get32?_len hc
    have h2 := namesNMeter_le cfg hE cnt.1 cnt.2
    cases hfx : cfg.fx with
    | false =>
      split
      · omega'
      · rw [if_neg (by decide)]; omega'
    | true =>
      rw [nameGuard_of_fx cfg hN hfx, guard_ite, if_pos rfl]
      split
      · omega'
      · next hg => simp only [ptrSize]; omega'

theorem namesMeter_ok (cfg : DecCfg) (hE : cfg.extGuard = true) (bs : Bytes) (l : List NameEntry) (r : Bytes)
    (h : decNames cfg true bs = .ok (l, r)) : namesMeter cfg bs + 9 * r.length ≤ 9 * bs.length := by
  rw [decNames] at h
  obtain ⟨cnt, hc, h⟩ := bind_eq_ok h
  have hc' := rdU32_ok hc
  have h1 := get32?_len hc'
  rw [namesMeter, hc']
  dsimp only
  split at h
  · cases h
  · next hg =>
    rw [if_neg hg]
    have h2 := namesNMeter_ok cfg hE cnt.1 cnt.2 l r h
    have h3 : (if cfg.fx = true then ptrSize * cnt.1 else 0) ≤ 8 * cnt.1 := by
      split
      · simp only [ptrSize]; omega'
      · omega'
    omega'

/-! ### fields and field lists -/

theorem fieldMeter_le (cfg : DecCfg) (hE : cfg.extGuard = true) (hN : cfg.fx = true → cfg.fxCountGuard = true)
    (k : FKind) (bs : Bytes) : fieldMeter cfg k bs ≤ 96 + 9 * bs.length := by
  cases k with
  | str => have := strCost_le bs; rw [fieldMeter]; omega'
  | cstr s => have := strCost_le bs; rw [fieldMeter]; omega'
  | attrs =>
    have := attrsMeter_le cfg hE bs
    rw [fieldMeter]
    split <;> (try simp only [fileStatSize]) <;> omega'
  | pairs => have := pairsAllMeter_le bs.length bs; rw [fieldMeter]; omega'
  | names => have := namesMeter_le cfg hE hN bs; rw [fieldMeter]; omega'
  | u8 => rw [fieldMeter]; omega'
  | u32 => rw [fieldMeter]; omega'
  | u64 => rw [fieldMeter]; omega'
  | rest => rw [fieldMeter]; omega'
  | lenData => have := strCost_le bs; rw [fieldMeter]; split <;> omega'

theorem rdU8_len {b : Bytes} {x : Nat × Bytes} (h : rdU8 true b = .ok x) : x.2.length ≤ b.length := by
  cases b with
  | nil => cases h
  | cons y r => have := ok_inj h; subst this; simp

theorem fieldMeter_ok (cfg : DecCfg) (hE : cfg.extGuard = true) (k : FKind) (bs : Bytes) (v : Val × Bytes)
    (h : decField cfg k true bs = .ok v) : fieldMeter cfg k bs + 9 * v.2.length ≤ 96 + 9 * bs.length := by
  cases k with
  | u8 =>
    obtain ⟨x, hx, h⟩ := bind_eq_ok h
    have := rdU8_len hx
    rw [← ok_inj h, fieldMeter]; dsimp only; omega'
  | u32 =>
    obtain ⟨x, hx, h⟩ := bind_eq_ok h
    have := get32?_len (rdU32_ok hx)
    rw [← ok_inj h, fieldMeter]; dsimp only; omega'
  | u64 =>
    obtain ⟨x, hx, h⟩ := bind_eq_ok h
    have := get64?_len (rdU64_ok hx)
    rw [← ok_inj h, fieldMeter]; dsimp only; omega'
  | lenData =>
    obtain ⟨x, hx, h⟩ := bind_eq_ok h
    have hx' := rdStr_ok hx
    have := getStr?_len hx'
    rw [← ok_inj h, fieldMeter, strCost, hx']; dsimp only; split <;> omega'
  | str =>
    obtain ⟨x, hx, h⟩ := bind_eq_ok h
    have hx' := rdStr_ok hx
    have := getStr?_len hx'
    rw [← ok_inj h, fieldMeter, strCost, hx']; dsimp only; omega'
  | cstr s =>
    obtain ⟨x, hx, h⟩ := bind_eq_ok h
    have hx' := rdStr_ok hx
    have := getStr?_len hx'
    rw [← ok_inj h, fieldMeter, strCost, hx']; dsimp only; omega'
  | rest =>
    rw [decField] at h
    rw [← ok_inj h, fieldMeter]; dsimp only; simp only [List.length_nil]; omega'
  | attrs =>
    obtain ⟨x, hx, h⟩ := bind_eq_ok h
    have := attrsMeter_ok cfg hE bs x.1 x.2 hx
    rw [← ok_inj h, fieldMeter]; dsimp only
    split <;> (try simp only [fileStatSize]) <;> omega'
  | pairs =>
    obtain ⟨x, hx, h⟩ := bind_eq_ok h
    have := pairsAllMeter_le bs.length bs
    rw [← ok_inj h, fieldMeter]; dsimp only; simp only [List.length_nil]; omega'
  | names =>
    obtain ⟨x, hx, h⟩ := bind_eq_ok h
    have := namesMeter_ok cfg hE bs x.1 x.2 hx
    rw [← ok_inj h, fieldMeter]; dsimp only; omega'

theorem decField_ok_safe {cfg : DecCfg} {k : FKind} {sf : Bool} {bs : Bytes} {v : Val × Bytes}
    (h : decField cfg k sf bs = .ok v) : decField cfg k true bs = .ok v := by
  have hf := forget_decField cfg k sf true bs
  rw [h] at hf
  cases hd : decField cfg k true bs with
  | ok w => rw [hd] at hf; cases hf; rfl
  | err e => rw [hd] at hf; cases hf
  | panic => rw [hd] at hf; cases hf

theorem decodeMeter_le_gen (cfg : DecCfg) (hE : cfg.extGuard = true)
    (hN : cfg.fx = true → cfg.fxCountGuard = true) : ∀ (fs : List FieldD) (bs : Bytes),
    decodeMeter cfg fs bs ≤ 9 * bs.length + 96 * fs.length
  | [], bs => by rw [decodeMeter]; omega'
  | f :: fs, bs => by
    rw [decodeMeter]
    split
    · next v hv =>
      have h1 := fieldMeter_ok cfg hE f.kind bs v (decField_ok_safe hv)
      have ih := decodeMeter_le_gen cfg hE hN fs v.2
      simp only [List.length_cons]
      omega'
    · have h1 := fieldMeter_le cfg hE hN f.kind bs
      simp only [List.length_cons]
      omega'

theorem decodeMeter_le (cfg : DecCfg) (hext : cfg.extCountGuard = true) (hfx : cfg.fxCountGuard = true)
    (fs : List FieldD) (bs : Bytes) : decodeMeter cfg fs bs ≤ 9 * bs.length + 96 * fs.length := by
  refine decodeMeter_le_gen cfg ?_ (fun _ => hfx) fs bs
  rw [DecCfg.extGuard]; split <;> assumption

theorem decodeMeter_le_main (cfg : DecCfg) (hext : cfg.extCountGuard = true) (hmain : cfg.fx = false)
    (fs : List FieldD) (bs : Bytes) : decodeMeter cfg fs bs ≤ 9 * bs.length + 96 * fs.length := by
  refine decodeMeter_le_gen cfg ?_ (fun h => by rw [hmain] at h; cases h) fs bs
  rw [DecCfg.extGuard, hmain]; exact hext

/-! ### the fuel of the `for len(b) > 0` loop never runs out -/

theorem bind_ne_err {α β} (o : Outcome α) (f : α → Outcome β) (e : String)
    (h1 : o ≠ .err e) (h2 : ∀ a, o = .ok a → f a ≠ .err e) : o.bind f ≠ .err e := by
  cases o with
  | ok a => exact h2 a rfl
  | err e' => exact fun h => h1 (by rw [Outcome.bind_err] at h; injection h with h; rw [h])
  | panic => intro h; cases h

theorem rdStr_ne_fuel (sf : Bool) (b : Bytes) : rdStr sf b ≠ .err "fuel" := by
  cases sf
  · rw [rdStr, if_neg (by decide), goStr]
    split
    · intro h; cases h
    · split <;> intro h <;> cases h
  · rw [rdStr, if_pos rfl, goStrSafe]
    split
    · intro h; cases h
    · intro h
      injection h with h
      exact absurd h (by decide)

theorem decPairsAll_fuel (sf : Bool) : ∀ (fuel : Nat) (bs : Bytes), bs.length ≤ fuel →
    decPairsAll sf fuel bs ≠ .err "fuel"
  | 0, [], _ => by rw [decPairsAll]; intro h; cases h
  | 0, _ :: _, h => by simp only [List.length_cons] at h; omega
  | fuel + 1, [], _ => by rw [decPairsAll]; intro h; cases h
  | fuel + 1, x :: xs, hl => by
    rw [decPairsAll]
    · refine bind_ne_err _ _ _ (rdStr_ne_fuel _ _) fun k hk => ?_
      refine bind_ne_err _ _ _ (rdStr_ne_fuel _ _) fun v hv => ?_
      have h1 := getStr?_len (rdStr_ok hk)
      have h2 := getStr?_len (rdStr_ok hv)
      refine bind_ne_err _ _ _ (decPairsAll_fuel sf fuel v.2 (by omega)) fun l _ => ?_
      intro h; cases h
    · intro h; cases h

/-! ### (flags word, raw rest) is an attribute block -/

theorem decode_flags_rest (cfg : DecCfg) (f1 f2 : FieldD) (h1 : f1.kind = .u32) (h2 : f2.kind = .rest)
    (bs : Bytes) (fl : Nat) (body r : Bytes)
    (h : decodeFields cfg [f1, f2] bs = .ok ([.n fl, .b body], r)) : bs = be32 fl ++ body ∧ r = [] := by
  rw [decodeFields, h1] at h
  obtain ⟨v1, hv1, h⟩ := bind_eq_ok h
  obtain ⟨vs, hvs, h⟩ := bind_eq_ok h
  rw [decodeFields, h2, decField] at hvs
  obtain ⟨v2, hv2, hvs⟩ := bind_eq_ok hvs
  rw [decodeFields] at hvs
  obtain ⟨x, hx, hv1⟩ := bind_eq_ok hv1
  have e1 := ok_inj hv1
  have e2 := ok_inj hv2
  have e3 := ok_inj hvs
  have e4 := ok_inj h
  subst e1 e2 e3
  simp only [Prod.mk.injEq, List.cons.injEq, Val.n.injEq, Val.b.injEq, and_true] at e4
  obtain ⟨⟨hfl, hbody⟩, hr⟩ := e4
  have hb := get32?_eq_be32 (show get32? bs = some (x.1, x.2) from rdU32_ok hx)
  rw [← hfl, ← hbody]
  exact ⟨hb, hr.symm⟩

end Sftp.Codec
