import Sftp.Proofs.AllocInv
/-
  Helper lemmas for C18: the control state evolves independently of the allocator.
-/
namespace Sftp.Alloc
open Sftp

def crun (cfg : Cfg) : Ctl → List Action → Option Ctl
  | g, [] => some g
  | g, a :: as =>
    match cstep cfg g a with
    | some g' => crun cfg g' as
    | none => none

theorem apply_g (cfg : Cfg) (s : State) (g' : Ctl) (act : Action) : (apply cfg s g' act).g = g' := by
  cases act <;> rfl

theorem step_g (cfg : Cfg) (s : State) (act : Action) :
    (step cfg s act).map (·.g) = cstep cfg s.g act := by
  unfold step
  cases cstep cfg s.g act with
  | none => rfl
  | some g' => simp [apply_g]

theorem run_g (cfg : Cfg) : ∀ (acts : List Action) (s : State),
    (run cfg s acts).map (·.g) = crun cfg s.g acts
  | [], s => rfl
  | a :: as, s => by
    have h := step_g cfg s a
    simp only [run, crun]
    cases hs : step cfg s a with
    | none => rw [hs] at h; simp only [Option.map_none] at h; rw [← h]; rfl
    | some s1 =>
      rw [hs] at h; simp only [Option.map_some] at h; rw [← h]
      exact run_g cfg as s1

theorem cstep_noAlloc (cfg : Cfg) (g : Ctl) (act : Action) : cstep cfg.noAlloc g act = cstep cfg g act := by
  cases act <;> rfl

theorem crun_noAlloc (cfg : Cfg) : ∀ (acts : List Action) (g : Ctl), crun cfg.noAlloc g acts = crun cfg g acts
  | [], g => rfl
  | a :: as, g => by
    simp only [crun, cstep_noAlloc]
    cases cstep cfg g a with
    | none => rfl
    | some g' => exact crun_noAlloc cfg as g'

/-- A list all of whose members are the same element and whose projections are distinct has at most one. -/
theorem all_eq_nodup {l : List (Nat × PageId)} {x : Nat × PageId} (h : ∀ e ∈ l, e = x)
    (hn : (l.map (·.2)).Nodup) : l = [] ∨ l = [x] := by
  match l, h, hn with
  | [], _, _ => exact Or.inl rfl
  | [a], h, _ => right; rw [h a (by simp)]
  | a :: b :: t, h, hn =>
    have ha := h a (by simp); have hb := h b (by simp)
    subst ha; subst hb
    simp at hn

end Sftp.Alloc
