import Sftp.Proofs.PipeOrd
import Sftp.Proofs.PipeClose
/-
  Consequences of the invariants, in the shape the property theorems need.
-/
set_option linter.unusedSimpArgs false
namespace Sftp.Pipe

theorem InvLoc.dispatched_sub {s : State} (h : InvLoc s) {r : OReq} (hr : r ∈ s.dispatched) : r ∈ s.received := by
  rw [h.split]; exact List.mem_append_left _ hr

theorem InvLoc.length_le {s : State} (h : InvLoc s) : s.dispatched.length ≤ s.received.length := by
  rw [h.split, List.length_append]; omega

/-- two received requests with the same order id are the same request -/
theorem InvLoc.eq_of_oid {s : State} (h : InvLoc s) {a b : OReq} (ha : a ∈ s.received) (hb : b ∈ s.received)
    (e : a.oid = b.oid) : a = b := by
  have h1 : 1 ≤ a.oid := by
    have : a.oid ∈ s.received.map OReq.oid := List.mem_map.mpr ⟨a, ha, rfl⟩
    rw [h.recvOids, List.mem_range'_1] at this
    omega
  obtain ⟨k, hk⟩ : ∃ k, a.oid = k + 1 := ⟨a.oid - 1, by omega⟩
  have e1 := getElem?_of_key OReq.oid h.recvOids ha hk
  have e2 := getElem?_of_key OReq.oid h.recvOids hb (e ▸ hk)
  rw [e1] at e2
  exact Option.some.inj e2

/-- The sent stream is the handler output of the first |sent| received requests, in arrival order. -/
theorem sent_eq {s : State} (hl : InvLoc s) (ho : InvOrd s) :
    s.sent = (s.received.take s.sent.length).map mkResp := by
  have hlen : s.sent.length ≤ s.received.length := Nat.le_trans ho.core.le hl.length_le
  apply List.ext_getElem
  · simp only [List.length_map, List.length_take]; omega
  · intro i h1 h2
    have hp : s.sent[i] ∈ allResps s := by
      simp only [allResps, List.mem_append]
      exact Or.inl (Or.inl (Or.inl (Or.inl (List.getElem_mem h1))))
    obtain ⟨r, hr, hpr, _⟩ := hl.respOk _ hp
    have hoid : (s.sent[i]).oid = i + 1 := by
      have := congrArg (fun l => l[i]?) ho.core.sentOids
      simp only [List.getElem?_map, List.getElem?_eq_getElem h1, Option.map_some, List.getElem?_range' h1,
        Option.some.injEq] at this
      omega
    have hroid : r.oid = i + 1 := by rw [← hoid, hpr]; rfl
    have hget := getElem?_of_key OReq.oid hl.recvOids (hl.dispatched_sub hr) hroid
    have hi : i < s.received.length := by omega
    rw [List.getElem?_eq_getElem hi, Option.some.injEq] at hget
    simp only [List.getElem_map, List.getElem_take]
    rw [hget, hpr]

theorem sent_handled {s : State} (hl : InvLoc s) {p : Resp} (hp : p ∈ s.sent) : p.oid ∈ s.handled := by
  have : p ∈ allResps s := by
    simp only [allResps, List.mem_append]
    exact Or.inl (Or.inl (Or.inl (Or.inl hp)))
  obtain ⟨r, _, hpr, hh⟩ := hl.respOk _ this
  rw [hpr]; exact hh

theorem resp_nodup {s : State} (hl : InvLoc s) :
    ((s.sent ++ s.outgoing ++ s.respInbox).map Resp.oid).Nodup := by
  have hnd : (locs s).Nodup := hl.cnt.nodup_iff.mpr List.nodup_range'
  simp only [locs, ← List.map_append] at hnd
  exact (List.nodup_append.mp hnd).1

theorem resp_origin {s : State} (hl : InvLoc s) {p : Resp} (hp : p ∈ s.sent ++ s.outgoing ++ s.respInbox) :
    ∃ r ∈ s.received, p = mkResp r ∧ r.oid ∈ s.handled := by
  have : p ∈ allResps s := by
    simp only [allResps, List.mem_append] at hp ⊢
    exact Or.inl (Or.inl hp)
  obtain ⟨r, hr, hpr, hh⟩ := hl.respOk _ this
  exact ⟨r, hl.dispatched_sub hr, hpr, hh⟩

theorem flatMap_idle {β : Type} (f : Slot → List β) (hf : f .idle = []) {l : List Slot}
    (h : ∀ sl ∈ l, sl = Slot.idle) : l.flatMap f = [] := by
  induction l with
  | nil => rfl
  | cons a as ih =>
    have ha : a = Slot.idle := h a (by simp)
    rw [List.flatMap_cons, ha, hf, ih (fun sl hs => h sl (by simp [hs]))]
    rfl

/-- Once everything has drained, every received request has been answered. -/
theorem drained_all_sent_of_pending {s : State} (hl : InvLoc s) (ho : InvOrd s)
    (h1 : s.pktChan = []) (hp : pendingOids s = [])
    (h6 : s.reqInbox = []) (h7 : s.respInbox = []) : s.sent.length = s.received.length := by
  have hrd : s.received = s.dispatched := by rw [hl.split, h1, List.append_nil]
  rw [hrd]
  have hperm := hl.cnt
  simp only [locs, hp, h7, List.map_nil, List.append_nil] at hperm
  have hnd : ((s.sent ++ s.outgoing).map Resp.oid).Nodup := hperm.nodup_iff.mpr List.nodup_range'
  have hso := ho.core.sentOids
  have hle := ho.core.le
  cases hout : s.outgoing with
  | nil =>
    rw [hout, List.append_nil] at hperm
    have := hperm.length_eq
    simpa using this
  | cons o os =>
    exfalso
    rw [hout] at hperm hnd
    have ho_mem : o.oid ∈ List.range' 1 s.dispatched.length := by
      rw [← hperm.mem_iff]; simp
    rw [List.mem_range'_1] at ho_mem
    have ho_gt : s.sent.length < o.oid := by
      apply Nat.lt_of_not_le
      intro hle'
      have hin : o.oid ∈ s.sent.map Resp.oid := by
        rw [hso, List.mem_range'_1]; omega
      rw [List.map_append, List.nodup_append] at hnd
      exact hnd.2.2 _ hin _ (by simp) rfl
    have hinc := ho.core.inc
    rw [h6, List.append_nil] at hinc
    obtain ⟨m, hm⟩ : ∃ m, s.dispatched.length - s.sent.length = m + 1 :=
      ⟨s.dispatched.length - s.sent.length - 1, by omega⟩
    rw [hm, List.range'_succ] at hinc
    cases hincm : s.incoming with
    | nil => rw [hincm] at hinc; simp at hinc
    | cons i is =>
      rw [hincm, List.map_cons] at hinc
      have hi : i.oid = s.sent.length + 1 := (List.cons.inj hinc).1
      have hst := ho.stable
      rw [hincm, hout] at hst
      have hne : i.oid ≠ o.oid := hst
      have hnext : s.sent.length + 1 ∈ (s.sent ++ o :: os).map Resp.oid := by
        rw [hperm.mem_iff, List.mem_range'_1]; omega
      rw [List.map_append, List.mem_append, hso, List.mem_range'_1, List.map_cons, List.mem_cons] at hnext
      rcases hnext with hnext | hnext | hnext
      · omega
      · omega
      · have hsorted := ho.core.outSorted
        rw [hout, List.map_cons, List.pairwise_cons] at hsorted
        have := hsorted.1 _ hnext
        omega

theorem drained_all_sent {s : State} (hl : InvLoc s) (ho : InvOrd s)
    (h1 : s.pktChan = []) (h2 : s.poolQueue = []) (h3 : s.cmdQueue = [])
    (h4 : ∀ sl ∈ s.slots, sl = Slot.idle) (h5 : s.cmdSlot = Slot.idle)
    (h6 : s.reqInbox = []) (h7 : s.respInbox = []) : s.sent.length = s.received.length := by
  have hp : pendingOids s = [] := by
    simp [pendingOids, h2, h3, h5, flatMap_idle slotOids rfl h4, slotOids]
  exact drained_all_sent_of_pending hl ho h1 hp h6 h7

/-- C14 core: every request received before a CLOSE that has left the dispatcher has been handled. -/
theorem close_prior_handled {s : State} (hl : InvLoc s) (hc : InvClose s) {c : OReq} (hcr : c ∈ s.received)
    (hk : c.kind = .close) (hd : c ∈ s.dispatched ∨ c.oid ∈ s.handled) {r : OReq} (hr : r ∈ s.received)
    (hlt : r.oid < c.oid) : r.oid ∈ s.handled := by
  have hcd : c ∈ s.dispatched := by
    rcases hd with hd | hd
    · exact hd
    · obtain ⟨c', hc', e⟩ := hc.handledDisp _ hd
      have := hl.eq_of_oid (hl.dispatched_sub hc') hcr e
      exact this ▸ hc'
  have hrd : r ∈ s.dispatched := by
    rw [hl.split, List.mem_append] at hr
    rcases hr with hr | hr
    · exact hr
    · have := hl.pktChan_oid_gt hr
      have := hl.dispatched_oid_le hcd
      omega
  exact hc.closed c hcd hk r hrd hlt

theorem closeSafe_of_inv (cfg : PipeCfg) {s : State} (hl : InvLoc s) (hc : InvClose s) : closeSafe cfg s = true := by
  simp only [closeSafe, State.finished, List.all_eq_true, Bool.or_eq_true, bne_iff_ne, ne_eq,
    Bool.not_eq_true', Bool.and_eq_false_iff, decide_eq_false_iff_not, decide_eq_true_eq]
  intro c hcd
  by_cases hk : c.kind = .close
  · right
    intro r hr
    by_cases hlt : r.oid < c.oid
    · right
      exact decide_eq_true (close_prior_handled hl hc (hl.dispatched_sub hcd) hk (Or.inl hcd) hr hlt)
    · left; left; exact hlt
  · left; exact hk

end Sftp.Pipe
