import Sftp.Model.MultiHandle
/-
  Helper lemmas for Props/C01Multi.lean: the byte-array primitives of memFile against pread/pwrite/ftruncate, and the
  one-step simulation between the implementation-shaped model and the specification.
-/
namespace Sftp.MultiHandle
open Sftp

theorem memTruncate_eq (c : Bytes) (n : Nat) : memTruncate c n = ptrunc c n := by
  unfold memTruncate ptrunc zeros
  split
  · next h => simp [Nat.sub_eq_zero_of_le h]
  · next h => rw [List.take_of_length_le (by omega)]

theorem memReadAt_eq (c : Bytes) (off len : Nat) (h : len ≠ 0 ∨ off < c.length) :
    memReadAt c off len = (pread c off len, decide ((pread c off len).length < len)) := by
  unfold memReadAt pread
  split
  · next hge =>
    have hl : len ≠ 0 := by rcases h with h | h <;> omega
    rw [List.drop_of_length_le hge]
    simp; omega
  · rfl

theorem memWriteAt_eq (c : Bytes) (off : Nat) (d : Bytes) (h : d ≠ [] ∨ off ≤ c.length) :
    memWriteAt c off d = pwrite c off d := by
  unfold memWriteAt pwrite zeros
  by_cases hd : d = []
  · subst hd
    have ho : off ≤ c.length := by rcases h with h | h; exact absurd rfl h; exact h
    simp [Nat.sub_eq_zero_of_le ho]
  · have : d.isEmpty = false := by cases d <;> simp_all
    simp only [this, Bool.false_eq_true, if_false]
    apply List.ext_getElem?
    intro i
    simp only [List.getElem?_append, List.length_append, List.length_take, List.length_replicate,
      List.getElem?_take, List.getElem?_drop, List.getElem?_replicate]
    have hdl : 0 < d.length := List.length_pos_iff.mpr hd
    grind

theorem pread_pwrite (c : Bytes) (off : Nat) (d : Bytes) (hd : d ≠ []) :
    pread (pwrite c off d) off d.length = d := by
  unfold pread pwrite zeros
  have : d.isEmpty = false := by cases d <;> simp_all
  simp only [this, Bool.false_eq_true, if_false]
  have hl : ((c ++ List.replicate (off - c.length) 0).take off).length = off := by
    simp only [List.length_take, List.length_append, List.length_replicate]; omega
  rw [List.append_assoc, List.drop_append_of_le_length (by omega), List.drop_of_length_le (by omega),
    List.nil_append]
  simp

theorem length_pwrite (c : Bytes) (off : Nat) (d : Bytes) (hd : d ≠ []) :
    (pwrite c off d).length = max c.length (off + d.length) := by
  unfold pwrite zeros
  have : d.isEmpty = false := by cases d <;> simp_all
  simp only [this, Bool.false_eq_true, if_false]
  simp only [List.length_append, List.length_take, List.length_drop, List.length_replicate]
  omega

/-! ### one-step simulation -/

theorem abs_upd (hs : Nat → Option IHandle) (k : Nat) (v : Option IHandle) :
    (fun h => (upd hs k v h).map IHandle.abs) = upd (fun h => (hs h).map IHandle.abs) k (v.map IHandle.abs) := by
  funext h
  unfold upd
  split <;> rfl

theorem abs_handles (i : IState) (h : Nat) : i.abs.handles h = (i.handles h).map IHandle.abs := rfl

theorem open_refines (i : IState) (n : Name) (fl : Flags)
    (h : (!(fl.rd && !fl.wr && (fl.creat || fl.trunc))) = true) :
    sOpen i.abs n fl = ((iOpen false i n fl).1.abs, (iOpen false i n fl).2) := by
  obtain ⟨rd, wr, creat, trunc, excl⟩ := fl
  unfold sOpen iOpen iOpenfile
  simp only [IState.abs]
  cases hf : find i.files n <;>
    cases rd <;> cases wr <;> cases creat <;> cases trunc <;> cases excl <;>
    simp_all [abs_upd, IHandle.abs, Kind.reads, Kind.writes, memTruncate]

theorem step_refines (i : IState) (op : Op) (h : inScope i op = true) :
    stepS i.abs op = ((stepI false i op).1.abs, (stepI false i op).2) := by
  cases op with
  | «open» n fl => exact open_refines i n fl h
  | writeAt hd off d =>
    simp only [stepS, stepI, abs_handles, inScope] at h ⊢
    cases hh : i.handles hd with
    | none => simp
    | some x =>
      simp only [hh, Bool.or_eq_true, Bool.not_eq_true', decide_eq_true_eq] at h
      have hw := memWriteAt_eq (i.objs x.obj) off d (by rcases h with h | h; left; cases d <;> simp_all; right; exact h)
      cases hk : x.kind.writes <;> simp [IHandle.abs, hk, IState.abs, hw]
  | write hd d =>
    simp only [stepS, stepI, abs_handles, inScope] at h ⊢
    cases hh : i.handles hd with
    | none => simp
    | some x =>
      simp only [hh, Bool.or_eq_true, Bool.not_eq_true', decide_eq_true_eq] at h
      have hw := memWriteAt_eq (i.objs x.obj) x.off d (by rcases h with h | h; left; cases d <;> simp_all; right; exact h)
      cases hk : x.kind.writes <;> simp [IHandle.abs, hk, IState.abs, hw, abs_upd]
  | readAt hd off len =>
    simp only [stepS, stepI, abs_handles, inScope] at h ⊢
    cases hh : i.handles hd with
    | none => simp
    | some x =>
      simp only [hh, Bool.or_eq_true, decide_eq_true_eq] at h
      have hr := memReadAt_eq (i.objs x.obj) off len h
      cases hk : x.kind.reads <;> simp [IHandle.abs, hk, IState.abs, hr] <;> congr
  | read hd len =>
    simp only [stepS, stepI, abs_handles, inScope] at h ⊢
    cases hh : i.handles hd with
    | none => simp
    | some x =>
      simp only [hh, Bool.or_eq_true, decide_eq_true_eq] at h
      have hr := memReadAt_eq (i.objs x.obj) x.off len h
      cases hk : x.kind.reads <;> simp [IHandle.abs, hk, IState.abs, hr, abs_upd] <;> congr
  | seek hd wh off =>
    simp only [stepS, stepI, abs_handles, inScope] at h ⊢
    cases hh : i.handles hd with
    | none => simp
    | some x =>
      simp only [hh, Bool.or_eq_true, bne_iff_ne, ne_eq, IState.fresh, beq_iff_eq] at h
      cases wh with
      | fromEnd =>
        have hf : find i.files x.path = some x.obj := by rcases h with h | h; exact absurd rfl h; exact h
        simp only [Option.map_some, IHandle.abs, IState.abs, iStatByPath, hf]
        cases seekTarget x.off (i.objs x.obj).length .fromEnd off <;> simp [abs_upd, IHandle.abs]
      | start =>
        simp only [Option.map_some, IHandle.abs, IState.abs, seekTarget]
        split <;> simp [abs_upd, IHandle.abs]
      | cur =>
        simp only [Option.map_some, IHandle.abs, IState.abs, seekTarget]
        split <;> simp [abs_upd, IHandle.abs]
  | truncate hd n =>
    simp only [stepS, stepI, abs_handles, inScope] at h ⊢
    cases hh : i.handles hd with
    | none => simp
    | some x =>
      simp only [hh, Bool.and_eq_true, IState.fresh, beq_iff_eq] at h
      simp [IHandle.abs, IState.abs, h.1, h.2, memTruncate_eq]
  | fstat hd =>
    simp only [stepS, stepI, abs_handles, inScope] at h ⊢
    cases hh : i.handles hd with
    | none => simp
    | some x =>
      simp only [hh, IState.fresh, beq_iff_eq] at h
      simp [IHandle.abs, IState.abs, iStatByPath, h]
  | close hd =>
    simp only [stepS, stepI, abs_handles]
    cases hh : i.handles hd with
    | none => simp
    | some x => simp [IState.abs, abs_upd]
  | link old new =>
    simp only [stepS, stepI, IState.abs]
    cases find i.files old <;> simp
    cases find i.files new <;> simp
  | rename old new =>
    simp only [stepS, stepI, IState.abs]
    cases find i.files new <;> simp
    cases find i.files old <;> simp
  | posixRename old new =>
    simp only [stepS, stepI, IState.abs]
    cases find i.files old <;> simp
    split <;> simp_all
  | remove n =>
    simp only [stepS, stepI, IState.abs]
    cases find i.files n <;> simp
  | cat n =>
    simp only [stepS, stepI, IState.abs]
    cases find i.files n <;> simp

theorem run_refines (ops : List Op) : ∀ (i : IState), scopedRun i ops = true →
    runS i.abs ops = runI false i ops := by
  induction ops with
  | nil => intro i _; rfl
  | cons op r ih =>
    intro i h
    rw [scopedRun, Bool.and_eq_true] at h
    have hs := step_refines i op h.1
    rw [runS, runI, hs]
    simp only
    rw [ih _ h.2]

theorem final_refines (ops : List Op) : ∀ (i : IState), scopedRun i ops = true →
    finalS i.abs ops = (finalI false i ops).abs := by
  induction ops with
  | nil => intro i _; rfl
  | cons op r ih =>
    intro i h
    rw [scopedRun, Bool.and_eq_true] at h
    have hs := step_refines i op h.1
    rw [finalS, finalI, hs]
    exact ih _ h.2

/-! ### names -/

theorem find_erase (t : Tab) (n m : Name) : find (erase t n) m = if m = n then none else find t m := by
  induction t with
  | nil => simp [erase, find]
  | cons p r ih =>
    obtain ⟨k, v⟩ := p
    by_cases hk : k = n
    · simp only [erase, hk, if_true, ih, find]
      by_cases hm : m = n
      · simp [hm]
      · have : ¬ n = m := fun e => hm e.symm
        simp [hm, this]
    · simp only [erase, hk, if_false, find, ih]
      by_cases hm : m = n
      · subst hm; simp [hk]
      · simp [hm]

theorem find_bind (t : Tab) (n m : Name) (v : Nat) :
    find (bind t n v) m = if m = n then some v else find t m := by
  unfold bind
  rw [find, find_erase]
  by_cases hm : m = n
  · subst hm; simp
  · have : ¬ n = m := fun e => hm e.symm
    simp [hm, this]

/-! ### the specification's states are well formed: what is referred to was allocated -/

structure WF (s : SState) : Prop where
  handles : ∀ h x, s.handles h = some x → x.ino < s.nextIno
  names : ∀ n i, find s.names n = some i → i < s.nextIno

theorem WF.init : WF SState.init :=
  ⟨fun h x hx => by simp [SState.init] at hx, fun n i hn => by simp [SState.init, find] at hn⟩

theorem upd_some {β : Type} {f : Nat → Option β} {k h : Nat} {v : Option β} {x : β}
    (hx : upd f k v h = some x) : (h = k ∧ v = some x) ∨ (h ≠ k ∧ f h = some x) := by
  unfold upd at hx
  split at hx
  · next e => exact .inl ⟨e, hx⟩
  · next e => exact .inr ⟨e, hx⟩

theorem WF.step (s : SState) (op : Op) (w : WF s) : WF (stepS s op).1 := by
  cases op with
  | «open» n fl =>
    simp only [stepS, sOpen]
    split
    · exact w
    · split
      · next hf =>
        split
        · exact w
        · refine ⟨?_, ?_⟩
          · intro h x hx
            rcases upd_some hx with ⟨_, e⟩ | ⟨_, e⟩
            · cases e; exact Nat.lt_succ_self _
            · exact Nat.lt_succ_of_lt (w.handles h x e)
          · intro m i hm
            rw [find_bind] at hm
            split at hm
            · cases hm; exact Nat.lt_succ_self _
            · exact Nat.lt_succ_of_lt (w.names m i hm)
      · next ino hf =>
        split
        · exact w
        · refine ⟨?_, w.names⟩
          intro h x hx
          rcases upd_some hx with ⟨_, e⟩ | ⟨_, e⟩
          · cases e; exact w.names n ino hf
          · exact w.handles h x e
  | writeAt h off d =>
    simp only [stepS]
    split
    · exact w
    · split
      · exact w
      · exact ⟨w.handles, w.names⟩
  | write h d =>
    simp only [stepS]
    split
    · exact w
    · next x hx =>
      split
      · exact w
      · refine ⟨?_, w.names⟩
        intro h' y hy
        rcases upd_some hy with ⟨_, e⟩ | ⟨_, e⟩
        · cases e; exact w.handles h x hx
        · exact w.handles h' y e
  | readAt h off len =>
    simp only [stepS]
    split
    · exact w
    · split <;> exact w
  | read h len =>
    simp only [stepS]
    split
    · exact w
    · next x hx =>
      split
      · exact w
      · refine ⟨?_, w.names⟩
        intro h' y hy
        rcases upd_some hy with ⟨_, e⟩ | ⟨_, e⟩
        · cases e; exact w.handles h x hx
        · exact w.handles h' y e
  | seek h wh off =>
    simp only [stepS]
    split
    · exact w
    · next x hx =>
      split
      · exact w
      · refine ⟨?_, w.names⟩
        intro h' y hy
        rcases upd_some hy with ⟨_, e⟩ | ⟨_, e⟩
        · cases e; exact w.handles h x hx
        · exact w.handles h' y e
  | truncate h n =>
    simp only [stepS]
    split
    · exact w
    · split
      · exact w
      · exact ⟨w.handles, w.names⟩
  | fstat h =>
    simp only [stepS]
    split <;> exact w
  | close h =>
    simp only [stepS]
    split
    · exact w
    · refine ⟨?_, w.names⟩
      intro h' y hy
      rcases upd_some hy with ⟨_, e⟩ | ⟨_, e⟩
      · cases e
      · exact w.handles h' y e
  | link old new =>
    simp only [stepS]
    split
    · exact w
    · next ino ho =>
      split
      · exact w
      · refine ⟨w.handles, ?_⟩
        intro m i hm
        rw [find_bind] at hm
        split at hm
        · cases hm; exact w.names old ino ho
        · exact w.names m i hm
  | rename old new =>
    simp only [stepS]
    split
    · exact w
    · split
      · exact w
      · next ino ho =>
        refine ⟨w.handles, ?_⟩
        intro m i hm
        rw [find_erase, find_bind] at hm
        split at hm
        · cases hm
        · split at hm
          · cases hm; exact w.names old ino ho
          · exact w.names m i hm
  | posixRename old new =>
    simp only [stepS]
    split
    · exact w
    · next ino ho =>
      split
      · exact w
      · refine ⟨w.handles, ?_⟩
        intro m i hm
        rw [find_erase, find_bind] at hm
        split at hm
        · cases hm
        · split at hm
          · cases hm; exact w.names old ino ho
          · exact w.names m i hm
  | remove n =>
    simp only [stepS]
    split
    · exact w
    · refine ⟨w.handles, ?_⟩
      intro m i hm
      rw [find_erase] at hm
      split at hm
      · cases hm
      · exact w.names m i hm
  | cat n =>
    simp only [stepS]
    split <;> exact w

theorem WF.final (ops : List Op) : ∀ s, WF s → WF (finalS s ops) := by
  induction ops with
  | nil => intro s w; exact w
  | cons op r ih => intro s w; exact ih _ (WF.step s op w)

end Sftp.MultiHandle
