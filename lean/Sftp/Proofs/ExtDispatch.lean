import Sftp.Model.ExtDispatch
/-
  Helper lemmas for Props/C19Ext.lean (M-ExtDispatch).
-/
namespace Sftp.ExtDispatch

theorem lookup_none_of_not_known (cfg : ExtCfg) (name : String) (h : name ∉ knownNames cfg) :
    cfg.extSwitch.lookup name = none := by
  rw [List.lookup_eq_none_iff]
  intro p hp
  have : name ≠ p.1 := by
    intro e
    apply h
    rw [e]
    exact List.mem_map.2 ⟨p, hp, rfl⟩
  simpa using this

theorem lookup_some_of_known (cfg : ExtCfg) (name : String) (h : name ∈ knownNames cfg) :
    ∃ t, cfg.extSwitch.lookup name = some t := by
  cases hl : cfg.extSwitch.lookup name with
  | some t => exact ⟨t, rfl⟩
  | none =>
    rw [List.lookup_eq_none_iff] at hl
    obtain ⟨p, hp, rfl⟩ := List.mem_map.1 h
    have := hl p hp
    simp at this

theorem decode_unknown (cfg : ExtCfg) (name : String) (ok : Bool) (h : name ∉ knownNames cfg) :
    decode cfg name ok = ⟨none, some cfg.unknownErr⟩ := by
  unfold decode
  rw [lookup_none_of_not_known cfg name h]

theorem decode_known_ok (cfg : ExtCfg) (name t : String) (h : cfg.extSwitch.lookup name = some t) :
    decode cfg name true = ⟨some t, none⟩ := by
  unfold decode
  rw [h]
  rfl

/-! no handler path ends the session -/

def Plan.NoEnds : Plan → Prop
  | .reply o => o ≠ .sessionEnds
  | .needIface _ y n => y ≠ .sessionEnds ∧ n ≠ .sessionEnds

theorem resolve_noEnds (ifaces : List String) (p : Plan) (h : p.NoEnds) : resolve ifaces p ≠ .sessionEnds := by
  cases p with
  | reply o => exact h
  | needIface i y n =>
    simp only [resolve]
    split
    · exact h.1
    · exact h.2

theorem replyOutcome_ne_ends (e : String) : replyOutcome e ≠ .sessionEnds := by
  unfold replyOutcome
  split <;> simp

theorem osHandle_ne_ends (cfg : ExtCfg) (spec : Option String) : osHandle cfg spec ≠ .sessionEnds := by
  unfold osHandle
  split
  · exact replyOutcome_ne_ends _
  · split
    · split <;> simp
    · simp

theorem osDispatch_ne_ends (cfg : ExtCfg) (ro : Bool) (spec : Option String) :
    osDispatch cfg ro spec ≠ .sessionEnds := by
  unfold osDispatch
  split
  · simp
  · split
    · split <;> simp
    · exact osHandle_ne_ends _ _

theorem filecmdPlan_noEnds (cfg : ExtCfg) (m : String) : (filecmdPlan cfg m).NoEnds := by
  unfold filecmdPlan
  split
  · simp [Plan.NoEnds]
  · split
    · simp only [Plan.NoEnds]
      refine ⟨by simp, ?_⟩
      split <;> simp
    · simp [Plan.NoEnds]

theorem callPlan_noEnds (cfg : ExtCfg) (m : String) : (callPlan cfg m).NoEnds := by
  unfold callPlan
  split
  · split
    · exact filecmdPlan_noEnds _ _
    · simp [Plan.NoEnds]
  · simp [Plan.NoEnds]

theorem rsCasePlan_noEnds (cfg : ExtCfg) (t c : String) : (rsCasePlan cfg t c).NoEnds := by
  unfold rsCasePlan
  split
  · exact replyOutcome_ne_ends _
  · split
    · simp [Plan.NoEnds]
    · split
      · exact callPlan_noEnds _ _
      · split
        · exact callPlan_noEnds _ _
        · simp [Plan.NoEnds]

theorem rsPlan_noEnds (cfg : ExtCfg) (spec : Option String) : (rsPlan cfg spec).NoEnds :=
  rsCasePlan_noEnds _ _ _

/-- once a packet is handed to a worker the session goes on -/
theorem dispatched_noEnds (cfg : ExtCfg) (isOs ro : Bool) (spec : Option String) :
    (if isOs then Plan.reply (osDispatch cfg ro spec) else rsPlan cfg spec).NoEnds := by
  cases isOs
  · exact rsPlan_noEnds _ _
  · exact osDispatch_ne_ends _ _ _

/-- the request server never looks at `readOnly` -/
theorem rs_ignores_readOnly (cfg : ExtCfg) (ifaces : List String) (ro ro' : Bool) (name : String) (ok : Bool) :
    extOutcome cfg (.rs ifaces) ro name ok = extOutcome cfg (.rs ifaces) ro' name ok := by
  unfold extOutcome extPlan
  simp [Srv.isOs]

end Sftp.ExtDispatch
