import Sftp.Model.LsModeCheck
namespace Sftp.C17
set_option maxRecDepth 1000000 in
theorem ls_chunk_05 : allRange lsCheck 10240 2048 = true := by decide +kernel
end Sftp.C17
