import Sftp.Model.LsModeCheck
namespace Sftp.C17
set_option maxRecDepth 1000000 in
theorem ls_chunk_29 : allRange lsCheck 59392 2048 = true := by decide +kernel
end Sftp.C17
