import Sftp.Proofs.C17Ls.L00
import Sftp.Proofs.C17Ls.L01
import Sftp.Proofs.C17Ls.L02
import Sftp.Proofs.C17Ls.L03
import Sftp.Proofs.C17Ls.L04
import Sftp.Proofs.C17Ls.L05
import Sftp.Proofs.C17Ls.L06
import Sftp.Proofs.C17Ls.L07
import Sftp.Proofs.C17Ls.L08
import Sftp.Proofs.C17Ls.L09
import Sftp.Proofs.C17Ls.L10
import Sftp.Proofs.C17Ls.L11
import Sftp.Proofs.C17Ls.L12
import Sftp.Proofs.C17Ls.L13
import Sftp.Proofs.C17Ls.L14
import Sftp.Proofs.C17Ls.L15
import Sftp.Proofs.C17Ls.L16
import Sftp.Proofs.C17Ls.L17
import Sftp.Proofs.C17Ls.L18
import Sftp.Proofs.C17Ls.L19
import Sftp.Proofs.C17Ls.L20
import Sftp.Proofs.C17Ls.L21
import Sftp.Proofs.C17Ls.L22
import Sftp.Proofs.C17Ls.L23
import Sftp.Proofs.C17Ls.L24
import Sftp.Proofs.C17Ls.L25
import Sftp.Proofs.C17Ls.L26
import Sftp.Proofs.C17Ls.L27
import Sftp.Proofs.C17Ls.L28
import Sftp.Proofs.C17Ls.L29
import Sftp.Proofs.C17Ls.L30
import Sftp.Proofs.C17Ls.L31
/-
  Lifting the 32 completely evaluated chunks of the long-name mode column to a ∀-statement.
-/
namespace Sftp.C17
open Sftp

theorem ls_all (m : Nat) (hm : m < 65536) : lsCheck m = true := by
  have h : ∀ k, k < 32 → ∀ m, k * 2048 ≤ m → m < k * 2048 + 2048 → lsCheck m = true := by
    intro k hk
    match k, hk with
    | 0, _ => exact allRange_spec _ _ _ ls_chunk_00
    | 1, _ => exact allRange_spec _ _ _ ls_chunk_01
    | 2, _ => exact allRange_spec _ _ _ ls_chunk_02
    | 3, _ => exact allRange_spec _ _ _ ls_chunk_03
    | 4, _ => exact allRange_spec _ _ _ ls_chunk_04
    | 5, _ => exact allRange_spec _ _ _ ls_chunk_05
    | 6, _ => exact allRange_spec _ _ _ ls_chunk_06
    | 7, _ => exact allRange_spec _ _ _ ls_chunk_07
    | 8, _ => exact allRange_spec _ _ _ ls_chunk_08
    | 9, _ => exact allRange_spec _ _ _ ls_chunk_09
    | 10, _ => exact allRange_spec _ _ _ ls_chunk_10
    | 11, _ => exact allRange_spec _ _ _ ls_chunk_11
    | 12, _ => exact allRange_spec _ _ _ ls_chunk_12
    | 13, _ => exact allRange_spec _ _ _ ls_chunk_13
    | 14, _ => exact allRange_spec _ _ _ ls_chunk_14
    | 15, _ => exact allRange_spec _ _ _ ls_chunk_15
    | 16, _ => exact allRange_spec _ _ _ ls_chunk_16
    | 17, _ => exact allRange_spec _ _ _ ls_chunk_17
    | 18, _ => exact allRange_spec _ _ _ ls_chunk_18
    | 19, _ => exact allRange_spec _ _ _ ls_chunk_19
    | 20, _ => exact allRange_spec _ _ _ ls_chunk_20
    | 21, _ => exact allRange_spec _ _ _ ls_chunk_21
    | 22, _ => exact allRange_spec _ _ _ ls_chunk_22
    | 23, _ => exact allRange_spec _ _ _ ls_chunk_23
    | 24, _ => exact allRange_spec _ _ _ ls_chunk_24
    | 25, _ => exact allRange_spec _ _ _ ls_chunk_25
    | 26, _ => exact allRange_spec _ _ _ ls_chunk_26
    | 27, _ => exact allRange_spec _ _ _ ls_chunk_27
    | 28, _ => exact allRange_spec _ _ _ ls_chunk_28
    | 29, _ => exact allRange_spec _ _ _ ls_chunk_29
    | 30, _ => exact allRange_spec _ _ _ ls_chunk_30
    | 31, _ => exact allRange_spec _ _ _ ls_chunk_31
    | k + 32, hk => omega
  exact h (m / 2048) (by omega) m (by omega) (by omega)

end Sftp.C17
