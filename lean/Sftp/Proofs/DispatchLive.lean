import Sftp.Proofs.Dispatch
/-
  M-Dispatch: the chain-discipline (WriteTo) consequences of the invariant, and absence of deadlock:
  from every reachable state some schedule leads to `finished`.
-/
namespace Sftp.Dispatch

variable {c : DispatchCfg} {e : Env} {s : State}

/-- chain: the reducer of a finished run consumed packets 0 … m in this order, where m is the lowest
failing chunk, and chunk m had been handed out. -/
theorem Inv.chain_finished (h : Inv c e s) (hch : c.chain = true) (hf : s.finished = true) :
    ∃ m, s.observed = List.range (m + 1) ∧ e.fails m = true ∧ (∀ i, i < m → e.fails i = false) ∧
      m < s.next := by
  obtain ⟨m, h1, h2, h3⟩ := h.chain_done hch (h.fin_red hf hch)
  refine ⟨m, h1, h2, h3, ?_⟩
  have hm : m ∈ s.observed := by rw [h1]; exact List.mem_range.mpr (Nat.lt_succ_self m)
  exact List.mem_range.mp ((h.completed_perm hf).mem_iff.mp (h.obs_sub m hm))

/-- termination measure; `bound` = plan length (fold) or lowest failing index + 1 (chain) -/
def mu (bound : Nat) (s : State) : Nat :=
  3 * s.inflight.length + 2 * s.reporting.length + 6 * (bound - s.next) +
  (bif s.held then 0 else 1) + (bif s.prodDone then 0 else 3) + (bif s.finished then 0 else 1)

theorem step_reply (hnf : s.finished = false) {i : Nat} (hi : i ∈ s.inflight) :
    step c e s (.reply i) = some { s with inflight := s.inflight.erase i, completed := s.completed ++ [i],
                                                                      reporting := if c.chain = true ∨ e.fails i = true then s.reporting ++ [i] else s.reporting } := by
  simp [step, hnf, hi]

theorem mu_reply (b : Nat) {i : Nat} (hi : i ∈ s.inflight) :
    mu b { s with inflight := s.inflight.erase i, completed := s.completed ++ [i],
                                                                      reporting := if c.chain = true ∨ e.fails i = true then s.reporting ++ [i] else s.reporting } < mu b s := by
  have h1 := List.length_erase_of_mem hi
  have h2 : 0 < s.inflight.length := List.length_pos_of_mem hi
  simp only [mu]
  split
  · simp only [List.length_append, List.length_singleton]; omega
  · omega

/-- fold paths: some enabled action decreases the measure -/
theorem fold_progress (hc : c.FoldPath) (hw : 1 ≤ e.workers) (h : Inv c e s) (hnf : s.finished = false) :
    ∃ a s', step c e s a = some s' ∧ mu e.planLen s' < mu e.planLen s := by
  obtain ⟨⟨hio, hcr, hne, hcb, haw⟩, hch, hb⟩ := hc
  cases hin : s.inflight with
  | cons i rest =>
    have hi : i ∈ s.inflight := by rw [hin]; exact List.mem_cons_self
    exact ⟨.reply i, _, step_reply hnf hi, mu_reply _ hi⟩
  | nil =>
    cases hrep : s.reporting with
    | cons i rest =>
      have hi : i ∈ s.reporting := by rw [hrep]; exact List.mem_cons_self
      refine ⟨.observe i, { s with reporting := s.reporting.erase i, observed := s.observed ++ [i],
                                                                      cancelled := true }, by simp [step, hnf, hch, hi], ?_⟩
      have h1 := List.length_erase_of_mem hi
      have h2 : 0 < s.reporting.length := List.length_pos_of_mem hi
      simp only [mu]; omega
    | nil =>
      cases hp : s.prodDone with
      | true =>
        refine ⟨.finish, { s with finished := true }, by simp [step, hnf, hp, hin, hrep, hch], ?_⟩
        simp [mu, hnf]
      | false =>
        cases hh : s.held with
        | true =>
          have hlt := h.held_lt hh hb
          refine ⟨.handOut, { s with held := false, next := s.next + 1, handed := s.handed ++ [s.next],
                                                                      inflight := s.inflight ++ [s.next],
                                                                      sent := if c.sendFirst = true then s.sent else s.sent ++ [s.next] }, ?_, ?_⟩
          · have : s.busy < e.workers := by simp [State.busy, hin, hrep]; omega
            simp [step, hnf, hp, hh, this]
          · simp only [mu, hh, hin, List.length_append, List.length_singleton, List.length_nil, cond_true,
              cond_false]
            omega
        | false =>
          by_cases hlt : s.next < e.planLen
          · refine ⟨.send, { s with held := true,
                                                                      sent := if c.sendFirst = true then s.sent ++ [s.next] else s.sent }, by simp [step, hnf, hp, hh, hlt], ?_⟩
            simp [mu, hh]
          · refine ⟨.exhaust, { s with prodDone := true }, by simp [step, hnf, hp, hh, hb]; omega, ?_⟩
            simp [mu, hp]

/-- No deadlock on the errCh-fold paths: from every state satisfying the invariant (in particular
every reachable one) some schedule completes the method. -/
theorem fold_can_finish (hc : c.FoldPath) (hw : 1 ≤ e.workers) :
    ∀ (n : Nat) (s : State), mu e.planLen s ≤ n → Inv c e s →
      ∃ acts s', run c e s acts = some s' ∧ s'.finished = true
  | n, s, hn, h => by
    cases hf : s.finished with
    | true => exact ⟨[], s, rfl, hf⟩
    | false =>
      obtain ⟨a, s1, hs1, hlt⟩ := fold_progress hc hw h hf
      match n with
      | 0 => omega
      | n + 1 =>
        obtain ⟨acts, s2, hr, hf2⟩ := fold_can_finish hc hw n s1 (by omega) (inv_step hc.1 hw h hs1)
        exact ⟨a :: acts, s2, by simp only [run, hs1]; exact hr, hf2⟩

/-- chain: with nothing in flight and the reducer still running, the packet the reducer waits for
is held by a blocked worker (or nothing is) -/
theorem Inv.chain_head_ready (h : Inv c e s) (hch : c.chain = true) (hin : s.inflight = [])
    (hcan : s.cancelled = false) (hne : s.reporting ≠ []) : s.observed.length ∈ s.reporting := by
  have h1 := h.chain_perm hch hcan
  have h2 := h.perm_handed
  rw [hin, List.nil_append, h.handed_eq] at h2
  have h3 := h1.trans h2
  have hlen := h3.length_eq
  rw [List.length_append, List.length_range] at hlen
  have hpos : 0 < s.reporting.length := List.length_pos_iff.mpr hne
  have hk : s.observed.length ∈ s.reporting ++ s.observed :=
    h3.mem_iff.mpr (List.mem_range.mpr (by omega))
  rcases List.mem_append.mp hk with hk | hk
  · exact hk
  · rw [h.chain_obs hch, List.mem_range, List.length_range] at hk
    omega

/-- chain paths: some enabled action decreases the measure (M = lowest failing chunk) -/
theorem chain_progress (hc : c.ChainPath) (hb : c.bounded = false) (hw : 1 ≤ e.workers)
    (M : Nat) (hM : e.fails M = true) (h : Inv c e s) (hnf : s.finished = false) :
    ∃ a s', step c e s a = some s' ∧ mu (M + 1) s' < mu (M + 1) s := by
  obtain ⟨⟨hio, hcr, hne, hcb, haw⟩, hch, hca⟩ := hc
  cases hin : s.inflight with
  | cons i rest =>
    have hi : i ∈ s.inflight := by rw [hin]; exact List.mem_cons_self
    exact ⟨.reply i, _, step_reply hnf hi, mu_reply _ hi⟩
  | nil =>
    cases hrep : s.reporting with
    | cons i rest =>
      have hi : i ∈ s.reporting := by rw [hrep]; exact List.mem_cons_self
      cases hcan : s.cancelled with
      | true =>
        refine ⟨.drop i, { s with reporting := s.reporting.erase i }, by simp [step, hnf, hch, hcan, hi], ?_⟩
        have h1 := List.length_erase_of_mem hi
        have h2 : 0 < s.reporting.length := List.length_pos_of_mem hi
        simp only [mu]; omega
      | false =>
        have hrd : s.redDone = false := by
          cases hr : s.redDone with
          | false => rfl
          | true => have := h.chain_red hch hr; rw [hcan] at this; cases this
        have hk := h.chain_head_ready hch hin hcan (by rw [hrep]; exact List.cons_ne_nil _ _)
        refine ⟨.observe s.observed.length,
          { s with reporting := s.reporting.erase s.observed.length,
                   observed := s.observed ++ [s.observed.length],
                   redDone := e.fails s.observed.length,
                   cancelled := s.cancelled || e.fails s.observed.length },
          by simp [step, hnf, hch, hrd, hk], ?_⟩
        have h1 := List.length_erase_of_mem hk
        have h2 : 0 < s.reporting.length := List.length_pos_of_mem hk
        simp only [mu]; omega
    | nil =>
      cases hp : s.prodDone with
      | true =>
        have hrd : s.redDone = true := by
          rcases h.prod_done hp with h1 | ⟨h1, _⟩
          · exact h.chain_cancel hch h1
          · rw [hb] at h1; cases h1
        refine ⟨.finish, { s with finished := true }, by simp [step, hnf, hp, hin, hrep, hrd], ?_⟩
        simp [mu, hnf]
      | false =>
        cases hh : s.held with
        | true =>
          cases hcan : s.cancelled with
          | true =>
            refine ⟨.seeCancel, { s with prodDone := true }, by simp [step, hnf, hp, hh, hcan, hca, hcr], ?_⟩
            simp [mu, hp]
          | false =>
            have hrd : s.redDone = false := by
              cases hr : s.redDone with
              | false => rfl
              | true => have := h.chain_red hch hr; rw [hcan] at this; cases this
            -- every chunk below `next` was consumed without failure, so next ≤ M
            have hle : s.next ≤ M := by
              have h1 := h.chain_perm hch hcan
              have h2 := h.perm_handed
              rw [hin, List.nil_append, h.handed_eq] at h2
              rw [hrep, List.nil_append] at h1
              have h3 := h1.trans h2
              apply Nat.le_of_not_lt
              intro hlt
              have hMo : M ∈ s.observed := h3.mem_iff.mpr (List.mem_range.mpr hlt)
              have := h.chain_ok hch hrd M hMo
              rw [hM] at this; cases this
            refine ⟨.handOut, { s with held := false, next := s.next + 1, handed := s.handed ++ [s.next],
                                       inflight := s.inflight ++ [s.next],
                                       sent := if c.sendFirst = true then s.sent else s.sent ++ [s.next] }, ?_, ?_⟩
            · have : s.busy < e.workers := by simp [State.busy, hin, hrep]; omega
              simp [step, hnf, hp, hh, this]
            · simp only [mu, hh, hin, List.length_append, List.length_singleton, List.length_nil, cond_true,
                cond_false]
              omega
        | false =>
          refine ⟨.send, { s with held := true,
                                  sent := if c.sendFirst = true then s.sent ++ [s.next] else s.sent },
            by simp [step, hnf, hp, hh, hb], ?_⟩
          simp [mu, hh]

/-- No deadlock on the chain path (WriteTo), provided some chunk ends the transfer (on a regular file
the STATUS EOF chunk always exists). -/
theorem chain_can_finish (hc : c.ChainPath) (hb : c.bounded = false) (hw : 1 ≤ e.workers)
    (M : Nat) (hM : e.fails M = true) :
    ∀ (n : Nat) (s : State), mu (M + 1) s ≤ n → Inv c e s →
      ∃ acts s', run c e s acts = some s' ∧ s'.finished = true
  | n, s, hn, h => by
    cases hf : s.finished with
    | true => exact ⟨[], s, rfl, hf⟩
    | false =>
      obtain ⟨a, s1, hs1, hlt⟩ := chain_progress hc hb hw M hM h hf
      match n with
      | 0 => omega
      | n + 1 =>
        obtain ⟨acts, s2, hr, hf2⟩ := chain_can_finish hc hb hw M hM n s1 (by omega) (inv_step hc.1 hw h hs1)
        exact ⟨a :: acts, s2, by simp only [run, hs1]; exact hr, hf2⟩

end Sftp.Dispatch
