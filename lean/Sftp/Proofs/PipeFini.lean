import Sftp.Proofs.PipeFinal
import Sftp.Proofs.PipeLive
/-
  Shutdown invariant: `fini` is closed only when the input is closed, pktChan is empty and the WaitGroup counter is 0
  (and that stays so); the controller stops only after `fini`; and with `drainOnFini` a stopped controller has
  answered every received request.
-/
set_option linter.unusedSimpArgs false
namespace Sftp.Pipe

structure InvFini (cfg : PipeCfg) (s : State) : Prop where
  closed : s.finiClosed = true → s.inputClosed = true ∧ s.pktChan = [] ∧ s.working = 0
  stopFini : s.controllerStopped = true → s.finiClosed = true
  answered : cfg.drainOnFini = true → s.controllerStopped = true → s.sent = s.received.map mkResp

theorem invFini_init (cfg : PipeCfg) : InvFini cfg (init cfg) := by
  constructor <;> simp [init]

/-- The drain loop of the `fini` branch answers everything: when `fini` is closed every received request has been
dispatched and has left its worker, so its response is in `responses`, `outgoing` or already sent. -/
theorem drain_answers {cfg : PipeCfg} (hm : cfg.headMatch = true) (hso : cfg.sortOutgoing = true) {s : State}
    (hl : InvLoc s) (ho : InvOrd s) (h1 : s.pktChan = []) (hw : s.working = 0) :
    (drainState cfg s).sent = s.received.map mkResp := by
  have hl' := invLoc_drainState cfg hl
  have ho' := invOrd_drainState hm hso hl ho
  have hp : pendingOids (drainState cfg s) = [] :=
    List.eq_nil_of_length_eq_zero (by rw [← hl'.work]; exact hw)
  have hlen := drained_all_sent_of_pending hl' ho' h1 hp rfl rfl
  have := sent_eq hl' ho'
  rw [hlen, List.take_length] at this
  exact this

/-- nothing relevant for `InvFini` changed, and the counter did not grow -/
theorem InvFini.frame {cfg : PipeCfg} {s s' : State} (h : InvFini cfg s)
    (h1 : s'.finiClosed = s.finiClosed) (h2 : s'.inputClosed = s.inputClosed) (h3 : s'.pktChan = s.pktChan)
    (h4 : s'.working ≤ s.working) (h5 : s'.controllerStopped = s.controllerStopped)
    (h6 : s'.controllerStopped = true → s'.sent = s.sent) (h7 : s'.received = s.received) : InvFini cfg s' := by
  constructor
  · intro hf
    rw [h1] at hf
    obtain ⟨a, b, c⟩ := h.closed hf
    rw [h2, h3]
    exact ⟨a, b, by omega⟩
  · intro hst
    rw [h5] at hst
    rw [h1]
    exact h.stopFini hst
  · intro hd hst
    rw [h6 hst, h7]
    rw [h5] at hst
    exact h.answered hd hst

theorem invFini_step {cfg : PipeCfg} (hm : cfg.headMatch = true) (hso : cfg.sortOutgoing = true)
    {s s' : State} {a : Action} (hl : InvLoc s) (ho : InvOrd s) (h : InvFini cfg s)
    (hs : step cfg s a = some s') : InvFini cfg s' := by
  unfold step at hs
  rw [hl.noPanic] at hs
  simp only [Bool.false_eq_true, if_false] at hs
  cases a with
  | recv r =>
    simp only [recvStep] at hs
    split at hs
    · simp at hs
    · rename_i hin
      simp only [Option.some.injEq] at hs; subst hs
      have hf : s.finiClosed = false := by
        cases hfc : s.finiClosed
        · rfl
        · exact absurd (h.closed hfc).1 hin
      have hst : s.controllerStopped = false := by
        cases hsc : s.controllerStopped
        · rfl
        · have := h.stopFini hsc; rw [hf] at this; cases this
      refine ⟨fun hf' => ?_, fun hst' => ?_, fun _ hst' => ?_⟩
      · exact absurd (hf.symm.trans hf') (by decide)
      · exact absurd (hst.symm.trans hst') (by decide)
      · exact absurd (hst.symm.trans hst') (by decide)
  | dispatch =>
    simp only [dispatchStep] at hs
    rw [hl.noPend] at hs
    simp only at hs
    split at hs
    · simp at hs
    · rename_i r rest hp
      have hf : s.finiClosed = false := by
        cases hfc : s.finiClosed
        · rfl
        · have := (h.closed hfc).2.1; rw [hp] at this; cases this
      have hst : s.controllerStopped = false := by
        cases hsc : s.controllerStopped
        · rfl
        · have := h.stopFini hsc; rw [hf] at this; cases this
      have key : ∀ t : State, t.finiClosed = s.finiClosed → t.controllerStopped = s.controllerStopped →
          InvFini cfg t := by
        intro t e1 e2
        refine ⟨fun hf' => ?_, fun hst' => ?_, fun _ hst' => ?_⟩
        · rw [e1, hf] at hf'; cases hf'
        · rw [e2, hst] at hst'; cases hst'
        · rw [e2, hst] at hst'; cases hst'
      (repeat' split at hs) <;>
        first
          | (simp only [Option.some.injEq] at hs; subst hs; exact key _ rfl rfl)
          | simp at hs
  | workerTake i =>
    simp only [workerTakeStep] at hs
    split at hs
    · simp only [Option.some.injEq] at hs; subst hs
      exact h.frame rfl rfl rfl (Nat.le_refl _) rfl (fun _ => rfl) rfl
    · simp at hs
  | workerHandle i =>
    simp only [workerHandleStep] at hs
    split at hs
    · simp only [Option.some.injEq] at hs; subst hs
      exact h.frame rfl rfl rfl (Nat.le_refl _) rfl (fun _ => rfl) rfl
    · simp at hs
  | workerReady i =>
    simp only [workerReadyStep] at hs
    split at hs
    · split at hs
      · simp only [Option.some.injEq] at hs; subst hs
        exact h.frame rfl rfl rfl (Nat.le_refl _) rfl (fun _ => rfl) rfl
      · simp only [Option.some.injEq] at hs; subst hs
        exact h.frame rfl rfl rfl (Nat.sub_le _ _) rfl (fun _ => rfl) rfl
    · simp at hs
  | cmdTake =>
    simp only [cmdTakeStep] at hs
    split at hs
    · simp only [Option.some.injEq] at hs; subst hs
      exact h.frame rfl rfl rfl (Nat.le_refl _) rfl (fun _ => rfl) rfl
    · simp at hs
  | cmdHandle =>
    simp only [cmdHandleStep] at hs
    split at hs
    · simp only [Option.some.injEq] at hs; subst hs
      exact h.frame rfl rfl rfl (Nat.le_refl _) rfl (fun _ => rfl) rfl
    · simp at hs
  | cmdReady =>
    simp only [cmdReadyStep] at hs
    split at hs
    · split at hs
      · simp only [Option.some.injEq] at hs; subst hs
        exact h.frame rfl rfl rfl (Nat.le_refl _) rfl (fun _ => rfl) rfl
      · simp only [Option.some.injEq] at hs; subst hs
        exact h.frame rfl rfl rfl (Nat.sub_le _ _) rfl (fun _ => rfl) rfl
    · simp at hs
  | ctlTakeReq =>
    simp only [ctlTakeReqStep] at hs
    split at hs
    · simp at hs
    · rename_i hst
      split at hs
      · simp at hs
      · simp only [Option.some.injEq] at hs; subst hs
        exact h.frame rfl rfl rfl (Nat.le_refl _) rfl (fun hst' => absurd hst' hst) rfl
  | ctlTakeResp =>
    simp only [ctlTakeRespStep] at hs
    split at hs
    · simp at hs
    · rename_i hst
      split at hs
      · simp at hs
      · simp only [Option.some.injEq] at hs; subst hs
        exact h.frame rfl rfl rfl (Nat.le_refl _) rfl (fun hst' => absurd hst' hst) rfl
  | closeInput =>
    simp only [closeInputStep] at hs
    split at hs
    · simp at hs
    · simp only [Option.some.injEq] at hs; subst hs
      refine ⟨fun hf => ?_, h.stopFini, h.answered⟩
      exact ⟨rfl, (h.closed hf).2⟩
  | dispatcherShutdown =>
    simp only [dispatcherShutdownStep] at hs
    split at hs
    · rename_i hc
      simp only [Option.some.injEq] at hs; subst hs
      exact ⟨fun _ => ⟨hc.1, hc.2.1, hc.2.2.2.2⟩, fun _ => rfl, h.answered⟩
    · simp at hs
  | ctlFini =>
    simp only [ctlFiniStep] at hs
    split at hs
    · rename_i hc
      obtain ⟨hin, hpk, hw⟩ := h.closed hc.1
      split at hs
      · simp only [Option.some.injEq] at hs; subst hs
        refine ⟨fun _ => ⟨hin, hpk, hw⟩, fun _ => hc.1, fun _ _ => ?_⟩
        exact drain_answers hm hso hl ho hpk hw
      · rename_i hd
        simp only [Option.some.injEq] at hs; subst hs
        exact ⟨fun _ => ⟨hin, hpk, hw⟩, fun _ => hc.1, fun hd' _ => absurd hd' hd⟩
    · simp at hs

theorem invFini_run {cfg : PipeCfg} (hreg : cfg.registerBeforeHandoff = true) (hm : cfg.headMatch = true)
    (hso : cfg.sortOutgoing = true) (as : List Action) {s s' : State}
    (hl : InvLoc s) (ho : InvOrd s) (h : InvFini cfg s) (hr : run cfg s as = some s') :
    InvLoc s' ∧ InvOrd s' ∧ InvFini cfg s' := by
  induction as generalizing s with
  | nil => simp only [run, Option.some.injEq] at hr; exact hr ▸ ⟨hl, ho, h⟩
  | cons a as ih =>
    simp only [run] at hr
    split at hr
    · simp at hr
    · rename_i s1 hs1
      exact ih (invLoc_step hreg hl hs1) (invOrd_step hreg hm hso hl ho hs1) (invFini_step hm hso hl ho h hs1) hr

/-- If no action at all is enabled, the input is closed. -/
theorem inputClosed_of_stuck {cfg : PipeCfg} {s : State} (hl : InvLoc s)
    (hstuck : ∀ a, step cfg s a = none) : s.inputClosed = true := by
  have := hstuck .closeInput
  simp only [step, hl.noPanic, Bool.false_eq_true, if_false, closeInputStep] at this
  cases hin : s.inputClosed
  · rw [hin] at this; simp at this
  · rfl

/-- A stopped controller means the whole server is finished: no action is enabled any more. -/
theorem stopped_terminal {cfg : PipeCfg} {s : State} (hl : InvLoc s) (h : InvFini cfg s)
    (hst : s.controllerStopped = true) (a : Action) : step cfg s a = none := by
  have hf := h.stopFini hst
  obtain ⟨hin, hpk, hw⟩ := h.closed hf
  have hp : pendingOids s = [] := List.eq_nil_of_length_eq_zero (by rw [← hl.work]; exact hw)
  simp only [pendingOids, List.append_eq_nil_iff, List.map_eq_nil_iff] at hp
  obtain ⟨⟨⟨hpq, hcq⟩, hfl⟩, hcs⟩ := hp
  have hc : s.cmdSlot = Slot.idle := by
    cases hcc : s.cmdSlot <;> simp [hcc, slotOids] at hcs ⊢
  unfold step
  rw [hl.noPanic]
  simp only [Bool.false_eq_true, if_false]
  cases a with
  | recv r => simp [recvStep, hin]
  | dispatch => simp [dispatchStep, hl.noPend, hpk]
  | workerTake i =>
    simp only [workerTakeStep]
    split
    · rename_i heq1 heq2
      rw [hpq] at heq2; cases heq2
    · rfl
  | workerHandle i =>
    simp only [workerHandleStep]
    split
    · rename_i r hsl
      have := all_idle_of_nil hfl _ (List.mem_of_getElem? hsl)
      cases this
    · rfl
  | workerReady i =>
    simp only [workerReadyStep]
    split
    · rename_i r hsl
      have := all_idle_of_nil hfl _ (List.mem_of_getElem? hsl)
      cases this
    · rfl
  | cmdTake => simp [cmdTakeStep, hc, hcq]
  | cmdHandle => simp [cmdHandleStep, hc]
  | cmdReady => simp [cmdReadyStep, hc]
  | ctlTakeReq => simp [ctlTakeReqStep, hst]
  | ctlTakeResp => simp [ctlTakeRespStep, hst]
  | closeInput => simp [closeInputStep, hin]
  | dispatcherShutdown => simp [dispatcherShutdownStep, hf]
  | ctlFini => simp [ctlFiniStep, hst]

end Sftp.Pipe
