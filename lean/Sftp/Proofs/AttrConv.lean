import Sftp.Model.AttrConv
/-
  Lemmas for Props/C17Time: values of the arguments of the attribute-applying calls and of the client's setters,
  from decidable shape facts about the regenerated conversion tables.
-/
namespace Sftp

theorem allSome_map {α β : Type} (l : List α) (f : α → Option β) (g : α → β) (h : ∀ a ∈ l, f a = some (g a)) :
    allSome (l.map f) = some (l.map g) := by
  induction l with
  | nil => rfl
  | cons a l ih =>
    rw [List.map_cons, h a (List.mem_cons_self), List.map_cons]
    unfold allSome
    rw [ih (fun b hb => h b (List.mem_cons_of_mem _ hb))]
    rfl

/-- the values of a request are what the wire can carry and the os calls can take: size < 2^63, ids and times < 2^32 -/
structure InRange (w : WireAttrs) : Prop where
  size : w.size < 2 ^ 63
  uid : w.uid < 2 ^ 32
  gid : w.gid < 2 ^ 32
  atime : w.atime < 2 ^ 32
  mtime : w.mtime < 2 ^ 32

/-- decidable shape fact of one argument: a known operand of `fs`, every conversion keeps the operand's range;
the time methods are passed on unconverted and are themselves the unsigned reading of their field -/
def argOk (acc mod : TimeDecode) (a : ConvFact) : Bool :=
  if a.src = "Size" then a.keeps 0 9223372036854775808
  else if a.src = "UID" then a.keeps 0 4294967296
  else if a.src = "GID" then a.keeps 0 4294967296
  else if a.src = "AccessTime()" then a.ok && a.chain.isEmpty && acc.unsignedOf "Atime"
  else if a.src = "ModTime()" then a.ok && a.chain.isEmpty && mod.unsignedOf "Mtime"
  else if a.src = "FileMode()" then a.ok && a.chain.isEmpty
  else false

/-- what the argument must be: the request's own value of that attribute -/
def specVal (w : WireAttrs) (src : String) : ArgVal :=
  if src = "Size" then .int w.size
  else if src = "UID" then .int w.uid
  else if src = "GID" then .int w.gid
  else if src = "AccessTime()" then .time (wireTimeToUnix w.atime) 0
  else if src = "ModTime()" then .time (wireTimeToUnix w.mtime) 0
  else .mode

theorem argValue_spec (acc mod : TimeDecode) (w : WireAttrs) (hw : InRange w) (a : ConvFact)
    (h : argOk acc mod a = true) : argValue acc mod w a = some (specVal w a.src) := by
  unfold argOk at h
  unfold argValue specVal
  have hs := hw.size; have hu := hw.uid; have hg := hw.gid; have ha := hw.atime; have hm := hw.mtime
  split at h
  · rename_i e
    rw [if_pos e, if_pos e, ConvFact.eval_id a 0 9223372036854775808 h w.size (by omega) (by omega)]; rfl
  · rename_i e1
    split at h
    · rename_i e
      rw [if_neg e1, if_neg e1, if_pos e, if_pos e, ConvFact.eval_id a 0 4294967296 h w.uid (by omega) (by omega)]; rfl
    · rename_i e2
      split at h
      · rename_i e
        rw [if_neg e1, if_neg e1, if_neg e2, if_neg e2, if_pos e, if_pos e,
          ConvFact.eval_id a 0 4294967296 h w.gid (by omega) (by omega)]; rfl
      · rename_i e3
        split at h
        · rename_i e
          rw [Bool.and_eq_true] at h
          rw [if_neg e1, if_neg e1, if_neg e2, if_neg e2, if_neg e3, if_neg e3, if_pos e, if_pos e, if_pos h.1,
            TimeDecode.decode_of_unsigned acc "Atime" h.2 w.atime ha]; rfl
        · rename_i e4
          split at h
          · rename_i e
            rw [Bool.and_eq_true] at h
            rw [if_neg e1, if_neg e1, if_neg e2, if_neg e2, if_neg e3, if_neg e3, if_neg e4, if_neg e4, if_pos e, if_pos e,
              if_pos h.1, TimeDecode.decode_of_unsigned mod "Mtime" h.2 w.mtime hm]; rfl
          · rename_i e5
            split at h
            · rename_i e
              rw [if_neg e1, if_neg e1, if_neg e2, if_neg e2, if_neg e3, if_neg e3, if_neg e4, if_neg e4, if_neg e5,
                if_neg e5, if_pos e, if_pos h]
            · cases h

/-- every argument of every step has the decidable shape -/
def stepsArgsOk (steps : List (Nat × String × List ConvFact)) (acc mod : TimeDecode) : Bool :=
  steps.all (fun s => s.2.2.all (argOk acc mod))

theorem appliedCalls_spec (steps : List (Nat × String × List ConvFact)) (acc mod : TimeDecode)
    (h : stepsArgsOk steps acc mod = true) (flags : Nat) (w : WireAttrs) (hw : InRange w) :
    appliedCalls steps acc mod flags w =
      (steps.filter (fun s => flags &&& s.1 != 0)).map (fun s => (s.2.1, some (s.2.2.map (fun a => specVal w a.src)))) := by
  unfold appliedCalls
  apply List.map_congr_left
  intro s hs
  have hs' : s ∈ steps := (List.mem_filter.mp hs).1
  unfold stepsArgsOk at h
  rw [List.all_eq_true] at h
  have h1 := h s hs'
  rw [List.all_eq_true] at h1
  rw [allSome_map s.2.2 (argValue acc mod w) (fun a => specVal w a.src)
    (fun a ha => argValue_spec acc mod w hw a (h1 a ha))]

/-! ### the client's setters -/

/-- the fields a setter hands to setstat / fsetstat, evaluated for the values of its parameters -/
def fieldsEval (fields : List (String × ConvFact)) (vals : String → Int) : Option (List (String × Int)) :=
  allSome (fields.map (fun kf => (kf.2.eval (vals kf.2.src)).map (fun v => (kf.1, v))))

/-- every field keeps [0, hi) -/
def fieldsKeep (fields : List (String × ConvFact)) (hi : Int) : Bool := fields.all (fun kf => kf.2.keeps 0 hi)

theorem fieldsEval_spec (fields : List (String × ConvFact)) (hi : Int) (h : fieldsKeep fields hi = true)
    (vals : String → Int) (hv : ∀ kf ∈ fields, 0 ≤ vals kf.2.src ∧ vals kf.2.src < hi) :
    fieldsEval fields vals = some (fields.map (fun kf => (kf.1, vals kf.2.src))) := by
  unfold fieldsEval
  apply allSome_map
  intro kf hkf
  unfold fieldsKeep at h
  rw [List.all_eq_true] at h
  rw [ConvFact.eval_id kf.2 0 hi (h kf hkf) _ (hv kf hkf).1 (hv kf hkf).2]
  rfl

end Sftp
