import Sftp.Model.Transfer
import Sftp.Proofs.Dispatch
/-
  Link between M-Dispatch runs (chunk indices) and the schedule parameters of M-Transfer
  (`Admissible ev P D`, arrival orders `arrD`, `arrE`, wire list `sent`).
-/
namespace Sftp.Dispatch
open Sftp Sftp.Transfer

variable {α : Type}

/-- The run environment of a plan `P` whose chunk `c` produces the error event `ev c`. -/
def envOf (ev : α → Option Ev) (P : List α) (workers : Nat) : Env :=
  { workers := workers, planLen := P.length, fails := fun i => ((P[i]?).bind ev).isSome }

/-- chunks named by a list of indices -/
def pick (P : List α) (l : List Nat) : List α := l.filterMap (fun i => P[i]?)

/-- the dispatched set `D` of a state: what went through workCh, in hand-out order -/
def dispatched (P : List α) (s : State) : List α := pick P s.handed
/-- `arrD`: order in which the workers received their replies -/
def arrivedD (P : List α) (s : State) : List α := pick P s.completed
/-- `arrE`: error events in the order the reducer received them -/
def arrivedE (ev : α → Option Ev) (P : List α) (s : State) : List Ev := (pick P s.observed).filterMap ev
/-- requests put on the wire, in wire order -/
def sentOf (P : List α) (s : State) : List α := pick P s.sent

theorem pick_range (P : List α) : ∀ k, pick P (List.range k) = P.take k
  | 0 => by simp [pick]
  | k + 1 => by
    have ih := pick_range P k
    unfold pick at ih ⊢
    rw [List.range_succ, List.filterMap_append, ih, List.take_add_one]
    congr 1

theorem filterMap_filter_isSome {β γ} (g : β → Option γ) : ∀ l : List β,
    (l.filter (fun x => (g x).isSome)).filterMap g = l.filterMap g
  | [] => rfl
  | x :: l => by
    have ih := filterMap_filter_isSome g l
    cases hx : g x with
    | none => simp [hx, ih]
    | some y => simp [hx, ih]

theorem take_filterMap_eq (ev : α → Option Ev) (P : List α) (k : Nat) :
    (P.take k).filterMap ev = (List.range k).filterMap (fun i => (P[i]?).bind ev) := by
  rw [← pick_range, pick, List.filterMap_filterMap]

variable {c : DispatchCfg} {ev : α → Option Ev} {P : List α} {w : Nat} {s : State}

theorem dispatched_eq_take (h : Inv c (envOf ev P w) s) : dispatched P s = P.take s.next := by
  rw [dispatched, h.handed_eq, pick_range]

/-- The dispatched set of a finished run of an errCh-fold path is admissible in the sense of
Model/Transfer.lean, its replies arrived in some order, and the reducer received exactly its events. -/
theorem finished_admissible (h : Inv c (envOf ev P w) s) (hch : c.chain = false) (hb : c.bounded = true)
    (hf : s.finished = true) :
    Admissible ev P (dispatched P s) ∧ (dispatched P s).Perm (arrivedD P s) ∧
    ((dispatched P s).filterMap ev).Perm (arrivedE ev P s) := by
  have hD := dispatched_eq_take h
  refine ⟨?_, ?_, ?_⟩
  · rw [hD]
    refine ⟨P.drop s.next, (List.take_append_drop _ _).symm, ?_⟩
    rcases h.whole_or_failed hch hb hf with h1 | ⟨i, hi, hfi⟩
    · left
      have : s.next = P.length := h1
      rw [this, List.drop_length]
    · right
      have hle : s.next ≤ P.length := h.next_le hb
      have hiP : i < P.length := by omega
      have hfi' : (((P[i]?).bind ev).isSome) = true := hfi
      rw [List.getElem?_eq_getElem hiP] at hfi'
      refine ⟨P[i], ?_, hfi'⟩
      rw [List.mem_take_iff_getElem]
      exact ⟨i, by omega, rfl⟩
  · rw [hD, arrivedD, ← pick_range]
    exact ((h.completed_perm hf).symm).filterMap _
  · rw [hD, arrivedE, pick, List.filterMap_filterMap, take_filterMap_eq]
    have hp := (h.observed_perm hch hf).symm
    have h2 := hp.filterMap (fun i => (P[i]?).bind ev)
    have h3 := filterMap_filter_isSome (fun i => (P[i]?).bind ev) (List.range s.next)
    have h4 : (List.filter (envOf ev P w).fails (List.range s.next)) =
        List.filter (fun x => ((P[x]?).bind ev).isSome) (List.range s.next) := rfl
    rw [h4, h3] at h2
    exact h2

/-- what is on the wire is the dispatched set plus at most the one chunk the producer held when it
saw `cancel` -/
theorem sent_eq_take (h : Inv c (envOf ev P w) s) :
    sentOf P s = P.take s.next ∨ sentOf P s = P.take (s.next + 1) := by
  have := h.sent_eq
  unfold sentOf
  split at this
  · right; rw [this, pick_range]
  · left; rw [this, pick_range]; rfl

/-- no failing chunk in the plan: a finished run put exactly the plan on the wire and saw no event -/
theorem finished_sent_all (h : Inv c (envOf ev P w) s) (hch : c.chain = false) (hb : c.bounded = true)
    (hf : s.finished = true) (hok : ∀ x ∈ P, ev x = none) :
    sentOf P s = P ∧ dispatched P s = P ∧ arrivedE ev P s = [] := by
  have hok' : ∀ i, i < (envOf ev P w).planLen → (envOf ev P w).fails i = false := by
    intro i hi
    have hi' : i < P.length := hi
    show (((P[i]?).bind ev).isSome) = false
    rw [List.getElem?_eq_getElem hi']
    simp [hok _ (List.getElem_mem hi')]
  obtain ⟨h1, h2, h3⟩ := h.sent_all hch hb hf hok'
  have hlen : (envOf ev P w).planLen = P.length := rfl
  refine ⟨?_, ?_, ?_⟩
  · rw [sentOf, h1, pick_range, hlen, List.take_length]
  · rw [dispatched_eq_take h, h2, hlen, List.take_length]
  · rw [arrivedE, h3]; rfl

end Sftp.Dispatch
