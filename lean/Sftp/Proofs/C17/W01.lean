import Sftp.Model.ModeCheck
namespace Sftp.C17
set_option maxRecDepth 1000000 in
theorem wire_chunk_01 : allRange wireCheck 4096 4096 = true := by decide +kernel
end Sftp.C17
