import Sftp.Model.ModeCheck
namespace Sftp.C17
set_option maxRecDepth 1000000 in
theorem os_chunk_00 : allRange osCheck 0 4096 = true := by decide +kernel
end Sftp.C17
