import Sftp.Proofs.C17.W00
import Sftp.Proofs.C17.W01
import Sftp.Proofs.C17.W02
import Sftp.Proofs.C17.W03
import Sftp.Proofs.C17.W04
import Sftp.Proofs.C17.W05
import Sftp.Proofs.C17.W06
import Sftp.Proofs.C17.W07
import Sftp.Proofs.C17.W08
import Sftp.Proofs.C17.W09
import Sftp.Proofs.C17.W10
import Sftp.Proofs.C17.W11
import Sftp.Proofs.C17.W12
import Sftp.Proofs.C17.W13
import Sftp.Proofs.C17.W14
import Sftp.Proofs.C17.W15
import Sftp.Proofs.C17.O00
import Sftp.Proofs.C17.O01
import Sftp.Proofs.C17.O02
import Sftp.Proofs.C17.O03
import Sftp.Proofs.C17.O04
import Sftp.Proofs.C17.O05
import Sftp.Proofs.C17.O06
/-
  Lifting the 16 + 7 completely evaluated chunks to ∀-statements.
-/
namespace Sftp.C17
open Sftp

theorem wire_all (m : Nat) (hm : m < 65536) : wireCheck m = true := by
  have h : ∀ k, k < 16 → ∀ m, k * 4096 ≤ m → m < k * 4096 + 4096 → wireCheck m = true := by
    intro k hk
    match k, hk with
    | 0, _ => exact allRange_spec _ _ _ wire_chunk_00
    | 1, _ => exact allRange_spec _ _ _ wire_chunk_01
    | 2, _ => exact allRange_spec _ _ _ wire_chunk_02
    | 3, _ => exact allRange_spec _ _ _ wire_chunk_03
    | 4, _ => exact allRange_spec _ _ _ wire_chunk_04
    | 5, _ => exact allRange_spec _ _ _ wire_chunk_05
    | 6, _ => exact allRange_spec _ _ _ wire_chunk_06
    | 7, _ => exact allRange_spec _ _ _ wire_chunk_07
    | 8, _ => exact allRange_spec _ _ _ wire_chunk_08
    | 9, _ => exact allRange_spec _ _ _ wire_chunk_09
    | 10, _ => exact allRange_spec _ _ _ wire_chunk_10
    | 11, _ => exact allRange_spec _ _ _ wire_chunk_11
    | 12, _ => exact allRange_spec _ _ _ wire_chunk_12
    | 13, _ => exact allRange_spec _ _ _ wire_chunk_13
    | 14, _ => exact allRange_spec _ _ _ wire_chunk_14
    | 15, _ => exact allRange_spec _ _ _ wire_chunk_15
    | k + 16, hk => omega
  exact h (m / 4096) (by omega) m (by omega) (by omega)

theorem os_all (i : Nat) (hi : i < 28672) : osCheck i = true := by
  have h : ∀ k, k < 7 → ∀ m, k * 4096 ≤ m → m < k * 4096 + 4096 → osCheck m = true := by
    intro k hk
    match k, hk with
    | 0, _ => exact allRange_spec _ _ _ os_chunk_00
    | 1, _ => exact allRange_spec _ _ _ os_chunk_01
    | 2, _ => exact allRange_spec _ _ _ os_chunk_02
    | 3, _ => exact allRange_spec _ _ _ os_chunk_03
    | 4, _ => exact allRange_spec _ _ _ os_chunk_04
    | 5, _ => exact allRange_spec _ _ _ os_chunk_05
    | 6, _ => exact allRange_spec _ _ _ os_chunk_06
    | k + 7, hk => omega
  exact h (i / 4096) (by omega) i (by omega) (by omega)

end Sftp.C17
