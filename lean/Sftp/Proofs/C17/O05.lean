import Sftp.Model.ModeCheck
namespace Sftp.C17
set_option maxRecDepth 1000000 in
theorem os_chunk_05 : allRange osCheck 20480 4096 = true := by decide +kernel
end Sftp.C17
