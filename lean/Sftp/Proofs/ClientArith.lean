import Sftp.Model.ClientArith
/-
  Lemmas for Props/C20Workers, C08RecvErrPath, C12ReadChunk: wrap-around arithmetic of the worker-count shapes, the static index check of
  recvPacket's error path, the invariant of readChunkAt's refill loop.
-/
namespace Sftp.Arith

/-! ## A. worker counts -/

theorem wrap_id (t : IntTy) (v : Int) (h0 : 0 ≤ v) (h1 : v < 9223372036854775808) : wrap t v = v := by
  unfold wrap
  cases t <;> simp [IntTy.signed] <;> omega

theorem wrap_u64_id (v : Int) (h0 : 0 ≤ v) (h1 : v < 18446744073709551616) : wrap .u64 v = v := by
  unfold wrap
  simp [IntTy.signed]; omega

/-- a value in [-2^63, 0] converted to any of the three types is ≤ 0 or ≥ 2^63 -/
theorem wrap_nonpos (t : IntTy) (q : Int) (h0 : -9223372036854775808 ≤ q) (h1 : q ≤ 0) :
    wrap t q ≤ 0 ∨ 9223372036854775808 ≤ wrap t q := by
  unfold wrap
  cases t <;> simp [IntTy.signed] <;> omega

theorem hi_holds (g : Guard) (h : isHi g = true) (q m : Int) (hq : m < q) : g.holds q m = true := by
  unfold isHi at h
  rcases Bool.or_eq_true _ _ |>.mp h with h | h <;> (have := eq_of_beq h; subst this; simp [Guard.holds]; omega)

theorem lo_holds (g : Guard) (h : isLo g = true) (q m : Int) (hq : q < 1) : g.holds q m = true := by
  unfold isLo at h
  rcases Bool.or_eq_true _ _ |>.mp h with h | h <;> (have := eq_of_beq h; subst this; simp [Guard.holds]; omega)

/-- the clamp `if guards { c = max }` -/
def clamp (s : WorkerSite) (q m : Int) : Int := if s.guards.any (fun g => g.holds q m) then m else q

theorem workers_eq (s : WorkerSite) (size mp max : Int) :
    workers s size mp max = wrap s.resultTy (clamp s
      (if s.divides then wrap s.divTy (Int.tdiv (applyConvs s.convs size) (wrap s.divTy mp) + 1) else applyConvs s.convs size)
      (wrap s.divTy max)) := rfl

theorem clamp_range (s : WorkerSite) (hHi : s.hasHi = true) (hLo : s.hasLo = true) (q m : Int) (hm : 1 ≤ m) :
    1 ≤ clamp s q m ∧ clamp s q m ≤ m := by
  unfold clamp
  split
  · omega
  · rename_i hn
    obtain ⟨g1, hg1, h1⟩ := List.any_eq_true.mp hHi
    obtain ⟨g2, hg2, h2⟩ := List.any_eq_true.mp hLo
    have hq1 : ¬ m < q := fun hlt => hn (List.any_eq_true.mpr ⟨g1, hg1, hi_holds g1 h1 q m hlt⟩)
    have hq2 : ¬ q < 1 := fun hlt => hn (List.any_eq_true.mpr ⟨g2, hg2, lo_holds g2 h2 q m hlt⟩)
    omega

theorem any_plain (gs : List Guard)
    (h : gs.all (fun g => g == ⟨.gt, .max⟩ || g == ⟨.lt, .lit 1⟩) = true) (q m : Int) :
    gs.any (fun g => g.holds q m) = ((gs.any isHi && decide (m < q)) || (gs.any isLo && decide (q < 1))) := by
  induction gs with
  | nil => simp
  | cons g gs ih =>
    simp only [List.all_cons, Bool.and_eq_true] at h
    rw [List.any_cons, List.any_cons, List.any_cons, ih h.2]
    rcases Bool.or_eq_true _ _ |>.mp h.1 with hg | hg <;> (have := eq_of_beq hg; subst this)
    · have e1 : Guard.holds ⟨.gt, .max⟩ q m = decide (m < q) := by simp [Guard.holds]
      have e2 : isHi ⟨.gt, .max⟩ = true := by decide
      have e3 : isLo ⟨.gt, .max⟩ = false := by decide
      rw [e1, e2, e3]
      cases decide (m < q) <;> cases decide (q < 1) <;> simp
    · have e1 : Guard.holds ⟨.lt, .lit 1⟩ q m = decide (q < 1) := by simp [Guard.holds]
      have e2 : isHi ⟨.lt, .lit 1⟩ = false := by decide
      have e3 : isLo ⟨.lt, .lit 1⟩ = true := by decide
      rw [e1, e2, e3]
      cases decide (m < q) <;> cases decide (q < 1) <;> simp

theorem clamp_plain (s : WorkerSite) (h : s.plainGuards = true) (q m : Int) :
    clamp s q m = if (s.hasHi = true ∧ m < q) ∨ (s.hasLo = true ∧ q < 1) then m else q := by
  unfold clamp
  rw [any_plain s.guards h q m]
  simp only [WorkerSite.hasHi, WorkerSite.hasLo, Bool.or_eq_true, Bool.and_eq_true, decide_eq_true_eq]
  congr

theorem applyConvs_id (cs : List IntTy) (sg : Bool) (h : cs.all (fun t => t.signed == sg) = true) (v : Int)
    (h0 : 0 ≤ v) (h1 : v < (if sg then 9223372036854775808 else 18446744073709551616)) : applyConvs cs v = v := by
  unfold applyConvs
  induction cs with
  | nil => rfl
  | cons t cs ih =>
    simp only [List.all_cons, Bool.and_eq_true] at h
    rw [List.foldl_cons]
    have : wrap t v = v := by
      cases sg
      · cases t <;> simp [IntTy.signed] at h
        exact wrap_u64_id v h0 (by simpa using h1)
      · exact wrap_id t v h0 (by simpa using h1)
    rw [this]
    exact ih h.2

/-- The wrapped quotient `q` of a sign-safe shape: either it is the true value `size/mp + 1`, or the true value
reached the modulus (only possible with `mp = 1`) and `q` wrapped to a value in [-2^63, 0]. -/
theorem quot_spec (s : WorkerSite) (hs : s.signSafe = true) (size mp : Int) (hr : SrcRange s size)
    (hmp1 : 1 ≤ mp) (hmp2 : mp < 9223372036854775808) :
    1 ≤ size / mp + 1 ∧
    ((wrap s.divTy (Int.tdiv (applyConvs s.convs size) (wrap s.divTy mp) + 1) = size / mp + 1) ∨
     (9223372036854775808 ≤ size / mp + 1 ∧
      -9223372036854775808 ≤ wrap s.divTy (Int.tdiv (applyConvs s.convs size) (wrap s.divTy mp) + 1) ∧
      wrap s.divTy (Int.tdiv (applyConvs s.convs size) (wrap s.divTy mp) + 1) ≤ 0 ∧ mp = 1)) := by
  unfold WorkerSite.signSafe at hs
  simp only [Bool.and_eq_true] at hs
  obtain ⟨hc, hd⟩ := hs
  have hconv : applyConvs s.convs size = size := applyConvs_id s.convs s.srcTy.signed hc size hr.1 hr.2
  have hmp : wrap s.divTy mp = mp := wrap_id _ _ (by omega) hmp2
  have hdiv : Int.tdiv size mp = size / mp := Int.tdiv_eq_ediv_of_nonneg hr.1
  rw [hconv, hmp, hdiv]
  have hd0 : 0 ≤ size / mp := Int.ediv_nonneg hr.1 (by omega)
  have hd1 : size / mp ≤ size := Int.ediv_le_self mp hr.1
  have hd2 : mp * (size / mp) ≤ size := Int.mul_ediv_self_le (by omega)
  have hd3 : 2 ≤ mp → 2 * (size / mp) ≤ size := by
    intro h2
    have : 2 * (size / mp) ≤ mp * (size / mp) := Int.mul_le_mul_of_nonneg_right h2 hd0
    omega
  have hrange := hr.2
  refine ⟨by omega, ?_⟩
  generalize size / mp = d at *
  have hsg := eq_of_beq hd
  by_cases hm : mp = 1
  · subst hm
    unfold wrap
    cases hst : s.srcTy <;> cases hdt : s.divTy <;> simp [hst, hdt, IntTy.signed] at hsg hrange ⊢ <;> omega
  · have h2 : 2 ≤ mp := by omega
    have := hd3 h2
    left
    unfold wrap
    cases hst : s.srcTy <;> cases hdt : s.divTy <;> simp [hst, hdt, IntTy.signed] at hsg hrange ⊢ <;> omega

/-- a parameter site with both plain guards: the clamp, on any argument -/
theorem param_clamp (t : WorkerSite) (htd : t.divides = false) (htc : t.convs = []) (htp : t.plainGuards = true)
    (htHi : t.hasHi = true) (htLo : t.hasLo = true) (v mp max : Int) (h1 : 1 ≤ max) (h2 : max < 9223372036854775808) :
    workers t v mp max = if max < v ∨ v < 1 then max else v := by
  rw [workers_eq t, htd, htc, wrap_id t.divTy max (by omega) h2]
  simp only [Bool.false_eq_true, if_false, applyConvs, List.foldl_nil]
  rw [clamp_plain t htp]
  simp only [htHi, htLo, true_and]
  split
  · exact wrap_id _ _ (by omega) h2
  · exact wrap_id _ _ (by omega) (by omega)

/-- the value a dividing, sign-safe shape with (at least) the upper guard hands on: the exact count, or — only when
the true quotient reached 2^63 — something that is ≤ 0 or ≥ 2^63 -/
theorem hi_only_value (s : WorkerSite) (hs : s.signSafe = true) (hp : s.plainGuards = true)
    (hHi : s.hasHi = true) (hd : s.divides = true)
    (size mp max : Int) (hr : SrcRange s size) (hmp1 : 1 ≤ mp) (hmp2 : mp < 9223372036854775808)
    (h1 : 1 ≤ max) (h2 : max < 9223372036854775808) :
    workers s size mp max = min (size / mp + 1) max ∨
    (9223372036854775808 ≤ size / mp + 1 ∧
      (workers s size mp max = max ∨ workers s size mp max ≤ 0 ∨ 9223372036854775808 ≤ workers s size mp max)) := by
  rw [workers_eq s, wrap_id s.divTy max (by omega) h2, hd, if_pos rfl]
  obtain ⟨ht, hq⟩ := quot_spec s hs size mp hr hmp1 hmp2
  generalize wrap s.divTy (Int.tdiv (applyConvs s.convs size) (wrap s.divTy mp) + 1) = q at hq
  generalize size / mp + 1 = tv at ht hq
  rw [clamp_plain s hp]
  simp only [hHi, true_and]
  rcases hq with hq | ⟨hbig, hq0, hq1, _⟩
  · left
    subst hq
    split
    · rename_i h
      rw [wrap_id _ _ (by omega) h2]
      rcases h with h | h <;> omega
    · rename_i h
      rw [wrap_id _ _ (by omega) (by omega)]
      omega
  · right
    refine ⟨hbig, ?_⟩
    split
    · left; exact wrap_id _ _ (by omega) h2
    · right; exact wrap_nonpos s.resultTy q hq0 hq1

/-! ## B. recvPacket's error path -/

theorem idxOK_of_bound (lo n : Nat) (idx : List Nat) (h : idx.all (fun k => decide (k < lo)) = true) (hn : lo ≤ n) :
    idxOK n idx = true := by
  unfold idxOK
  rw [List.all_eq_true] at h ⊢
  intro k hk
  have := h k hk
  simp only [decide_eq_true_eq] at this ⊢
  omega

theorem guarded_returns (l : List EStmt) : ∀ lo, guardedFrom lo l = true → endsInReturn l = true →
    ∀ n, lo ≤ n → execErr n l = .returned := by
  induction l with
  | nil => intro lo _ he; simp [endsInReturn] at he
  | cons st r ih =>
    intro lo hg he n hn
    cases st with
    | other idx =>
      simp only [guardedFrom, Bool.and_eq_true] at hg
      have he' : endsInReturn r = true := by
        cases r with
        | nil => simp [endsInReturn] at he
        | cons a l => simpa [endsInReturn] using he
      simp only [execErr, idxOK_of_bound lo n idx hg.1 hn, if_true]
      exact ih lo hg.2 he' n hn
    | retIfShort k idx =>
      simp only [guardedFrom, Bool.and_eq_true] at hg
      have he' : endsInReturn r = true := by
        cases r with
        | nil => simp [endsInReturn] at he
        | cons a l => simpa [endsInReturn] using he
      have hidx : idx = [] := by simpa using hg.1
      subst hidx
      simp only [execErr]
      by_cases hk : n < k
      · simp [hk, idxOK]
      · simp only [hk, if_false]
        exact ih (Nat.max lo k) hg.2 he' n (by simp only [Nat.max_def]; split <;> omega)
    | ret idx =>
      simp only [guardedFrom] at hg
      simp [execErr, idxOK_of_bound lo n idx hg hn]

/-! ## C. the refill loop -/

/-- one iteration of the exact loop, spelled out -/
theorem refill_exact_cons (len off n : Nat) (buf : List (Option Nat)) (k : Nat) (ks : List Nat) (h : n < len) :
    refill .exact len off n buf (k :: ks) =
      refill .exact len off (n + min k (len - n))
        (buf.take n ++ (List.range' (off + n) (min k (len - n))).map some
          ++ buf.drop (n + min k (len - n))) ks := by
  rw [refill]
  have hc : min (len - n) (min k (len - n)) = min k (len - n) := by omega
  simp [RefillCfg.exact, h, hc]

theorem refill_done (cfg : RefillCfg) (len off n : Nat) (buf : List (Option Nat)) (ks : List Nat) (h : ¬ n < len) :
    refill cfg len off n buf ks = (n, buf) := by
  cases ks with
  | nil => rfl
  | cons k ks => rw [refill]; simp [h]

/-- invariant of the exact loop: `b[:n]` holds the file positions `off … off+n-1`, the rest is untouched -/
theorem refill_exact_inv (len off : Nat) (ks : List Nat) : ∀ (n : Nat) (buf : List (Option Nat)),
    n ≤ len → buf.length = len → buf.take n = (List.range' off n).map some →
    buf.drop n = List.replicate (len - n) none →
    (refill .exact len off n buf ks).1 = min len (n + ks.sum) ∧
    (refill .exact len off n buf ks).2.length = len ∧
    (refill .exact len off n buf ks).2.take (refill .exact len off n buf ks).1
      = (List.range' off (refill .exact len off n buf ks).1).map some ∧
    (refill .exact len off n buf ks).2.drop (refill .exact len off n buf ks).1
      = List.replicate (len - (refill .exact len off n buf ks).1) none := by
  induction ks with
  | nil =>
    intro n buf hn hl ht hd
    simp only [refill, List.sum_nil, Nat.add_zero]
    exact ⟨by omega, hl, ht, hd⟩
  | cons k ks ih =>
    intro n buf hn hl ht hd
    by_cases h : n < len
    · rw [refill_exact_cons len off n buf k ks h]
      generalize hcd : min k (len - n) = c
      have hcl : n + c ≤ len := by omega
      have hlenAB : ((List.range' off n).map some ++ (List.range' (off + n) c).map some).length = n + c := by simp
      have hAB : (List.range' off n).map some ++ (List.range' (off + n) c).map some = (List.range' off (n + c)).map some := by
        rw [← List.map_append, List.range'_append_1]
      have hdrop : buf.drop (n + c) = List.replicate (len - (n + c)) none := by
        rw [← List.drop_drop, hd, List.drop_replicate]
        congr 1; omega
      have := ih (n + c) (buf.take n ++ (List.range' (off + n) c).map some ++ buf.drop (n + c)) hcl
        (by simp [List.length_take, List.length_drop, hl]; omega)
        (by rw [ht, List.take_left' hlenAB, hAB])
        (by rw [ht, List.drop_left' hlenAB, hdrop])
      rw [List.sum_cons]
      obtain ⟨h1, h2, h3, h4⟩ := this
      refine ⟨?_, h2, h3, h4⟩
      rw [h1]; omega
    · rw [refill_done _ _ _ _ _ _ h]
      exact ⟨by simp only [List.sum_cons]; omega, hl, ht, hd⟩

/-- every request of the exact loop asks for exactly the missing remainder `[off+n, off+len)` -/
theorem refillReqs_exact_inv (len off : Nat) (ks : List Nat) : ∀ n, n ≤ len →
    ∀ r ∈ refillReqs .exact len off n ks, r.1 + r.2 = off + len ∧ 1 ≤ r.2 ∧ off + n ≤ r.1 := by
  induction ks with
  | nil =>
    intro n hn r hr
    simp only [refillReqs, RefillCfg.exact, if_true] at hr
    split at hr
    · simp only [List.mem_singleton] at hr
      subst hr
      exact ⟨by simp only; omega, by simp only; omega, by simp only; omega⟩
    · simp at hr
  | cons k ks ih =>
    intro n hn r hr
    rw [refillReqs] at hr
    split at hr
    · simp only [RefillCfg.exact, if_true, List.mem_cons] at hr
      rcases hr with hr | hr
      · subst hr
        exact ⟨by simp only; omega, by simp only; omega, by simp only; omega⟩
      · have := ih (n + min (len - n) (min k (len - n))) (by omega) r hr
        omega
    · simp at hr

end Sftp.Arith
