import Sftp.Proofs.ClientConn.StepInv
namespace Sftp.ClientConn
open Sftp

/-- caller `c` has result `r` in its channel, or has already returned it -/
def Kept (c sid : Nat) (r : Res) (s : State) : Prop :=
  (∃ b, s.pc c = .waiting sid b ∧ (s.chan c).slot = some r) ∨ s.pc c = .done sid r

theorem kept_step {cfg : Cfg} {n : Nat} {s s' : State} {a : Action} {c sid : Nat} {r : Res}
    (hi : Inv n s) (h : Kept c sid r s) (hst : Step cfg n s a s') : Kept c sid r s' := by
  have hfull : ∀ ch, (s.chan ch).slot = none → (∃ b, s.pc c = .waiting sid b ∧ (s.chan c).slot = some r) → ch ≠ c := by
    intro ch h1 ⟨b, _, h2⟩ e; subst e; rw [h1] at h2; cases h2
  unfold Kept at h ⊢
  cases hst with
  | loadId c0 hc hcfg hpc => simp only [State.setPc]; grind
  | nextIdA c0 hc hcfg hpc => simp only [State.setPc]; grind
  | nextIdL c0 v hc hcfg hpc => simp only [State.setPc]; grind
  | putRefused c0 sid0 hpc hcfg hcl hsl => simp only [State.setPc, putChan]; grind
  | putOk c0 sid0 hpc hcl => simp only [State.setPc]; grind
  | lock c0 sid0 hpc hl => simp only [State.setPc]; grind
  | writeHeader c0 sid0 hpc hw => simp only [State.setPc]; grind
  | writePayload c0 sid0 hpc hw => simp only [State.setPc]; grind
  | writeFail c0 sid0 hpc => simp only [State.setPc]; grind
  | failNotifyNone c0 sid0 hpc hl => simp only [State.setPc]; grind
  | failNotifySome c0 sid0 ch hpc hl hsl =>
    have := hfull ch hsl
    simp only [State.setPc, putChan]; grind
  | recvResult c0 sid0 b r0 hpc hsl => simp only [State.setPc]; grind
  | replyNone sid0 p hr hl => exact h
  | replySome sid0 p ch hr hl hsl =>
    have := hfull ch hsl
    simp only [putChan]; grind
  | envFail hr => exact h
  | closeConn hr hcfg hl => exact h
  | noCloseConn hr hcfg => exact h
  | bcast chan' hr hd =>
    have hsp := deliverAll_spec hd c
    have : (∃ b, s.pc c = .waiting sid b ∧ (s.chan c).slot = some r) → c ∉ s.inflight.map (·.2) := by
      intro ⟨b, _, h2⟩ hm
      obtain ⟨⟨x, y⟩, hm', e⟩ := List.mem_map.mp hm
      simp only at e; subst e
      rw [hi.slot0 _ (hi.fresh0 x y hm')] at h2; cases h2
    simp only [hsp]
    grind

/-- lock holder is inside the critical section -/
def LRev (s : State) : Prop :=
  ∀ c, s.lock = some c → ∃ sid, s.pc c = .locked sid ∨ s.pc c = .wroteHeader sid

theorem lrev_step {cfg : Cfg} {n : Nat} {s s' : State} {a : Action}
    (h : LRev s) (hst : Step cfg n s a s') : LRev s' := by
  unfold LRev at h ⊢
  cases hst with
  | loadId c0 hc hcfg hpc => simp only [State.setPc]; grind
  | nextIdA c0 hc hcfg hpc => simp only [State.setPc]; grind
  | nextIdL c0 v hc hcfg hpc => simp only [State.setPc]; grind
  | putRefused c0 sid0 hpc hcfg hcl hsl => simp only [State.setPc]; grind
  | putOk c0 sid0 hpc hcl => simp only [State.setPc]; grind
  | lock c0 sid0 hpc hl =>
    intro k hk
    simp only [State.setPc, Option.some.injEq] at hk ⊢
    subst hk
    exact ⟨sid0, .inl (by simp)⟩
  | writeHeader c0 sid0 hpc hw => simp only [State.setPc]; grind
  | writePayload c0 sid0 hpc hw => simp only [State.setPc]; grind
  | writeFail c0 sid0 hpc => simp only [State.setPc]; grind
  | failNotifyNone c0 sid0 hpc hl => simp only [State.setPc]; grind
  | failNotifySome c0 sid0 ch hpc hl hsl => simp only [State.setPc]; grind
  | recvResult c0 sid0 b r0 hpc hsl => simp only [State.setPc]; grind
  | replyNone sid0 p hr hl => exact h
  | replySome sid0 p ch hr hl hsl => exact h
  | envFail hr => exact h
  | closeConn hr hcfg hl => exact h
  | noCloseConn hr hcfg => exact h
  | bcast chan' hr hd => exact h

end Sftp.ClientConn
