import Sftp.Model.ClientConn
/- List/channel helper lemmas for M-ClientConn. -/
namespace Sftp.ClientConn
open Sftp

theorem lookupSid_mem {l : List (Nat × Nat)} {sid ch : Nat} (h : lookupSid l sid = some ch) :
    (sid, ch) ∈ l := by
  induction l with
  | nil => simp [lookupSid] at h
  | cons e rest ih =>
    obtain ⟨k, v⟩ := e
    simp only [lookupSid] at h
    split at h
    · next hk => simp only [Option.some.injEq] at h; subst hk; subst h; exact List.mem_cons_self
    · exact List.mem_cons_of_mem _ (ih h)

theorem lookupSid_none {l : List (Nat × Nat)} {sid : Nat} (h : lookupSid l sid = none) :
    ∀ ch, (sid, ch) ∉ l := by
  induction l with
  | nil => simp
  | cons e rest ih =>
    obtain ⟨k, v⟩ := e
    simp only [lookupSid] at h
    split at h
    · cases h
    · next hk =>
      intro ch hm
      simp only [List.mem_cons, Prod.mk.injEq] at hm
      rcases hm with ⟨h1, _⟩ | hm
      · exact hk h1.symm
      · exact ih h ch hm

theorem lookupSid_of_mem {l : List (Nat × Nat)} {sid ch : Nat} (hn : (l.map (·.1)).Nodup)
    (h : (sid, ch) ∈ l) : lookupSid l sid = some ch := by
  induction l with
  | nil => simp at h
  | cons e rest ih =>
    obtain ⟨k, v⟩ := e
    simp only [List.map_cons, List.nodup_cons, List.mem_map, not_exists, not_and] at hn
    simp only [List.mem_cons, Prod.mk.injEq] at h
    simp only [lookupSid]
    rcases h with ⟨h1, h2⟩ | h
    · simp [h1, h2]
    · split
      · next hk => subst hk; exact absurd rfl (hn.1 _ h)
      · exact ih hn.2 h

theorem mem_eraseSid {l : List (Nat × Nat)} {sid k v : Nat} :
    (k, v) ∈ eraseSid l sid ↔ (k, v) ∈ l ∧ k ≠ sid := by
  simp [eraseSid]

theorem eraseSid_nodup_snd {l : List (Nat × Nat)} (sid : Nat) (h : (l.map (·.2)).Nodup) :
    ((eraseSid l sid).map (·.2)).Nodup :=
  h.sublist (List.Sublist.map _ List.filter_sublist)

theorem eraseSid_nodup_fst {l : List (Nat × Nat)} (sid : Nat) (h : (l.map (·.1)).Nodup) :
    ((eraseSid l sid).map (·.1)).Nodup :=
  h.sublist (List.Sublist.map _ List.filter_sublist)

theorem eraseSid_not_mem_fst (l : List (Nat × Nat)) (sid : Nat) :
    sid ∉ (eraseSid l sid).map (·.1) := by
  simp [eraseSid]

/-- with unique values: the other entries never carry the erased entry's channel -/
theorem snd_ne_of_nodup {l : List (Nat × Nat)} (h : (l.map (·.2)).Nodup) {k1 k2 v : Nat}
    (h1 : (k1, v) ∈ l) (h2 : (k2, v) ∈ l) : k1 = k2 := by
  induction l with
  | nil => simp at h1
  | cons e rest ih =>
    obtain ⟨k, w⟩ := e
    simp only [List.map_cons, List.nodup_cons, List.mem_map, not_exists, not_and] at h
    simp only [List.mem_cons, Prod.mk.injEq] at h1 h2
    rcases h1 with ⟨a, b⟩ | h1 <;> rcases h2 with ⟨c, d⟩ | h2
    · omega
    · exact absurd rfl (b ▸ h.1 _ h2)
    · exact absurd rfl (d ▸ h.1 _ h1)
    · exact ih h.2 h1 h2

/-! ### deliverAll -/

theorem deliverAll_slots {l : List Nat} {f f' : Nat → Chan} (h : deliverAll l f = some f') :
    l.Nodup ∧ ∀ k ∈ l, (f k).slot = none := by
  induction l generalizing f with
  | nil => simp
  | cons ch rest ih =>
    simp only [deliverAll] at h
    split at h
    · next hs =>
      have := ih h
      refine ⟨List.nodup_cons.mpr ⟨?_, this.1⟩, ?_⟩
      · intro hm
        have := this.2 ch hm
        simp [putChan] at this
      · intro k hk
        simp only [List.mem_cons] at hk
        rcases hk with rfl | hk
        · exact hs
        · have := this.2 k hk
          simp only [putChan] at this
          split at this
          · cases this
          · exact this
    · cases h

theorem deliverAll_spec {l : List Nat} {f f' : Nat → Chan} (h : deliverAll l f = some f') :
    ∀ k, f' k = if k ∈ l then ⟨some .lost, (f k).delivered + 1⟩ else f k := by
  induction l generalizing f with
  | nil => simp only [deliverAll, Option.some.injEq] at h; subst h; simp
  | cons ch rest ih =>
    have hsl := deliverAll_slots h
    simp only [deliverAll] at h
    split at h
    · intro k
      rw [ih h k]
      have hch : ch ∉ rest := (List.nodup_cons.mp hsl.1).1
      by_cases hk : k = ch
      · subst hk; simp [hch, putChan]
      · simp [hk, putChan]
    · cases h

theorem deliverAll_enabled {l : List Nat} {f : Nat → Chan} (hn : l.Nodup)
    (hs : ∀ k ∈ l, (f k).slot = none) : ∃ f', deliverAll l f = some f' := by
  induction l generalizing f with
  | nil => exact ⟨f, rfl⟩
  | cons ch rest ih =>
    simp only [deliverAll]
    rw [hs ch List.mem_cons_self]
    simp only
    apply ih (List.nodup_cons.mp hn).2
    intro k hk
    have : k ≠ ch := fun e => (List.nodup_cons.mp hn).1 (e ▸ hk)
    simp only [putChan, this, if_false]
    exact hs k (List.mem_cons_of_mem _ hk)

/-! ### replaceFrom -/

theorem replaceFrom_fst (k : Nat) (l : List (Nat × Nat)) :
    (replaceFrom k l).map (·.1) = l.map (·.1) := by
  induction l generalizing k with
  | nil => rfl
  | cons e rest ih => obtain ⟨a, b⟩ := e; simp [replaceFrom, ih]

theorem replaceFrom_snd (k : Nat) (l : List (Nat × Nat)) :
    (replaceFrom k l).map (·.2) = List.range' k l.length := by
  induction l generalizing k with
  | nil => rfl
  | cons e rest ih => obtain ⟨a, b⟩ := e; simp [replaceFrom, ih, List.range'_succ]

theorem replaceFrom_mem {k : Nat} {l : List (Nat × Nat)} {sid ch : Nat}
    (h : (sid, ch) ∈ replaceFrom k l) : k ≤ ch ∧ ch < k + l.length := by
  have : ch ∈ (replaceFrom k l).map (·.2) := List.mem_map.mpr ⟨_, h, rfl⟩
  rw [replaceFrom_snd] at this
  simp only [List.mem_range'_1] at this
  exact this

end Sftp.ClientConn
