import Sftp.Proofs.ClientConn.Ids
namespace Sftp.ClientConn
open Sftp

/-- Every registered call is either still in the map (connection open) or has been notified. -/
structure QInv (s : State) : Prop where
  closedIff : s.closed = true ↔ s.rpc = .stopped
  noLoaded : ∀ c v, s.pc c ≠ .loaded v
  reg : s.nextid < idMod → ∀ c sid, (s.pc c).active? = some sid →
    ((sid, c) ∈ s.inflight ∧ s.closed = false) ∨ ((s.chan c).delivered = 1 ∧ (s.chan c).slot ≠ none)
  unsent : s.nextid < idMod → ∀ c sid, s.pc c = .waiting sid false →
    (s.chan c).delivered = 1 ∧ (s.chan c).slot ≠ none
  doneD : ∀ c sid r, s.pc c = .done sid r → (s.chan c).delivered = 1

theorem QInv.init (n : Nat) : QInv (init n) := by
  constructor <;> simp [ClientConn.init, PC.active?]

theorem QInv.setPc {s : State} (h : QInv s) (c : Nat) (p : PC) (hl : ∀ v, p ≠ .loaded v)
    (hreg : s.nextid < idMod → ∀ sid, p.active? = some sid →
      ((sid, c) ∈ s.inflight ∧ s.closed = false) ∨ ((s.chan c).delivered = 1 ∧ (s.chan c).slot ≠ none))
    (hun : s.nextid < idMod → ∀ sid, p = .waiting sid false →
      (s.chan c).delivered = 1 ∧ (s.chan c).slot ≠ none)
    (hdone : ∀ sid r, p = .done sid r → (s.chan c).delivered = 1) : QInv (s.setPc c p) := by
  constructor
  · exact h.closedIff
  · intro k v
    simp only [State.setPc]
    split
    · exact hl v
    · exact h.noLoaded k v
  · intro hlt k sid hk
    simp only [State.setPc] at hk ⊢
    split at hk
    · next e => subst e; exact hreg hlt sid hk
    · exact h.reg hlt k sid hk
  · intro hlt k sid hk
    simp only [State.setPc] at hk ⊢
    split at hk
    · next e => subst e; exact hun hlt sid hk
    · exact h.unsent hlt k sid hk
  · intro k sid r hk
    simp only [State.setPc] at hk ⊢
    split at hk
    · next e => subst e; exact hdone sid r hk
    · exact h.doneD k sid r hk

/-- getChannel(sid) found `ch`, entry deleted, `ch <- r`: every other registered call is unaffected,
the owner of `ch` becomes notified. -/
theorem QInv.getSend {n : Nat} {s : State} (hi : Inv n s) (h : QInv s) {sid ch : Nat} (r : Res)
    (hl : lookupSid s.inflight sid = some ch) :
    QInv { s with inflight := eraseSid s.inflight sid, chan := putChan s.chan ch r } := by
  have hm := lookupSid_mem hl
  have hd0 := hi.fresh0 sid ch hm
  constructor
  · exact h.closedIff
  · exact h.noLoaded
  · intro hlt k sid' hk
    by_cases hkc : k = ch
    · subst hkc
      right
      simp [putChan, hd0]
    · simp only [putChan, hkc, if_false]
      rcases h.reg hlt k sid' hk with ⟨hin, hcl⟩ | hdl
      · left
        refine ⟨mem_eraseSid.mpr ⟨hin, ?_⟩, hcl⟩
        intro e
        subst e
        have := lookupSid_of_mem hi.knodup hin
        rw [hl] at this
        simp only [Option.some.injEq] at this
        exact hkc this.symm
      · exact .inr hdl
  · intro hlt k sid' hk
    by_cases hkc : k = ch
    · subst hkc; simp [putChan, hd0]
    · simp only [putChan, hkc, if_false]; exact h.unsent hlt k sid' hk
  · intro k sid' r' hk
    by_cases hkc : k = ch
    · subst hkc; simp [putChan, hd0]
    · simp only [putChan, hkc, if_false]; exact h.doneD k sid' r' hk

theorem qinv_step {cfg : Cfg} {n : Nat} {s s' : State} {a : Action}
    (hdel : cfg.getChannelDeletes = true) (hput : cfg.putChecksClosed = true)
    (hsf : cfg.sendFailNotifies = true) (hat : cfg.idAtomic = true)
    (hi : Inv n s) (hid : IdInv s) (h : QInv s) (hst : Step cfg n s a s') : QInv s' := by
  have actOf : ∀ c sid (p : PC), (s.pc c).active? = some sid → s.nextid < idMod →
      ∀ sid', p.active? = some sid' → sid' = sid →
      ((sid', c) ∈ s.inflight ∧ s.closed = false) ∨ ((s.chan c).delivered = 1 ∧ (s.chan c).slot ≠ none) := by
    intro c sid p hc hlt sid' _ e
    subst e
    exact h.reg hlt c sid' hc
  cases hst with
  | loadId c hc hcfg hpc => rw [hat] at hcfg; cases hcfg
  | nextIdL c v hc hcfg hpc => rw [hat] at hcfg; cases hcfg
  | nextIdA c hc hcfg hpc =>
    have hq : QInv { s with nextid := s.nextid + 1 } :=
      ⟨h.closedIff, h.noLoaded, fun hlt => h.reg (by simp only at hlt; omega),
       fun hlt => h.unsent (by simp only at hlt; omega), h.doneD⟩
    exact hq.setPc c _ (by simp) (by simp [PC.active?]) (by simp) (by simp)
  | putRefused c sid hpc hcfg hcl hsl =>
    have hc : c < n := pc_lt_of_ne_idle hi (by rw [hpc]; intro e; cases e)
    have he := hi.early c hc (by rw [hpc]; rfl)
    have hq : QInv { s with chan := putChan s.chan c .lost } := by
      constructor
      · exact h.closedIff
      · exact h.noLoaded
      · intro hlt k sid' hk
        have hkc : k ≠ c := by intro e; subst e; rw [hpc] at hk; cases hk
        simp only [putChan, hkc, if_false]
        exact h.reg hlt k sid' hk
      · intro hlt k sid' hk
        have hkc : k ≠ c := by intro e; subst e; rw [hpc] at hk; cases hk
        simp only [putChan, hkc, if_false]
        exact h.unsent hlt k sid' hk
      · intro k sid' r hk
        have hkc : k ≠ c := by intro e; subst e; rw [hpc] at hk; cases hk
        simp only [putChan, hkc, if_false]
        exact h.doneD k sid' r hk
    exact hq.setPc c _ (by simp) (fun _ _ _ => .inr (by simp [putChan, he.1]))
      (fun _ _ _ => by simp [putChan, he.1]) (by simp)
  | putOk c sid hpc hcl =>
    have hc : c < n := pc_lt_of_ne_idle hi (by rw [hpc]; intro e; cases e)
    have hclosed : s.closed = false := by
      cases hcc : s.closed with
      | false => rfl
      | true => exact absurd ⟨hput, hcc⟩ hcl
    have hq : QInv { s with inflight := (sid, c) :: eraseSid s.inflight sid } := by
      constructor
      · exact h.closedIff
      · exact h.noLoaded
      · intro hlt k sid' hk
        rcases h.reg hlt k sid' hk with ⟨hin, hcl'⟩ | hdl
        · left
          refine ⟨List.mem_cons_of_mem _ (mem_eraseSid.mpr ⟨hin, ?_⟩), hcl'⟩
          intro e
          subst e
          have hk' : (s.pc k).sid? = some sid' := by
            revert hk; cases s.pc k <;> simp [PC.active?, PC.sid?]
          have := hid.distinct hlt k c sid' hk' (by rw [hpc]; rfl)
          subst this
          rw [hpc] at hk; cases hk
        · exact .inr hdl
      · exact h.unsent
      · exact h.doneD
    exact hq.setPc c _ (by simp)
      (fun _ sid' hs => by
        simp only [PC.active?, Option.some.injEq] at hs; subst hs
        exact .inl ⟨List.mem_cons_self, hclosed⟩)
      (by simp) (by simp)
  | lock c sid hpc hl =>
    exact QInv.setPc (s := { s with lock := some c }) ⟨h.closedIff, h.noLoaded, h.reg, h.unsent, h.doneD⟩ c _
      (by simp) (fun hlt sid' hs => actOf c sid (.locked sid) (by rw [hpc]; rfl) hlt sid' hs
        (by simpa [PC.active?] using hs.symm)) (by simp) (by simp)
  | writeHeader c sid hpc hw =>
    exact QInv.setPc (s := { s with wire := s.wire ++ [Chunk.hdr c sid] })
      ⟨h.closedIff, h.noLoaded, h.reg, h.unsent, h.doneD⟩ c _
      (by simp) (fun hlt sid' hs => actOf c sid (.wroteHeader sid) (by rw [hpc]; rfl) hlt sid' hs
        (by simpa [PC.active?] using hs.symm)) (by simp) (by simp)
  | writePayload c sid hpc hw =>
    exact QInv.setPc (s := { s with wire := s.wire ++ [Chunk.pay c sid], lock := none })
      ⟨h.closedIff, h.noLoaded, h.reg, h.unsent, h.doneD⟩ c _
      (by simp) (fun hlt sid' hs => actOf c sid (.waiting sid true) (by rw [hpc]; rfl) hlt sid' hs
        (by simpa [PC.active?] using hs.symm)) (by simp) (by simp)
  | writeFail c sid hpc =>
    simp only [hsf, if_true]
    exact QInv.setPc (s := { s with lock := none, wdead := true })
      ⟨h.closedIff, h.noLoaded, h.reg, h.unsent, h.doneD⟩ c _
      (by simp) (fun hlt sid' hs => actOf c sid (.sendFailed sid)
        (by rcases hpc with e | e <;> rw [e] <;> rfl) hlt sid' hs
        (by simpa [PC.active?] using hs.symm)) (by simp) (by simp)
  | failNotifyNone c sid hpc hl =>
    have hdl : s.nextid < idMod → (s.chan c).delivered = 1 ∧ (s.chan c).slot ≠ none := by
      intro hlt
      rcases h.reg hlt c sid (by rw [hpc]; rfl) with ⟨hin, _⟩ | hdl
      · exact absurd hin (lookupSid_none hl c)
      · exact hdl
    exact h.setPc c _ (by simp) (fun hlt _ _ => .inr (hdl hlt)) (fun hlt _ _ => hdl hlt) (by simp)
  | failNotifySome c sid ch hpc hl hsl =>
    simp only [delIf, hdel, if_true]
    have hq := QInv.getSend hi h .sendErr hl
    have hdl : s.nextid < idMod →
        (putChan s.chan ch .sendErr c).delivered = 1 ∧ (putChan s.chan ch .sendErr c).slot ≠ none := by
      intro hlt
      have := hq.reg hlt c sid (by show (s.pc c).active? = some sid; rw [hpc]; rfl)
      rcases this with ⟨hin, _⟩ | hdl
      · exact absurd (List.mem_map.mpr ⟨_, hin, rfl⟩) (eraseSid_not_mem_fst s.inflight sid)
      · exact hdl
    exact hq.setPc c _ (by simp) (fun hlt _ _ => .inr (hdl hlt)) (fun hlt _ _ => hdl hlt) (by simp)
  | recvResult c sid b r hpc hsl =>
    have hd1 : (s.chan c).delivered = 1 := by
      have := hi.le1 c
      have h0 : (s.chan c).delivered ≠ 0 := fun e => by rw [hi.slot0 c e] at hsl; cases hsl
      omega
    constructor
    · exact h.closedIff
    · intro k v
      simp only [State.setPc]
      split
      · simp
      · exact h.noLoaded k v
    · intro hlt k sid' hk
      simp only [State.setPc] at hk ⊢
      split at hk
      · cases hk
      · next hkc => simp only [hkc, if_false]; exact h.reg hlt k sid' hk
    · intro hlt k sid' hk
      simp only [State.setPc] at hk ⊢
      split at hk
      · cases hk
      · next hkc => simp only [hkc, if_false]; exact h.unsent hlt k sid' hk
    · intro k sid' r' hk
      simp only [State.setPc] at hk ⊢
      split at hk
      · next hkc => simp only [hkc, if_true]; exact hd1
      · next hkc => simp only [hkc, if_false]; exact h.doneD k sid' r' hk
  | replyNone sid p hr hl =>
    have hcf : s.closed = false := by
      cases hc : s.closed with
      | false => rfl
      | true => have := h.closedIff.mp hc; rw [hr] at this; cases this
    exact ⟨by simp [hcf], h.noLoaded, h.reg, h.unsent, h.doneD⟩
  | replySome sid p ch hr hl hsl =>
    simp only [delIf, hdel, if_true]
    exact QInv.getSend hi h _ hl
  | envFail hr =>
    have hcf : s.closed = false := by
      cases hc : s.closed with
      | false => rfl
      | true => have := h.closedIff.mp hc; rw [hr] at this; cases this
    exact ⟨by simp [hcf], h.noLoaded, h.reg, h.unsent, h.doneD⟩
  | closeConn hr hcfg hl =>
    have hcf : s.closed = false := by
      cases hc : s.closed with
      | false => rfl
      | true => have := h.closedIff.mp hc; rw [hr] at this; cases this
    exact ⟨by simp [hcf], h.noLoaded, h.reg, h.unsent, h.doneD⟩
  | noCloseConn hr hcfg =>
    have hcf : s.closed = false := by
      cases hc : s.closed with
      | false => rfl
      | true => have := h.closedIff.mp hc; rw [hr] at this; cases this
    exact ⟨by simp [hcf], h.noLoaded, h.reg, h.unsent, h.doneD⟩
  | bcast chan' hr hd =>
    have hsp := deliverAll_spec hd
    have hin0 : ∀ k, k ∈ s.inflight.map (·.2) → (s.chan k).delivered = 0 := by
      intro k hk
      obtain ⟨⟨a, b⟩, hm, e⟩ := List.mem_map.mp hk
      simp only at e; subst e
      exact hi.fresh0 a b hm
    have keep : ∀ k, (s.chan k).delivered = 1 → chan' k = s.chan k := by
      intro k hk
      have : k ∉ s.inflight.map (·.2) := fun hm => by have := hin0 k hm; omega
      simp only [hsp k, this, if_false]
    constructor
    · simp
    · exact h.noLoaded
    · intro hlt k sid' hk
      right
      rcases h.reg hlt k sid' hk with ⟨hin, _⟩ | hdl
      · have hm : k ∈ s.inflight.map (·.2) := List.mem_map.mpr ⟨_, hin, rfl⟩
        simp only [hsp k, hm, if_true, hin0 k hm]
        simp
      · simp only [keep k hdl.1]; exact hdl
    · intro hlt k sid' hk
      have := h.unsent hlt k sid' hk
      simp only [keep k this.1]; exact this
    · intro k sid' r hk
      have := h.doneD k sid' r hk
      simp only [keep k this]; exact this

end Sftp.ClientConn
