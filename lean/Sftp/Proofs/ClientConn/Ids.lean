import Sftp.Proofs.ClientConn.StepInv
namespace Sftp.ClientConn
open Sftp

/-- While fewer than 2^32 ids have been drawn, sids are the draw numbers themselves. -/
structure IdInv (s : State) : Prop where
  bound : s.nextid < idMod → ∀ c sid, (s.pc c).sid? = some sid → 1 ≤ sid ∧ sid ≤ s.nextid
  distinct : s.nextid < idMod → ∀ c c' sid, (s.pc c).sid? = some sid → (s.pc c').sid? = some sid → c = c'

theorem IdInv.setPc {s : State} (h : IdInv s) (c : Nat) (p : PC) (hp : p.sid? = (s.pc c).sid?) :
    IdInv (s.setPc c p) := by
  constructor
  · intro hlt k sid hk
    simp only [State.setPc] at hk
    split at hk
    · next e => subst e; rw [hp] at hk; exact h.bound hlt k sid hk
    · exact h.bound hlt k sid hk
  · intro hlt k k' sid hk hk'
    simp only [State.setPc] at hk hk'
    have e1 : (s.pc k).sid? = some sid := by
      split at hk
      · next e => subst e; rw [hp] at hk; exact hk
      · exact hk
    have e2 : (s.pc k').sid? = some sid := by
      split at hk'
      · next e => subst e; rw [hp] at hk'; exact hk'
      · exact hk'
    exact h.distinct hlt k k' sid e1 e2

theorem idinv_step {cfg : Cfg} {n : Nat} {s s' : State} {a : Action} (hat : cfg.idAtomic = true)
    (h : IdInv s) (hst : Step cfg n s a s') : IdInv s' := by
  cases hst with
  | loadId c hc hcfg hpc => rw [hat] at hcfg; cases hcfg
  | nextIdL c v hc hcfg hpc => rw [hat] at hcfg; cases hcfg
  | nextIdA c hc hcfg hpc =>
    constructor
    · intro hlt k sid hk
      simp only [State.setPc] at hlt hk ⊢
      have hlt' : s.nextid < idMod := by omega
      split at hk
      · simp only [PC.sid?, Option.some.injEq] at hk
        rw [Nat.mod_eq_of_lt hlt] at hk
        omega
      · have := h.bound hlt' k sid hk; omega
    · intro hlt k k' sid hk hk'
      simp only [State.setPc] at hlt hk hk'
      have hlt' : s.nextid < idMod := by omega
      split at hk <;> split at hk'
      · omega
      · simp only [PC.sid?, Option.some.injEq] at hk
        rw [Nat.mod_eq_of_lt hlt] at hk
        have := h.bound hlt' k' sid hk'; omega
      · simp only [PC.sid?, Option.some.injEq] at hk'
        rw [Nat.mod_eq_of_lt hlt] at hk'
        have := h.bound hlt' k sid hk; omega
      · exact h.distinct hlt' k k' sid hk hk'
  | putRefused c sid hpc hcfg hcl hsl =>
    exact IdInv.setPc (s := { s with chan := putChan s.chan c .lost }) ⟨h.bound, h.distinct⟩ c _
      (by show _ = (s.pc c).sid?; rw [hpc]; rfl)
  | putOk c sid hpc hcl =>
    exact IdInv.setPc (s := { s with inflight := (sid, c) :: eraseSid s.inflight sid }) ⟨h.bound, h.distinct⟩ c _
      (by show _ = (s.pc c).sid?; rw [hpc]; rfl)
  | lock c sid hpc hl =>
    exact IdInv.setPc (s := { s with lock := some c }) ⟨h.bound, h.distinct⟩ c _
      (by show _ = (s.pc c).sid?; rw [hpc]; rfl)
  | writeHeader c sid hpc hw =>
    exact IdInv.setPc (s := { s with wire := s.wire ++ [Chunk.hdr c sid] }) ⟨h.bound, h.distinct⟩ c _
      (by show _ = (s.pc c).sid?; rw [hpc]; rfl)
  | writePayload c sid hpc hw =>
    exact IdInv.setPc (s := { s with wire := s.wire ++ [Chunk.pay c sid], lock := none })
      ⟨h.bound, h.distinct⟩ c _ (by show _ = (s.pc c).sid?; rw [hpc]; rfl)
  | writeFail c sid hpc =>
    exact IdInv.setPc (s := { s with lock := none, wdead := true }) ⟨h.bound, h.distinct⟩ c _
      (by show _ = (s.pc c).sid?; rcases hpc with e | e <;> rw [e] <;> split <;> rfl)
  | failNotifyNone c sid hpc hl => exact h.setPc c _ (by rw [hpc]; rfl)
  | failNotifySome c sid ch hpc hl hsl =>
    exact IdInv.setPc
      (s := { s with inflight := delIf cfg s.inflight sid, chan := putChan s.chan ch .sendErr })
      ⟨h.bound, h.distinct⟩ c _ (by show _ = (s.pc c).sid?; rw [hpc]; rfl)
  | recvResult c sid b r hpc hsl =>
    exact IdInv.setPc
      (s := { s with chan := fun k => if k = c then ⟨none, (s.chan c).delivered⟩ else s.chan k })
      ⟨h.bound, h.distinct⟩ c _ (by show _ = (s.pc c).sid?; rw [hpc]; rfl)
  | replyNone sid p hr hl => exact ⟨h.bound, h.distinct⟩
  | replySome sid p ch hr hl hsl => exact ⟨h.bound, h.distinct⟩
  | envFail hr => exact ⟨h.bound, h.distinct⟩
  | closeConn hr hcfg hl => exact ⟨h.bound, h.distinct⟩
  | noCloseConn hr hcfg => exact ⟨h.bound, h.distinct⟩
  | bcast chan' hr hd => exact ⟨h.bound, h.distinct⟩

theorem IdInv.init (n : Nat) : IdInv (init n) := by
  constructor <;> simp [ClientConn.init, PC.sid?]

end Sftp.ClientConn
