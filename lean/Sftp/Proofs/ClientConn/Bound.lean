import Sftp.Proofs.ClientConn.StepInv
/- Every step uses up potential: schedules have bounded length ("bounded time"). -/
namespace Sftp.ClientConn
open Sftp

def total : Nat → (Nat → Nat) → Nat
  | 0, _ => 0
  | n + 1, f => total n f + f n

theorem total_update_ge (n : Nat) (f : Nat → Nat) (c a : Nat) (hc : n ≤ c) :
    total n (fun k => if k = c then a else f k) = total n f := by
  induction n with
  | zero => rfl
  | succ m ih =>
    simp only [total]
    rw [ih (by omega)]
    have : m ≠ c := by omega
    simp [this]

theorem total_update (n : Nat) (f : Nat → Nat) (c a : Nat) (hc : c < n) :
    total n (fun k => if k = c then a else f k) + f c = total n f + a := by
  induction n with
  | zero => omega
  | succ m ih =>
    simp only [total]
    by_cases hm : c = m
    · subst hm
      rw [total_update_ge c f c a (Nat.le_refl c)]
      simp; omega
    · have : m ≠ c := fun e => hm e.symm
      simp only [this, if_false]
      have := ih (by omega)
      omega

/-- remaining steps of a caller thread -/
def PC.rank : PC → Nat
  | .idle => 10 | .loaded _ => 9 | .gotId _ => 8 | .registered _ => 6 | .locked _ => 5
  | .wroteHeader _ => 4 | .sendFailed _ => 3 | .waiting _ _ => 2 | .done _ _ => 0

def RPC.rank : RPC → Nat
  | .running => 3 | .closing => 2 | .broadcasting => 1 | .stopped => 0

/-- potential: remaining thread steps + entries the receiver can still consume -/
def potential (n : Nat) (s : State) : Nat :=
  total n (fun k => (s.pc k).rank) + s.inflight.length + s.rpc.rank

theorem eraseSid_length_le (l : List (Nat × Nat)) (sid : Nat) : (eraseSid l sid).length ≤ l.length :=
  List.length_filter_le _ _

theorem eraseSid_length_lt {l : List (Nat × Nat)} {sid ch : Nat} (h : (sid, ch) ∈ l) :
    (eraseSid l sid).length < l.length := by
  induction l with
  | nil => simp at h
  | cons e rest ih =>
    simp only [List.mem_cons] at h
    simp only [eraseSid, List.filter_cons]
    rcases h with h | h
    · subst h
      simp only [bne_self_eq_false, Bool.false_eq_true, if_false, List.length_cons]
      have := eraseSid_length_le rest sid
      simp only [eraseSid] at this
      omega
    · have := ih h
      simp only [eraseSid] at this
      split <;> simp only [List.length_cons] <;> omega

theorem replaceFrom_length (k : Nat) (l : List (Nat × Nat)) : (replaceFrom k l).length = l.length := by
  induction l generalizing k with
  | nil => rfl
  | cons e rest ih => obtain ⟨a, b⟩ := e; simp [replaceFrom, ih]

theorem potential_setPc {n : Nat} (s : State) (c : Nat) (p : PC) (hc : c < n) :
    potential n (s.setPc c p) + (s.pc c).rank = potential n s + p.rank := by
  simp only [potential, State.setPc, apply_ite PC.rank]
  have := total_update n (fun k => (s.pc k).rank) c p.rank hc
  omega

theorem potential_step {cfg : Cfg} {n : Nat} {s s' : State} {a : Action}
    (hdel : cfg.getChannelDeletes = true) (hi : Inv n s) (hst : Step cfg n s a s') :
    potential n s' + 1 ≤ potential n s := by
  have lt : ∀ {c : Nat}, s.pc c ≠ .idle → c < n := fun h => pc_lt_of_ne_idle hi h
  cases hst with
  | loadId c hc hcfg hpc =>
    have := potential_setPc s c (.loaded s.nextid) hc
    simp only [hpc, PC.rank] at this; omega
  | nextIdA c hc hcfg hpc =>
    have := potential_setPc { s with nextid := s.nextid + 1 } c (.gotId ((s.nextid + 1) % idMod)) hc
    simp only [hpc, PC.rank] at this
    have e : potential n { s with nextid := s.nextid + 1 } = potential n s := rfl
    omega
  | nextIdL c v hc hcfg hpc =>
    have := potential_setPc { s with nextid := v + 1 } c (.gotId ((v + 1) % idMod)) hc
    simp only [hpc, PC.rank] at this
    have e : potential n { s with nextid := v + 1 } = potential n s := rfl
    omega
  | putRefused c sid hpc hcfg hcl hsl =>
    have hc : c < n := lt (by rw [hpc]; intro e; cases e)
    have := potential_setPc { s with chan := putChan s.chan c .lost } c (.waiting sid false) hc
    simp only [hpc, PC.rank] at this
    have e : potential n { s with chan := putChan s.chan c .lost } = potential n s := rfl
    omega
  | putOk c sid hpc hcl =>
    have hc : c < n := lt (by rw [hpc]; intro e; cases e)
    have := potential_setPc { s with inflight := (sid, c) :: eraseSid s.inflight sid } c (.registered sid) hc
    simp only [hpc, PC.rank] at this
    have e : potential n { s with inflight := (sid, c) :: eraseSid s.inflight sid } ≤ potential n s + 1 := by
      simp only [potential, List.length_cons]
      have := eraseSid_length_le s.inflight sid
      omega
    omega
  | lock c sid hpc hl =>
    have hc : c < n := lt (by rw [hpc]; intro e; cases e)
    have := potential_setPc { s with lock := some c } c (.locked sid) hc
    simp only [hpc, PC.rank] at this
    have e : potential n { s with lock := some c } = potential n s := rfl
    omega
  | writeHeader c sid hpc hw =>
    have hc : c < n := lt (by rw [hpc]; intro e; cases e)
    have := potential_setPc { s with wire := s.wire ++ [Chunk.hdr c sid] } c (.wroteHeader sid) hc
    simp only [hpc, PC.rank] at this
    have e : potential n { s with wire := s.wire ++ [Chunk.hdr c sid] } = potential n s := rfl
    omega
  | writePayload c sid hpc hw =>
    have hc : c < n := lt (by rw [hpc]; intro e; cases e)
    have := potential_setPc { s with wire := s.wire ++ [Chunk.pay c sid], lock := none } c (.waiting sid true) hc
    simp only [hpc, PC.rank] at this
    have e : potential n { s with wire := s.wire ++ [Chunk.pay c sid], lock := none } = potential n s := rfl
    omega
  | writeFail c sid hpc =>
    have hc : c < n := lt (by rcases hpc with e | e <;> rw [e] <;> intro e <;> cases e)
    have := potential_setPc { s with lock := none, wdead := true } c
      (if cfg.sendFailNotifies then .sendFailed sid else .waiting sid false) hc
    have e : potential n { s with lock := none, wdead := true } = potential n s := rfl
    have hr : (if cfg.sendFailNotifies then PC.sendFailed sid else PC.waiting sid false).rank ≤ 3 := by
      split <;> simp [PC.rank]
    have hr2 : 4 ≤ (s.pc c).rank := by rcases hpc with e | e <;> rw [e] <;> simp [PC.rank]
    simp only at this
    omega
  | failNotifyNone c sid hpc hl =>
    have hc : c < n := lt (by rw [hpc]; intro e; cases e)
    have := potential_setPc s c (.waiting sid false) hc
    simp only [hpc, PC.rank] at this
    omega
  | failNotifySome c sid ch hpc hl hsl =>
    have hc : c < n := lt (by rw [hpc]; intro e; cases e)
    have := potential_setPc
      { s with inflight := delIf cfg s.inflight sid, chan := putChan s.chan ch .sendErr } c (.waiting sid false) hc
    simp only [hpc, PC.rank] at this
    have e : potential n { s with inflight := delIf cfg s.inflight sid, chan := putChan s.chan ch .sendErr }
        ≤ potential n s := by
      simp only [potential, delIf, hdel, if_true]
      have := eraseSid_length_le s.inflight sid
      omega
    omega
  | recvResult c sid b r hpc hsl =>
    have hc : c < n := lt (by rw [hpc]; intro e; cases e)
    have := potential_setPc
      { s with chan := fun k => if k = c then ⟨none, (s.chan c).delivered⟩ else s.chan k } c (.done sid r) hc
    simp only [hpc, PC.rank] at this
    have e : potential n { s with chan := fun k => if k = c then ⟨none, (s.chan c).delivered⟩ else s.chan k }
        = potential n s := rfl
    omega
  | replyNone sid p hr hl => simp only [potential, hr, RPC.rank]; omega
  | replySome sid p ch hr hl hsl =>
    simp only [potential, delIf, hdel, if_true]
    have := eraseSid_length_lt (lookupSid_mem hl)
    omega
  | envFail hr => simp only [potential, hr, RPC.rank]; omega
  | closeConn hr hcfg hl => simp only [potential, hr, RPC.rank]; omega
  | noCloseConn hr hcfg => simp only [potential, hr, RPC.rank]; omega
  | bcast chan' hr hd =>
    simp only [potential, hr, RPC.rank]
    split
    · rw [replaceFrom_length]; omega
    · omega

theorem total_const (n k : Nat) : total n (fun _ => k) = n * k := by
  induction n with
  | zero => simp [total]
  | succ m ih => simp only [total, ih]; rw [Nat.succ_mul]

theorem potential_init (n : Nat) : potential n (init n) = 10 * n + 3 := by
  simp only [potential, ClientConn.init, PC.rank, RPC.rank, List.length_nil, total_const]
  omega

end Sftp.ClientConn
