import Sftp.Proofs.ClientConn.Inv
namespace Sftp.ClientConn
open Sftp

theorem getChannel_none {cfg : Cfg} {s s' : State} {sid : Nat}
    (h : getChannel cfg s sid = (none, s')) : s' = s ∧ lookupSid s.inflight sid = none := by
  unfold getChannel at h
  split at h
  · next hl => simp only [Prod.mk.injEq, true_and] at h; exact ⟨h.symm, hl⟩
  · simp at h

theorem getChannel_some {cfg : Cfg} {s s' : State} {sid ch : Nat}
    (h : getChannel cfg s sid = (some ch, s')) :
    lookupSid s.inflight sid = some ch ∧
    s' = (if cfg.getChannelDeletes then { s with inflight := eraseSid s.inflight sid } else s) := by
  unfold getChannel at h
  split at h
  · simp at h
  · next hl =>
    simp only [Prod.mk.injEq, Option.some.injEq] at h
    exact ⟨by rw [hl, h.1], h.2.symm⟩

theorem pc_lt_of_ne_idle {n : Nat} {s : State} (h : Inv n s) {c : Nat} (hne : s.pc c ≠ .idle) : c < n := by
  by_cases hc : c < n
  · exact hc
  · exact absurd (h.out c (by omega)) hne

theorem inv_step {cfg : Cfg} {n : Nat} {s s' : State} {a : Action}
    (hdel : cfg.getChannelDeletes = true) (hrep : cfg.broadcastReplacesChan = true)
    (h : Inv n s) (hs : step cfg n s a = some s') : Inv n s' := by
  cases a with
  | callerLoadId c =>
    simp only [step] at hs
    split at hs
    · next hc =>
      split at hs
      · next hpc =>
        simp only [Option.some.injEq] at hs; subst hs
        exact h.setPc c _ hc.1 (fun _ => by rw [hpc]; rfl)
          (fun sid hm => absurd hm ((h.early c hc.1 (by rw [hpc]; rfl)).2 sid))
      · cases hs
    · cases hs
  | callerNextId c =>
    simp only [step] at hs
    split at hs
    · next hc =>
      split at hs
      · next hpc =>
        split at hs
        · simp only [Option.some.injEq] at hs; subst hs
          exact Inv.setPc (s := { s with nextid := s.nextid + 1 }) (h.congr rfl rfl rfl rfl) c _ hc
            (fun _ => by show (s.pc c).early = true; rw [hpc]; rfl)
            (fun sid hm => absurd hm ((h.early c hc (by rw [hpc]; rfl)).2 sid))
        · cases hs
      · next v hpc =>
        split at hs
        · cases hs
        · simp only [Option.some.injEq] at hs; subst hs
          exact Inv.setPc (s := { s with nextid := v + 1 }) (h.congr rfl rfl rfl rfl) c _ hc
            (fun _ => by show (s.pc c).early = true; rw [hpc]; rfl)
            (fun sid hm => absurd hm ((h.early c hc (by rw [hpc]; rfl)).2 sid))
      · cases hs
    · cases hs
  | callerPut c =>
    simp only [step] at hs
    split at hs
    · next sid hpc =>
      split at hs
      · simp only [send] at hs
        split at hs
        · simp only [Option.map_some, Option.some.injEq] at hs; subst hs
          exact h.refuse .lost hpc
        · cases hs
      · simp only [Option.some.injEq] at hs; subst hs
        exact h.put hpc
    · cases hs
  | callerLock c =>
    simp only [step] at hs
    split at hs
    · next sid hpc =>
      split at hs
      · simp only [Option.some.injEq] at hs; subst hs
        have hc : c < n := pc_lt_of_ne_idle h (by rw [hpc]; intro e; cases e)
        exact Inv.setPc (s := { s with lock := some c }) (h.congr rfl rfl rfl rfl) c _ hc
          (fun e => by cases e)
          (fun sid' hm => by have := h.owner sid' c hm hc; rw [hpc] at this; exact this)
      · cases hs
    · cases hs
  | callerWriteHeader c =>
    simp only [step] at hs
    split at hs
    · next sid hpc =>
      split at hs
      · cases hs
      · simp only [Option.some.injEq] at hs; subst hs
        have hc : c < n := pc_lt_of_ne_idle h (by rw [hpc]; intro e; cases e)
        exact Inv.setPc (s := { s with wire := s.wire ++ [Chunk.hdr c sid] }) (h.congr rfl rfl rfl rfl) c _ hc
          (fun e => by cases e)
          (fun sid' hm => by have := h.owner sid' c hm hc; rw [hpc] at this; exact this)
    · cases hs
  | callerWritePayload c =>
    simp only [step] at hs
    split at hs
    · next sid hpc =>
      split at hs
      · cases hs
      · simp only [Option.some.injEq] at hs; subst hs
        have hc : c < n := pc_lt_of_ne_idle h (by rw [hpc]; intro e; cases e)
        exact Inv.setPc (s := { s with wire := s.wire ++ [Chunk.pay c sid], lock := none })
          (h.congr rfl rfl rfl rfl) c _ hc
          (fun e => by cases e)
          (fun sid' hm => by have := h.owner sid' c hm hc; rw [hpc] at this; exact this)
    · cases hs
  | callerWriteFail c =>
    simp only [step] at hs
    split at hs
    · next sid hpc =>
      simp only [Option.some.injEq] at hs; subst hs
      have hc : c < n := pc_lt_of_ne_idle h (by rw [hpc]; intro e; cases e)
      exact Inv.setPc (s := { s with lock := none, wdead := true }) (h.congr rfl rfl rfl rfl) c _ hc
        (fun e => by split at e <;> cases e)
        (fun sid' hm => by
          have := h.owner sid' c hm hc; rw [hpc] at this
          split <;> exact this)
    · next sid hpc =>
      simp only [Option.some.injEq] at hs; subst hs
      have hc : c < n := pc_lt_of_ne_idle h (by rw [hpc]; intro e; cases e)
      exact Inv.setPc (s := { s with lock := none, wdead := true }) (h.congr rfl rfl rfl rfl) c _ hc
        (fun e => by split at e <;> cases e)
        (fun sid' hm => by
          have := h.owner sid' c hm hc; rw [hpc] at this
          split <;> exact this)
    · cases hs
  | callerFailNotify c =>
    simp only [step] at hs
    split at hs
    · next sid hpc =>
      have hc : c < n := pc_lt_of_ne_idle h (by rw [hpc]; intro e; cases e)
      split at hs
      · next s1 hg =>
        simp only [Option.some.injEq] at hs; subst hs
        obtain ⟨rfl, _⟩ := getChannel_none hg
        exact h.setPc c _ hc (fun e => by cases e)
          (fun sid' hm => by have := h.owner sid' c hm hc; rw [hpc] at this; exact this)
      · next ch s1 hg =>
        obtain ⟨hl, rfl⟩ := getChannel_some hg
        simp only [hdel, if_true, send] at hs
        split at hs
        · simp only [Option.map_some, Option.some.injEq] at hs; subst hs
          have h1 := h.getSend .sendErr hl
          refine h1.setPc c _ hc (fun e => by cases e) ?_
          intro sid' hm
          have := h.owner sid' c (mem_eraseSid.mp hm).1 hc
          rw [hpc] at this; exact this
        · cases hs
    · cases hs
  | callerRecvResult c =>
    simp only [step] at hs
    split at hs
    · next sid b hpc =>
      split at hs
      · next r hsl =>
        simp only [Option.some.injEq] at hs; subst hs
        exact h.take hpc hsl
      · cases hs
    · cases hs
  | envReply sid payload =>
    simp only [step] at hs
    split at hs
    · split at hs
      · next s1 hg =>
        simp only [Option.some.injEq] at hs; subst hs
        obtain ⟨rfl, _⟩ := getChannel_none hg
        exact h.congr rfl rfl rfl rfl
      · next ch s1 hg =>
        obtain ⟨hl, rfl⟩ := getChannel_some hg
        simp only [hdel, if_true, send] at hs
        split at hs
        · simp only [Option.some.injEq] at hs; subst hs
          exact h.getSend _ hl
        · cases hs
    · cases hs
  | envFail =>
    simp only [step] at hs
    split at hs
    · simp only [Option.some.injEq] at hs; subst hs
      exact h.congr rfl rfl rfl rfl
    · cases hs
  | recvCloseConn =>
    simp only [step] at hs
    split at hs
    · split at hs
      · split at hs
        · simp only [Option.some.injEq] at hs; subst hs
          exact h.congr rfl rfl rfl rfl
        · cases hs
      · simp only [Option.some.injEq] at hs; subst hs
        exact h.congr rfl rfl rfl rfl
    · cases hs
  | recvBroadcast =>
    simp only [step] at hs
    split at hs
    · split at hs
      · cases hs
      · next chan' hd =>
        simp only [hrep, if_true, Option.some.injEq] at hs; subst hs
        exact (h.bcast hd).congr rfl rfl rfl rfl
    · cases hs

end Sftp.ClientConn
