import Sftp.Proofs.ClientConn.InvStep
/- Inversion of `step`: one constructor per enabled branch, with the successor state spelled out. -/
namespace Sftp.ClientConn
open Sftp

def delIf (cfg : Cfg) (l : List (Nat × Nat)) (sid : Nat) : List (Nat × Nat) :=
  if cfg.getChannelDeletes then eraseSid l sid else l

inductive Step (cfg : Cfg) (n : Nat) (s : State) : Action → State → Prop
  | loadId (c : Nat) (hc : c < n) (hcfg : cfg.idAtomic = false) (hpc : s.pc c = .idle) :
      Step cfg n s (.callerLoadId c) (s.setPc c (.loaded s.nextid))
  | nextIdA (c : Nat) (hc : c < n) (hcfg : cfg.idAtomic = true) (hpc : s.pc c = .idle) :
      Step cfg n s (.callerNextId c)
        ({ s with nextid := s.nextid + 1 }.setPc c (.gotId ((s.nextid + 1) % idMod)))
  | nextIdL (c v : Nat) (hc : c < n) (hcfg : cfg.idAtomic = false) (hpc : s.pc c = .loaded v) :
      Step cfg n s (.callerNextId c) ({ s with nextid := v + 1 }.setPc c (.gotId ((v + 1) % idMod)))
  | putRefused (c sid : Nat) (hpc : s.pc c = .gotId sid) (hcfg : cfg.putChecksClosed = true)
      (hcl : s.closed = true) (hsl : (s.chan c).slot = none) :
      Step cfg n s (.callerPut c)
        ({ s with chan := putChan s.chan c .lost }.setPc c (.waiting sid false))
  | putOk (c sid : Nat) (hpc : s.pc c = .gotId sid) (hcl : ¬ (cfg.putChecksClosed = true ∧ s.closed = true)) :
      Step cfg n s (.callerPut c)
        ({ s with inflight := (sid, c) :: eraseSid s.inflight sid }.setPc c (.registered sid))
  | lock (c sid : Nat) (hpc : s.pc c = .registered sid) (hl : s.lock = none ∨ cfg.sendUnderLock = false) :
      Step cfg n s (.callerLock c) ({ s with lock := some c }.setPc c (.locked sid))
  | writeHeader (c sid : Nat) (hpc : s.pc c = .locked sid) (hw : s.wdead = false) :
      Step cfg n s (.callerWriteHeader c)
        ({ s with wire := s.wire ++ [Chunk.hdr c sid] }.setPc c (.wroteHeader sid))
  | writePayload (c sid : Nat) (hpc : s.pc c = .wroteHeader sid) (hw : s.wdead = false) :
      Step cfg n s (.callerWritePayload c)
        ({ s with wire := s.wire ++ [Chunk.pay c sid], lock := none }.setPc c (.waiting sid true))
  | writeFail (c sid : Nat) (hpc : s.pc c = .locked sid ∨ s.pc c = .wroteHeader sid) :
      Step cfg n s (.callerWriteFail c)
        ({ s with lock := none, wdead := true }.setPc c
          (if cfg.sendFailNotifies then .sendFailed sid else .waiting sid false))
  | failNotifyNone (c sid : Nat) (hpc : s.pc c = .sendFailed sid) (hl : lookupSid s.inflight sid = none) :
      Step cfg n s (.callerFailNotify c) (s.setPc c (.waiting sid false))
  | failNotifySome (c sid ch : Nat) (hpc : s.pc c = .sendFailed sid)
      (hl : lookupSid s.inflight sid = some ch) (hsl : (s.chan ch).slot = none) :
      Step cfg n s (.callerFailNotify c)
        ({ s with inflight := delIf cfg s.inflight sid, chan := putChan s.chan ch .sendErr }.setPc c
          (.waiting sid false))
  | recvResult (c sid : Nat) (b : Bool) (r : Res) (hpc : s.pc c = .waiting sid b)
      (hsl : (s.chan c).slot = some r) :
      Step cfg n s (.callerRecvResult c)
        ({ s with chan := fun k => if k = c then ⟨none, (s.chan c).delivered⟩ else s.chan k }.setPc c
          (.done sid r))
  | replyNone (sid : Nat) (p : Bytes) (hr : s.rpc = .running) (hl : lookupSid s.inflight sid = none) :
      Step cfg n s (.envReply sid p) { s with rpc := .closing, rerr := some (.sidNotFound sid) }
  | replySome (sid : Nat) (p : Bytes) (ch : Nat) (hr : s.rpc = .running)
      (hl : lookupSid s.inflight sid = some ch) (hsl : (s.chan ch).slot = none) :
      Step cfg n s (.envReply sid p)
        { s with inflight := delIf cfg s.inflight sid, chan := putChan s.chan ch (.reply sid p) }
  | envFail (hr : s.rpc = .running) :
      Step cfg n s .envFail { s with rpc := .closing, rerr := some .readErr }
  | closeConn (hr : s.rpc = .closing) (hcfg : cfg.recvClosesConn = true) (hl : s.lock = none) :
      Step cfg n s .recvCloseConn { s with wdead := true, rpc := .broadcasting }
  | noCloseConn (hr : s.rpc = .closing) (hcfg : cfg.recvClosesConn = false) :
      Step cfg n s .recvCloseConn { s with rpc := .broadcasting }
  | bcast (chan' : Nat → Chan) (hr : s.rpc = .broadcasting)
      (hd : deliverAll (s.inflight.map (·.2)) s.chan = some chan') :
      Step cfg n s .recvBroadcast
        { s with
          chan := chan'
          inflight := if cfg.broadcastReplacesChan then replaceFrom s.nchan s.inflight else s.inflight
          nchan := if cfg.broadcastReplacesChan then s.nchan + s.inflight.length else s.nchan
          connErr := s.rerr, closed := true, rpc := .stopped }

theorem step_inv {cfg : Cfg} {n : Nat} {s s' : State} {a : Action}
    (hs : step cfg n s a = some s') : Step cfg n s a s' := by
  cases a with
  | callerLoadId c =>
    simp only [step] at hs
    split at hs
    · next hc =>
      split at hs
      · next hpc => simp only [Option.some.injEq] at hs; subst hs; exact .loadId c hc.1 hc.2 hpc
      · cases hs
    · cases hs
  | callerNextId c =>
    simp only [step] at hs
    split at hs
    · next hc =>
      split at hs
      · next hpc =>
        split at hs
        · next hcfg => simp only [Option.some.injEq] at hs; subst hs; exact .nextIdA c hc hcfg hpc
        · cases hs
      · next v hpc =>
        split at hs
        · cases hs
        · next hcfg =>
          simp only [Option.some.injEq] at hs; subst hs
          exact .nextIdL c v hc (by simpa using hcfg) hpc
      · cases hs
    · cases hs
  | callerPut c =>
    simp only [step] at hs
    split at hs
    · next sid hpc =>
      split at hs
      · next hcl =>
        simp only [send] at hs
        split at hs
        · next hsl =>
          simp only [Option.map_some, Option.some.injEq] at hs; subst hs
          exact .putRefused c sid hpc hcl.1 hcl.2 hsl
        · cases hs
      · next hcl => simp only [Option.some.injEq] at hs; subst hs; exact .putOk c sid hpc hcl
    · cases hs
  | callerLock c =>
    simp only [step] at hs
    split at hs
    · next sid hpc =>
      split at hs
      · next hl => simp only [Option.some.injEq] at hs; subst hs; exact .lock c sid hpc hl
      · cases hs
    · cases hs
  | callerWriteHeader c =>
    simp only [step] at hs
    split at hs
    · next sid hpc =>
      split at hs
      · cases hs
      · next hw =>
        simp only [Option.some.injEq] at hs; subst hs
        exact .writeHeader c sid hpc (by simpa using hw)
    · cases hs
  | callerWritePayload c =>
    simp only [step] at hs
    split at hs
    · next sid hpc =>
      split at hs
      · cases hs
      · next hw =>
        simp only [Option.some.injEq] at hs; subst hs
        exact .writePayload c sid hpc (by simpa using hw)
    · cases hs
  | callerWriteFail c =>
    simp only [step] at hs
    split at hs
    · next sid hpc => simp only [Option.some.injEq] at hs; subst hs; exact .writeFail c sid (.inl hpc)
    · next sid hpc => simp only [Option.some.injEq] at hs; subst hs; exact .writeFail c sid (.inr hpc)
    · cases hs
  | callerFailNotify c =>
    simp only [step] at hs
    split at hs
    · next sid hpc =>
      split at hs
      · next s1 hg =>
        simp only [Option.some.injEq] at hs; subst hs
        obtain ⟨rfl, hl⟩ := getChannel_none hg
        exact .failNotifyNone c sid hpc hl
      · next ch s1 hg =>
        obtain ⟨hl, rfl⟩ := getChannel_some hg
        simp only [send] at hs
        split at hs
        · next hsl =>
          simp only [Option.map_some, Option.some.injEq] at hs; subst hs
          have := Step.failNotifySome (cfg := cfg) (n := n) c sid ch hpc hl (by
            revert hsl; cases cfg.getChannelDeletes <;> simp)
          revert this
          simp only [delIf]
          cases cfg.getChannelDeletes <;> simp
        · cases hs
    · cases hs
  | callerRecvResult c =>
    simp only [step] at hs
    split at hs
    · next sid b hpc =>
      split at hs
      · next r hsl => simp only [Option.some.injEq] at hs; subst hs; exact .recvResult c sid b r hpc hsl
      · cases hs
    · cases hs
  | envReply sid payload =>
    simp only [step] at hs
    split at hs
    · next hr =>
      split at hs
      · next s1 hg =>
        simp only [Option.some.injEq] at hs; subst hs
        obtain ⟨rfl, hl⟩ := getChannel_none hg
        exact .replyNone sid payload hr hl
      · next ch s1 hg =>
        obtain ⟨hl, rfl⟩ := getChannel_some hg
        simp only [send] at hs
        split at hs
        · next hsl =>
          simp only [Option.some.injEq] at hs; subst hs
          have := Step.replySome (cfg := cfg) (n := n) sid payload ch hr hl (by
            revert hsl; cases cfg.getChannelDeletes <;> simp)
          revert this
          simp only [delIf]
          cases cfg.getChannelDeletes <;> simp
        · cases hs
    · cases hs
  | envFail =>
    simp only [step] at hs
    split at hs
    · next hr => simp only [Option.some.injEq] at hs; subst hs; exact .envFail hr
    · cases hs
  | recvCloseConn =>
    simp only [step] at hs
    split at hs
    · next hr =>
      split at hs
      · next hcfg =>
        split at hs
        · next hl => simp only [Option.some.injEq] at hs; subst hs; exact .closeConn hr hcfg hl
        · cases hs
      · next hcfg =>
        simp only [Option.some.injEq] at hs; subst hs
        exact .noCloseConn hr (by simpa using hcfg)
    · cases hs
  | recvBroadcast =>
    simp only [step] at hs
    split at hs
    · next hr =>
      split at hs
      · cases hs
      · next chan' hd => simp only [Option.some.injEq] at hs; subst hs; exact .bcast chan' hr hd
    · cases hs

end Sftp.ClientConn
