import Sftp.Proofs.ClientConn.StepInv
namespace Sftp.ClientConn
open Sftp

theorem framesWire_append (a b : List (Nat × Nat)) : framesWire (a ++ b) = framesWire a ++ framesWire b := by
  simp [framesWire]

structure WInv (s : State) (frames : List (Nat × Nat)) (part : List Chunk) : Prop where
  holder : ∀ c sid, (s.pc c = .locked sid ∨ s.pc c = .wroteHeader sid) → s.lock = some c
  wire : s.wire = framesWire frames ++ part
  nodup : (frames.map (·.1)).Nodup
  sent : ∀ e ∈ frames, s.pc e.1 = .waiting e.2 true ∨ ∃ r, s.pc e.1 = .done e.2 r
  live : s.wdead = false →
    (part = [] ∧ ∀ c sid, s.pc c ≠ .wroteHeader sid) ∨ (∃ c sid, part = [Chunk.hdr c sid] ∧ s.pc c = .wroteHeader sid)
  dead : s.wdead = true → part = [] ∨ ∃ c sid, part = [Chunk.hdr c sid]

/-- a caller that neither holds the lock nor has completed its frame moves on (not into `wroteHeader`) -/
theorem WInv.setPc {s : State} {frames : List (Nat × Nat)} {part : List Chunk} (h : WInv s frames part)
    (c : Nat) (p : PC)
    (h1 : ∀ e ∈ frames, e.1 = c → p = .waiting e.2 true ∨ ∃ r, p = .done e.2 r)
    (h3 : ∀ sid, s.pc c ≠ .wroteHeader sid)
    (h4 : ∀ sid, p ≠ .wroteHeader sid) (h5 : ∀ sid, p ≠ .locked sid) : WInv (s.setPc c p) frames part := by
  constructor
  · intro k sid hk
    simp only [State.setPc] at hk ⊢
    split at hk
    · rcases hk with e | e
      · exact absurd e (h5 sid)
      · exact absurd e (h4 sid)
    · exact h.holder k sid hk
  · exact h.wire
  · exact h.nodup
  · intro e he
    simp only [State.setPc]
    split
    · next hk => exact h1 e he hk
    · exact h.sent e he
  · intro hw
    rcases h.live hw with ⟨hp, hn⟩ | ⟨k, sid, hp, hk⟩
    · left
      refine ⟨hp, ?_⟩
      intro k sid
      simp only [State.setPc]
      split
      · exact h4 sid
      · exact hn k sid
    · right
      refine ⟨k, sid, hp, ?_⟩
      simp only [State.setPc]
      split
      · next e => subst e; exact absurd hk (h3 sid)
      · exact hk
  · exact h.dead

theorem WInv.notSent {s : State} {frames : List (Nat × Nat)} {part : List Chunk} (h : WInv s frames part)
    {c : Nat} (hw : ∀ sid, s.pc c ≠ .waiting sid true) (hd : ∀ sid r, s.pc c ≠ .done sid r) :
    ∀ e ∈ frames, e.1 = c → ∀ (q : Prop), q := by
  intro e he hc q
  subst hc
  rcases h.sent e he with h1 | ⟨r, h1⟩
  · exact absurd h1 (hw _)
  · exact absurd h1 (hd _ _)

theorem winv_step {cfg : Cfg} {n : Nat} {s s' : State} {a : Action} (hlk : cfg.sendUnderLock = true)
    {frames : List (Nat × Nat)} {part : List Chunk}
    (h : WInv s frames part) (hst : Step cfg n s a s') : ∃ frames' part', WInv s' frames' part' := by
  cases hst with
  | loadId c hc hcfg hpc =>
    exact ⟨_, _, h.setPc c _ (fun e he hk => h.notSent (by simp [hpc]) (by simp [hpc]) e he hk _)
      (by simp [hpc]) (by simp) (by simp)⟩
  | nextIdA c hc hcfg hpc =>
    exact ⟨_, _, WInv.setPc (s := { s with nextid := s.nextid + 1 }) ⟨h.holder, h.wire, h.nodup, h.sent, h.live, h.dead⟩
      c _ (fun e he hk => h.notSent (by simp [hpc]) (by simp [hpc]) e he hk _)
      (by simp [hpc]) (by simp) (by simp)⟩
  | nextIdL c v hc hcfg hpc =>
    exact ⟨_, _, WInv.setPc (s := { s with nextid := v + 1 }) ⟨h.holder, h.wire, h.nodup, h.sent, h.live, h.dead⟩
      c _ (fun e he hk => h.notSent (by simp [hpc]) (by simp [hpc]) e he hk _)
      (by simp [hpc]) (by simp) (by simp)⟩
  | putRefused c sid hpc hcfg hcl hsl =>
    exact ⟨_, _, WInv.setPc (s := { s with chan := putChan s.chan c .lost })
      ⟨h.holder, h.wire, h.nodup, h.sent, h.live, h.dead⟩
      c _ (fun e he hk => h.notSent (by simp [hpc]) (by simp [hpc]) e he hk _)
      (by simp [hpc]) (by simp) (by simp)⟩
  | putOk c sid hpc hcl =>
    exact ⟨_, _, WInv.setPc (s := { s with inflight := (sid, c) :: eraseSid s.inflight sid })
      ⟨h.holder, h.wire, h.nodup, h.sent, h.live, h.dead⟩
      c _ (fun e he hk => h.notSent (by simp [hpc]) (by simp [hpc]) e he hk _)
      (by simp [hpc]) (by simp) (by simp)⟩
  | lock c sid hpc hl =>
    have hl : s.lock = none := by rcases hl with hl | hl; exact hl; rw [hlk] at hl; cases hl
    refine ⟨frames, part, ?_⟩
    constructor
    · intro k sid' hk
      simp only [State.setPc] at hk ⊢
      split at hk
      · next e => rw [e]
      · have := h.holder k sid' hk; rw [hl] at this; cases this
    · exact h.wire
    · exact h.nodup
    · intro e he
      simp only [State.setPc]
      split
      · next hk => exact h.notSent (by simp [hpc]) (by simp [hpc]) e he hk _
      · exact h.sent e he
    · intro hw
      rcases h.live hw with ⟨hp, hn⟩ | ⟨k, sid', hp, hk⟩
      · left
        refine ⟨hp, ?_⟩
        intro k sid'
        simp only [State.setPc]
        split
        · simp
        · exact hn k sid'
      · have := h.holder k sid' (.inr hk); rw [hl] at this; cases this
    · exact h.dead
  | writeHeader c sid hpc hw =>
    have hlc := h.holder c sid (.inl hpc)
    rcases h.live hw with ⟨hp, hn⟩ | ⟨k, sid', hp, hk⟩
    · refine ⟨frames, [Chunk.hdr c sid], ?_⟩
      constructor
      · intro k sid' hk
        simp only [State.setPc] at hk ⊢
        split at hk
        · next e => rw [e]; exact hlc
        · exact h.holder k sid' hk
      · simp only [State.setPc, h.wire, hp, List.append_nil]
      · exact h.nodup
      · intro e he
        simp only [State.setPc]
        split
        · next hk => exact h.notSent (by simp [hpc]) (by simp [hpc]) e he hk _
        · exact h.sent e he
      · intro _
        right
        exact ⟨c, sid, rfl, by simp [State.setPc]⟩
      · intro hd; simp only [State.setPc] at hd; rw [hw] at hd; cases hd
    · have := h.holder k sid' (.inr hk)
      rw [hlc] at this
      simp only [Option.some.injEq] at this
      subst this
      rw [hpc] at hk; cases hk
  | writePayload c sid hpc hw =>
    have hlc := h.holder c sid (.inr hpc)
    rcases h.live hw with ⟨hp, hn⟩ | ⟨k, sid', hp, hk⟩
    · exact absurd hpc (hn c sid)
    · have hkc := h.holder k sid' (.inr hk)
      rw [hlc] at hkc
      simp only [Option.some.injEq] at hkc
      subst hkc
      rw [hpc] at hk
      simp only [PC.wroteHeader.injEq] at hk
      subst hk
      refine ⟨frames ++ [(c, sid)], [], ?_⟩
      constructor
      · intro k sid' hk
        simp only [State.setPc] at hk ⊢
        split at hk
        · rcases hk with e | e <;> cases e
        · next hne =>
          have := h.holder k sid' hk
          rw [hlc] at this
          simp only [Option.some.injEq] at this
          exact absurd this.symm hne
      · simp [State.setPc, h.wire, hp, framesWire]
      · rw [List.map_append, List.nodup_append]
        refine ⟨h.nodup, by simp, ?_⟩
        intro a ha b hb
        simp only [List.map_cons, List.map_nil, List.mem_singleton] at hb
        subst hb
        obtain ⟨e, he, rfl⟩ := List.mem_map.mp ha
        intro hk
        exact h.notSent (by simp [hpc]) (by simp [hpc]) e he hk _
      · intro e he
        simp only [List.mem_append, List.mem_singleton] at he
        simp only [State.setPc]
        rcases he with he | rfl
        · split
          · next hk => exact h.notSent (by simp [hpc]) (by simp [hpc]) e he hk _
          · exact h.sent e he
        · simp
      · intro _
        left
        refine ⟨rfl, ?_⟩
        intro k sid'
        simp only [State.setPc]
        split
        · simp
        · next hne =>
          intro hk
          have := h.holder k sid' (.inr hk)
          rw [hlc] at this
          simp only [Option.some.injEq] at this
          exact hne this.symm
      · intro hd; simp only [State.setPc] at hd; rw [hw] at hd; cases hd
  | writeFail c sid hpc =>
    have hlc := h.holder c sid hpc
    have hnotc : ∀ e ∈ frames, e.1 = c → ∀ q : Prop, q :=
      h.notSent (by rcases hpc with e | e <;> simp [e]) (by rcases hpc with e | e <;> simp [e])
    refine ⟨frames, part, ?_⟩
    constructor
    · intro k sid' hk
      simp only [State.setPc] at hk ⊢
      split at hk
      · split at hk <;> rcases hk with e | e <;> cases e
      · next hne =>
        have := h.holder k sid' hk
        rw [hlc] at this
        simp only [Option.some.injEq] at this
        exact absurd this.symm hne
    · exact h.wire
    · exact h.nodup
    · intro e he
      simp only [State.setPc]
      split
      · next hk => exact hnotc e he hk _
      · exact h.sent e he
    · intro hd; simp [State.setPc] at hd
    · intro _
      cases hw : s.wdead with
      | true => exact h.dead hw
      | false =>
        rcases h.live hw with ⟨hp, _⟩ | ⟨k, sid', hp, _⟩
        · exact .inl hp
        · exact .inr ⟨k, sid', hp⟩
  | failNotifyNone c sid hpc hl =>
    exact ⟨_, _, h.setPc c _ (fun e he hk => h.notSent (by simp [hpc]) (by simp [hpc]) e he hk _)
      (by simp [hpc]) (by simp) (by simp)⟩
  | failNotifySome c sid ch hpc hl hsl =>
    exact ⟨_, _, WInv.setPc
      (s := { s with inflight := delIf cfg s.inflight sid, chan := putChan s.chan ch .sendErr })
      ⟨h.holder, h.wire, h.nodup, h.sent, h.live, h.dead⟩
      c _ (fun e he hk => h.notSent (by simp [hpc]) (by simp [hpc]) e he hk _)
      (by simp [hpc]) (by simp) (by simp)⟩
  | recvResult c sid b r hpc hsl =>
    refine ⟨_, _, WInv.setPc
      (s := { s with chan := fun k => if k = c then ⟨none, (s.chan c).delivered⟩ else s.chan k })
      ⟨h.holder, h.wire, h.nodup, h.sent, h.live, h.dead⟩
      c _ ?_ (by simp [hpc]) (by simp) (by simp)⟩
    intro e he hk
    subst hk
    rcases h.sent e he with h1 | ⟨r', h1⟩
    · rw [hpc] at h1
      simp only [PC.waiting.injEq] at h1
      right; exact ⟨r, by rw [h1.1]⟩
    · rw [hpc] at h1; cases h1
  | replyNone sid p hr hl => exact ⟨_, _, ⟨h.holder, h.wire, h.nodup, h.sent, h.live, h.dead⟩⟩
  | replySome sid p ch hr hl hsl => exact ⟨_, _, ⟨h.holder, h.wire, h.nodup, h.sent, h.live, h.dead⟩⟩
  | envFail hr => exact ⟨_, _, ⟨h.holder, h.wire, h.nodup, h.sent, h.live, h.dead⟩⟩
  | closeConn hr hcfg hl =>
    refine ⟨frames, part, ⟨h.holder, h.wire, h.nodup, h.sent, (by intro hd; cases hd), ?_⟩⟩
    intro _
    cases hw : s.wdead with
    | true => exact h.dead hw
    | false =>
      rcases h.live hw with ⟨hp, _⟩ | ⟨k, sid', hp, _⟩
      · exact .inl hp
      · exact .inr ⟨k, sid', hp⟩
  | noCloseConn hr hcfg => exact ⟨_, _, ⟨h.holder, h.wire, h.nodup, h.sent, h.live, h.dead⟩⟩
  | bcast chan' hr hd => exact ⟨_, _, ⟨h.holder, h.wire, h.nodup, h.sent, h.live, h.dead⟩⟩

theorem WInv.init (n : Nat) : WInv (init n) [] [] := by
  constructor <;> simp [ClientConn.init, framesWire]

theorem wellFramed_frames (frames : List (Nat × Nat)) (part : List Chunk)
    (hp : part = [] ∨ ∃ c sid, part = [Chunk.hdr c sid]) : wellFramed (framesWire frames ++ part) = true := by
  induction frames with
  | nil =>
    rcases hp with rfl | ⟨c, sid, rfl⟩ <;> simp [framesWire, wellFramed]
  | cons e rest ih =>
    simp only [framesWire, List.flatMap_cons, List.cons_append, List.nil_append, wellFramed, beq_self_eq_true,
      Bool.true_and] at ih ⊢
    exact ih

/-- after the receiver has run the deferred conn.Close the write side stays dead -/
def DInv (s : State) : Prop := (s.rpc = .broadcasting ∨ s.rpc = .stopped) → s.wdead = true

theorem dinv_step {cfg : Cfg} {n : Nat} {s s' : State} {a : Action} (hcl : cfg.recvClosesConn = true)
    (h : DInv s) (hst : Step cfg n s a s') : DInv s' := by
  unfold DInv at h ⊢
  cases hst <;> simp only [State.setPc] <;> grind

end Sftp.ClientConn
