import Sftp.Proofs.ClientConn.Routing
import Sftp.Proofs.ClientConn.Wire
import Sftp.Proofs.ClientConn.Quiesce
import Sftp.Proofs.ClientConn.Kept
import Sftp.Proofs.ClientConn.Bound
namespace Sftp.ClientConn
open Sftp

theorem reach_inv {cfg : Cfg} {n : Nat} (hdel : cfg.getChannelDeletes = true)
    (hrep : cfg.broadcastReplacesChan = true) {acts : List Action} {s : State}
    (h : Reach cfg n acts s) : Inv n s ∧ RInv n acts s := by
  refine Reach.induction (cfg := cfg) (n := n) (fun acts s => Inv n s ∧ RInv n acts s) ?_ ?_ acts s h
  · exact ⟨Inv.init n, by constructor <;> simp [ClientConn.init]⟩
  · intro acts s a s' _ ih hs
    exact ⟨inv_step hdel hrep ih.1 hs, rinv_step ih.1 ih.2 (step_inv hs)⟩

theorem reach_id {cfg : Cfg} {n : Nat} (hat : cfg.idAtomic = true) {acts : List Action} {s : State}
    (h : Reach cfg n acts s) : IdInv s := by
  refine Reach.induction (cfg := cfg) (n := n) (fun _ s => IdInv s) (IdInv.init n) ?_ acts s h
  intro acts s a s' _ ih hs
  exact idinv_step hat ih (step_inv hs)

theorem reach_wire {cfg : Cfg} {n : Nat} (hlk : cfg.sendUnderLock = true) {acts : List Action} {s : State}
    (h : Reach cfg n acts s) : ∃ frames part, WInv s frames part := by
  refine Reach.induction (cfg := cfg) (n := n) (fun _ s => ∃ frames part, WInv s frames part)
    ⟨[], [], WInv.init n⟩ ?_ acts s h
  intro acts s a s' _ ⟨f, p, ih⟩ hs
  exact winv_step hlk ih (step_inv hs)

theorem reach_lrev {cfg : Cfg} {n : Nat} {acts : List Action} {s : State}
    (h : Reach cfg n acts s) : LRev s := by
  refine Reach.induction (cfg := cfg) (n := n) (fun _ s => LRev s) ?_ ?_ acts s h
  · intro c hc; simp [ClientConn.init] at hc
  · intro acts s a s' _ ih hs
    exact lrev_step ih (step_inv hs)

theorem reach_q {cfg : Cfg} {n : Nat} (hdel : cfg.getChannelDeletes = true)
    (hrep : cfg.broadcastReplacesChan = true) (hput : cfg.putChecksClosed = true)
    (hsf : cfg.sendFailNotifies = true) (hat : cfg.idAtomic = true) {acts : List Action} {s : State}
    (h : Reach cfg n acts s) : QInv s := by
  refine Reach.induction (cfg := cfg) (n := n) (fun _ s => QInv s) (QInv.init n) ?_ acts s h
  intro acts s a s' hr ih hs
  exact qinv_step hdel hput hsf hat (reach_inv hdel hrep hr).1 (reach_id hat hr) ih (step_inv hs)

theorem Reach.snoc {cfg : Cfg} {n : Nat} {acts : List Action} {s s' : State} {a : Action}
    (h : Reach cfg n acts s) (hs : step cfg n s a = some s') : Reach cfg n (acts ++ [a]) s' := by
  simp only [Reach, run_append, show run cfg n (init n) acts = some s from h, Option.bind_some, run, hs]

theorem Reach.append {cfg : Cfg} {n : Nat} {acts more : List Action} {s s' : State}
    (h : Reach cfg n acts s) (hs : run cfg n s more = some s') : Reach cfg n (acts ++ more) s' := by
  simp only [Reach, run_append, show run cfg n (init n) acts = some s from h, Option.bind_some, hs]

/-- invariants along a continuation of a reachable state -/
theorem run_from {cfg : Cfg} {n : Nat} (P : State → Prop)
    (hstep : ∀ acts s a s', Reach cfg n acts s → P s → step cfg n s a = some s' → P s') :
    ∀ (more acts : List Action) (s s' : State), Reach cfg n acts s → P s →
      run cfg n s more = some s' → P s' := by
  intro more
  induction more with
  | nil => intro acts s s' _ hp hr; simp only [run, Option.some.injEq] at hr; exact hr ▸ hp
  | cons a rest ih =>
    intro acts s s' hre hp hr
    simp only [run] at hr
    split at hr
    · cases hr
    · next s1 hs1 => exact ih (acts ++ [a]) s1 s' (hre.snoc hs1) (hstep acts s a s1 hre hp hs1) hr

theorem reach_bound {cfg : Cfg} {n : Nat} (hdel : cfg.getChannelDeletes = true)
    (hrep : cfg.broadcastReplacesChan = true) {acts : List Action} {s : State}
    (h : Reach cfg n acts s) : acts.length + potential n s ≤ 10 * n + 3 := by
  refine Reach.induction (cfg := cfg) (n := n) (fun acts s => acts.length + potential n s ≤ 10 * n + 3)
    ?_ ?_ acts s h
  · rw [potential_init]; simp
  · intro acts s a s' hr ih hs
    have := potential_step hdel (reach_inv hdel hrep hr).1 (step_inv hs)
    simp only [List.length_append, List.length_cons, List.length_nil]
    omega

/-! ### enabledness -/

theorem reach_dinv {cfg : Cfg} {n : Nat} (hcl : cfg.recvClosesConn = true) {acts : List Action} {s : State}
    (h : Reach cfg n acts s) : DInv s := by
  refine Reach.induction (cfg := cfg) (n := n) (fun _ s => DInv s) ?_ ?_ acts s h
  · intro hc; simp [ClientConn.init] at hc
  · intro acts s a s' _ ih hs
    exact dinv_step hcl ih (step_inv hs)

theorem en_nextId {cfg : Cfg} {n : Nat} {s : State} {c : Nat} (hc : c < n) (hat : cfg.idAtomic = true)
    (hpc : s.pc c = .idle) : enabled cfg n s (.callerNextId c) := by
  simp [enabled, step, hc, hpc, hat]

theorem en_put {cfg : Cfg} {n : Nat} {s : State} {c sid : Nat} (hi : Inv n s)
    (hpc : s.pc c = .gotId sid) : enabled cfg n s (.callerPut c) := by
  have hc : c < n := pc_lt_of_ne_idle hi (by rw [hpc]; intro e; cases e)
  have hsl := hi.slot0 c (hi.early c hc (by rw [hpc]; rfl)).1
  simp only [enabled, step, hpc, send, hsl]
  split <;> simp

theorem en_lock {cfg : Cfg} {n : Nat} {s : State} {c sid : Nat} (hpc : s.pc c = .registered sid)
    (hl : s.lock = none) : enabled cfg n s (.callerLock c) := by
  simp [enabled, step, hpc, hl]

theorem en_writeFail {cfg : Cfg} {n : Nat} {s : State} {c sid : Nat}
    (hpc : s.pc c = .locked sid ∨ s.pc c = .wroteHeader sid) : enabled cfg n s (.callerWriteFail c) := by
  rcases hpc with hpc | hpc <;> simp [enabled, step, hpc]

theorem en_failNotify {cfg : Cfg} {n : Nat} {s : State} {c sid : Nat} (hi : Inv n s)
    (hpc : s.pc c = .sendFailed sid) : enabled cfg n s (.callerFailNotify c) := by
  simp only [enabled, step, hpc, getChannel]
  cases hl : lookupSid s.inflight sid with
  | none => simp
  | some ch =>
    have hsl := hi.slot0 ch (hi.fresh0 sid ch (lookupSid_mem hl))
    simp only [send]
    cases cfg.getChannelDeletes <;> simp [hsl]

theorem en_recvResult {cfg : Cfg} {n : Nat} {s : State} {c sid : Nat} {b : Bool} {r : Res}
    (hpc : s.pc c = .waiting sid b) (hsl : (s.chan c).slot = some r) :
    enabled cfg n s (.callerRecvResult c) := by
  simp [enabled, step, hpc, hsl]

theorem en_reply {cfg : Cfg} {n : Nat} {s : State} (hi : Inv n s) (hr : s.rpc = .running) (sid : Nat)
    (p : Bytes) : enabled cfg n s (.envReply sid p) := by
  simp only [enabled, step, hr, getChannel]
  cases hl : lookupSid s.inflight sid with
  | none => simp
  | some ch =>
    have hsl := hi.slot0 ch (hi.fresh0 sid ch (lookupSid_mem hl))
    simp only [send]
    cases cfg.getChannelDeletes <;> simp [hsl]

theorem en_closeConn {cfg : Cfg} {n : Nat} {s : State} (hr : s.rpc = .closing)
    (hl : s.lock = none ∨ cfg.recvClosesConn = false) : enabled cfg n s .recvCloseConn := by
  rcases hl with hl | hl
  · simp only [enabled, step, hr, hl]; split <;> simp
  · simp [enabled, step, hr, hl]

theorem en_bcast {cfg : Cfg} {n : Nat} {s : State} (hi : Inv n s) (hr : s.rpc = .broadcasting) :
    enabled cfg n s .recvBroadcast := by
  have : ∃ f', deliverAll (s.inflight.map (·.2)) s.chan = some f' := by
    apply deliverAll_enabled hi.vnodup
    intro k hk
    obtain ⟨⟨a, b⟩, hm, e⟩ := List.mem_map.mp hk
    simp only at e; subst e
    exact hi.slot0 _ (hi.fresh0 a b hm)
  obtain ⟨f', hf⟩ := this
  simp [enabled, step, hr, hf]

end Sftp.ClientConn
