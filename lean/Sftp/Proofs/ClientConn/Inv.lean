import Sftp.Proofs.ClientConn.Lists
/- Safety invariant of M-ClientConn: channel references are unique and point to unused channels. -/
namespace Sftp.ClientConn
open Sftp

structure Inv (n : Nat) (s : State) : Prop where
  vnodup : (s.inflight.map (·.2)).Nodup
  knodup : (s.inflight.map (·.1)).Nodup
  fresh0 : ∀ sid ch, (sid, ch) ∈ s.inflight → (s.chan ch).delivered = 0
  slot0 : ∀ ch, (s.chan ch).delivered = 0 → (s.chan ch).slot = none
  le1 : ∀ ch, (s.chan ch).delivered ≤ 1
  early : ∀ c, c < n → (s.pc c).early = true → (s.chan c).delivered = 0 ∧ ∀ sid, (sid, c) ∉ s.inflight
  hi : ∀ ch, s.nchan ≤ ch → (s.chan ch).delivered = 0 ∧ ∀ sid, (sid, ch) ∉ s.inflight
  nle : n ≤ s.nchan
  out : ∀ c, n ≤ c → s.pc c = .idle
  owner : ∀ sid ch, (sid, ch) ∈ s.inflight → ch < n → (s.pc ch).active? = some sid

theorem Inv.init (n : Nat) : Inv n (init n) := by
  constructor <;> simp [ClientConn.init, PC.early]

/-- pc-only updates that keep an active caller active with the same sid and do not make anyone early -/
theorem Inv.setPc {n : Nat} {s : State} (h : Inv n s) (c : Nat) (p : PC) (hc : c < n)
    (he : p.early = true → (s.pc c).early = true)
    (ha : ∀ sid, (sid, c) ∈ s.inflight → p.active? = some sid) : Inv n (s.setPc c p) := by
  constructor
  · exact h.vnodup
  · exact h.knodup
  · exact h.fresh0
  · exact h.slot0
  · exact h.le1
  · intro k hk hek
    simp only [State.setPc] at hek ⊢
    split at hek
    · next e => subst e; exact h.early k hk (he hek)
    · exact h.early k hk hek
  · exact h.hi
  · exact h.nle
  · intro k hk
    simp only [State.setPc]
    split
    · omega
    · exact h.out k hk
  · intro sid ch hm hch
    simp only [State.setPc]
    split
    · next e => subst e; exact ha sid hm
    · exact h.owner sid ch hm hch


theorem Inv.congr {n : Nat} {s s' : State} (h : Inv n s) (h1 : s'.inflight = s.inflight)
    (h2 : s'.chan = s.chan) (h3 : s'.pc = s.pc) (h4 : s'.nchan = s.nchan) : Inv n s' := by
  constructor
  · rw [h1]; exact h.vnodup
  · rw [h1]; exact h.knodup
  · rw [h1, h2]; exact h.fresh0
  · rw [h2]; exact h.slot0
  · rw [h2]; exact h.le1
  · rw [h1, h2, h3]; exact h.early
  · rw [h1, h2, h4]; exact h.hi
  · rw [h4]; exact h.nle
  · rw [h3]; exact h.out
  · rw [h1, h3]; exact h.owner

/-- putChannel accepted -/
theorem Inv.put {n : Nat} {s : State} (h : Inv n s) {c sid : Nat} (hpc : s.pc c = .gotId sid) :
    Inv n ({ s with inflight := (sid, c) :: eraseSid s.inflight sid }.setPc c (.registered sid)) := by
  have hc : c < n := by
    by_cases hc : c < n
    · exact hc
    · have := h.out c (by omega); rw [hpc] at this; cases this
  have he := h.early c hc (by rw [hpc]; rfl)
  constructor
  · simp only [State.setPc, List.map_cons, List.nodup_cons]
    refine ⟨?_, eraseSid_nodup_snd sid h.vnodup⟩
    intro hm
    obtain ⟨⟨k, v⟩, hm', hv⟩ := List.mem_map.mp hm
    simp only at hv; subst hv
    exact he.2 k (mem_eraseSid.mp hm').1
  · simp only [State.setPc, List.map_cons, List.nodup_cons]
    exact ⟨eraseSid_not_mem_fst _ _, eraseSid_nodup_fst sid h.knodup⟩
  · intro k ch hm
    simp only [State.setPc, List.mem_cons, Prod.mk.injEq] at hm ⊢
    rcases hm with ⟨_, rfl⟩ | hm
    · exact he.1
    · exact h.fresh0 k ch (mem_eraseSid.mp hm).1
  · exact h.slot0
  · exact h.le1
  · intro k hk hek
    simp only [State.setPc] at hek ⊢
    split at hek
    · cases hek
    · next hne =>
      have := h.early k hk hek
      refine ⟨this.1, ?_⟩
      intro sid' hm
      simp only [List.mem_cons, Prod.mk.injEq] at hm
      rcases hm with ⟨_, e⟩ | hm
      · exact hne e
      · exact this.2 sid' (mem_eraseSid.mp hm).1
  · intro ch hch
    have := h.hi ch hch
    refine ⟨this.1, ?_⟩
    intro sid' hm
    simp only [State.setPc, List.mem_cons, Prod.mk.injEq] at hm
    rcases hm with ⟨_, e⟩ | hm
    · have := h.nle; simp only [State.setPc] at hch; omega
    · exact this.2 sid' (mem_eraseSid.mp hm).1
  · exact h.nle
  · intro k hk
    simp only [State.setPc]
    split
    · omega
    · exact h.out k hk
  · intro k ch hm hch
    simp only [State.setPc, List.mem_cons, Prod.mk.injEq] at hm ⊢
    rcases hm with ⟨rfl, rfl⟩ | hm
    · simp [PC.active?]
    · split
      · next e => subst e; exact absurd (mem_eraseSid.mp hm).1 (he.2 k)
      · exact h.owner k ch (mem_eraseSid.mp hm).1 hch

/-- getChannel(sid) found `ch` (entry deleted), then `ch <- r` -/
theorem Inv.getSend {n : Nat} {s : State} (h : Inv n s) {sid ch : Nat} (r : Res)
    (hl : lookupSid s.inflight sid = some ch) :
    Inv n { s with inflight := eraseSid s.inflight sid, chan := putChan s.chan ch r } := by
  have hm := lookupSid_mem hl
  have hd := h.fresh0 sid ch hm
  have hne : ∀ k v, (k, v) ∈ eraseSid s.inflight sid → v ≠ ch := by
    intro k v hkv e
    subst e
    have := mem_eraseSid.mp hkv
    exact this.2 (snd_ne_of_nodup h.vnodup this.1 hm)
  constructor
  · exact eraseSid_nodup_snd sid h.vnodup
  · exact eraseSid_nodup_fst sid h.knodup
  · intro k v hkv
    simp only [putChan, hne k v hkv, if_false]
    exact h.fresh0 k v (mem_eraseSid.mp hkv).1
  · intro k
    simp only [putChan]
    split
    · simp
    · exact h.slot0 k
  · intro k
    simp only [putChan]
    split
    · simp only; omega
    · exact h.le1 k
  · intro k hk hek
    have := h.early k hk hek
    have hkc : k ≠ ch := fun e => this.2 sid (e ▸ hm)
    simp only [putChan, hkc, if_false]
    exact ⟨this.1, fun sid' hm' => this.2 sid' (mem_eraseSid.mp hm').1⟩
  · intro k hk
    have := h.hi k hk
    have hkc : k ≠ ch := fun e => this.2 sid (e ▸ hm)
    simp only [putChan, hkc, if_false]
    exact ⟨this.1, fun sid' hm' => this.2 sid' (mem_eraseSid.mp hm').1⟩
  · exact h.nle
  · exact h.out
  · intro k v hkv hv
    exact h.owner k v (mem_eraseSid.mp hkv).1 hv

/-- putChannel refused: `ch <- ConnectionLost` into the caller's own, still unused channel -/
theorem Inv.refuse {n : Nat} {s : State} (h : Inv n s) {c sid : Nat} (r : Res)
    (hpc : s.pc c = .gotId sid) :
    Inv n ({ s with chan := putChan s.chan c r }.setPc c (.waiting sid false)) := by
  have hc : c < n := by
    by_cases hc : c < n
    · exact hc
    · have := h.out c (by omega); rw [hpc] at this; cases this
  have he := h.early c hc (by rw [hpc]; rfl)
  constructor
  · exact h.vnodup
  · exact h.knodup
  · intro k v hkv
    have : v ≠ c := fun e => he.2 k (e ▸ hkv)
    simp only [State.setPc, putChan, this, if_false]
    exact h.fresh0 k v hkv
  · intro k
    simp only [State.setPc, putChan]
    split
    · simp
    · exact h.slot0 k
  · intro k
    simp only [State.setPc, putChan]
    split
    · simp only; omega
    · exact h.le1 k
  · intro k hk hek
    simp only [State.setPc, putChan] at hek ⊢
    split at hek
    · cases hek
    · next hne => simp only [hne, if_false]; exact h.early k hk hek
  · intro k hk
    have : k ≠ c := by have := h.nle; simp only [State.setPc] at hk; omega
    simp only [State.setPc, putChan, this, if_false]
    exact h.hi k hk
  · exact h.nle
  · intro k hk
    simp only [State.setPc]
    split
    · omega
    · exact h.out k hk
  · intro k v hkv hv
    simp only [State.setPc]
    split
    · next e => subst e; exact absurd hkv (he.2 k)
    · exact h.owner k v hkv hv

/-- the caller takes its result -/
theorem Inv.take {n : Nat} {s : State} (h : Inv n s) {c sid : Nat} {b : Bool} {r : Res}
    (hpc : s.pc c = .waiting sid b) (hs : (s.chan c).slot = some r) :
    Inv n ({ s with chan := fun k => if k = c then ⟨none, (s.chan c).delivered⟩ else s.chan k }.setPc c
      (.done sid r)) := by
  have hd : (s.chan c).delivered ≠ 0 := fun e => by rw [h.slot0 c e] at hs; cases hs
  have hni : ∀ k, (k, c) ∉ s.inflight := fun k hk => hd (h.fresh0 k c hk)
  constructor
  · exact h.vnodup
  · exact h.knodup
  · intro k v hkv
    have : v ≠ c := fun e => hni k (e ▸ hkv)
    simp only [State.setPc, this, if_false]
    exact h.fresh0 k v hkv
  · intro k
    simp only [State.setPc]
    split
    · simp
    · exact h.slot0 k
  · intro k
    simp only [State.setPc]
    split
    · next e => subst e; exact h.le1 k
    · exact h.le1 k
  · intro k hk hek
    simp only [State.setPc] at hek ⊢
    split at hek
    · cases hek
    · next hne => simp only [hne, if_false]; exact h.early k hk hek
  · intro k hk
    have := h.hi k hk
    have hkc : k ≠ c := fun e => hd (e ▸ this.1)
    simp only [State.setPc, hkc, if_false]
    exact this
  · exact h.nle
  · intro k hk
    simp only [State.setPc]
    split
    · next e => subst e; have := h.out k hk; rw [hpc] at this; cases this
    · exact h.out k hk
  · intro k v hkv hv
    simp only [State.setPc]
    split
    · next e => subst e; exact absurd hkv (hni k)
    · exact h.owner k v hkv hv

/-- broadcastErr -/
theorem Inv.bcast {n : Nat} {s : State} (h : Inv n s) {chan' : Nat → Chan}
    (hd : deliverAll (s.inflight.map (·.2)) s.chan = some chan') :
    Inv n { s with chan := chan', inflight := replaceFrom s.nchan s.inflight,
                   nchan := s.nchan + s.inflight.length } := by
  have hsp := deliverAll_spec hd
  have hin : ∀ k, k ∈ s.inflight.map (·.2) → (s.chan k).delivered = 0 := by
    intro k hk
    obtain ⟨⟨a, b⟩, hm, e⟩ := List.mem_map.mp hk
    simp only at e; subst e
    exact h.fresh0 a b hm
  constructor
  · simp only [replaceFrom_snd]; exact List.nodup_range'
  · simp only [replaceFrom_fst]; exact h.knodup
  · intro k v hkv
    have hr := replaceFrom_mem hkv
    have hv := h.hi v hr.1
    have : v ∉ s.inflight.map (·.2) := by
      intro hm
      obtain ⟨⟨a, b⟩, hm', e⟩ := List.mem_map.mp hm
      simp only at e; subst e
      exact hv.2 a hm'
    simp only [hsp v, this, if_false]
    exact hv.1
  · intro k
    simp only [hsp k]
    split
    · simp
    · exact h.slot0 k
  · intro k
    simp only [hsp k]
    split
    · next hm => simp only [hin k hm]; omega
    · exact h.le1 k
  · intro k hk hek
    have := h.early k hk hek
    have hni : k ∉ s.inflight.map (·.2) := by
      intro hm
      obtain ⟨⟨a, b⟩, hm', e⟩ := List.mem_map.mp hm
      simp only at e; subst e
      exact this.2 a hm'
    simp only [hsp k, hni, if_false]
    refine ⟨this.1, ?_⟩
    intro sid hm
    have := replaceFrom_mem hm
    have := h.nle
    omega
  · intro k hk
    simp only at hk
    have := h.hi k (by omega)
    have hni : k ∉ s.inflight.map (·.2) := by
      intro hm
      obtain ⟨⟨a, b⟩, hm', e⟩ := List.mem_map.mp hm
      simp only at e; subst e
      exact this.2 a hm'
    simp only [hsp k, hni, if_false]
    refine ⟨this.1, ?_⟩
    intro sid hm
    have := replaceFrom_mem hm
    omega
  · have := h.nle; simp only; omega
  · exact h.out
  · intro k v hkv hv
    have := replaceFrom_mem hkv
    have := h.nle
    omega

end Sftp.ClientConn
