import Sftp.Proofs.ClientConn.StepInv
namespace Sftp.ClientConn
open Sftp

structure RInv (n : Nat) (acts : List Action) (s : State) : Prop where
  slotR : ∀ c sid' p, c < n → (s.chan c).slot = some (.reply sid' p) →
    (s.pc c).active? = some sid' ∧ Action.envReply sid' p ∈ acts
  doneR : ∀ c sid sid' p, s.pc c = .done sid (.reply sid' p) →
    sid' = sid ∧ Action.envReply sid' p ∈ acts

theorem RInv.mono {n : Nat} {acts : List Action} {s : State} (h : RInv n acts s) (a : Action) :
    RInv n (acts ++ [a]) s :=
  ⟨fun c sid' p hc hs => ⟨(h.slotR c sid' p hc hs).1, List.mem_append_left _ (h.slotR c sid' p hc hs).2⟩,
   fun c sid sid' p hp => ⟨(h.doneR c sid sid' p hp).1, List.mem_append_left _ (h.doneR c sid sid' p hp).2⟩⟩

/-- pc update of caller `c` to a non-final pc that is consistent with a reply sitting in its slot -/
theorem RInv.setPc {n : Nat} {acts : List Action} {s : State} (h : RInv n acts s) (c : Nat) (p : PC)
    (hslot : ∀ sid' p', (s.chan c).slot = some (.reply sid' p') → p.active? = some sid')
    (hdone : ∀ sid r, p ≠ .done sid r) : RInv n acts (s.setPc c p) := by
  constructor
  · intro k sid' p' hk hs
    simp only [State.setPc] at hs ⊢
    split
    · next e => subst e; exact ⟨hslot sid' p' hs, (h.slotR k sid' p' hk hs).2⟩
    · exact h.slotR k sid' p' hk hs
  · intro k sid sid' p' hp
    simp only [State.setPc] at hp
    split at hp
    · exact absurd hp (hdone _ _)
    · exact h.doneR k sid sid' p' hp

theorem rinv_step {cfg : Cfg} {n : Nat} {acts : List Action} {s s' : State} {a : Action}
    (hi : Inv n s) (h0 : RInv n acts s) (hst : Step cfg n s a s') : RInv n (acts ++ [a]) s' := by
  have h := h0.mono a
  have early_slot : ∀ c, c < n → (s.pc c).early = true → (s.chan c).slot = none :=
    fun c hc he => hi.slot0 c (hi.early c hc he).1
  have act : ∀ c sid (p : PC), c < n → (s.pc c).active? = some sid → p.active? = some sid →
      ∀ sid' p', (s.chan c).slot = some (.reply sid' p') → p.active? = some sid' := by
    intro c sid p hc h1 h2 sid' p' hs
    have := (h.slotR c sid' p' hc hs).1
    rw [h1] at this; rw [h2]; exact this
  cases hst with
  | loadId c hc hcfg hpc =>
    exact h.setPc c _ (fun sid' p' hs => by rw [early_slot c hc (by rw [hpc]; rfl)] at hs; cases hs)
      (fun _ _ e => by cases e)
  | nextIdA c hc hcfg hpc =>
    exact RInv.setPc (s := { s with nextid := s.nextid + 1 }) ⟨h.slotR, h.doneR⟩ c _
      (fun sid' p' hs => by
        have := early_slot c hc (by rw [hpc]; rfl)
        simp only at hs; rw [this] at hs; cases hs)
      (fun _ _ e => by cases e)
  | nextIdL c v hc hcfg hpc =>
    exact RInv.setPc (s := { s with nextid := v + 1 }) ⟨h.slotR, h.doneR⟩ c _
      (fun sid' p' hs => by
        have := early_slot c hc (by rw [hpc]; rfl)
        simp only at hs; rw [this] at hs; cases hs)
      (fun _ _ e => by cases e)
  | putRefused c sid hpc hcfg hcl hsl =>
    refine RInv.setPc (s := { s with chan := putChan s.chan c .lost }) ?_ c _ ?_ (fun _ _ e => by cases e)
    · constructor
      · intro k sid' p' hk hs
        simp only [putChan] at hs
        split at hs
        · cases hs
        · exact h.slotR k sid' p' hk hs
      · exact h.doneR
    · intro sid' p' hs
      simp [putChan] at hs
  | putOk c sid hpc hcl =>
    have hc : c < n := pc_lt_of_ne_idle hi (by rw [hpc]; intro e; cases e)
    exact RInv.setPc (s := { s with inflight := (sid, c) :: eraseSid s.inflight sid }) ⟨h.slotR, h.doneR⟩ c _
      (fun sid' p' hs => by
        have := early_slot c hc (by rw [hpc]; rfl)
        simp only at hs; rw [this] at hs; cases hs)
      (fun _ _ e => by cases e)
  | lock c sid hpc hl =>
    have hc : c < n := pc_lt_of_ne_idle hi (by rw [hpc]; intro e; cases e)
    exact RInv.setPc (s := { s with lock := some c }) ⟨h.slotR, h.doneR⟩ c _
      (act c sid _ hc (by rw [hpc]; rfl) rfl) (fun _ _ e => by cases e)
  | writeHeader c sid hpc hw =>
    have hc : c < n := pc_lt_of_ne_idle hi (by rw [hpc]; intro e; cases e)
    exact RInv.setPc (s := { s with wire := s.wire ++ [Chunk.hdr c sid] }) ⟨h.slotR, h.doneR⟩ c _
      (act c sid _ hc (by rw [hpc]; rfl) rfl) (fun _ _ e => by cases e)
  | writePayload c sid hpc hw =>
    have hc : c < n := pc_lt_of_ne_idle hi (by rw [hpc]; intro e; cases e)
    exact RInv.setPc (s := { s with wire := s.wire ++ [Chunk.pay c sid], lock := none }) ⟨h.slotR, h.doneR⟩ c _
      (act c sid _ hc (by rw [hpc]; rfl) rfl) (fun _ _ e => by cases e)
  | writeFail c sid hpc =>
    have hc : c < n := pc_lt_of_ne_idle hi (by rcases hpc with e | e <;> rw [e] <;> intro e <;> cases e)
    exact RInv.setPc (s := { s with lock := none, wdead := true }) ⟨h.slotR, h.doneR⟩ c _
      (act c sid _ hc (by rcases hpc with e | e <;> rw [e] <;> rfl) (by split <;> rfl))
      (fun _ _ e => by split at e <;> cases e)
  | failNotifyNone c sid hpc hl =>
    have hc : c < n := pc_lt_of_ne_idle hi (by rw [hpc]; intro e; cases e)
    exact h.setPc c _ (act c sid _ hc (by rw [hpc]; rfl) rfl) (fun _ _ e => by cases e)
  | failNotifySome c sid ch hpc hl hsl =>
    have hc : c < n := pc_lt_of_ne_idle hi (by rw [hpc]; intro e; cases e)
    have h1 : RInv n (acts ++ [Action.callerFailNotify c])
        { s with inflight := delIf cfg s.inflight sid, chan := putChan s.chan ch .sendErr } := by
      constructor
      · intro k sid' p' hk hs
        simp only [putChan] at hs
        split at hs
        · cases hs
        · exact h.slotR k sid' p' hk hs
      · exact h.doneR
    refine h1.setPc c _ ?_ (fun _ _ e => by cases e)
    intro sid' p' hs
    have := (h1.slotR c sid' p' hc hs).1
    simp only [hpc, PC.active?] at this ⊢
    exact this
  | recvResult c sid b r hpc hsl =>
    have hc : c < n := pc_lt_of_ne_idle hi (by rw [hpc]; intro e; cases e)
    constructor
    · intro k sid' p' hk hs
      simp only [State.setPc] at hs ⊢
      split at hs
      · cases hs
      · next hne => simp only [hne, if_false]; exact h.slotR k sid' p' hk hs
    · intro k sid1 sid' p' hp
      simp only [State.setPc] at hp
      split at hp
      · next e =>
        subst e
        simp only [PC.done.injEq] at hp
        obtain ⟨rfl, rfl⟩ := hp
        have := h.slotR k sid' p' hc hsl
        rw [hpc] at this
        simp only [PC.active?, Option.some.injEq] at this
        exact ⟨this.1.symm, this.2⟩
      · exact h.doneR k sid1 sid' p' hp
  | replyNone sid p hr hl => exact ⟨h.slotR, h.doneR⟩
  | replySome sid p ch hr hl hsl =>
    constructor
    · intro k sid' p' hk hs
      simp only [putChan] at hs
      split at hs
      · next e =>
        subst e
        simp only [Option.some.injEq, Res.reply.injEq] at hs
        obtain ⟨rfl, rfl⟩ := hs
        exact ⟨hi.owner _ _ (lookupSid_mem hl) hk, List.mem_append_right _ (List.mem_singleton.mpr rfl)⟩
      · exact h.slotR k sid' p' hk hs
    · exact h.doneR
  | envFail hr => exact ⟨h.slotR, h.doneR⟩
  | closeConn hr hcfg hl => exact ⟨h.slotR, h.doneR⟩
  | noCloseConn hr hcfg => exact ⟨h.slotR, h.doneR⟩
  | bcast chan' hr hd =>
    have hsp := deliverAll_spec hd
    constructor
    · intro k sid' p' hk hs
      simp only [hsp k] at hs
      split at hs
      · cases hs
      · exact h.slotR k sid' p' hk hs
    · exact h.doneR

end Sftp.ClientConn
