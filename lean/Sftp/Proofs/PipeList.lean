import Sftp.Model.Pipe
/-
  List lemmas for the pipeline proofs: sorted insertion, `List.set` under `flatMap`, look-ups in `range'`.
-/
namespace Sftp.Pipe

theorem mem_insertBy {α : Type} (key : α → Nat) {x y : α} {l : List α} :
    y ∈ insertBy key x l ↔ y = x ∨ y ∈ l := by
  induction l with
  | nil => simp [insertBy]
  | cons z zs ih =>
    unfold insertBy
    split
    · simp
    · simp only [List.mem_cons, ih]
      constructor
      · rintro (h | h | h) <;> simp [h]
      · rintro (h | h | h) <;> simp [h]

theorem perm_insertBy {α : Type} (key : α → Nat) (x : α) (l : List α) : (insertBy key x l).Perm (x :: l) := by
  induction l with
  | nil => exact List.Perm.refl _
  | cons z zs ih =>
    unfold insertBy
    split
    · exact List.Perm.refl _
    · exact (List.Perm.cons z ih).trans (List.Perm.swap x z zs)

theorem insertBy_append {α : Type} (key : α → Nat) {x : α} {l : List α} (h : ∀ y ∈ l, key y < key x) :
    insertBy key x l = l ++ [x] := by
  induction l with
  | nil => rfl
  | cons z zs ih =>
    have hz : key z < key x := h z (by simp)
    unfold insertBy
    rw [if_neg (by omega), ih (fun y hy => h y (by simp [hy]))]
    rfl

theorem pairwise_insertBy {α : Type} (key : α → Nat) {x : α} {l : List α}
    (hs : (l.map key).Pairwise (· < ·)) (hx : key x ∉ l.map key) :
    ((insertBy key x l).map key).Pairwise (· < ·) := by
  induction l with
  | nil => simp [insertBy]
  | cons z zs ih =>
    rw [List.map_cons] at hs hx
    have hz := List.pairwise_cons.mp hs
    have hxz : key x ≠ key z := fun h => hx (by simp [h])
    have hxzs : key x ∉ zs.map key := fun h => hx (by simp [h])
    unfold insertBy
    split
    · rename_i hle
      rw [List.map_cons, List.map_cons]
      refine List.pairwise_cons.mpr ⟨?_, hs⟩
      intro a ha
      rcases List.mem_cons.mp ha with rfl | ha
      · omega
      · have := hz.1 a ha; omega
    · rename_i hle
      rw [List.map_cons]
      refine List.pairwise_cons.mpr ⟨?_, ih hz.2 hxzs⟩
      intro a ha
      rcases List.mem_map.mp ha with ⟨b, hb, rfl⟩
      rcases (mem_insertBy key).mp hb with rfl | hb
      · omega
      · exact hz.1 _ (List.mem_map.mpr ⟨b, hb, rfl⟩)

/-- Replacing position `i` (which held `y`) by `x` exchanges `f y` for `f x` in the flattened list. -/
theorem perm_flatMap_set {α β : Type} (f : α → List β) {l : List α} {i : Nat} {y : α} (x : α)
    (h : l[i]? = some y) : (f y ++ (l.set i x).flatMap f).Perm (f x ++ l.flatMap f) := by
  induction l generalizing i with
  | nil => simp at h
  | cons z zs ih =>
    cases i with
    | zero =>
      simp only [List.getElem?_cons_zero, Option.some.injEq] at h
      subst h
      simp only [List.set_cons_zero, List.flatMap_cons]
      exact List.perm_append_comm_assoc _ _ _
    | succ j =>
      simp only [List.getElem?_cons_succ] at h
      simp only [List.set_cons_succ, List.flatMap_cons]
      have := ih h
      exact (List.perm_append_comm_assoc _ _ _).trans
        ((List.Perm.append_left (f z) this).trans (List.perm_append_comm_assoc _ _ _))

theorem mem_flatMap_set {α β : Type} (f : α → List β) {l : List α} {i : Nat} {y : α} (x : α)
    (h : l[i]? = some y) {b : β} (hb : b ∈ (l.set i x).flatMap f) : b ∈ f x ∨ b ∈ l.flatMap f := by
  have := (perm_flatMap_set f x h).mem_iff (a := b)
  simp only [List.mem_append] at this
  exact this.mp (Or.inr hb)

theorem count_flatMap_set {α β : Type} [BEq β] (f : α → List β) {l : List α} {i : Nat} {y : α} (x : α)
    (h : l[i]? = some y) (b : β) :
    (f y).count b + ((l.set i x).flatMap f).count b = (f x).count b + (l.flatMap f).count b := by
  have := (perm_flatMap_set f x h).count_eq b
  simpa only [List.count_append] using this

theorem length_flatMap_set {α β : Type} (f : α → List β) {l : List α} {i : Nat} {y : α} (x : α)
    (h : l[i]? = some y) :
    (f y).length + ((l.set i x).flatMap f).length = (f x).length + (l.flatMap f).length := by
  have := (perm_flatMap_set f x h).length_eq
  simpa only [List.length_append] using this

/-- In a list numbered 1,2,3,… the element after a prefix `d` carries number `|d|+1`. -/
theorem key_at_split {α : Type} (key : α → Nat) {d rest : List α} {r : α} {n : Nat}
    (h : (d ++ r :: rest).map key = List.range' 1 n) : key r = d.length + 1 := by
  have h1 := congrArg (fun l => l[d.length]?) h
  simp only [List.map_append, List.map_cons] at h1
  rw [List.getElem?_append_right (by simp)] at h1
  simp only [List.length_map, Nat.sub_self, List.getElem?_cons_zero] at h1
  have hlen : d.length < n := by
    have := congrArg List.length h
    simp at this
    omega
  rw [List.getElem?_range' hlen] at h1
  simp only [Option.some.injEq] at h1
  omega

/-- In a list numbered 1,2,3,… an element with number `k+1` sits at index `k`. -/
theorem getElem?_of_key {α : Type} (key : α → Nat) {l : List α}
    (h : l.map key = List.range' 1 l.length) {r : α} (hr : r ∈ l) {k : Nat} (hk : key r = k + 1) :
    l[k]? = some r := by
  obtain ⟨j, hj, rfl⟩ := List.getElem_of_mem hr
  have h1 := congrArg (fun m => m[j]?) h
  simp only [List.getElem?_map, List.getElem?_eq_getElem hj, Option.map_some] at h1
  rw [List.getElem?_range' hj] at h1
  simp only [Option.some.injEq] at h1
  have : j = k := by omega
  subst this
  exact List.getElem?_eq_getElem hj

/-! ### folding the (sorted) append over a whole channel: the drain loop of the `fini` branch -/

theorem perm_add {α : Type} (key : α → Nat) (b : Bool) (p : α) (l : List α) :
    (if b = true then insertBy key p l else l ++ [p]).Perm (p :: l) := by
  cases b
  · exact List.perm_append_singleton p l
  · exact perm_insertBy _ p l

theorem perm_foldl_add {α : Type} (key : α → Nat) (b : Bool) (rq acc : List α) :
    (rq.foldl (fun acc p => if b = true then insertBy key p acc else acc ++ [p]) acc).Perm (acc ++ rq) := by
  induction rq generalizing acc with
  | nil => simp
  | cons p rest ih =>
    rw [List.foldl_cons]
    refine (ih _).trans ?_
    exact (List.Perm.append_right rest (perm_add key b p acc)).trans List.perm_middle.symm

/-- appending a block that continues a strictly increasing list needs no sorting -/
theorem foldl_add_eq_append {α : Type} (key : α → Nat) (b : Bool) (rq acc : List α)
    (h : ((acc ++ rq).map key).Pairwise (· < ·)) :
    rq.foldl (fun acc p => if b = true then insertBy key p acc else acc ++ [p]) acc = acc ++ rq := by
  induction rq generalizing acc with
  | nil => simp
  | cons p rest ih =>
    rw [List.foldl_cons]
    have hlt : ∀ y ∈ acc, key y < key p := by
      intro y hy
      rw [List.map_append, List.map_cons] at h
      exact (List.pairwise_append.mp h).2.2 _ (List.mem_map.mpr ⟨y, hy, rfl⟩) _ (by simp)
    have hnew : (if b = true then insertBy key p acc else acc ++ [p]) = acc ++ [p] := by
      split
      · exact insertBy_append _ hlt
      · rfl
    rw [hnew, ih _ (by simpa using h)]
    simp

theorem pairwise_foldl_insert {α : Type} (key : α → Nat) (rq acc : List α)
    (hs : (acc.map key).Pairwise (· < ·)) (hnd : ((acc ++ rq).map key).Nodup) :
    ((rq.foldl (fun acc p => insertBy key p acc) acc).map key).Pairwise (· < ·) := by
  induction rq generalizing acc with
  | nil => exact hs
  | cons p rest ih =>
    rw [List.foldl_cons]
    have hperm : ((insertBy key p acc ++ rest).map key).Perm ((acc ++ p :: rest).map key) :=
      ((List.Perm.append_right rest (perm_insertBy key p acc)).trans List.perm_middle.symm).map key
    have hnot : key p ∉ acc.map key := by
      intro hm
      rw [List.map_append, List.map_cons, List.nodup_append] at hnd
      exact hnd.2.2 _ hm _ (by simp) rfl
    exact ih _ (pairwise_insertBy key hs hnot) (hperm.nodup_iff.mpr hnd)

end Sftp.Pipe
