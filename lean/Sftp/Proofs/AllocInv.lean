import Sftp.Proofs.Alloc
/-
  Helper lemmas for C18: the session invariant and its preservation by every action.
-/
namespace Sftp.Alloc
open Sftp

structure Inv (s : State) : Prop where
  ainv : AInv s.a
  send_le : s.g.nextSend ≤ s.g.nextOid
  gout_lt : ∀ o, s.g.nextOid ≤ o → s.g.gout o = none
  sent_gout : ∀ o, o < s.g.nextSend → s.g.gout o ≠ none
  rel_sent : ∀ o, s.g.released o = true → o < s.g.nextSend
  pend_held : s.g.freed = false → s.g.pending = true → (s.g.nextOid, s.pendPage) ∈ s.a.used
  page_held : s.g.freed = false → ∀ o, o < s.g.nextOid → s.g.released o = false → (o, s.page o) ∈ s.a.used
  ref_held : s.g.freed = false → ∀ o p n, o < s.g.nextOid → s.g.released o = false →
    s.resp o = some (.ref p n) → (o, p) ∈ s.a.used
  keys : ∀ e ∈ s.a.used, (e = (s.g.nextOid, s.pendPage) ∧ s.g.pending = true) ∨
    (e.1 < s.g.nextOid ∧ s.g.released e.1 = false)
  heap_in : ∀ o, o < s.g.nextOid → s.g.gout o = none → s.heap (s.page o) = s.g.gin o
  heap_out : ∀ o b, s.g.nextSend ≤ o → s.g.gout o = some b →
    ∃ r, s.resp o = some r ∧ resolve s.heap r = b
  resp_lt : ∀ o, s.g.nextOid ≤ o → s.resp o = none
  wire_ideal : s.wire = s.g.ideal
  no_panic : s.panicked = false
  freed_empty : s.g.freed = true → s.a.available = [] ∧ s.a.used = []
  taken_lt : ∀ o, s.g.nextOid ≤ o → s.g.taken o = false
  taken_held : s.g.freed = false → ∀ o, o < s.g.nextOid → s.g.taken o = true → s.g.released o = false →
    (o, s.dpage o) ∈ s.a.used
  taken_ne : s.g.freed = false → ∀ o, o < s.g.nextOid → s.g.taken o = true → s.g.released o = false →
    s.dpage o ≠ s.page o
  fill_ok : ∀ o, o < s.g.nextOid → s.g.taken o = true → s.g.gout o = none →
    (s.heap (s.dpage o)).take (s.g.gdata o).length = s.g.gdata o

theorem Inv.init : Inv State.init := by
  refine ⟨AInv.empty, ?_, ?_, ?_, ?_, ?_, ?_, ?_, ?_, ?_, ?_, ?_, ?_, ?_, ?_, ?_, ?_, ?_, ?_⟩ <;>
    simp [State.init, Ctl.init, Alloc.empty]

theorem step_some {cfg : Cfg} {s s' : State} {act : Action} (h : step cfg s act = some s') :
    ∃ g', cstep cfg s.g act = some g' ∧ s' = apply cfg s g' act := by
  unfold step at h
  split at h
  · next g' hg' => exact ⟨g', hg', by injection h with h; exact h.symm⟩
  · cases h

/-- unreleased ⇐ not yet answered. -/
theorem Inv.unanswered_unreleased {s : State} (hi : Inv s) {o : Nat} (h : s.g.gout o = none) :
    s.g.released o = false := by
  cases hr : s.g.released o with
  | false => rfl
  | true => exact absurd h (hi.sent_gout o (hi.rel_sent o hr))

theorem Inv.unsent_unreleased {s : State} (hi : Inv s) {o : Nat} (h : s.g.nextSend ≤ o) :
    s.g.released o = false := by
  cases hr : s.g.released o with
  | false => rfl
  | true => have := hi.rel_sent o hr; omega

theorem inv_lend {cfg : Cfg} (hg : Good cfg) {s s' : State} (hi : Inv s)
    (h : step cfg s .lend = some s') : Inv s' := by
  obtain ⟨g', hc, rfl⟩ := step_some h
  simp only [cstep] at hc
  split at hc
  case isFalse => cases hc
  next hpre =>
  injection hc with hc; subst hc
  obtain ⟨hfr, hpe⟩ := hpre
  have sp := getPage_spec hg hi.ainv s.g.nextOid
  simp only [apply]
  refine ⟨sp.inv, hi.send_le, hi.gout_lt, hi.sent_gout, hi.rel_sent, ?_, ?_, ?_, ?_, hi.heap_in, hi.heap_out,
    hi.resp_lt, hi.wire_ideal, hi.no_panic, ?_, hi.taken_lt, ?_, hi.taken_ne, hi.fill_ok⟩
  · intro _ _; simp only; rw [sp.used_eq]; simp
  · intro _ o ho hr; simp only; rw [sp.used_eq]
    exact List.mem_append_left _ (hi.page_held hfr o ho hr)
  · intro _ o p n ho hr hrs; simp only; rw [sp.used_eq]
    exact List.mem_append_left _ (hi.ref_held hfr o p n ho hr hrs)
  · intro e he; simp only at he ⊢; rw [sp.used_eq] at he
    simp only [List.mem_append, List.mem_cons, List.not_mem_nil, or_false] at he
    rcases he with he | he
    · rcases hi.keys e he with h1 | h1
      · rw [hpe] at h1; exact absurd h1.2 (by simp)
      · exact Or.inr h1
    · subst he; exact Or.inl (by simp)
  · intro hf; simp only at hf; rw [hfr] at hf; cases hf
  · intro _ o ho ht hr; simp only; rw [sp.used_eq]
    exact List.mem_append_left _ (hi.taken_held hfr o ho ht hr)


theorem resolve_upd_of_ne (heap : PageId → Bytes) (q : PageId) (v : Bytes) (r : Resp)
    (h : ∀ p n, r = .ref p n → p ≠ q) : resolve (upd heap q v) r = resolve heap r := by
  cases r with
  | inline b => rfl
  | ref p n => simp only [resolve]; rw [upd_other _ _ _ _ (h p n rfl)]

theorem mem_usedPages {a : Alloc} {o : Nat} {p : PageId} (h : (o, p) ∈ a.used) : p ∈ a.usedPages :=
  List.mem_map.mpr ⟨(o, p), h, rfl⟩

theorem inv_arrive {cfg : Cfg} {s s' : State} {b : Bytes} (hi : Inv s)
    (h : step cfg s (.arrive b) = some s') : Inv s' := by
  obtain ⟨g', hc, rfl⟩ := step_some h
  simp only [cstep] at hc
  split at hc
  case isFalse => cases hc
  next hpre =>
  injection hc with hc; subst hc
  obtain ⟨hfr, hpe⟩ := hpre
  have hP := hi.pend_held hfr hpe
  have hsl := hi.send_le
  simp only [apply]
  refine ⟨hi.ainv, ?_, ?_, hi.sent_gout, hi.rel_sent, ?_, ?_, ?_, ?_, ?_, ?_, ?_, hi.wire_ideal, hi.no_panic, ?_, ?_, ?_, ?_, ?_⟩
  · simp only; omega
  · intro o ho; simp only at ho ⊢; exact hi.gout_lt o (by omega)
  · intro _ hp; simp only at hp; cases hp
  · intro _ o ho hr; simp only at ho hr ⊢
    by_cases hoN : o = s.g.nextOid
    · subst hoN; rw [upd_same]; exact hP
    · rw [upd_other _ _ _ _ hoN]; exact hi.page_held hfr o (by omega) hr
  · intro _ o p n ho hr hrs; simp only at ho hr hrs ⊢
    by_cases hoN : o = s.g.nextOid
    · subst hoN; rw [hi.resp_lt _ (Nat.le_refl _)] at hrs; cases hrs
    · exact hi.ref_held hfr o p n (by omega) hr hrs
  · intro e he; simp only at he ⊢
    rcases hi.keys e he with h1 | h1
    · right; rw [h1.1]; exact ⟨Nat.lt_succ_self _, hi.unsent_unreleased hsl⟩
    · right; exact ⟨by omega, h1.2⟩
  · intro o ho hgo; simp only at ho hgo ⊢
    by_cases hoN : o = s.g.nextOid
    · subst hoN; simp [upd_same]
    · rw [upd_other _ _ _ _ hoN, upd_other _ _ _ _ hoN]
      have hpo := hi.page_held hfr o (by omega) (hi.unanswered_unreleased hgo)
      have hne : s.page o ≠ s.pendPage := by
        intro he; rw [he] at hpo; exact hoN (used_key_unique hi.ainv hpo hP)
      rw [upd_other _ _ _ _ hne]
      exact hi.heap_in o (by omega) hgo
  · intro o b' ho hgo; simp only at ho hgo ⊢
    obtain ⟨r, hr1, hr2⟩ := hi.heap_out o b' ho hgo
    refine ⟨r, hr1, ?_⟩
    rw [resolve_upd_of_ne]; · exact hr2
    intro p n hrp hpq
    subst hrp; subst hpq
    have hoN : o < s.g.nextOid := by
      apply Nat.lt_of_not_le; intro hle; rw [hi.gout_lt o hle] at hgo; cases hgo
    have := used_key_unique hi.ainv (hi.ref_held hfr o _ n hoN (hi.unsent_unreleased ho) hr1) hP
    omega
  · intro o ho; simp only at ho ⊢; exact hi.resp_lt o (by omega)
  · intro hf; simp only at hf; rw [hfr] at hf; cases hf
  · intro o ho; simp only at ho ⊢; exact hi.taken_lt o (by omega)
  · intro _ o ho ht hr; simp only at ho ht hr ⊢
    have hoN : o ≠ s.g.nextOid := by intro he; subst he; rw [hi.taken_lt _ (Nat.le_refl _)] at ht; cases ht
    exact hi.taken_held hfr o (by omega) ht hr
  · intro _ o ho ht hr; simp only at ho ht hr ⊢
    have hoN : o ≠ s.g.nextOid := by intro he; subst he; rw [hi.taken_lt _ (Nat.le_refl _)] at ht; cases ht
    rw [upd_other _ _ _ _ hoN]
    exact hi.taken_ne hfr o (by omega) ht hr
  · intro o ho ht hgo; simp only at ho ht hgo ⊢
    have hoN : o ≠ s.g.nextOid := by intro he; subst he; rw [hi.taken_lt _ (Nat.le_refl _)] at ht; cases ht
    have hd := hi.taken_held hfr o (by omega) ht (hi.unanswered_unreleased hgo)
    have hne : s.dpage o ≠ s.pendPage := by
      intro he; rw [he] at hd; exact hoN (used_key_unique hi.ainv hd hP)
    rw [upd_other _ _ _ _ hne]
    exact hi.fill_ok o (by omega) ht hgo


theorem inv_handlerTake {cfg : Cfg} (hg : Good cfg) {s s' : State} {oid len : Nat} (hi : Inv s)
    (h : step cfg s (.handlerTake oid len) = some s') : Inv s' := by
  obtain ⟨g', hc, rfl⟩ := step_some h
  simp only [cstep] at hc
  split at hc
  case isFalse => cases hc
  next hpre =>
  injection hc with hc; subst hc
  obtain ⟨hfr, hlt, hgn, htk, hlen⟩ := hpre
  have sp := getPage_spec hg hi.ainv oid
  have hrel := hi.unanswered_unreleased hgn
  simp only [apply]
  refine ⟨sp.inv, hi.send_le, hi.gout_lt, hi.sent_gout, hi.rel_sent, ?_, ?_, ?_, ?_, hi.heap_in, hi.heap_out,
    hi.resp_lt, hi.wire_ideal, ?_, ?_, ?_, ?_, ?_, ?_⟩
  · intro _ hp; simp only at hp ⊢; rw [sp.used_eq]
    exact List.mem_append_left _ (hi.pend_held hfr hp)
  · intro _ o ho hr; simp only at ho hr ⊢; rw [sp.used_eq]
    exact List.mem_append_left _ (hi.page_held hfr o ho hr)
  · intro _ o p n ho hr hrs; simp only at ho hr hrs ⊢; rw [sp.used_eq]
    exact List.mem_append_left _ (hi.ref_held hfr o p n ho hr hrs)
  · intro e he; simp only at he ⊢; rw [sp.used_eq] at he
    simp only [List.mem_append, List.mem_cons, List.not_mem_nil, or_false] at he
    rcases he with he | he
    · exact hi.keys e he
    · subst he; exact Or.inr ⟨hlt, hrel⟩
  · simp only; rw [hi.no_panic]
    have : ¬ cfg.pageSize < len := by have := hg.size; omega
    simp [this]
  · intro hf; simp only at hf; rw [hfr] at hf; cases hf
  · intro o ho; simp only at ho ⊢
    rw [upd_other _ _ _ _ (by omega)]; exact hi.taken_lt o ho
  · intro _ o ho ht hr; simp only at ho ht hr ⊢; rw [sp.used_eq]
    by_cases hoo : o = oid
    · subst hoo; rw [upd_same]; simp
    · rw [upd_other _ _ _ _ hoo] at ht ⊢
      exact List.mem_append_left _ (hi.taken_held hfr o ho ht hr)
  · intro _ o ho ht hr; simp only at ho ht hr ⊢
    by_cases hoo : o = oid
    · subst hoo; rw [upd_same]
      intro he
      have := mem_usedPages (hi.page_held hfr o ho hr)
      rw [← he] at this; exact sp.not_used this
    · rw [upd_other _ _ _ _ hoo] at ht ⊢
      exact hi.taken_ne hfr o ho ht hr
  · intro o ho ht hgo; simp only at ho ht hgo ⊢
    by_cases hoo : o = oid
    · subst hoo; simp [upd_same]
    · rw [upd_other _ _ _ _ hoo] at ht ⊢
      rw [upd_other _ _ _ _ hoo]
      exact hi.fill_ok o ho ht hgo

theorem inv_handlerFill {cfg : Cfg} {s s' : State} {oid : Nat} {data : Bytes} (hi : Inv s)
    (h : step cfg s (.handlerFill oid data) = some s') : Inv s' := by
  obtain ⟨g', hc, rfl⟩ := step_some h
  simp only [cstep] at hc
  split at hc
  case isFalse => cases hc
  next hpre =>
  injection hc with hc; subst hc
  obtain ⟨hfr, hlt, hgn, htk⟩ := hpre
  have hrel := hi.unanswered_unreleased hgn
  have hD := hi.taken_held hfr oid hlt htk hrel
  simp only [apply]
  refine ⟨hi.ainv, hi.send_le, hi.gout_lt, hi.sent_gout, hi.rel_sent, hi.pend_held, hi.page_held, hi.ref_held,
    hi.keys, ?_, ?_, hi.resp_lt, hi.wire_ideal, hi.no_panic, hi.freed_empty, hi.taken_lt, hi.taken_held,
    hi.taken_ne, ?_⟩
  · intro o ho hgo; simp only at ho hgo ⊢
    have hne : s.page o ≠ s.dpage oid := by
      by_cases hoo : o = oid
      · subst hoo; exact fun he => hi.taken_ne hfr o ho htk hrel he.symm
      · intro he
        have hpo := hi.page_held hfr o ho (hi.unanswered_unreleased hgo)
        rw [he] at hpo; exact hoo (used_key_unique hi.ainv hpo hD)
    rw [upd_other _ _ _ _ hne]
    exact hi.heap_in o ho hgo
  · intro o b' ho hgo; simp only at ho hgo ⊢
    obtain ⟨r, hr1, hr2⟩ := hi.heap_out o b' ho hgo
    refine ⟨r, hr1, ?_⟩
    rw [resolve_upd_of_ne]; · exact hr2
    intro p n hrp hpq
    subst hrp; subst hpq
    have hoN : o < s.g.nextOid := by
      apply Nat.lt_of_not_le; intro hle; rw [hi.gout_lt o hle] at hgo; cases hgo
    have := used_key_unique hi.ainv (hi.ref_held hfr o _ n hoN (hi.unsent_unreleased ho) hr1) hD
    subst this; rw [hgn] at hgo; cases hgo
  · intro o ho ht hgo; simp only at ho ht hgo ⊢
    by_cases hoo : o = oid
    · subst hoo; simp [upd_same]
    · rw [upd_other _ _ _ _ hoo]
      have hd := hi.taken_held hfr o ho ht (hi.unanswered_unreleased hgo)
      have hne : s.dpage o ≠ s.dpage oid := by
        intro he; rw [he] at hd; exact hoo (used_key_unique hi.ainv hd hD)
      rw [upd_other _ _ _ _ hne]
      exact hi.fill_ok o ho ht hgo

theorem inv_handlerData {cfg : Cfg} {s s' : State} {oid n : Nat} (hi : Inv s)
    (h : step cfg s (.handlerData oid n) = some s') : Inv s' := by
  obtain ⟨g', hc, rfl⟩ := step_some h
  simp only [cstep] at hc
  split at hc
  case isFalse => cases hc
  next hpre =>
  injection hc with hc; subst hc
  obtain ⟨hfr, hlt, hgn, htk, hn⟩ := hpre
  have hrel := hi.unanswered_unreleased hgn
  have hD := hi.taken_held hfr oid hlt htk hrel
  simp only [apply]
  refine ⟨hi.ainv, hi.send_le, ?_, ?_, hi.rel_sent, hi.pend_held, hi.page_held, ?_, hi.keys, ?_, ?_, ?_,
    hi.wire_ideal, hi.no_panic, hi.freed_empty, hi.taken_lt, hi.taken_held, hi.taken_ne, ?_⟩
  · intro o ho; simp only at ho ⊢
    rw [upd_other _ _ _ _ (by omega)]; exact hi.gout_lt o ho
  · intro o ho; simp only at ho ⊢
    by_cases hoo : o = oid
    · subst hoo; simp [upd_same]
    · rw [upd_other _ _ _ _ hoo]; exact hi.sent_gout o ho
  · intro _ o p m ho hr hrs; simp only at ho hr hrs ⊢
    by_cases hoo : o = oid
    · subst hoo; rw [upd_same] at hrs
      injection hrs with hrs; injection hrs with h1 h2
      subst h1; exact hD
    · rw [upd_other _ _ _ _ hoo] at hrs
      exact hi.ref_held hfr o p m ho hr hrs
  · intro o ho hgo; simp only at ho hgo ⊢
    have hoo : o ≠ oid := by intro he; subst he; rw [upd_same] at hgo; cases hgo
    rw [upd_other _ _ _ _ hoo] at hgo
    exact hi.heap_in o ho hgo
  · intro o b' ho hgo; simp only at ho hgo ⊢
    by_cases hoo : o = oid
    · subst hoo; rw [upd_same] at hgo ⊢
      injection hgo with hgo; subst hgo
      refine ⟨_, rfl, ?_⟩
      simp only [resolve]
      have hf := hi.fill_ok o hlt htk hgn
      calc (s.heap (s.dpage o)).take n
          = ((s.heap (s.dpage o)).take (s.g.gdata o).length).take n := by
            rw [List.take_take, Nat.min_eq_left hn]
        _ = (s.g.gdata o).take n := by rw [hf]
    · rw [upd_other _ _ _ _ hoo] at hgo ⊢
      exact hi.heap_out o b' ho hgo
  · intro o ho; simp only at ho ⊢
    rw [upd_other _ _ _ _ (by omega)]; exact hi.resp_lt o ho
  · intro o ho ht hgo; simp only at ho ht hgo ⊢
    have hoo : o ≠ oid := by intro he; subst he; rw [upd_same] at hgo; cases hgo
    rw [upd_other _ _ _ _ hoo] at hgo
    exact hi.fill_ok o ho ht hgo

/-- Common part of `handlerOther` and `handlerEcho`: a response that owns its bytes. -/
theorem inv_inline {s : State} (hi : Inv s) {oid : Nat} (v : Bytes)
    (hfr : s.g.freed = false) (hlt : oid < s.g.nextOid) (hgn : s.g.gout oid = none) :
    Inv { s with resp := upd s.resp oid (some (.inline v)),
                 g := { s.g with gout := upd s.g.gout oid (some v) } } := by
  refine ⟨hi.ainv, hi.send_le, ?_, ?_, hi.rel_sent, hi.pend_held, hi.page_held, ?_, hi.keys, ?_, ?_, ?_,
    hi.wire_ideal, hi.no_panic, hi.freed_empty, hi.taken_lt, hi.taken_held, hi.taken_ne, ?_⟩
  · intro o ho; simp only at ho ⊢
    rw [upd_other _ _ _ _ (by omega)]; exact hi.gout_lt o ho
  · intro o ho; simp only at ho ⊢
    by_cases hoo : o = oid
    · subst hoo; simp [upd_same]
    · rw [upd_other _ _ _ _ hoo]; exact hi.sent_gout o ho
  · intro _ o p n ho hr hrs; simp only at ho hr hrs ⊢
    by_cases hoo : o = oid
    · subst hoo; rw [upd_same] at hrs; injection hrs with hrs; cases hrs
    · rw [upd_other _ _ _ _ hoo] at hrs
      exact hi.ref_held hfr o p n ho hr hrs
  · intro o ho hgo; simp only at ho hgo ⊢
    have hoo : o ≠ oid := by intro he; subst he; rw [upd_same] at hgo; cases hgo
    rw [upd_other _ _ _ _ hoo] at hgo
    exact hi.heap_in o ho hgo
  · intro o b' ho hgo; simp only at ho hgo ⊢
    by_cases hoo : o = oid
    · subst hoo; rw [upd_same] at hgo ⊢
      injection hgo with hgo; subst hgo
      exact ⟨_, rfl, rfl⟩
    · rw [upd_other _ _ _ _ hoo] at hgo ⊢
      exact hi.heap_out o b' ho hgo
  · intro o ho; simp only at ho ⊢
    rw [upd_other _ _ _ _ (by omega)]; exact hi.resp_lt o ho
  · intro o ho ht hgo; simp only at ho ht hgo ⊢
    have hoo : o ≠ oid := by intro he; subst he; rw [upd_same] at hgo; cases hgo
    rw [upd_other _ _ _ _ hoo] at hgo
    exact hi.fill_ok o ho ht hgo


theorem inv_handlerOther {cfg : Cfg} {s s' : State} {oid : Nat} {b : Bytes} (hi : Inv s)
    (h : step cfg s (.handlerOther oid b) = some s') : Inv s' := by
  obtain ⟨g', hc, rfl⟩ := step_some h
  simp only [cstep] at hc
  split at hc
  case isFalse => cases hc
  next hpre =>
  injection hc with hc; subst hc
  exact inv_inline hi b hpre.1 hpre.2.1 hpre.2.2

theorem inv_handlerEcho {cfg : Cfg} {s s' : State} {oid : Nat} (hi : Inv s)
    (h : step cfg s (.handlerEcho oid) = some s') : Inv s' := by
  obtain ⟨g', hc, rfl⟩ := step_some h
  simp only [cstep] at hc
  split at hc
  case isFalse => cases hc
  next hpre =>
  injection hc with hc; subst hc
  have := inv_inline hi (s.heap (s.page oid)) hpre.1 hpre.2.1 hpre.2.2
  rw [hi.heap_in oid hpre.2.1 hpre.2.2] at this
  simp only [apply]
  rw [hi.heap_in oid hpre.2.1 hpre.2.2]
  exact this

theorem inv_send {cfg : Cfg} {s s' : State} {oid : Nat} (hi : Inv s)
    (h : step cfg s (.send oid) = some s') : Inv s' := by
  obtain ⟨g', hc, rfl⟩ := step_some h
  simp only [cstep] at hc
  split at hc
  case isFalse => cases hc
  next hpre =>
  split at hc
  case h_2 => cases hc
  next b hb =>
  injection hc with hc; subst hc
  obtain ⟨hoid, hlt⟩ := hpre
  subst hoid
  simp only [apply]
  refine ⟨hi.ainv, ?_, hi.gout_lt, ?_, ?_, hi.pend_held, hi.page_held, hi.ref_held, hi.keys, hi.heap_in, ?_,
    hi.resp_lt, ?_, hi.no_panic, hi.freed_empty, hi.taken_lt, hi.taken_held, hi.taken_ne, hi.fill_ok⟩
  · simp only; omega
  · intro o ho; simp only at ho ⊢
    by_cases hoo : o = s.g.nextSend
    · subst hoo; rw [hb]; simp
    · exact hi.sent_gout o (by omega)
  · intro o ho; simp only at ho ⊢
    have := hi.rel_sent o ho; omega
  · intro o b' ho hgo; simp only at ho hgo ⊢
    exact hi.heap_out o b' (by omega) hgo
  · simp only
    obtain ⟨r, hr1, hr2⟩ := hi.heap_out s.g.nextSend b (Nat.le_refl _) hb
    rw [hr1, hi.wire_ideal]; simp only; rw [hr2]


theorem inv_release {cfg : Cfg} (hg : Good cfg) {s s' : State} {oid : Nat} (hi : Inv s)
    (h : step cfg s (.release oid) = some s') : Inv s' := by
  obtain ⟨g', hc, rfl⟩ := step_some h
  simp only [cstep, hg.ras, ↓reduceIte] at hc
  split at hc
  case isFalse => cases hc
  next hpre =>
  injection hc with hc; subst hc
  obtain ⟨hlt, hrel, hsent⟩ := hpre
  simp only [apply]
  have hu := release_used hg s.a oid
  refine ⟨release_inv hg hi.ainv oid, hi.send_le, hi.gout_lt, hi.sent_gout, ?_, ?_, ?_, ?_, ?_, hi.heap_in,
    hi.heap_out, hi.resp_lt, hi.wire_ideal, hi.no_panic, ?_, hi.taken_lt, ?_, ?_, hi.fill_ok⟩
  · intro o ho; simp only at ho ⊢
    by_cases hoo : o = oid
    · subst hoo; exact hsent
    · rw [upd_other _ _ _ _ hoo] at ho; exact hi.rel_sent o ho
  · intro hfr hp; simp only at hfr hp ⊢; rw [hu]
    refine List.mem_filter.mpr ⟨hi.pend_held hfr hp, ?_⟩
    have : s.g.nextOid ≠ oid := by omega
    simp [this]
  · intro hfr o ho hr; simp only at hfr ho hr ⊢; rw [hu]
    have hoo : o ≠ oid := by intro he; subst he; rw [upd_same] at hr; cases hr
    rw [upd_other _ _ _ _ hoo] at hr
    exact List.mem_filter.mpr ⟨hi.page_held hfr o ho hr, by simp [hoo]⟩
  · intro hfr o p n ho hr hrs; simp only at hfr ho hr hrs ⊢; rw [hu]
    have hoo : o ≠ oid := by intro he; subst he; rw [upd_same] at hr; cases hr
    rw [upd_other _ _ _ _ hoo] at hr
    exact List.mem_filter.mpr ⟨hi.ref_held hfr o p n ho hr hrs, by simp [hoo]⟩
  · intro e he; simp only at he ⊢; rw [hu] at he
    obtain ⟨he1, he2⟩ := List.mem_filter.mp he
    have hoo : e.1 ≠ oid := by simpa using he2
    rw [upd_other _ _ _ _ hoo]
    exact hi.keys e he1
  · intro hf; simp only at hf ⊢
    obtain ⟨h1, h2⟩ := hi.freed_empty hf
    rw [hu]
    simp [releasePages, Alloc.pagesOf, h1, h2]
  · intro hfr o ho ht hr; simp only at hfr ho ht hr ⊢; rw [hu]
    have hoo : o ≠ oid := by intro he; subst he; rw [upd_same] at hr; cases hr
    rw [upd_other _ _ _ _ hoo] at hr
    exact List.mem_filter.mpr ⟨hi.taken_held hfr o ho ht hr, by simp [hoo]⟩
  · intro hfr o ho ht hr; simp only at hfr ho ht hr ⊢
    have hoo : o ≠ oid := by intro he; subst he; rw [upd_same] at hr; cases hr
    rw [upd_other _ _ _ _ hoo] at hr
    exact hi.taken_ne hfr o ho ht hr


theorem inv_free {cfg : Cfg} {s s' : State} (hi : Inv s)
    (h : step cfg s .free = some s') : Inv s' := by
  obtain ⟨g', hc, rfl⟩ := step_some h
  simp only [cstep] at hc
  injection hc with hc; subst hc
  simp only [apply]
  refine ⟨free_inv hi.ainv, hi.send_le, hi.gout_lt, hi.sent_gout, hi.rel_sent, ?_, ?_, ?_, ?_, hi.heap_in,
    hi.heap_out, hi.resp_lt, hi.wire_ideal, hi.no_panic, ?_, hi.taken_lt, ?_, ?_, hi.fill_ok⟩
  · intro hf; simp only at hf; cases hf
  · intro hf; simp only at hf; cases hf
  · intro hf; simp only at hf; cases hf
  · intro e he; simp only [freeAll] at he; cases he
  · intro _; exact ⟨rfl, rfl⟩
  · intro hf; simp only at hf; cases hf
  · intro hf; simp only at hf; cases hf


theorem step_inv {cfg : Cfg} (hg : Good cfg) {s s' : State} {act : Action} (hi : Inv s)
    (h : step cfg s act = some s') : Inv s' := by
  cases act with
  | lend => exact inv_lend hg hi h
  | arrive b => exact inv_arrive hi h
  | handlerTake oid len => exact inv_handlerTake hg hi h
  | handlerFill oid data => exact inv_handlerFill hi h
  | handlerData oid n => exact inv_handlerData hi h
  | handlerOther oid b => exact inv_handlerOther hi h
  | handlerEcho oid => exact inv_handlerEcho hi h
  | send oid => exact inv_send hi h
  | release oid => exact inv_release hg hi h
  | free => exact inv_free hi h

theorem run_inv {cfg : Cfg} (hg : Good cfg) : ∀ (acts : List Action) {s s' : State}, Inv s →
    run cfg s acts = some s' → Inv s'
  | [], s, s', hi, h => by simp only [run] at h; injection h with h; subst h; exact hi
  | a :: as, s, s', hi, h => by
    simp only [run] at h
    split at h
    · next s1 h1 => exact run_inv hg as (step_inv hg hi h1) h
    · cases h

end Sftp.Alloc
