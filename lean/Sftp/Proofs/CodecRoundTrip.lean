import Sftp.Model.Codec
/-
  Generic lemmas for C06: well-formedness and decode ∘ encode = id, field by field.
-/
namespace Sftp.Codec
open Sftp

/-! ### primitives -/

theorem rdU8_cons (sf : Bool) (x : UInt8) (r : Bytes) : rdU8 sf (x :: r) = .ok (x.toNat, r) := rfl

theorem rdU32_be32 (sf : Bool) (v : Nat) (h : v < 2^32) (r : Bytes) :
    rdU32 sf (be32 v ++ r) = .ok (v, r) := by
  cases sf
  · rw [rdU32, if_neg (by decide), goU32, get32?_be32 v h r]
  · rw [rdU32, if_pos rfl, goU32Safe, get32?_be32 v h r]

theorem rdU64_be64 (sf : Bool) (v : Nat) (h : v < 2^64) (r : Bytes) :
    rdU64 sf (be64 v ++ r) = .ok (v, r) := by
  cases sf
  · rw [rdU64, if_neg (by decide), goU64, get64?_be64 v h r]
  · rw [rdU64, if_pos rfl, goU64Safe, get64?_be64 v h r]

theorem rdStr_putStr (sf : Bool) (s : Bytes) (h : s.length < 2^32) (r : Bytes) :
    rdStr sf (putStr s ++ r) = .ok (s, r) := by
  cases sf
  · rw [rdStr, if_neg (by decide), goStr, putStr, List.append_assoc, get32?_be32 _ h]
    simp only [List.length_append, Nat.le_add_right, if_true, List.take_left', List.drop_left']
  · rw [rdStr, if_pos rfl, goStrSafe, getStr?_putStr s h r]

theorem optU32_enc (sf c : Bool) (v : Nat) (h : v < 2^32) (hz : c = false → v = 0) (r : Bytes) :
    optU32 sf c (optBytes c (be32 v) ++ r) = .ok (v, r) := by
  cases c
  · simp [optU32, optBytes, hz rfl]
  · simp [optU32, optBytes, rdU32_be32 sf v h r]

theorem optU64_enc (sf c : Bool) (v : Nat) (h : v < 2^64) (hz : c = false → v = 0) (r : Bytes) :
    optU64 sf c (optBytes c (be64 v) ++ r) = .ok (v, r) := by
  cases c
  · simp [optU64, optBytes, hz rfl]
  · simp [optU64, optBytes, rdU64_be64 sf v h r]

/-! ### (type, data) pairs -/

def PairsWf (l : List (Bytes × Bytes)) : Prop := ∀ p ∈ l, p.1.length < 2^32 ∧ p.2.length < 2^32

instance (l : List (Bytes × Bytes)) : Decidable (PairsWf l) :=
  inferInstanceAs (Decidable (∀ p ∈ l, p.1.length < 2^32 ∧ p.2.length < 2^32))

theorem PairsWf.tail {p : Bytes × Bytes} {l : List (Bytes × Bytes)} (h : PairsWf (p :: l)) : PairsWf l :=
  fun q hq => h q (List.mem_cons_of_mem _ hq)

theorem PairsWf.head {p : Bytes × Bytes} {l : List (Bytes × Bytes)} (h : PairsWf (p :: l)) :
    p.1.length < 2^32 ∧ p.2.length < 2^32 := h p (List.mem_cons_self ..)

/-- Each pair occupies at least eight bytes: the count guard of `unmarshalFileStat` never rejects
an encoded block. -/
theorem encPairs_length (l : List (Bytes × Bytes)) : 8 * l.length ≤ (encPairs l).length := by
  induction l with
  | nil => simp [encPairs]
  | cons p l ih =>
    simp only [encPairs, List.length_append, length_putStr, List.length_cons]
    omega

theorem decPairsN_enc (sf : Bool) (l : List (Bytes × Bytes)) (h : PairsWf l) (r : Bytes) :
    decPairsN sf l.length (encPairs l ++ r) = .ok (l, r) := by
  induction l with
  | nil => simp [decPairsN, encPairs]
  | cons p l ih =>
    have hp := h.head
    simp only [List.length_cons, encPairs, List.append_assoc]
    rw [decPairsN, rdStr_putStr sf _ hp.1]
    rw [Outcome.bind_ok]; dsimp only
    rw [rdStr_putStr sf _ hp.2]
    rw [Outcome.bind_ok]; dsimp only
    rw [ih h.tail]
    simp

theorem decPairsAll_succ (sf : Bool) (fuel : Nat) (bs : Bytes) (h : bs ≠ []) :
    decPairsAll sf (fuel + 1) bs =
      (rdStr sf bs).bind fun k => (rdStr sf k.2).bind fun v =>
        (decPairsAll sf fuel v.2).bind fun l => .ok ((k.1, v.1) :: l) := by
  cases bs with
  | nil => exact absurd rfl h
  | cons x xs => rw [decPairsAll]; exact fun h => by cases h

theorem decPairsAll_nil (sf : Bool) (fuel : Nat) : decPairsAll sf fuel [] = .ok [] := by
  cases fuel <;> rw [decPairsAll]

theorem putStr_append_ne_nil (s r : Bytes) : putStr s ++ r ≠ [] := by
  simp [putStr, be32]

theorem decPairsAll_enc (sf : Bool) (l : List (Bytes × Bytes)) (h : PairsWf l) :
    ∀ fuel, (encPairs l).length ≤ fuel → decPairsAll sf fuel (encPairs l) = .ok l := by
  induction l with
  | nil => intro fuel _; simp [encPairs, decPairsAll_nil]
  | cons p l ih =>
    intro fuel hf
    have hp := h.head
    simp only [encPairs, List.length_append, length_putStr] at hf
    cases fuel with
    | zero => omega
    | succ fuel =>
      simp only [encPairs]
      rw [decPairsAll_succ _ _ _ (putStr_append_ne_nil _ _), rdStr_putStr sf _ hp.1]
      rw [Outcome.bind_ok]; dsimp only
      rw [rdStr_putStr sf _ hp.2]
      rw [Outcome.bind_ok]; dsimp only
      rw [ih h.tail fuel (by omega)]
      simp

/-! ### attribute blocks -/

/-- An attribute record that the wire format can carry and give back unchanged. -/
structure Attrs.Wf (a : Attrs) : Prop where
  flags : a.flags < 2^32
  size : a.size < 2^64
  uid : a.uid < 2^32
  gid : a.gid < 2^32
  perm : a.perm < 2^32
  atime : a.atime < 2^32
  mtime : a.mtime < 2^32
  sizeZ : a.flags.testBit 0 = false → a.size = 0
  uidZ : a.flags.testBit 1 = false → a.uid = 0
  gidZ : a.flags.testBit 1 = false → a.gid = 0
  permZ : a.flags.testBit 2 = false → a.perm = 0
  atimeZ : a.flags.testBit 3 = false → a.atime = 0
  mtimeZ : a.flags.testBit 3 = false → a.mtime = 0
  extZ : a.flags.testBit 31 = false → a.ext = []
  extLen : a.ext.length < 2^32
  extStr : PairsWf a.ext

theorem decExt_enc (cfg : DecCfg) (sf c : Bool) (l : List (Bytes × Bytes)) (hl : l.length < 2^32)
    (h : PairsWf l) (hz : c = false → l = []) (r : Bytes) :
    decExt cfg sf c (optBytes c (be32 l.length ++ encPairs l) ++ r) = .ok (l, r) := by
  cases c
  · simp [decExt, optBytes, hz rfl]
  · simp only [decExt, optBytes, if_true, List.append_assoc]
    rw [rdU32_be32 sf _ hl]
    rw [Outcome.bind_ok]; dsimp only
    have hlen := encPairs_length l
    have : ¬ (l.length > (encPairs l ++ r).length / 8) := by
      simp only [List.length_append]; omega
    simp only [this, decide_false, Bool.and_false, Bool.false_eq_true, if_false]
    exact decPairsN_enc sf l h r

theorem decAttrs_enc (cfg : DecCfg) (sf : Bool) (a : Attrs) (h : a.Wf) (r : Bytes) :
    decAttrs cfg sf (encAttrs a ++ r) = .ok (a, r) := by
  unfold decAttrs decAttrsHead encAttrs
  simp only [List.append_assoc]
  rw [rdU32_be32 sf _ h.flags]
  rw [Outcome.bind_ok]; dsimp only
  rw [optU64_enc sf _ _ h.size h.sizeZ]
  rw [Outcome.bind_ok]; dsimp only
  rw [optU32_enc sf _ _ h.uid h.uidZ]
  rw [Outcome.bind_ok]; dsimp only
  rw [optU32_enc sf _ _ h.gid h.gidZ]
  rw [Outcome.bind_ok]; dsimp only
  rw [optU32_enc sf _ _ h.perm h.permZ]
  rw [Outcome.bind_ok]; dsimp only
  rw [optU32_enc sf _ _ h.atime h.atimeZ]
  rw [Outcome.bind_ok]; dsimp only
  rw [optU32_enc sf _ _ h.mtime h.mtimeZ]
  rw [Outcome.bind_ok]; dsimp only
  rw [Outcome.bind_ok]; dsimp only
  rw [decExt_enc cfg sf _ _ h.extLen h.extStr h.extZ]
  rfl

theorem encAttrs_length (a : Attrs) : 4 ≤ (encAttrs a).length := by
  simp [encAttrs]

/-! ### name entries -/

structure NameEntry.Wf (e : NameEntry) : Prop where
  name : e.name.length < 2^32
  long : e.long.length < 2^32
  attrs : e.attrs.Wf

def NamesWf (l : List NameEntry) : Prop := ∀ e ∈ l, e.Wf

theorem encNames_length (l : List NameEntry) : 12 * l.length ≤ (encNames l).length := by
  induction l with
  | nil => simp [encNames]
  | cons e l ih =>
    have := encAttrs_length e.attrs
    simp only [encNames, List.length_append, length_putStr, List.length_cons]
    omega

theorem decNamesN_enc (cfg : DecCfg) (sf : Bool) (l : List NameEntry) (h : NamesWf l) (r : Bytes) :
    decNamesN cfg sf l.length (encNames l ++ r) = .ok (l, r) := by
  induction l with
  | nil => rfl
  | cons e l ih =>
    have he : e.Wf := h e (List.mem_cons_self ..)
    have ht : NamesWf l := fun q hq => h q (List.mem_cons_of_mem _ hq)
    simp only [List.length_cons, encNames, List.append_assoc]
    rw [decNamesN, rdStr_putStr sf _ he.name]
    rw [Outcome.bind_ok]; dsimp only
    rw [rdStr_putStr sf _ he.long]
    rw [Outcome.bind_ok]; dsimp only
    rw [decAttrs_enc cfg true _ he.attrs]
    rw [Outcome.bind_ok]; dsimp only
    rw [ih ht]
    rfl

theorem decNames_enc (cfg : DecCfg) (sf : Bool) (l : List NameEntry) (hl : l.length < 2^32)
    (h : NamesWf l) (r : Bytes) :
    decNames cfg sf (be32 l.length ++ encNames l ++ r) = .ok (l, r) := by
  unfold decNames
  rw [List.append_assoc, rdU32_be32 sf _ hl]
  rw [Outcome.bind_ok]; dsimp only
  have hlen := encNames_length l
  have : ¬ (l.length > (encNames l ++ r).length / 12) := by
    simp only [List.length_append]; omega
  simp only [this, decide_false, Bool.and_false, Bool.false_eq_true, if_false]
  exact decNamesN_enc cfg sf l h r

/-! ### fields and field lists -/

/-- `rest` and `pairs` consume everything that is left. -/
def FKind.greedy : FKind → Bool
  | .rest => true
  | .pairs => true
  | _ => false

/-- A value that fits a field kind and is in the range the wire format can carry. -/
inductive ValWf : FKind → Val → Prop
  | u8 {v} : v < 2^8 → ValWf .u8 (.n v)
  | u32 {v} : v < 2^32 → ValWf .u32 (.n v)
  | u64 {v} : v < 2^64 → ValWf .u64 (.n v)
  | str {s} : s.length < 2^32 → ValWf .str (.b s)
  | cstr {s} : s.length < 2^32 → ValWf (.cstr s) (.b s)
  | lenData {s} : s.length < 2^32 → ValWf .lenData (.b s)
  | rest {s} : ValWf .rest (.b s)
  | attrs {a} : a.Wf → ValWf .attrs (.attrs a)
  | pairs {l} : PairsWf l → ValWf .pairs (.pairs l)
  | names {l} : l.length < 2^32 → NamesWf l → ValWf .names (.names l)

/-- A record that fits a layout; greedy fields (`rest`, `pairs`) only in last position. -/
inductive Wf : List FieldD → List Val → Prop
  | nil : Wf [] []
  | cons {f fs v vs} : ValWf f.kind v → (f.kind.greedy = true → fs = []) → Wf fs vs → Wf (f :: fs) (v :: vs)

def noGreedy (fs : List FieldD) : Bool := fs.all fun f => !f.kind.greedy

theorem decField_enc (cfg : DecCfg) (sf : Bool) {k : FKind} {v : Val} (h : ValWf k v) (hg : k.greedy = false)
    {a : Bytes} (he : encField k v = some a) (r : Bytes) :
    decField cfg k sf (a ++ r) = .ok (v, r) := by
  cases h with
  | @u8 v hv =>
    simp only [encField, Option.some.injEq] at he; subst he
    simp only [decField, List.cons_append, List.nil_append, rdU8_cons, Outcome.bind_ok]
    congr 3
    simp only [UInt8.toNat_ofNat']; omega
  | u32 hv =>
    simp only [encField, Option.some.injEq] at he; subst he
    simp only [decField, rdU32_be32 sf _ hv, Outcome.bind_ok]
  | u64 hv =>
    simp only [encField, Option.some.injEq] at he; subst he
    simp only [decField, rdU64_be64 sf _ hv, Outcome.bind_ok]
  | str hs =>
    simp only [encField, Option.some.injEq] at he; subst he
    simp only [decField, rdStr_putStr sf _ hs, Outcome.bind_ok]
  | cstr hs =>
    simp only [encField, if_true, Option.some.injEq] at he; subst he
    simp only [decField, rdStr_putStr sf _ hs, Outcome.bind_ok]
  | lenData hs =>
    simp only [encField, Option.some.injEq] at he; subst he
    simp only [decField, rdStr_putStr sf _ hs, Outcome.bind_ok]
  | rest => cases hg
  | attrs ha =>
    simp only [encField, Option.some.injEq] at he; subst he
    simp only [decField, decAttrs_enc cfg sf _ ha, Outcome.bind_ok]
  | pairs _ => cases hg
  | names hl hn =>
    simp only [encField, Option.some.injEq] at he; subst he
    simp only [decField, decNames_enc cfg sf _ hl hn, Outcome.bind_ok]

theorem decField_enc_greedy (cfg : DecCfg) (sf : Bool) {k : FKind} {v : Val} (h : ValWf k v)
    (hg : k.greedy = true) {a : Bytes} (he : encField k v = some a) :
    decField cfg k sf a = .ok (v, []) := by
  cases h with
  | rest =>
    simp only [encField, Option.some.injEq] at he; subst he
    simp only [decField]
  | pairs hp =>
    simp only [encField, Option.some.injEq] at he; subst he
    simp only [decField, decPairsAll_enc sf _ hp _ (Nat.le_refl _), Outcome.bind_ok]
  | _ => cases hg

theorem encodeFields_cons {f : FieldD} {fs : List FieldD} {v : Val} {vs : List Val} {bs : Bytes}
    (h : encodeFields (f :: fs) (v :: vs) = some bs) :
    ∃ a b, encField f.kind v = some a ∧ encodeFields fs vs = some b ∧ bs = a ++ b := by
  rw [encodeFields] at h
  split at h
  · cases h
  · next a ha =>
    split at h
    · cases h
    · next b hb =>
      simp only [Option.some.injEq] at h
      exact ⟨a, b, ha, hb, h.symm⟩

theorem encodeFields_nil {vs : List Val} {b : Bytes} (h : encodeFields [] vs = some b) : vs = [] ∧ b = [] := by
  cases vs with
  | nil => rw [encodeFields] at h; cases h; exact ⟨rfl, rfl⟩
  | cons w ws => exact absurd h (by intro h; cases h)

/-- Round trip with trailing bytes: either there are none, or the layout has no greedy field. -/
theorem decode_encode_aux (cfg : DecCfg) {fs : List FieldD} {vs : List Val} (h : Wf fs vs) :
    ∀ bs extra, encodeFields fs vs = some bs → (extra = [] ∨ noGreedy fs = true) →
      decodeFields cfg fs (bs ++ extra) = .ok (vs, extra) := by
  induction h with
  | nil =>
    intro bs extra he _
    rw [encodeFields] at he
    cases he
    simp [decodeFields]
  | @cons f fs v vs hv hlast _ ih =>
    intro bs extra he hx
    obtain ⟨a, b, ha, hb, rfl⟩ := encodeFields_cons he
    rw [decodeFields]
    cases hg : f.kind.greedy with
    | false =>
      rw [List.append_assoc, decField_enc cfg f.safe hv hg ha]
      rw [Outcome.bind_ok]; dsimp only
      have hx' : extra = [] ∨ noGreedy fs = true := by
        rcases hx with hx | hx
        · exact Or.inl hx
        · simp only [noGreedy, List.all_cons, Bool.and_eq_true] at hx
          exact Or.inr hx.2
      rw [ih b extra hb hx']
      simp
    | true =>
      have hfs := hlast hg
      subst hfs
      have hx' : extra = [] := by
        rcases hx with hx | hx
        · exact hx
        · simp [noGreedy, hg] at hx
      subst hx'
      obtain ⟨rfl, rfl⟩ := encodeFields_nil hb
      simp only [List.append_nil]
      rw [decField_enc_greedy cfg f.safe hv hg ha]
      rfl

end Sftp.Codec
