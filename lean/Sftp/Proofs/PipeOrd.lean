import Sftp.Proofs.PipeLoc
/-
  Ordering invariant of the controller: `sent` carries the order ids 1,2,…,|sent|; `incoming ++ requests` is the
  contiguous block that follows; `outgoing` is sorted; and maybeSendPackets has run to its fixpoint.
  Needs `headMatch`, `sortOutgoing` (and, through InvLoc, `registerBeforeHandoff`).
-/
set_option linter.unusedSimpArgs false
namespace Sftp.Pipe

/-- maybeSendPackets cannot make progress. -/
def Stable : List OReq → List Resp → Prop
  | i :: _, o :: _ => i.oid ≠ o.oid
  | _, _ => True

structure OrdCore (n : Nat) (rq is : List OReq) (os sn : List Resp) : Prop where
  sentOids : sn.map Resp.oid = List.range' 1 sn.length
  le : sn.length ≤ n
  inc : (is ++ rq).map OReq.oid = List.range' (sn.length + 1) (n - sn.length)
  outSorted : (os.map Resp.oid).Pairwise (· < ·)

structure InvOrd (s : State) : Prop where
  core : OrdCore s.dispatched.length s.reqInbox s.incoming s.outgoing s.sent
  stable : Stable s.incoming s.outgoing

theorem invOrd_init (cfg : PipeCfg) : InvOrd (init cfg) := by
  refine ⟨⟨?_, ?_, ?_, ?_⟩, ?_⟩ <;> simp [init, Stable]

theorem sendLoop_ord (n : Nat) (rq : List OReq) (is : List OReq) (os sn : List Resp)
    (h : OrdCore n rq is os sn) :
    OrdCore n rq (sendLoop true is os sn).1 (sendLoop true is os sn).2.1 (sendLoop true is os sn).2.2 ∧
      Stable (sendLoop true is os sn).1 (sendLoop true is os sn).2.1 := by
  induction is generalizing os sn with
  | nil => cases os <;> simp only [sendLoop] <;> exact ⟨h, trivial⟩
  | cons i is ih =>
    cases os with
    | nil => simp only [sendLoop]; exact ⟨h, trivial⟩
    | cons o os =>
      rw [sendLoop]
      split
      · rename_i hio
        simp only [Bool.true_eq_false, false_or] at hio
        apply ih
        have hinc := h.inc
        have hn : n - sn.length ≠ 0 := by
          intro h0; rw [h0] at hinc; simp at hinc
        obtain ⟨m, hm⟩ := Nat.exists_eq_succ_of_ne_zero hn
        rw [hm, List.range'_succ, List.cons_append, List.map_cons] at hinc
        have hi1 : i.oid = sn.length + 1 := (List.cons.inj hinc).1
        have hrest := (List.cons.inj hinc).2
        have hos := h.outSorted
        rw [List.map_cons, List.pairwise_cons] at hos
        constructor
        · rw [List.map_append, List.length_append, List.length_singleton, List.range'_concat, ← h.sentOids]
          simp only [List.map_cons, List.map_nil]
          rw [← hio, hi1]
          simp [Nat.add_comm]
        · simp only [List.length_append, List.length_singleton]; omega
        · simp only [List.length_append, List.length_singleton]
          rw [hrest]
          congr 1
          omega
        · exact hos.2
      · rename_i hio
        simp only [Bool.true_eq_false, false_or] at hio
        exact ⟨h, hio⟩

theorem invOrd_applySend {cfg : PipeCfg} (hm : cfg.headMatch = true) (s : State)
    (h : OrdCore s.dispatched.length s.reqInbox s.incoming s.outgoing s.sent) : InvOrd (applySend cfg s) := by
  have := sendLoop_ord _ _ _ _ _ h
  unfold applySend
  rw [hm]
  exact ⟨this.1, this.2⟩

/-- nothing the controller looks at changed -/
theorem InvOrd.frame {s s' : State} (h : InvOrd s) (h1 : s'.dispatched = s.dispatched)
    (h2 : s'.reqInbox = s.reqInbox) (h3 : s'.incoming = s.incoming) (h4 : s'.outgoing = s.outgoing)
    (h5 : s'.sent = s.sent) : InvOrd s' := by
  refine ⟨?_, ?_⟩
  · rw [h1, h2, h3, h4, h5]; exact h.core
  · rw [h3, h4]; exact h.stable

theorem invOrd_dispatch {cfg : PipeCfg} (hreg : cfg.registerBeforeHandoff = true) {s s' : State}
    (hl : InvLoc s) (h : InvOrd s) (hs : dispatchStep cfg s = some s') : InvOrd s' := by
  unfold dispatchStep at hs
  rw [hl.noPend] at hs
  simp only [hreg, if_true] at hs
  split at hs
  · simp at hs
  · rename_i r rest hp
    have hoid := hl.head_oid hp
    have hle := h.core.le
    have key : OrdCore (s.dispatched ++ [r]).length (s.reqInbox ++ [r]) s.incoming s.outgoing s.sent := by
      refine ⟨h.core.sentOids, ?_, ?_, h.core.outSorted⟩
      · simp only [List.length_append, List.length_singleton]; omega
      · rw [← List.append_assoc, List.map_append, h.core.inc]
        simp only [List.length_append, List.length_singleton, List.map_cons, List.map_nil]
        have : s.dispatched.length + 1 - s.sent.length = (s.dispatched.length - s.sent.length) + 1 := by omega
        rw [this, List.range'_concat, hoid]
        congr 2
        omega
    split at hs
    · simp only [Option.some.injEq] at hs
      subst hs
      exact ⟨key, h.stable⟩
    · split at hs
      · simp at hs
      · simp only [Option.some.injEq] at hs
        subst hs
        exact ⟨key, h.stable⟩

theorem invOrd_ctlTakeReq {cfg : PipeCfg} (hm : cfg.headMatch = true) {s s' : State}
    (h : InvOrd s) (hs : ctlTakeReqStep cfg s = some s') : InvOrd s' := by
  unfold ctlTakeReqStep at hs
  split at hs
  · simp at hs
  · split at hs
    · simp at hs
    · rename_i r rest hq
      simp only [Option.some.injEq] at hs
      subst hs
      apply invOrd_applySend hm
      have hinc := h.core.inc
      rw [hq] at hinc
      have hlt : ∀ y ∈ s.incoming, y.oid < r.oid := by
        intro y hy
        have hpw : ((s.incoming ++ r :: rest).map OReq.oid).Pairwise (· < ·) := by
          rw [hinc]; exact List.pairwise_lt_range'
        rw [List.map_append, List.map_cons] at hpw
        exact (List.pairwise_append.mp hpw).2.2 _ (List.mem_map.mpr ⟨y, hy, rfl⟩) _ (by simp)
      have hnew : (if cfg.sortIncoming = true then insertBy OReq.oid r s.incoming else s.incoming ++ [r])
          = s.incoming ++ [r] := by
        split
        · exact insertBy_append _ hlt
        · rfl
      refine ⟨h.core.sentOids, h.core.le, ?_, h.core.outSorted⟩
      show ((if cfg.sortIncoming = true then insertBy OReq.oid r s.incoming else s.incoming ++ [r]) ++ rest).map _ = _
      rw [hnew, List.append_assoc]
      exact hinc

theorem invOrd_ctlTakeResp {cfg : PipeCfg} (hm : cfg.headMatch = true) (hso : cfg.sortOutgoing = true)
    {s s' : State} (hl : InvLoc s) (h : InvOrd s) (hs : ctlTakeRespStep cfg s = some s') : InvOrd s' := by
  unfold ctlTakeRespStep at hs
  simp only [hso, ↓reduceIte] at hs
  split at hs
  · simp at hs
  · split at hs
    · simp at hs
    · rename_i p rest hq
      simp only [Option.some.injEq] at hs
      subst hs
      apply invOrd_applySend hm
      have hnd : (locs s).Nodup := hl.cnt.nodup_iff.mpr List.nodup_range'
      have hnot : p.oid ∉ s.outgoing.map Resp.oid := by
        intro hmem
        have h2 : (locs s).count p.oid ≤ 1 := List.nodup_iff_count.mp hnd _
        have h3 : 1 ≤ (s.outgoing.map Resp.oid).count p.oid := List.count_pos_iff.mpr hmem
        simp only [locs, hq, List.map_append, List.map_cons, List.count_append] at h2
        rw [List.count_cons_self] at h2
        omega
      refine ⟨h.core.sentOids, h.core.le, h.core.inc, ?_⟩
      exact pairwise_insertBy _ h.core.outSorted hnot

/-- the drain loop of the repaired `fini` branch keeps the ordering invariant and empties both channels -/
theorem invOrd_drainState {cfg : PipeCfg} (hm : cfg.headMatch = true) (hso : cfg.sortOutgoing = true)
    {s : State} (hl : InvLoc s) (h : InvOrd s) : InvOrd (drainState cfg s) := by
  apply invOrd_applySend hm
  have hnd : (locs s).Nodup := hl.cnt.nodup_iff.mpr List.nodup_range'
  have hnd2 : ((s.outgoing ++ s.respInbox).map Resp.oid).Nodup := by
    simp only [locs, List.map_append, List.append_assoc] at hnd
    have := (List.nodup_append.mp hnd).2.1
    rw [← List.append_assoc] at this
    have := (List.nodup_append.mp this).1
    simpa using this
  refine ⟨h.core.sentOids, h.core.le, ?_, ?_⟩
  · show ((s.reqInbox.foldl (fun acc r => if cfg.sortIncoming = true then insertBy OReq.oid r acc else acc ++ [r])
        s.incoming) ++ []).map OReq.oid = _
    rw [List.append_nil, foldl_add_eq_append]
    · exact h.core.inc
    · rw [h.core.inc]; exact List.pairwise_lt_range'
  · show ((s.respInbox.foldl (fun acc p => if cfg.sortOutgoing = true then insertBy Resp.oid p acc else acc ++ [p])
        s.outgoing).map Resp.oid).Pairwise _
    simp only [hso, ↓reduceIte]
    exact pairwise_foldl_insert Resp.oid _ _ h.core.outSorted hnd2

theorem invOrd_step {cfg : PipeCfg} (hreg : cfg.registerBeforeHandoff = true) (hm : cfg.headMatch = true)
    (hso : cfg.sortOutgoing = true) {s s' : State} {a : Action}
    (hl : InvLoc s) (h : InvOrd s) (hs : step cfg s a = some s') : InvOrd s' := by
  unfold step at hs
  rw [hl.noPanic] at hs
  simp only [Bool.false_eq_true, if_false] at hs
  cases a with
  | recv r =>
    simp only [recvStep] at hs
    split at hs
    · simp at hs
    · simp only [Option.some.injEq] at hs; subst hs; exact h.frame rfl rfl rfl rfl rfl
  | dispatch => exact invOrd_dispatch hreg hl h hs
  | workerTake i =>
    simp only [workerTakeStep] at hs
    split at hs
    · simp only [Option.some.injEq] at hs; subst hs; exact h.frame rfl rfl rfl rfl rfl
    · simp at hs
  | workerHandle i =>
    simp only [workerHandleStep] at hs
    split at hs
    · simp only [Option.some.injEq] at hs; subst hs; exact h.frame rfl rfl rfl rfl rfl
    · simp at hs
  | workerReady i =>
    simp only [workerReadyStep] at hs
    split at hs
    · split at hs <;> (simp only [Option.some.injEq] at hs; subst hs; exact h.frame rfl rfl rfl rfl rfl)
    · simp at hs
  | cmdTake =>
    simp only [cmdTakeStep] at hs
    split at hs
    · simp only [Option.some.injEq] at hs; subst hs; exact h.frame rfl rfl rfl rfl rfl
    · simp at hs
  | cmdHandle =>
    simp only [cmdHandleStep] at hs
    split at hs
    · simp only [Option.some.injEq] at hs; subst hs; exact h.frame rfl rfl rfl rfl rfl
    · simp at hs
  | cmdReady =>
    simp only [cmdReadyStep] at hs
    split at hs
    · split at hs <;> (simp only [Option.some.injEq] at hs; subst hs; exact h.frame rfl rfl rfl rfl rfl)
    · simp at hs
  | ctlTakeReq => exact invOrd_ctlTakeReq hm h hs
  | ctlTakeResp => exact invOrd_ctlTakeResp hm hso hl h hs
  | closeInput =>
    simp only [closeInputStep] at hs
    split at hs
    · simp at hs
    · simp only [Option.some.injEq] at hs; subst hs; exact h.frame rfl rfl rfl rfl rfl
  | dispatcherShutdown =>
    simp only [dispatcherShutdownStep] at hs
    split at hs
    · simp only [Option.some.injEq] at hs; subst hs; exact h.frame rfl rfl rfl rfl rfl
    · simp at hs
  | ctlFini =>
    simp only [ctlFiniStep] at hs
    split at hs
    · split at hs
      · simp only [Option.some.injEq] at hs; subst hs
        exact (invOrd_drainState hm hso hl h).frame rfl rfl rfl rfl rfl
      · simp only [Option.some.injEq] at hs; subst hs; exact h.frame rfl rfl rfl rfl rfl
    · simp at hs

theorem inv_run {cfg : PipeCfg} (hreg : cfg.registerBeforeHandoff = true) (hm : cfg.headMatch = true)
    (hso : cfg.sortOutgoing = true) (as : List Action) {s s' : State}
    (hl : InvLoc s) (h : InvOrd s) (hr : run cfg s as = some s') : InvLoc s' ∧ InvOrd s' := by
  induction as generalizing s with
  | nil => simp only [run, Option.some.injEq] at hr; exact hr ▸ ⟨hl, h⟩
  | cons a as ih =>
    simp only [run] at hr
    split at hr
    · simp at hr
    · rename_i s1 hs1
      exact ih (invLoc_step hreg hl hs1) (invOrd_step hreg hm hso hl h hs1) hr

end Sftp.Pipe
