import Sftp.Model.ClientChan
/-
  Invariants of M-ClientChan and list helper lemmas.
-/
namespace Sftp.ClientChan
open Sftp

/-! ### association-list lemmas -/

theorem lookupSid_mem {l : List (Nat × Nat)} {sid ch : Nat} (h : lookupSid l sid = some ch) :
    (sid, ch) ∈ l := by
  induction l with
  | nil => simp [lookupSid] at h
  | cons e rest ih =>
    obtain ⟨k, v⟩ := e
    simp only [lookupSid] at h
    split at h
    · next hk => simp only [Option.some.injEq] at h; subst hk; subst h; exact List.mem_cons_self
    · exact List.mem_cons_of_mem _ (ih h)

theorem lookupSid_none {l : List (Nat × Nat)} {sid : Nat} (h : lookupSid l sid = none) :
    ∀ ch, (sid, ch) ∉ l := by
  induction l with
  | nil => simp
  | cons e rest ih =>
    obtain ⟨k, v⟩ := e
    simp only [lookupSid] at h
    split at h
    · cases h
    · next hk =>
      intro ch hm
      simp only [List.mem_cons, Prod.mk.injEq] at hm
      rcases hm with ⟨h1, _⟩ | hm
      · exact hk h1.symm
      · exact ih h ch hm

theorem lookupSid_of_mem {l : List (Nat × Nat)} {sid ch : Nat} (hn : (l.map (·.1)).Nodup)
    (h : (sid, ch) ∈ l) : lookupSid l sid = some ch := by
  induction l with
  | nil => simp at h
  | cons e rest ih =>
    obtain ⟨k, v⟩ := e
    simp only [List.map_cons, List.nodup_cons, List.mem_map, not_exists, not_and] at hn
    simp only [List.mem_cons, Prod.mk.injEq] at h
    simp only [lookupSid]
    rcases h with ⟨h1, h2⟩ | h
    · simp [h1, h2]
    · split
      · next hk => subst hk; exact absurd rfl (hn.1 _ h)
      · exact ih hn.2 h

theorem mem_eraseSid {l : List (Nat × Nat)} {sid k v : Nat} :
    (k, v) ∈ eraseSid l sid ↔ (k, v) ∈ l ∧ k ≠ sid := by
  simp [eraseSid]

theorem mem_eraseSid' {l : List (Nat × Nat)} {sid : Nat} {e : Nat × Nat} :
    e ∈ eraseSid l sid ↔ e ∈ l ∧ e.1 ≠ sid := by
  simp [eraseSid]

theorem eraseSid_nodup_snd {l : List (Nat × Nat)} (sid : Nat) (h : (l.map (·.2)).Nodup) :
    ((eraseSid l sid).map (·.2)).Nodup :=
  h.sublist (List.Sublist.map _ List.filter_sublist)

theorem eraseSid_nodup_fst {l : List (Nat × Nat)} (sid : Nat) (h : (l.map (·.1)).Nodup) :
    ((eraseSid l sid).map (·.1)).Nodup :=
  h.sublist (List.Sublist.map _ List.filter_sublist)

theorem eraseSid_not_mem_fst (l : List (Nat × Nat)) (sid : Nat) :
    sid ∉ (eraseSid l sid).map (·.1) := by
  simp [eraseSid]

/-- erasing a key that is not there changes nothing -/
theorem eraseSid_of_not_key {l : List (Nat × Nat)} {sid : Nat} (h : ∀ e ∈ l, e.1 ≠ sid) :
    eraseSid l sid = l := by
  unfold eraseSid
  rw [List.filter_eq_self]
  intro e he
  simpa using h e he

theorem mem_targets_erase {l : List (Nat × Nat)} {sid ch : Nat} (h : ch ∈ (eraseSid l sid).map (·.2)) :
    ch ∈ l.map (·.2) := by
  simp only [List.mem_map] at h ⊢
  obtain ⟨e, he, rfl⟩ := h
  exact ⟨e, (mem_eraseSid'.1 he).1, rfl⟩

/-- with unique values: two entries with the same channel are the same entry -/
theorem snd_ne_of_nodup {l : List (Nat × Nat)} (h : (l.map (·.2)).Nodup) {k1 k2 v : Nat}
    (h1 : (k1, v) ∈ l) (h2 : (k2, v) ∈ l) : k1 = k2 := by
  induction l with
  | nil => simp at h1
  | cons e rest ih =>
    obtain ⟨k, w⟩ := e
    simp only [List.map_cons, List.nodup_cons, List.mem_map, not_exists, not_and] at h
    simp only [List.mem_cons, Prod.mk.injEq] at h1 h2
    rcases h1 with ⟨a, b⟩ | h1 <;> rcases h2 with ⟨c, d⟩ | h2
    · omega
    · exact absurd rfl (b ▸ h.1 _ h2)
    · exact absurd rfl (d ▸ h.1 _ h1)
    · exact ih h.2 h1 h2

/-- after erasing the entry of `sid ↦ ch`, with unique targets, `ch` is no target any more -/
theorem not_target_after_erase {l : List (Nat × Nat)} (h : (l.map (·.2)).Nodup) {sid ch : Nat}
    (hm : (sid, ch) ∈ l) : ch ∉ (eraseSid l sid).map (·.2) := by
  intro hc
  simp only [List.mem_map] at hc
  obtain ⟨⟨k, v⟩, he, hv⟩ := hc
  simp only at hv; subst hv
  have := mem_eraseSid.1 he
  exact this.2 (snd_ne_of_nodup h this.1 hm)

/-! ### the channel discipline invariant (state only) -/

/-- Every channel has at most one outstanding request, free channels are really free, and every waiting
caller's reply is either still to come through its own registration or already in its channel.
The first three clauses are the discipline proper; the others make it inductive. -/
structure AtMostOneOutstandingPerChannel (s : State) : Prop where
  /-- every channel id appears at most once in inflight's range -/
  targetsNodup : s.targets.Nodup
  /-- a channel in the pool is no target of a registered request, has an empty buffer and no holder -/
  poolFree : ∀ ch, ch ∈ s.pool → ch ∉ s.targets ∧ (s.chan ch).buf = [] ∧ (s.chan ch).owner = none
  /-- a channel that a registered request points to has an empty buffer (so the receiver never blocks),
  and no buffer ever holds more than the one slot -/
  targetEmpty : ∀ ch, ch ∈ s.targets → (s.chan ch).buf = []
  oneSlot : ∀ ch, (s.chan ch).buf.length ≤ chanCap
  poolNodup : s.pool.Nodup
  keysNodup : (s.inflight.map (·.1)).Nodup
  keysIssued : ∀ e, e ∈ s.inflight → e.1 ∈ s.issued
  /-- channels not made yet -/
  unmade : ∀ ch, s.nchan ≤ ch → s.chan ch = ⟨[], none⟩ ∧ ch ∉ s.targets ∧ ch ∉ s.pool
  /-- a caller's channel is held by that caller alone -/
  owned : ∀ c ch, (s.pc c).ch? = some ch → (s.chan ch).owner = some c
  /-- a channel held without a request of the holder outstanding has nothing outstanding at all -/
  quietH : ∀ c ch, s.pc c = .holding ch → ch ∉ s.targets ∧ (s.chan ch).buf = []
  quietG : ∀ c ch sid m, s.pc c = .got ch sid m → ch ∉ s.targets ∧ (s.chan ch).buf = []
  /-- a waiting caller's request is registered with its channel, or its reply (tagged with its sid) is the
  one thing in its channel -/
  served : ∀ c ch sid, s.pc c = .waiting ch sid →
    (sid, ch) ∈ s.inflight ∨ ∃ p, (s.chan ch).buf = [⟨sid, p⟩]
  gotOwn : ∀ c ch sid m, s.pc c = .got ch sid m → m.sid = sid
  logOwn : ∀ e, e ∈ s.log → e.msg.sid = e.sid

/-! ### tracing invariant (relates the state to the schedule; needs no discipline) -/

structure Traced (acts : List Action) (s : State) : Prop where
  bufSent : ∀ ch m, m ∈ (s.chan ch).buf → Action.envReply m.sid m.payload ∈ acts
  waitDisp : ∀ c ch sid, s.pc c = .waiting ch sid → Action.dispatch c sid ∈ acts
  gotSent : ∀ c ch sid m, s.pc c = .got ch sid m →
    Action.envReply m.sid m.payload ∈ acts ∧ Action.dispatch c sid ∈ acts
  logSent : ∀ e, e ∈ s.log →
    Action.envReply e.msg.sid e.msg.payload ∈ acts ∧ Action.dispatch e.caller e.sid ∈ acts ∧
    Action.callerRecv e.caller ∈ acts
  gaveUpSent : ∀ e, e ∈ s.gaveUp → Action.dispatch e.1 e.2 ∈ acts ∧ Action.abandon e.1 ∈ acts

theorem init_inv : AtMostOneOutstandingPerChannel init := by
  refine ⟨?_, ?_, ?_, ?_, ?_, ?_, ?_, ?_, ?_, ?_, ?_, ?_, ?_, ?_⟩ <;>
    simp [init, State.targets, PC.ch?, chanCap]

theorem init_traced : Traced [] init := by
  refine ⟨?_, ?_, ?_, ?_, ?_⟩ <;> simp [init]

end Sftp.ClientChan
