import Sftp.Proofs.ClientChan.Inv
/-
  Every step of M-ClientChan preserves the channel discipline invariant when the configuration is
  disciplined, and the tracing invariant always.
-/
namespace Sftp.ClientChan
open Sftp

theorem fst_unique {l : List (Nat × Nat)} (h : (l.map (·.1)).Nodup) {k v1 v2 : Nat}
    (h1 : (k, v1) ∈ l) (h2 : (k, v2) ∈ l) : v1 = v2 := by
  have a := lookupSid_of_mem h h1
  have b := lookupSid_of_mem h h2
  rw [a] at b
  exact Option.some.inj b

theorem mem_targets {l : List (Nat × Nat)} {ch : Nat} : ch ∈ l.map (·.2) ↔ ∃ sid, (sid, ch) ∈ l := by
  simp

theorem inv_acquireFresh {s : State} {c : Nat} (h : AtMostOneOutstandingPerChannel s) :
    AtMostOneOutstandingPerChannel
      (({ s with nchan := s.nchan + 1 }.setOwner s.nchan (some c)).setPc c (.holding s.nchan)) := by
  obtain ⟨h1, h2, h3, h4, h5, h6, h7, h8, h9, h10, h11, h12, h13, h14⟩ := h
  have hu := h8 s.nchan (Nat.le_refl _)
  have hne : ∀ c' ch, (s.pc c').ch? = some ch → ch ≠ s.nchan := by
    intro c' ch hc he; subst he; have := h9 c' _ hc; rw [hu.1] at this; cases this
  refine ⟨?_, ?_, ?_, ?_, ?_, ?_, ?_, ?_, ?_, ?_, ?_, ?_, ?_, ?_⟩ <;>
    simp only [State.setPc, State.setOwner, State.targets] at * <;> grind [PC.ch?]

theorem inv_acquirePool {s : State} {c ch : Nat} (h : AtMostOneOutstandingPerChannel s)
    (hp : ch ∈ s.pool) :
    AtMostOneOutstandingPerChannel
      (({ s with pool := s.pool.erase ch }.setOwner ch (some c)).setPc c (.holding ch)) := by
  obtain ⟨h1, h2, h3, h4, h5, h6, h7, h8, h9, h10, h11, h12, h13, h14⟩ := h
  have hf := h2 ch hp
  have hpe : ∀ x, x ∈ s.pool.erase ch ↔ x ≠ ch ∧ x ∈ s.pool := fun x => h5.mem_erase_iff
  have hpn : (s.pool.erase ch).Nodup := h5.erase ch
  have hne : ∀ c' ch', (s.pc c').ch? = some ch' → ch' ≠ ch := by
    intro c' ch' hc he; subst he; have := h9 c' _ hc; rw [hf.2.2] at this; cases this
  have hlt : ch < s.nchan := by
    by_cases hl : ch < s.nchan
    · exact hl
    · exact absurd hp (h8 ch (by omega)).2.2
  refine ⟨?_, ?_, ?_, ?_, ?_, ?_, ?_, ?_, ?_, ?_, ?_, ?_, ?_, ?_⟩ <;>
    simp only [State.setPc, State.setOwner, State.targets] at * <;> grind [PC.ch?]

theorem inv_dispatch {s : State} {c ch sid : Nat} (h : AtMostOneOutstandingPerChannel s)
    (hpc : s.pc c = .holding ch) (hs : sid ∉ s.issued) :
    AtMostOneOutstandingPerChannel
      ({ s with inflight := (sid, ch) :: eraseSid s.inflight sid, issued := sid :: s.issued,
                wire := s.wire ++ [(c, sid)] }.setPc c (.waiting ch sid)) := by
  have he : eraseSid s.inflight sid = s.inflight :=
    eraseSid_of_not_key (fun e hm hk => hs (hk ▸ h.keysIssued e hm))
  rw [he]
  obtain ⟨h1, h2, h3, h4, h5, h6, h7, h8, h9, h10, h11, h12, h13, h14⟩ := h
  have hq := h10 c ch hpc
  have hk : sid ∉ s.inflight.map (·.1) := by
    intro hm; simp only [List.mem_map] at hm; obtain ⟨e, hm, rfl⟩ := hm; exact hs (h7 e hm)
  have hlt : ch < s.nchan := by
    by_cases hl : ch < s.nchan
    · exact hl
    · have := h9 c ch (by rw [hpc]; rfl); rw [(h8 ch (by omega)).1] at this; cases this
  have hown : ∀ c' ch', (s.pc c').ch? = some ch' → ch' = ch → c' = c := by
    intro c' ch' hc he; subst he
    have a := h9 c' _ hc; have b := h9 c ch' (by rw [hpc]; rfl); rw [a] at b; exact Option.some.inj b
  have hnp : ch ∉ s.pool := by
    intro hp; have a := (h2 ch hp).2.2; rw [h9 c ch (by rw [hpc]; rfl)] at a; cases a
  refine ⟨?_, ?_, ?_, ?_, ?_, ?_, ?_, ?_, ?_, ?_, ?_, ?_, ?_, ?_⟩ <;>
    simp only [State.setPc, State.targets, List.map_cons, List.nodup_cons] at * <;> grind [PC.ch?]

theorem inv_envReply {s : State} {sid ch : Nat} {p : Bytes} (h : AtMostOneOutstandingPerChannel s)
    (hl : lookupSid s.inflight sid = some ch) :
    AtMostOneOutstandingPerChannel
      ({ s with inflight := eraseSid s.inflight sid }.setBuf ch ((s.chan ch).buf ++ [Msg.mk sid p])) := by
  obtain ⟨h1, h2, h3, h4, h5, h6, h7, h8, h9, h10, h11, h12, h13, h14⟩ := h
  have hm := lookupSid_mem hl
  have hb : (s.chan ch).buf = [] := h3 ch (by simp only [State.targets, List.mem_map]; exact ⟨_, hm, rfl⟩)
  rw [hb]
  have hsub : ∀ x, x ∈ (eraseSid s.inflight sid).map (·.2) → x ∈ s.inflight.map (·.2) :=
    fun x hx => mem_targets_erase hx
  have hgone : ch ∉ (eraseSid s.inflight sid).map (·.2) := not_target_after_erase h1 hm
  have hn1 := eraseSid_nodup_snd sid h1
  have hn2 := eraseSid_nodup_fst sid h6
  have hmem : ∀ k v, (k, v) ∈ eraseSid s.inflight sid ↔ (k, v) ∈ s.inflight ∧ k ≠ sid :=
    fun k v => mem_eraseSid
  have hmem' : ∀ e, e ∈ eraseSid s.inflight sid → e ∈ s.inflight := fun e he => (mem_eraseSid'.1 he).1
  have huniq : ∀ v, (sid, v) ∈ s.inflight → v = ch := fun v hv => fst_unique h6 hv hm
  have htar : ch ∈ s.inflight.map (·.2) := by simp only [List.mem_map]; exact ⟨_, hm, rfl⟩
  refine ⟨?_, ?_, ?_, ?_, ?_, ?_, ?_, ?_, ?_, ?_, ?_, ?a12, ?_, ?_⟩
  case a12 =>
    intro c ch' sid' hw
    simp only [State.setBuf, List.nil_append]
    rcases h12 c ch' sid' hw with hi | ⟨q, hq⟩
    · by_cases hs : sid' = sid
      · subst hs
        have := huniq ch' hi; subst this
        exact .inr ⟨p, by simp⟩
      · exact .inl ((hmem sid' ch').2 ⟨hi, hs⟩)
    · have hne : ch' ≠ ch := by intro e; subst e; rw [hb] at hq; cases hq
      exact .inr ⟨q, by simp [hne, hq]⟩
  all_goals (simp only [State.setBuf, State.targets, chanCap, List.nil_append] at * <;> grind [PC.ch?])

theorem inv_callerRecv {s : State} {c ch sid : Nat} {m : Msg} {rest : List Msg}
    (h : AtMostOneOutstandingPerChannel s) (hpc : s.pc c = .waiting ch sid)
    (hb : (s.chan ch).buf = m :: rest) :
    AtMostOneOutstandingPerChannel
      (({ s with log := s.log ++ [RecvEvent.mk c sid m] }.setBuf ch rest).setPc c (.got ch sid m)) ∧
    m.sid = sid := by
  obtain ⟨h1, h2, h3, h4, h5, h6, h7, h8, h9, h10, h11, h12, h13, h14⟩ := h
  have hnt : ch ∉ s.targets := by intro ht; have := h3 ch ht; rw [hb] at this; cases this
  have hmr : m.sid = sid ∧ rest = [] := by
    rcases h12 c ch sid hpc with hi | ⟨p, hp⟩
    · exact absurd (by simp only [State.targets, List.mem_map]; exact ⟨_, hi, rfl⟩) hnt
    · rw [hb] at hp; simp only [List.cons.injEq] at hp; exact ⟨by rw [hp.1], hp.2⟩
  obtain ⟨hms, hr⟩ := hmr
  subst hr
  have hown : ∀ c' ch', (s.pc c').ch? = some ch' → ch' = ch → c' = c := by
    intro c' ch' hc he; subst he
    have a := h9 c' _ hc; have b := h9 c ch' (by rw [hpc]; rfl); rw [a] at b; exact Option.some.inj b
  have hnp : ch ∉ s.pool := by
    intro hp; have a := (h2 ch hp).2.2; rw [h9 c ch (by rw [hpc]; rfl)] at a; cases a
  refine ⟨⟨?_, ?_, ?_, ?_, ?_, ?_, ?_, ?_, ?_, ?_, ?_, ?_, ?_, ?_⟩, hms⟩ <;>
    simp only [State.setPc, State.setBuf, State.targets, chanCap] at * <;> grind [PC.ch?]

/-- the caller lets go of its channel without putting it anywhere (abandon with `abandonedNotReturned`, drop) -/
theorem inv_forget {s : State} {c ch : Nat} (h : AtMostOneOutstandingPerChannel s)
    (hpc : (s.pc c).ch? = some ch) (g : List (Nat × Nat)) :
    AtMostOneOutstandingPerChannel (({ s with gaveUp := g }.setOwner ch none).setPc c .idle) := by
  obtain ⟨h1, h2, h3, h4, h5, h6, h7, h8, h9, h10, h11, h12, h13, h14⟩ := h
  have hown : ∀ c' ch', (s.pc c').ch? = some ch' → ch' = ch → c' = c := by
    intro c' ch' hc he; subst he
    have a := h9 c' _ hc; have b := h9 c ch' hpc; rw [a] at b; exact Option.some.inj b
  refine ⟨?_, ?_, ?_, ?_, ?_, ?_, ?_, ?_, ?_, ?_, ?_, ?_, ?_, ?_⟩ <;>
    simp only [State.setPc, State.setOwner, State.targets] at * <;> grind [PC.ch?]

theorem inv_reuse {s : State} {c ch sid : Nat} {m : Msg} (h : AtMostOneOutstandingPerChannel s)
    (hpc : s.pc c = .got ch sid m) : AtMostOneOutstandingPerChannel (s.setPc c (.holding ch)) := by
  obtain ⟨h1, h2, h3, h4, h5, h6, h7, h8, h9, h10, h11, h12, h13, h14⟩ := h
  have hq := h11 c ch sid m hpc
  refine ⟨?_, ?_, ?_, ?_, ?_, ?_, ?_, ?_, ?_, ?_, ?_, ?_, ?_, ?_⟩ <;>
    simp only [State.setPc, State.targets] at * <;> grind [PC.ch?]

/-- `pool.Put` of a channel on which nothing is outstanding -/
theorem inv_putBack {s : State} {c ch : Nat} (h : AtMostOneOutstandingPerChannel s)
    (hpc : (s.pc c).ch? = some ch) (hq : ch ∉ s.targets ∧ (s.chan ch).buf = []) :
    AtMostOneOutstandingPerChannel (s.putBack c ch) := by
  obtain ⟨h1, h2, h3, h4, h5, h6, h7, h8, h9, h10, h11, h12, h13, h14⟩ := h
  have hown : ∀ c' ch', (s.pc c').ch? = some ch' → ch' = ch → c' = c := by
    intro c' ch' hc he; subst he
    have a := h9 c' _ hc; have b := h9 c ch' hpc; rw [a] at b; exact Option.some.inj b
  have hnp : ch ∉ s.pool := by
    intro hp; have a := (h2 ch hp).2.2; rw [h9 c ch hpc] at a; cases a
  have hlt : ch < s.nchan := by
    by_cases hl : ch < s.nchan
    · exact hl
    · have := h9 c ch hpc; rw [(h8 ch (by omega)).1] at this; cases this
  have hpn : (s.pool ++ [ch]).Nodup := by
    rw [List.nodup_append]; exact ⟨h5, by simp, by intro a ha b hb; simp at hb; subst hb; intro e; exact hnp (e ▸ ha)⟩
  refine ⟨?_, ?_, ?_, ?_, ?_, ?_, ?_, ?_, ?_, ?_, ?_, ?_, ?_, ?_⟩ <;>
    simp only [State.putBack, State.setPc, State.setOwner, State.targets, List.mem_append,
      List.mem_singleton] at * <;> grind [PC.ch?]

theorem existingOk_false {cfg : ChanCfg} (hd : cfg.Disciplined) (s : State) (ch : Nat) :
    existingOk cfg s ch = false := by
  obtain ⟨h1, _, _, _, h5, _⟩ := hd
  unfold existingOk
  split <;> simp [h1, h5]

/-- Every action preserves the channel discipline when the configuration is disciplined. -/
theorem inv_step {cfg : ChanCfg} {s s' : State} {a : Action} (hd : cfg.Disciplined)
    (h : AtMostOneOutstandingPerChannel s) (hs : step cfg s a = some s') :
    AtMostOneOutstandingPerChannel s' := by
  have hd' := hd
  obtain ⟨d1, d2, d3, d4, d5, d6⟩ := hd'
  cases a with
  | acquireFresh c =>
    simp only [step] at hs
    split at hs
    · simp only [Option.some.injEq] at hs; subst hs; exact inv_acquireFresh h
    · cases hs
  | acquirePool c ch =>
    simp only [step] at hs
    split at hs
    · split at hs
      · next hp => simp only [Option.some.injEq] at hs; subst hs; exact inv_acquirePool h hp
      · cases hs
    · cases hs
  | acquireExisting c ch =>
    simp only [step] at hs
    split at hs
    · split at hs
      · next hc => rw [existingOk_false hd] at hc; exact absurd hc.2.2 (by decide)
      · cases hs
    · cases hs
  | dispatch c sid =>
    simp only [step] at hs
    split at hs
    · next ch hpc =>
      split at hs
      · cases hs
      · next hg =>
        simp only [Option.some.injEq] at hs; subst hs
        exact inv_dispatch h hpc (fun hm => hg ⟨d6, hm⟩)
    · cases hs
  | envReply sid p =>
    simp only [step] at hs
    split at hs
    · cases hs
    · split at hs
      · simp only [Option.some.injEq] at hs; subst hs
        exact ⟨h.1, h.2, h.3, h.4, h.5, h.6, h.7, h.8, h.9, h.10, h.11, h.12, h.13, h.14⟩
      · next ch hl =>
        split at hs
        · simp only [Option.some.injEq] at hs; subst hs; exact inv_envReply h hl
        · cases hs
  | callerRecv c =>
    simp only [step] at hs
    split at hs
    · next ch sid hpc =>
      split at hs
      · cases hs
      · next m rest hb =>
        simp only [Option.some.injEq] at hs; subst hs; exact (inv_callerRecv h hpc hb).1
    · cases hs
  | abandon c =>
    simp only [step] at hs
    split at hs
    · next ch sid hpc =>
      simp only [d3, if_true, Option.some.injEq] at hs; subst hs
      exact inv_forget h (by rw [hpc]; rfl) _
    · cases hs
  | reuseOwn c =>
    simp only [step] at hs
    split at hs
    · next ch sid m hpc => simp only [Option.some.injEq] at hs; subst hs; exact inv_reuse h hpc
    · simp only [d4, if_true] at hs; cases hs
    · cases hs
  | release c =>
    simp only [step] at hs
    split at hs
    · next ch sid m hpc =>
      simp only [Option.some.injEq] at hs; subst hs
      exact inv_putBack h (by rw [hpc]; rfl) (h.quietG c ch sid m hpc)
    · next ch hpc =>
      simp only [Option.some.injEq] at hs; subst hs
      exact inv_putBack h (by rw [hpc]; rfl) (h.quietH c ch hpc)
    · simp only [d2, if_true] at hs; cases hs
    · cases hs
  | drop c =>
    simp only [step] at hs
    split at hs
    · next ch sid m hpc =>
      simp only [Option.some.injEq] at hs; subst hs
      have := inv_forget h (c := c) (ch := ch) (by rw [hpc]; rfl) s.gaveUp
      exact this
    · next ch hpc =>
      simp only [Option.some.injEq] at hs; subst hs
      have := inv_forget h (c := c) (ch := ch) (by rw [hpc]; rfl) s.gaveUp
      exact this
    · cases hs

/-! ### tracing: needs no hypothesis on the configuration -/

theorem Traced.weaken {acts : List Action} {s : State} (a : Action) (h : Traced acts s) :
    Traced (acts ++ [a]) s := by
  obtain ⟨t1, t2, t3, t4, t5⟩ := h
  refine ⟨?_, ?_, ?_, ?_, ?_⟩ <;> simp only [List.mem_append] <;> grind

theorem traced_step {cfg : ChanCfg} {acts : List Action} {s s' : State} {a : Action}
    (h : Traced acts s) (hs : step cfg s a = some s') : Traced (acts ++ [a]) s' := by
  have hw := h.weaken a
  obtain ⟨t1, t2, t3, t4, t5⟩ := hw
  have hself : a ∈ acts ++ [a] := by simp
  cases a with
  | acquireFresh c =>
    simp only [step] at hs
    split at hs
    · next hpc =>
      simp only [Option.some.injEq] at hs; subst hs
      refine ⟨?_, ?_, ?_, ?_, ?_⟩ <;> simp only [State.setPc, State.setOwner] at * <;> grind
    · cases hs
  | acquirePool c ch =>
    simp only [step] at hs
    split at hs
    · split at hs
      · simp only [Option.some.injEq] at hs; subst hs
        refine ⟨?_, ?_, ?_, ?_, ?_⟩ <;> simp only [State.setPc, State.setOwner] at * <;> grind
      · cases hs
    · cases hs
  | acquireExisting c ch =>
    simp only [step] at hs
    split at hs
    · split at hs
      · simp only [Option.some.injEq] at hs; subst hs
        refine ⟨?_, ?_, ?_, ?_, ?_⟩ <;> simp only [State.setPc, State.setOwner] at * <;> grind
      · cases hs
    · cases hs
  | dispatch c sid =>
    simp only [step] at hs
    split at hs
    · split at hs
      · cases hs
      · simp only [Option.some.injEq] at hs; subst hs
        refine ⟨?_, ?_, ?_, ?_, ?_⟩ <;> simp only [State.setPc] at * <;> grind
    · cases hs
  | envReply sid p =>
    simp only [step] at hs
    split at hs
    · cases hs
    · split at hs
      · simp only [Option.some.injEq] at hs; subst hs
        exact ⟨t1, t2, t3, t4, t5⟩
      · split at hs
        · simp only [Option.some.injEq] at hs; subst hs
          refine ⟨?_, ?_, ?_, ?_, ?_⟩ <;> simp only [State.setBuf] at * <;> grind
        · cases hs
  | callerRecv c =>
    simp only [step] at hs
    split at hs
    · next ch sid hpc =>
      split at hs
      · cases hs
      · next m rest hb =>
        simp only [Option.some.injEq] at hs; subst hs
        have hm := t1 ch m (by rw [hb]; exact List.mem_cons_self)
        have hd := t2 c ch sid hpc
        have hrest : ∀ x, x ∈ rest → x ∈ (s.chan ch).buf := by
          intro x hx; rw [hb]; exact List.mem_cons_of_mem _ hx
        refine ⟨?_, ?_, ?_, ?_, ?_⟩ <;>
          simp only [State.setPc, State.setBuf, List.mem_append, List.mem_singleton] at * <;> grind
    · cases hs
  | abandon c =>
    simp only [step] at hs
    split at hs
    · next ch sid hpc =>
      have hd := t2 c ch sid hpc
      split at hs <;>
      · simp only [Option.some.injEq] at hs; subst hs
        refine ⟨?_, ?_, ?_, ?_, ?_⟩ <;>
          simp only [State.putBack, State.setPc, State.setOwner, List.mem_append, List.mem_singleton] at * <;>
          grind
    · cases hs
  | reuseOwn c =>
    simp only [step] at hs
    split at hs
    · simp only [Option.some.injEq] at hs; subst hs
      refine ⟨?_, ?_, ?_, ?_, ?_⟩ <;> simp only [State.setPc] at * <;> grind
    · split at hs
      · cases hs
      · simp only [Option.some.injEq] at hs; subst hs
        refine ⟨?_, ?_, ?_, ?_, ?_⟩ <;> simp only [State.setPc] at * <;> grind
    · cases hs
  | release c =>
    simp only [step] at hs
    split at hs
    · simp only [Option.some.injEq] at hs; subst hs
      refine ⟨?_, ?_, ?_, ?_, ?_⟩ <;>
        simp only [State.putBack, State.setPc, State.setOwner] at * <;> grind
    · simp only [Option.some.injEq] at hs; subst hs
      refine ⟨?_, ?_, ?_, ?_, ?_⟩ <;>
        simp only [State.putBack, State.setPc, State.setOwner] at * <;> grind
    · split at hs
      · cases hs
      · simp only [Option.some.injEq] at hs; subst hs
        refine ⟨?_, ?_, ?_, ?_, ?_⟩ <;>
          simp only [State.putBack, State.setPc, State.setOwner] at * <;> grind
    · cases hs
  | drop c =>
    simp only [step] at hs
    split at hs
    · simp only [Option.some.injEq] at hs; subst hs
      refine ⟨?_, ?_, ?_, ?_, ?_⟩ <;> simp only [State.setPc, State.setOwner] at * <;> grind
    · simp only [Option.some.injEq] at hs; subst hs
      refine ⟨?_, ?_, ?_, ?_, ?_⟩ <;> simp only [State.setPc, State.setOwner] at * <;> grind
    · cases hs

/-- the log grows by exactly one entry at every `callerRecv` and not otherwise (any configuration) -/
theorem log_step {cfg : ChanCfg} {s s' : State} {a : Action} (hs : step cfg s a = some s') :
    s'.log.length = s.log.length + (if a.isRecv then 1 else 0) := by
  cases a <;> simp only [step] at hs <;> (repeat' split at hs) <;>
    first
      | (cases hs; done)
      | (simp only [Option.some.injEq] at hs; subst hs
         simp [State.setPc, State.setOwner, State.setBuf, State.putBack, Action.isRecv])

theorem disciplineOk_of_inv {s : State} (h : AtMostOneOutstandingPerChannel s) : s.disciplineOk = true := by
  simp only [State.disciplineOk, Bool.and_eq_true, decide_eq_true_eq, List.all_eq_true, Bool.not_eq_true',
    List.isEmpty_iff, Option.isNone_iff_eq_none]
  refine ⟨⟨h.targetsNodup, fun ch hp => ?_⟩, fun ch ht => h.targetEmpty ch ht⟩
  have := h.poolFree ch hp
  refine ⟨⟨?_, this.2.1⟩, this.2.2⟩
  simpa using this.1

theorem reach_inv {cfg : ChanCfg} {acts : List Action} {s : State} (hd : cfg.Disciplined)
    (h : Reach cfg acts s) : AtMostOneOutstandingPerChannel s :=
  Reach.induction (cfg := cfg) (fun _ s => AtMostOneOutstandingPerChannel s) init_inv
    (fun _ _ _ _ _ ih hs => inv_step hd ih hs) acts s h

theorem reach_traced {cfg : ChanCfg} {acts : List Action} {s : State}
    (h : Reach cfg acts s) : Traced acts s :=
  Reach.induction (cfg := cfg) (fun acts s => Traced acts s) init_traced
    (fun _ _ _ _ _ ih hs => traced_step ih hs) acts s h

end Sftp.ClientChan
