import Sftp.Spec.Layout
import Sftp.Generated.CodecTables
import Sftp.Generated.Gate
/-
  Table-level checks over the generated layout tables (decidable, evaluated by `decide` in
  Props/C06Tables.lean) and the small generic lemmas that turn "same field kinds" into
  "same bytes" / "same decoding".
-/
namespace Sftp.C06
open Sftp Sftp.Codec

/-- Field kinds of a layout. -/
def kinds (l : List FieldD) : List FKind := l.map (·.kind)

/-- A decoder does not look at the value of a constant string: `cstr _` reads like `str`. -/
def eraseC : FKind → FKind
  | .cstr _ => .str
  | k => k

def decKinds (l : List FieldD) : List FKind := l.map fun f => eraseC f.kind

/-- What the decoder depends on: erased kind and the safe flag. -/
def decSig (l : List FieldD) : List (FKind × Bool) := l.map fun f => (eraseC f.kind, f.safe)

abbrev MRow := String × Nat × List FieldD
abbrev URow := String × List FieldD

/-! ### checks -/

/-- The row has the type byte and the field kinds the specification gives to its logical kind. -/
def rowIsDraft (kindOf : List (String × String)) (row : MRow) : Bool :=
  match kindOf.lookup row.1 with
  | none => false
  | some k =>
    match Spec.layout.lookup k with
    | none => false
    | some (typ, spec) => row.2.1 == typ && Spec.refines (kinds row.2.2) spec

/-- As `rowIsDraft`, with identical field kinds (no raw ATTRS form). -/
def rowIsDraftExact (kindOf : List (String × String)) (row : MRow) : Bool :=
  match kindOf.lookup row.1 with
  | none => false
  | some k =>
    match Spec.layout.lookup k with
    | none => false
    | some (typ, spec) => row.2.1 == typ && kinds row.2.2 == spec

/-- The flags-only form of the ATTRS block is used by the tolerated kinds only. -/
def rowFlagsOnlyOK (kindOf : List (String × String)) (row : MRow) : Bool :=
  match kindOf.lookup row.1 with
  | none => false
  | some k =>
    match Spec.layout.lookup k with
    | none => false
    | some (_, spec) =>
      Spec.refinement (kinds row.2.2) spec != some .flagsOnly || (Spec.flagsOnlyKinds.map (·.1)).contains k

/-- Roles of the fields of a row of logical kind `k` (Spec.roleOfField). -/
def rolesOf (k : String) (l : List FieldD) : List (Option String) := l.map (Spec.roleOfField k)

/-- Some marshal row of the same logical kind has the field kinds this decoder reads, with the
same roles in the same order. -/
def decoderMatches (kindOfU kindOfM : List (String × String)) (ms : List MRow) (u : URow) : Bool :=
  match kindOfU.lookup u.1 with
  | none => false
  | some k => ms.any fun m => kindOfM.lookup m.1 == some k && decKinds m.2.2 == decKinds u.2 &&
      rolesOf k m.2.2 == rolesOf k u.2

/-- The dispatcher of extended requests reads a prefix of what each specific decoder reads. -/
def dispatcherIsPrefix (us : List URow) (specific : List String) : Bool :=
  match us.lookup "sshFxpExtendedPacket" with
  | none => false
  | some d => specific.all fun s =>
    match us.lookup s with
    | none => false
    | some f => (decSig d).isPrefixOf (decSig f)

def mainDecoderOK (u : URow) : Bool :=
  if G.kindOfMain.lookup u.1 == some "Extended" then
    dispatcherIsPrefix G.mainUnmarshal (G.extSwitch.map (·.2)) && G.extDispatchOnOriginal
  else decoderMatches G.kindOfMain G.kindOfMain G.mainMarshal u

/-- A row of the other codec with the same logical kind, the same type byte and (modulo the raw
ATTRS form on the main side) the same field kinds. -/
def agreesWith (fs : List MRow) (m : MRow) : Bool :=
  match G.kindOfMain.lookup m.1 with
  | none => false
  | some k => fs.any fun f =>
      G.kindOfFx.lookup f.1 == some k && f.2.1 == m.2.1 && Spec.refines (kinds m.2.2) (kinds f.2.2)

/-- No two rows of a table have the same logical kind. -/
def kindsUnique (kindOf : List (String × String)) (names : List String) : Bool :=
  let ks := names.map fun n => kindOf.lookup n
  ks.all (·.isSome) && ks.eraseDups.length == ks.length

def allSafe (us : List URow) : Bool := us.all fun u => u.2.all (·.safe)

/-- Every type byte accepted by `makePacket` has a tabulated decoder of the kind the spec gives to
that type byte. -/
def switchRowCovered (r : Nat × String) : Bool :=
  (G.mainUnmarshal.lookup r.2).isSome &&
  match G.kindOfMain.lookup r.2 with
  | none => false
  | some k =>
    if k == "Extended" then r.1 == Spec.extendedType
    else match Spec.layout.lookup k with
      | none => false
      | some (typ, _) => typ == r.1

/-- A draft request kind reaches a decoder through `makePacket`. -/
def draftKindCovered (k : String) : Bool :=
  G.makePacketSwitch.any fun r => G.kindOfMain.lookup r.2 == some k

/-- An entry of the server's extension switch names a decoder whose kind carries that very
extension name in the specification. -/
def extSwitchRowOK (r : String × String) : Bool :=
  (G.mainUnmarshal.lookup r.2).isSome &&
  match G.kindOfMain.lookup r.2 with
  | none => false
  | some k => Spec.extRequests.lookup k == some r.1

/-- filexfer: a request kind of the specification has a decoder and an encoder. -/
def fxKindCovered (k : String) : Bool :=
  (G.fxUnmarshal.any fun u => G.kindOfFx.lookup u.1 == some k) &&
  (G.fxMarshal.any fun m => G.kindOfFx.lookup m.1 == some k)

/-- filexfer: a registered extension name constructs the packet type of that name's kind. -/
def fxRegistryRowOK (r : String × String) : Bool :=
  match G.kindOfFx.lookup r.2 with
  | none => false
  | some k => Spec.extRequests.lookup k == some r.1


/-- The fields of the row have, in order, the roles the specification gives to its kind. -/
def rowRolesOK (kindOf : List (String × String)) (name : String) (fields : List FieldD) : Bool :=
  match kindOf.lookup name with
  | none => false
  | some k =>
    if k == "Extended" then fields.map (Spec.roleOfField k) == [some "id", some "extname"]
    else match Spec.layout.lookup k, Spec.roles.lookup k with
      | some (_, spec), some rs =>
        match Spec.refinement (decKinds fields) (spec.map eraseC) with
        | some r => fields.map (Spec.roleOfField k) == (Spec.refineRoles r rs).map some
        | none => false
      | _, _ => false

/-! ### generic lemmas -/

theorem encodeFields_sameKinds : ∀ (l1 l2 : List FieldD) (vs : List Val),
    kinds l1 = kinds l2 → encodeFields l1 vs = encodeFields l2 vs
  | [], [], _, _ => rfl
  | [], _ :: _, _, h => by simp [kinds] at h
  | _ :: _, [], _, h => by simp [kinds] at h
  | f1 :: l1, f2 :: l2, vs, h => by
    simp only [kinds, List.map_cons, List.cons.injEq] at h
    have ih := fun vs' => encodeFields_sameKinds l1 l2 vs' h.2
    cases vs with
    | nil => rfl
    | cons v vs' =>
      rw [encodeFields, encodeFields, h.1, ih vs']

theorem decField_eraseC (cfg : DecCfg) (k : FKind) (s : Bool) (bs : Bytes) :
    decField cfg (eraseC k) s bs = decField cfg k s bs := by
  cases k <;> rfl

theorem decodeFields_sameSig (cfg : DecCfg) : ∀ (l1 l2 : List FieldD) (bs : Bytes),
    decSig l1 = decSig l2 → decodeFields cfg l1 bs = decodeFields cfg l2 bs
  | [], [], _, _ => rfl
  | [], _ :: _, _, h => by simp [decSig] at h
  | _ :: _, [], _, h => by simp [decSig] at h
  | f1 :: l1, f2 :: l2, bs, h => by
    simp only [decSig, List.map_cons, List.cons.injEq, Prod.mk.injEq] at h
    have ih := fun bs' => decodeFields_sameSig cfg l1 l2 bs' h.2
    rw [decodeFields, decodeFields, ← decField_eraseC cfg f1.kind, ← decField_eraseC cfg f2.kind,
      h.1.1, h.1.2]
    congr 1
    funext v
    rw [ih]

/-- Kinds equal after erasing constants and all fields safe on both sides ⇒ same signature. -/
theorem decSig_of_decKinds (l1 l2 : List FieldD) (hk : decKinds l1 = decKinds l2)
    (h1 : l1.all (·.safe) = true) (h2 : l2.all (·.safe) = true) : decSig l1 = decSig l2 := by
  induction l1 generalizing l2 with
  | nil => cases l2 with
    | nil => rfl
    | cons _ _ => simp [decKinds] at hk
  | cons f1 l1 ih => cases l2 with
    | nil => simp [decKinds] at hk
    | cons f2 l2 =>
      simp only [decKinds, List.map_cons, List.cons.injEq] at hk
      simp only [List.all_cons, Bool.and_eq_true] at h1 h2
      simp only [decSig, List.map_cons, List.cons.injEq, Prod.mk.injEq]
      exact ⟨⟨hk.1, by rw [h1.1, h2.1]⟩, ih l2 hk.2 h1.2 h2.2⟩

theorem encodeFields_append : ∀ (l1 : List FieldD) (v1 : List Val) (l2 : List FieldD) (v2 : List Val),
    l1.length = v1.length →
    encodeFields (l1 ++ l2) (v1 ++ v2) =
      match encodeFields l1 v1, encodeFields l2 v2 with
      | some a, some b => some (a ++ b)
      | _, _ => none
  | [], [], l2, v2, _ => by
    simp only [List.nil_append, encodeFields]
    cases encodeFields l2 v2 <;> rfl
  | [], _ :: _, _, _, h => by simp at h
  | _ :: _, [], _, _, h => by simp at h
  | f :: l1, v :: v1, l2, v2, h => by
    have ih := encodeFields_append l1 v1 l2 v2 (by simpa using h)
    simp only [List.cons_append]
    rw [encodeFields, encodeFields, ih]
    cases encField f.kind v <;> cases encodeFields l1 v1 <;> cases encodeFields l2 v2 <;>
      simp [List.append_assoc]

theorem length_encAttrs_ge (a : Attrs) : 4 ≤ (encAttrs a).length := by
  simp [encAttrs, optBytes]

/-- The raw form of a trailing ATTRS block produces the bytes of the structured form. -/
theorem attrs_flagsRest_bytes (a : Attrs) (n1 n2 n3 : String) (s1 s2 s3 : Bool) :
    encodeFields [⟨.u32, n1, s1⟩, ⟨.rest, n2, s2⟩] [.n a.flags, .b (Spec.attrBody a)] =
    encodeFields [⟨.attrs, n3, s3⟩] [.attrs a] := by
  simp only [encodeFields, encField, Spec.attrBody, List.append_nil, encAttrs]
  rw [List.drop_left' (length_be32 _)]

/-- With no attribute present the flags word alone is the whole ATTRS block. -/
theorem attrs_flagsOnly_bytes (n1 n3 : String) (s1 s3 : Bool) :
    encodeFields [⟨.u32, n1, s1⟩] [.n 0] =
    encodeFields [⟨.attrs, n3, s3⟩] [.attrs ⟨0, 0, 0, 0, 0, 0, 0, []⟩] := by
  simp [encodeFields, encField, encAttrs, optBytes]

end Sftp.C06
