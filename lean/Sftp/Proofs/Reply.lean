import Sftp.Model.Reply
/-
  C20 helper lemmas: a `Safe` program never panics; every program only shortens `data`; a `linear` program
  allocates at most `rate * len(data)`.
-/
namespace Sftp.Reply
open Sftp

/-! ### properties of state transformers -/

def NoPanic (f : St → Res) : Prop := ∀ st, (f st).isPanic = false
def Mono (f : St → Res) : Prop := ∀ st st', f st = .ok st' → st'.data.length ≤ st.data.length
def Consumes (f : St → Res) : Prop := ∀ st st', f st = .ok st' → st'.data.length < st.data.length
/-- on success the potential `meter + R * len(data)` does not grow; in every case the meter ends below it -/
def Paid (R : Nat) (f : St → Res) : Prop :=
  ∀ st, (∀ st', f st = .ok st' → st'.meter + R * st'.data.length ≤ st.meter + R * st.data.length) ∧
        (f st).meter ≤ st.meter + R * st.data.length
def Bounded (R : Nat) (f : St → Res) : Prop := ∀ st, (f st).meter ≤ st.meter + R * st.data.length

theorem short_isPanic_safe (m : Nat) : (short true m).isPanic = false := rfl
theorem short_meter (s : Bool) (m : Nat) : (short s m).meter = m := by cases s <;> rfl
theorem short_ne_ok (s : Bool) (m : Nat) (st : St) : short s m ≠ .ok st := by cases s <;> simp [short]

theorem iter_noPanic {f : St → Res} (hf : NoPanic f) : ∀ n st, (iter f n st).isPanic = false
  | 0, st => rfl
  | n + 1, st => by
    rw [iter]
    have := hf st
    split
    · exact iter_noPanic hf n _
    · next r hr => cases h : f st <;> simp_all [Res.isPanic]

theorem iterRest_noPanic {f : St → Res} (hf : NoPanic f) : ∀ n st, (iterRest f n st).isPanic = false
  | 0, st => by rw [iterRest]; split <;> rfl
  | n + 1, st => by
    rw [iterRest]
    have := hf st
    split
    · rfl
    · split
      · split
        · exact iterRest_noPanic hf n _
        · rfl
      · next r hr => cases h : f st <;> simp_all [Res.isPanic]

theorem iter_mono {f : St → Res} (hf : Mono f) : ∀ n st st', iter f n st = .ok st' → st'.data.length ≤ st.data.length
  | 0, st, st', h => by rw [iter] at h; cases h; exact Nat.le_refl _
  | n + 1, st, st', h => by
    rw [iter] at h
    split at h
    · next s1 h1 =>
      have := hf st s1 h1
      have := iter_mono hf n _ st' h
      simp only at this; omega
    · next r hr => cases r <;> simp_all

theorem iterRest_mono {f : St → Res} (hf : Mono f) :
    ∀ n st st', iterRest f n st = .ok st' → st'.data.length ≤ st.data.length
  | 0, st, st', h => by
    rw [iterRest] at h; split at h
    · cases h; exact Nat.le_refl _
    · cases h
  | n + 1, st, st', h => by
    rw [iterRest] at h
    split at h
    · cases h; exact Nat.le_refl _
    · split at h
      · next s1 h1 =>
        split at h
        · have := iterRest_mono hf n _ st' h
          simp only at this; omega
        · cases h
      · next r hr => cases r <;> simp_all

/-- `iter` over a paid, consuming body: `n` completed iterations consumed at least `n` bytes -/
theorem iter_paid {f : St → Res} {R : Nat} (hp : Paid R f) (hc : Consumes f) :
    ∀ n st, (∀ st', iter f n st = .ok st' →
        st'.data.length + n ≤ st.data.length ∧
        st'.meter + (R + 1) * st'.data.length ≤ st.meter + (R + 1) * st.data.length) ∧
      (iter f n st).meter ≤ st.meter + (R + 1) * st.data.length
  | 0, st => by
    rw [iter]
    refine ⟨fun st' h => ?_, Nat.le_add_right _ _⟩
    cases h; exact ⟨Nat.le_refl _, Nat.le_refl _⟩
  | n + 1, st => by
    rw [iter]
    have ⟨hp1, hp2⟩ := hp st
    split
    · next s1 h1 =>
      have hlt := hc st s1 h1
      have hpot := hp1 s1 h1
      have ⟨ih1, ih2⟩ := iter_paid hp hc n { s1 with meter := s1.meter + 1 }
      simp only at ih1 ih2
      have e1 : (R + 1) * s1.data.length = R * s1.data.length + s1.data.length := by
        rw [Nat.add_mul, Nat.one_mul]
      have e2 : (R + 1) * st.data.length = R * st.data.length + st.data.length := by
        rw [Nat.add_mul, Nat.one_mul]
      refine ⟨fun st' h => ?_, ?_⟩
      · have ⟨a, b⟩ := ih1 st' h
        refine ⟨by omega, ?_⟩
        omega
      · omega
    · next r hr =>
      refine ⟨fun st' h => ?_, ?_⟩
      · cases r <;> simp_all
      · have e2 : (R + 1) * st.data.length = R * st.data.length + st.data.length := by
          rw [Nat.add_mul, Nat.one_mul]
        omega

theorem iterRest_paid {f : St → Res} {R : Nat} (hp : Paid R f) :
    ∀ n st, (∀ st', iterRest f n st = .ok st' →
        st'.data.length ≤ st.data.length ∧
        st'.meter + (R + 1) * st'.data.length ≤ st.meter + (R + 1) * st.data.length) ∧
      (iterRest f n st).meter ≤ st.meter + (R + 1) * st.data.length
  | 0, st => by
    rw [iterRest]
    split
    · refine ⟨fun st' h => ?_, Nat.le_add_right _ _⟩
      cases h; exact ⟨Nat.le_refl _, Nat.le_refl _⟩
    · exact ⟨fun st' h => (by cases h), Nat.le_add_right _ _⟩
  | n + 1, st => by
    rw [iterRest]
    have ⟨hp1, hp2⟩ := hp st
    have e2 : (R + 1) * st.data.length = R * st.data.length + st.data.length := by
      rw [Nat.add_mul, Nat.one_mul]
    split
    · refine ⟨fun st' h => ?_, Nat.le_add_right _ _⟩
      cases h; exact ⟨Nat.le_refl _, Nat.le_refl _⟩
    · split
      · next s1 h1 =>
        have hpot := hp1 s1 h1
        have e1 : (R + 1) * s1.data.length = R * s1.data.length + s1.data.length := by
          rw [Nat.add_mul, Nat.one_mul]
        split
        · next hlt =>
          have ⟨ih1, ih2⟩ := iterRest_paid hp n { s1 with meter := s1.meter + 1 }
          simp only at ih1 ih2
          refine ⟨fun st' h => ?_, ?_⟩
          · have ⟨a, b⟩ := ih1 st' h
            exact ⟨by omega, by omega⟩
          · omega
        · refine ⟨fun st' h => (by cases h), ?_⟩
          rw [h1] at hp2
          simp only [Res.meter] at hp2 ⊢
          omega
      · next r hr =>
        refine ⟨fun st' h => ?_, ?_⟩
        · cases r <;> simp_all
        · omega


/-! ### every program only shortens `data` -/

mutual
theorem runStep_mono (cap : Nat) : ∀ (s : RStep), Mono (runStep cap s)
  | .u32 safe => by
    intro st st' h; rw [runStep] at h
    split at h
    · next v r hg => cases h; have := get32?_length hg; simp only; omega
    · exact absurd h (short_ne_ok _ _ _)
  | .u64 safe => by
    intro st st' h; rw [runStep] at h
    split at h
    · next v r hg => cases h; have := get64?_length hg; simp only; omega
    · exact absurd h (short_ne_ok _ _ _)
  | .str safe => by
    intro st st' h; rw [runStep] at h
    split at h
    · exact absurd h (short_ne_ok _ _ _)
    · next n b1 hg =>
      have := get32?_length hg
      split at h
      · cases h; simp only [List.length_drop]; omega
      · exact absurd h (short_ne_ok _ _ _)
  | .strOpt => by
    intro st st' h; rw [runStep] at h
    split at h
    · cases h; simp
    · next n b1 hg =>
      have := get32?_length hg
      split at h
      · cases h; simp only [List.length_drop]; omega
      · cases h; simp
  | .flags safe => by
    intro st st' h; rw [runStep] at h
    split at h
    · next v r hg => cases h; have := get32?_length hg; simp only; omega
    · exact absurd h (short_ne_ok _ _ _)
  | .call fn => by intro st st' h; rw [runStep] at h; cases h
  | .checkId => by
    intro st st' h; rw [runStep] at h
    split at h
    · cases h; exact Nat.le_refl _
    · cases h
  | .idFromLast => by intro st st' h; rw [runStep] at h; cases h; exact Nat.le_refl _
  | .checkCountIs n => by
    intro st st' h; rw [runStep] at h
    split at h
    · cases h; exact Nat.le_refl _
    · cases h
  | .sliceLen safe => by
    intro st st' h; rw [runStep] at h
    split at h
    · cases h; exact Nat.le_refl _
    · exact absurd h (short_ne_ok _ _ _)
  | .sliceBuf safe => by
    intro st st' h; rw [runStep] at h
    split at h
    · cases h; exact Nat.le_refl _
    · exact absurd h (short_ne_ok _ _ _)
  | .loopCount g p body => by
    intro st st' h
    have ih := runProg_mono cap body
    cases g with
    | none => rw [runStep] at h; exact (iter_mono ih _ _ _ h :)
    | some u =>
      rw [runStep] at h
      split at h
      · cases h
      · exact (iter_mono ih _ _ _ h :)
  | .loopRest body => by
    intro st st' h; rw [runStep] at h
    exact iterRest_mono (runProg_mono cap body) _ _ _ h
  | .ifFlag m body => by
    intro st st' h; rw [runStep] at h
    split at h
    · exact runProg_mono cap body st st' h
    · cases h; exact Nat.le_refl _
  | .binaryRead n => by
    intro st st' h; rw [runStep] at h
    split at h
    · cases h; simp only [List.length_drop]; omega
    · cases h
  | .peek body => by
    intro st st' h; rw [runStep] at h
    split at h
    · cases h; exact Nat.le_refl _
    · next r hr => cases r <;> simp_all

theorem runProg_mono (cap : Nat) : ∀ (p : List RStep), Mono (runProg cap p)
  | [] => by intro st st' h; rw [runProg] at h; cases h; exact Nat.le_refl _
  | s :: rest => by
    intro st st' h; rw [runProg] at h
    split at h
    · next s1 h1 =>
      have := runStep_mono cap s st s1 h1
      have := runProg_mono cap rest s1 st' h
      omega
    · next r hr => cases r <;> simp_all
end


/-! ### a Safe program never panics -/

theorem isSome_some {α} {o : Option α} (h : o.isSome = true) : ∃ a, o = some a := by
  cases o with
  | none => cases h
  | some a => exact ⟨a, rfl⟩

theorem u32like_sound {safe : Bool} {avail a' : Nat} {st : St} {k : Nat × Bytes → St}
    (h : (if (safe || decide (4 ≤ avail)) = true then some (avail - 4) else none) = some a')
    (hav : avail ≤ st.data.length) (hk : ∀ v r, (k (v, r)).data = r) :
    let res := (match get32? st.data with
      | some (v, r) => Res.ok (k (v, r))
      | none => short safe st.meter)
    res.isPanic = false ∧ ∀ st', res = .ok st' → a' ≤ st'.data.length := by
  intro res
  split at h
  · next hc =>
    cases h
    simp only [Bool.or_eq_true, decide_eq_true_eq] at hc
    cases hg : get32? st.data with
    | some vr =>
      obtain ⟨v, r⟩ := vr
      have hl := get32?_length hg
      simp only [res, hg]
      refine ⟨rfl, fun st' h => ?_⟩
      cases h; rw [hk]; omega
    | none =>
      have hl := (get32?_none_iff _).1 hg
      simp only [res, hg]
      rcases hc with hc | hc
      · subst hc; exact ⟨rfl, fun st' h => by cases h⟩
      · omega
  · cases h

mutual
theorem safeStep_sound (cap : Nat) : ∀ (s : RStep) (avail a' : Nat), safeStep avail s = some a' →
    ∀ st, avail ≤ st.data.length →
      (runStep cap s st).isPanic = false ∧ ∀ st', runStep cap s st = .ok st' → a' ≤ st'.data.length
  | .u32 safe, avail, a', h, st, hav => by
    rw [safeStep] at h; rw [runStep]
    exact u32like_sound (k := fun vr => { st with data := vr.2, last := vr.1 }) h hav (fun _ _ => rfl)
  | .flags safe, avail, a', h, st, hav => by
    rw [safeStep] at h; rw [runStep]
    exact u32like_sound (k := fun vr => { st with data := vr.2, flags := vr.1 }) h hav (fun _ _ => rfl)
  | .u64 safe, avail, a', h, st, hav => by
    rw [safeStep] at h; rw [runStep]
    split at h
    · next hc =>
      cases h
      simp only [Bool.or_eq_true, decide_eq_true_eq] at hc
      cases hg : get64? st.data with
      | some vr =>
        obtain ⟨v, r⟩ := vr
        have hl := get64?_length hg
        refine ⟨rfl, fun st' h => ?_⟩
        cases h; simp only; omega
      | none =>
        simp only
        rcases hc with hc | hc
        · subst hc; exact ⟨rfl, fun st' h => by cases h⟩
        · exfalso
          unfold get64? at hg
          split at hg
          · next h1 => have := (get32?_none_iff _).1 h1; omega
          · next h1 b1 hh =>
            have := get32?_length hh
            split at hg
            · next h2 => have := (get32?_none_iff _).1 h2; omega
            · cases hg
    · cases h
  | .str safe, avail, a', h, st, hav => by
    rw [safeStep] at h; rw [runStep]
    split at h
    · next hs =>
      subst hs; cases h
      split
      · exact ⟨rfl, fun st' h => by cases h⟩
      · split
        · exact ⟨rfl, fun st' h => Nat.zero_le _⟩
        · exact ⟨rfl, fun st' h => by cases h⟩
    · cases h
  | .strOpt, avail, a', h, st, hav => by
    rw [safeStep] at h; rw [runStep]; cases h
    split
    · exact ⟨rfl, fun st' h => Nat.zero_le _⟩
    · split <;> exact ⟨rfl, fun st' h => Nat.zero_le _⟩
  | .call fn, avail, a', h, st, hav => by rw [safeStep] at h; cases h
  | .checkId, avail, a', h, st, hav => by
    rw [safeStep] at h; rw [runStep]; cases h
    split
    · exact ⟨rfl, fun st' h => by cases h; exact hav⟩
    · exact ⟨rfl, fun st' h => by cases h⟩
  | .idFromLast, avail, a', h, st, hav => by
    rw [safeStep] at h; rw [runStep]; cases h
    exact ⟨rfl, fun st' h => by cases h; exact hav⟩
  | .checkCountIs n, avail, a', h, st, hav => by
    rw [safeStep] at h; rw [runStep]; cases h
    split
    · exact ⟨rfl, fun st' h => by cases h; exact hav⟩
    · exact ⟨rfl, fun st' h => by cases h⟩
  | .sliceLen safe, avail, a', h, st, hav => by
    rw [safeStep] at h; rw [runStep]
    split at h
    · next hs =>
      subst hs; cases h
      split
      · exact ⟨rfl, fun st' h => by cases h; exact hav⟩
      · exact ⟨rfl, fun st' h => by cases h⟩
    · cases h
  | .sliceBuf safe, avail, a', h, st, hav => by
    rw [safeStep] at h; rw [runStep]
    split at h
    · next hs =>
      subst hs; cases h
      split
      · exact ⟨rfl, fun st' h => by cases h; exact hav⟩
      · exact ⟨rfl, fun st' h => by cases h⟩
    · cases h
  | .loopCount g p body, avail, a', h, st, hav => by
    rw [safeStep] at h
    split at h
    · next hb =>
      cases h
      obtain ⟨a, ha⟩ := isSome_some hb
      have hnp : NoPanic (runProg cap body) := fun s => (safeProg_sound cap body 0 a ha s (Nat.zero_le _)).1
      cases g with
      | none => rw [runStep]; exact ⟨iter_noPanic hnp _ _, fun st' h => Nat.zero_le _⟩
      | some u =>
        rw [runStep]
        split
        · exact ⟨rfl, fun st' h => by cases h⟩
        · exact ⟨iter_noPanic hnp _ _, fun st' h => Nat.zero_le _⟩
    · cases h
  | .loopRest body, avail, a', h, st, hav => by
    rw [safeStep] at h; rw [runStep]
    split at h
    · next hb =>
      cases h
      obtain ⟨a, ha⟩ := isSome_some hb
      have hnp : NoPanic (runProg cap body) := fun s => (safeProg_sound cap body 0 a ha s (Nat.zero_le _)).1
      exact ⟨iterRest_noPanic hnp _ _, fun st' h => Nat.zero_le _⟩
    · cases h
  | .ifFlag m body, avail, a', h, st, hav => by
    rw [safeStep] at h; rw [runStep]
    split at h
    · next hb =>
      cases h
      obtain ⟨a, ha⟩ := isSome_some hb
      split
      · exact ⟨(safeProg_sound cap body avail a ha st hav).1, fun st' h => Nat.zero_le _⟩
      · exact ⟨rfl, fun st' h => Nat.zero_le _⟩
    · cases h
  | .binaryRead n, avail, a', h, st, hav => by
    rw [safeStep] at h; rw [runStep]; cases h
    split <;> exact ⟨rfl, fun st' h => Nat.zero_le _⟩
  | .peek body, avail, a', h, st, hav => by
    rw [safeStep] at h; rw [runStep]
    split at h
    · next hb =>
      cases h
      obtain ⟨a, ha⟩ := isSome_some hb
      have ⟨h1, _⟩ := safeProg_sound cap body avail a ha st hav
      split
      · exact ⟨rfl, fun st' h => by cases h; exact hav⟩
      · next r hr =>
        refine ⟨?_, fun st' h => ?_⟩
        · exact h1
        · cases hx : runProg cap body st <;> simp_all
    · cases h

theorem safeProg_sound (cap : Nat) : ∀ (p : List RStep) (avail a' : Nat), safeProg avail p = some a' →
    ∀ st, avail ≤ st.data.length →
      (runProg cap p st).isPanic = false ∧ ∀ st', runProg cap p st = .ok st' → a' ≤ st'.data.length
  | [], avail, a', h, st, hav => by
    rw [safeProg] at h; rw [runProg]; cases h
    exact ⟨rfl, fun st' h => by cases h; exact hav⟩
  | s :: rest, avail, a', h, st, hav => by
    rw [safeProg] at h; rw [runProg]
    split at h
    · next a1 h1 =>
      have ⟨hs1, hs2⟩ := safeStep_sound cap s avail a1 h1 st hav
      split
      · next s1 hr1 => exact safeProg_sound cap rest a1 a' h s1 (hs2 s1 hr1)
      · next r hr =>
        refine ⟨hs1, fun st' h => ?_⟩
        cases hx : runStep cap s st <;> simp_all
    · cases h
end


/-! ### consuming steps -/

theorem consumesStep_sound (cap : Nat) : ∀ (s : RStep), consumesStep s = true → Consumes (runStep cap s)
  | .u32 safe, _ => by
    intro st st' h; rw [runStep] at h
    split at h
    · next v r hg => cases h; have := get32?_length hg; simp only; omega
    · exact absurd h (short_ne_ok _ _ _)
  | .flags safe, _ => by
    intro st st' h; rw [runStep] at h
    split at h
    · next v r hg => cases h; have := get32?_length hg; simp only; omega
    · exact absurd h (short_ne_ok _ _ _)
  | .u64 safe, _ => by
    intro st st' h; rw [runStep] at h
    split at h
    · next v r hg => cases h; have := get64?_length hg; simp only; omega
    · exact absurd h (short_ne_ok _ _ _)
  | .str safe, _ => by
    intro st st' h; rw [runStep] at h
    split at h
    · exact absurd h (short_ne_ok _ _ _)
    · next n b1 hg =>
      have := get32?_length hg
      split at h
      · cases h; simp only [List.length_drop]; omega
      · exact absurd h (short_ne_ok _ _ _)
  | .binaryRead n, hc => by
    intro st st' h; rw [runStep] at h
    simp only [consumesStep, decide_eq_true_eq] at hc
    split at h
    · cases h; simp only [List.length_drop]; omega
    · cases h
  | .strOpt, hc | .call _, hc | .checkId, hc | .idFromLast, hc | .checkCountIs _, hc | .sliceLen _, hc
  | .sliceBuf _, hc | .loopCount _ _ _, hc | .loopRest _, hc | .ifFlag _ _, hc | .peek _, hc => by
    simp [consumesStep] at hc

theorem consumesProg_sound (cap : Nat) : ∀ (p : List RStep), consumesProg p = true → Consumes (runProg cap p)
  | [], hc => by simp [consumesProg] at hc
  | s :: rest, hc => by
    intro st st' h; rw [runProg] at h
    rw [consumesProg, Bool.or_eq_true] at hc
    split at h
    · next s1 h1 =>
      have m1 := runStep_mono cap s st s1 h1
      have m2 := runProg_mono cap rest s1 st' h
      rcases hc with hc | hc
      · have := consumesStep_sound cap s hc st s1 h1; omega
      · have := consumesProg_sound cap rest hc s1 st' h; omega
    · next r hr => cases r <;> simp_all

/-! ### paid programs -/

theorem paid_of_meter_eq {f : St → Res} (h : ∀ st, (f st).meter = st.meter) : Paid 0 f := by
  intro st
  have := h st
  refine ⟨fun st' h' => ?_, by omega⟩
  rw [h'] at this; simp only [Res.meter] at this; omega

theorem Paid.bounded {R : Nat} {f : St → Res} (h : Paid R f) : Bounded R f := fun st => (h st).2

theorem mul3 (p r x : Nat) : (p + 1 + r) * x = p * x + (r + 1) * x := by
  rw [show p + 1 + r = p + (r + 1) by omega, Nat.add_mul]

mutual
theorem paidStep_sound (cap : Nat) : ∀ (s : RStep), paidStep s = true → Paid (rateStep s) (runStep cap s)
  | .u32 safe, _ => by
    show Paid 0 _; apply paid_of_meter_eq; intro st; rw [runStep]; split <;> first | rw [short_meter] | rfl
  | .u64 safe, _ => by
    show Paid 0 _; apply paid_of_meter_eq; intro st; rw [runStep]; split <;> first | rw [short_meter] | rfl
  | .flags safe, _ => by
    show Paid 0 _; apply paid_of_meter_eq; intro st; rw [runStep]; split <;> first | rw [short_meter] | rfl
  | .checkId, _ => by
    show Paid 0 _; apply paid_of_meter_eq; intro st; rw [runStep]; split <;> rfl
  | .idFromLast, _ => by
    show Paid 0 _; apply paid_of_meter_eq; intro st; rw [runStep]; rfl
  | .checkCountIs n, _ => by
    show Paid 0 _; apply paid_of_meter_eq; intro st; rw [runStep]; split <;> rfl
  | .sliceLen safe, _ => by
    show Paid 0 _; apply paid_of_meter_eq; intro st; rw [runStep]; split <;> first | rw [short_meter] | rfl
  | .sliceBuf safe, _ => by
    show Paid 0 _; apply paid_of_meter_eq; intro st; rw [runStep]; split <;> first | rw [short_meter] | rfl
  | .binaryRead n, _ => by
    show Paid 0 _; apply paid_of_meter_eq; intro st; rw [runStep]; split <;> rfl
  | .call fn, h => by simp [paidStep] at h
  | .peek body, h => by simp [paidStep] at h
  | .str safe, _ => by
    show Paid 1 _; intro st; rw [runStep]
    split
    · exact ⟨fun st' h => absurd h (short_ne_ok _ _ _), by rw [short_meter]; omega⟩
    · next n b1 hg =>
      have := get32?_length hg
      split
      · refine ⟨fun st' h => ?_, ?_⟩
        · cases h; simp only [List.length_drop]; omega
        · simp only [Res.meter]; omega
      · exact ⟨fun st' h => absurd h (short_ne_ok _ _ _), by rw [short_meter]; omega⟩
  | .strOpt, _ => by
    show Paid 1 _; intro st; rw [runStep]
    split
    · refine ⟨fun st' h => ?_, ?_⟩
      · cases h; simp only [List.length_nil]; omega
      · simp only [Res.meter]; omega
    · next n b1 hg =>
      have := get32?_length hg
      split
      · refine ⟨fun st' h => ?_, ?_⟩
        · cases h; simp only [List.length_drop]; omega
        · simp only [Res.meter]; omega
      · refine ⟨fun st' h => ?_, ?_⟩
        · cases h; simp only [List.length_nil]; omega
        · simp only [Res.meter]; omega
  | .ifFlag m body, h => by
    rw [paidStep] at h; rw [rateStep]; intro st; rw [runStep]
    split
    · exact paidProg_sound cap body h st
    · exact ⟨fun st' h => by cases h; exact Nat.le_refl _, by simp only [Res.meter]; omega⟩
  | .loopRest body, h => by
    rw [paidStep] at h; rw [rateStep]; intro st; rw [runStep]
    have ⟨a, b⟩ := iterRest_paid (paidProg_sound cap body h) st.data.length st
    rw [Nat.add_comm 1]
    exact ⟨fun st' h => (a st' h).2, b⟩
  | .loopCount g p body, h => by
    rw [paidStep] at h
    simp only [Bool.and_eq_true, Bool.or_eq_true, beq_iff_eq] at h
    obtain ⟨⟨hb, hc⟩, hg⟩ := h
    have hpaid := paidProg_sound cap body hb
    have hcons := consumesProg_sound cap body hc
    rw [rateStep]; intro st
    have e := mul3 p (rateProg body)
    have key := iter_paid hpaid hcons st.last { st with meter := st.meter + p * st.last }
    simp only at key
    obtain ⟨k1, k2⟩ := key
    have okCase : ∀ st', iter (runProg cap body) st.last { st with meter := st.meter + p * st.last } = .ok st' →
        st'.meter + (p + 1 + rateProg body) * st'.data.length ≤
          st.meter + (p + 1 + rateProg body) * st.data.length := by
      intro st' h'
      have ⟨a, b⟩ := k1 st' h'
      have := Nat.mul_le_mul_left p a
      rw [Nat.mul_add] at this
      rw [e, e]; omega
    cases g with
    | none =>
      rw [runStep]
      have hp0 : p = 0 := by rcases hg with hg | hg <;> simp_all [guardPos]
      refine ⟨okCase, ?_⟩
      rw [e]; subst hp0; simp only [Nat.zero_mul, Nat.add_zero] at k2 ⊢; omega
    | some u =>
      rw [runStep]
      split
      · exact ⟨fun st' h => (by cases h), (by simp only [Res.meter]; omega)⟩
      · next hle =>
        refine ⟨okCase, ?_⟩
        have hcnt : p * st.last ≤ p * st.data.length := by
          apply Nat.mul_le_mul_left
          have := Nat.div_le_self st.data.length u
          omega
        rw [e]; omega

theorem paidProg_sound (cap : Nat) : ∀ (p : List RStep), paidProg p = true → Paid (rateProg p) (runProg cap p)
  | [], _ => by
    rw [rateProg]; apply paid_of_meter_eq; intro st; rw [runProg]; rfl
  | s :: rest, h => by
    rw [paidProg, Bool.and_eq_true] at h
    have h1 := paidStep_sound cap s h.1
    have h2 := paidProg_sound cap rest h.2
    rw [rateProg]; intro st; rw [runProg]
    have ⟨a1, b1⟩ := h1 st
    split
    · next s1 hr1 =>
      have pot1 := a1 s1 hr1
      have l1 := runStep_mono cap s st s1 hr1
      have ⟨a2, b2⟩ := h2 s1
      have m1 := Nat.mul_le_mul_left (rateProg rest) l1
      refine ⟨fun st' h' => ?_, ?_⟩
      · have pot2 := a2 st' h'
        have l2 := runProg_mono cap rest s1 st' h'
        have m2 := Nat.mul_le_mul_left (rateStep s) l2
        rw [Nat.add_mul, Nat.add_mul]; omega
      · rw [Nat.add_mul]; omega
    · next r hr =>
      refine ⟨fun st' h' => ?_, ?_⟩
      · cases hx : runStep cap s st <;> simp_all
      · rw [Nat.add_mul]; omega
end

/-! ### linear programs: paid steps and `peek`s -/

mutual
theorem linearStep_sound (cap : Nat) : ∀ (s : RStep), linearStep s = true → Bounded (rateStep s) (runStep cap s)
  | .peek body, h => by
    rw [linearStep] at h; rw [rateStep]; intro st; rw [runStep]
    have := linearProg_sound cap body h st
    split
    · next s1 h1 => rw [h1] at this; exact this
    · exact this
  | .u32 _, h | .u64 _, h | .str _, h | .strOpt, h | .flags _, h | .call _, h | .checkId, h | .idFromLast, h
  | .checkCountIs _, h | .sliceLen _, h | .sliceBuf _, h | .loopCount _ _ _, h | .loopRest _, h | .ifFlag _ _, h
  | .binaryRead _, h => by
    exact (paidStep_sound cap _ (h :)).bounded

theorem linearProg_sound (cap : Nat) : ∀ (p : List RStep), linearProg p = true → Bounded (rateProg p) (runProg cap p)
  | [], _ => by intro st; rw [runProg]; simp only [Res.meter]; omega
  | s :: rest, h => by
    rw [linearProg, Bool.and_eq_true] at h
    have h1 := linearStep_sound cap s h.1
    have h2 := linearProg_sound cap rest h.2
    rw [rateProg]; intro st; rw [runProg]
    have b1 := h1 st
    split
    · next s1 hr1 =>
      rw [hr1] at b1; simp only [Res.meter] at b1
      have l1 := runStep_mono cap s st s1 hr1
      have b2 := h2 s1
      have m1 := Nat.mul_le_mul_left (rateProg rest) l1
      rw [Nat.add_mul]; omega
    · rw [Nat.add_mul]; omega
end

end Sftp.Reply
