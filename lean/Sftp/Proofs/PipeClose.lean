import Sftp.Proofs.PipeLoc
/-
  Close barrier invariant: when a CLOSE leaves the dispatcher, the handler of EVERY request dispatched before it has
  returned (the WaitGroup counter was 0, so nothing was in a queue or in a worker).
  Needs `closeWaits`, `registerBeforeHandoff` and that CLOSE is not itself a pool kind.
-/
set_option linter.unusedSimpArgs false
namespace Sftp.Pipe

theorem InvLoc.split_oids {s : State} (h : InvLoc s) :
    s.dispatched.map OReq.oid = List.range' 1 s.dispatched.length ∧
      s.pktChan.map OReq.oid = List.range' (s.dispatched.length + 1) s.pktChan.length := by
  have := h.recvOids
  rw [h.split, List.map_append, List.length_append, ← List.range'_append_1] at this
  have := List.append_inj this (by simp)
  rw [Nat.add_comm]
  exact this

theorem InvLoc.dispatched_oid_le {s : State} (h : InvLoc s) {c : OReq} (hc : c ∈ s.dispatched) :
    1 ≤ c.oid ∧ c.oid ≤ s.dispatched.length := by
  have : c.oid ∈ s.dispatched.map OReq.oid := List.mem_map.mpr ⟨c, hc, rfl⟩
  rw [h.split_oids.1, List.mem_range'_1] at this
  omega

theorem InvLoc.pktChan_oid_gt {s : State} (h : InvLoc s) {c : OReq} (hc : c ∈ s.pktChan) :
    s.dispatched.length < c.oid := by
  have : c.oid ∈ s.pktChan.map OReq.oid := List.mem_map.mpr ⟨c, hc, rfl⟩
  rw [h.split_oids.2, List.mem_range'_1] at this
  omega

/-- With the WaitGroup counter at 0 every dispatched request has been handled. -/
theorem InvLoc.all_handled_of_idle {s : State} (h : InvLoc s) (hw : s.working = 0) {x : OReq}
    (hx : x ∈ s.dispatched) : x.oid ∈ s.handled := by
  have hp : pendingOids s = [] := List.eq_nil_of_length_eq_zero (by rw [← h.work, hw])
  have hmem : x.oid ∈ locs s := by
    rw [h.cnt.mem_iff, List.mem_range'_1]
    have := h.dispatched_oid_le hx
    omega
  simp only [locs, hp, List.append_nil, ← List.map_append] at hmem
  obtain ⟨p, hp1, hp2⟩ := List.mem_map.mp hmem
  have hp3 : p ∈ allResps s := by
    simp only [allResps, List.mem_append] at hp1 ⊢
    exact Or.inl (Or.inl hp1)
  obtain ⟨r, _, hpr, hrh⟩ := h.respOk p hp3
  rw [← hp2, hpr]
  exact hrh

structure InvClose (s : State) : Prop where
  closed : ∀ c ∈ s.dispatched, c.kind = .close → ∀ x ∈ s.dispatched, x.oid < c.oid → x.oid ∈ s.handled
  handledDisp : ∀ k ∈ s.handled, ∃ r ∈ s.dispatched, r.oid = k

theorem invClose_init (cfg : PipeCfg) : InvClose (init cfg) := by
  constructor <;> simp [init]

theorem InvClose.mono {s s' : State} (h : InvClose s) (h1 : s'.dispatched = s.dispatched)
    (h2 : ∀ k ∈ s.handled, k ∈ s'.handled)
    (h3 : ∀ k ∈ s'.handled, k ∈ s.handled ∨ ∃ r ∈ s.dispatched, r.oid = k) : InvClose s' := by
  constructor
  · intro c hc hk x hx hlt
    rw [h1] at hc hx
    exact h2 _ (h.closed c hc hk x hx hlt)
  · intro k hk
    rw [h1]
    rcases h3 k hk with hk | hk
    · exact h.handledDisp k hk
    · exact hk

theorem InvClose.frame {s s' : State} (h : InvClose s) (h1 : s'.dispatched = s.dispatched)
    (h2 : s'.handled = s.handled) : InvClose s' :=
  h.mono h1 (fun _ hk => h2 ▸ hk) (fun _ hk => Or.inl (h2 ▸ hk))

theorem invClose_dispatch {cfg : PipeCfg} (hreg : cfg.registerBeforeHandoff = true)
    (hcw : cfg.closeWaits = true) (hnp : ReqKind.close ∉ cfg.poolKinds) {s s' : State}
    (hl : InvLoc s) (h : InvClose s) (hs : dispatchStep cfg s = some s') : InvClose s' := by
  unfold dispatchStep at hs
  rw [hl.noPend] at hs
  simp only [hreg, hcw, if_true, true_and] at hs
  split at hs
  · simp at hs
  · rename_i r rest hp
    have hoid := hl.head_oid hp
    -- the new state differs in `dispatched` (one more) and not in `handled`
    have key : (r.kind = .close → s.working = 0) →
        ∀ c ∈ s.dispatched ++ [r], c.kind = .close → ∀ x ∈ s.dispatched ++ [r], x.oid < c.oid →
          x.oid ∈ s.handled := by
      intro hw c hc hk x hx hlt
      rcases List.mem_append.mp hc with hc | hc
      · rcases List.mem_append.mp hx with hx | hx
        · exact h.closed c hc hk x hx hlt
        · have := hl.dispatched_oid_le hc
          rw [List.mem_singleton] at hx
          subst hx
          omega
      · rw [List.mem_singleton] at hc
        subst hc
        rcases List.mem_append.mp hx with hx | hx
        · exact hl.all_handled_of_idle (hw hk) hx
        · rw [List.mem_singleton] at hx
          subst hx
          omega
    have hd : ∀ k ∈ s.handled, ∃ r' ∈ s.dispatched ++ [r], r'.oid = k := by
      intro k hk
      obtain ⟨r', hr', e⟩ := h.handledDisp k hk
      exact ⟨r', List.mem_append_left _ hr', e⟩
    split at hs
    · rename_i hpool
      simp only [Option.some.injEq] at hs
      subst hs
      exact ⟨key (fun hk => absurd (hk ▸ hpool) hnp), hd⟩
    · split at hs
      · simp at hs
      · rename_i hw
        simp only [Option.some.injEq] at hs
        subst hs
        refine ⟨key (fun hk => ?_), hd⟩
        simp only [hk, true_and, Decidable.not_not] at hw
        exact hw

theorem invClose_step {cfg : PipeCfg} (hreg : cfg.registerBeforeHandoff = true)
    (hcw : cfg.closeWaits = true) (hnp : ReqKind.close ∉ cfg.poolKinds) {s s' : State} {a : Action}
    (hl : InvLoc s) (h : InvClose s) (hs : step cfg s a = some s') : InvClose s' := by
  unfold step at hs
  rw [hl.noPanic] at hs
  simp only [Bool.false_eq_true, if_false] at hs
  cases a with
  | recv r =>
    simp only [recvStep] at hs
    split at hs
    · simp at hs
    · simp only [Option.some.injEq] at hs; subst hs; exact h.frame rfl rfl
  | dispatch => exact invClose_dispatch hreg hcw hnp hl h hs
  | workerTake i =>
    simp only [workerTakeStep] at hs
    split at hs
    · simp only [Option.some.injEq] at hs; subst hs; exact h.frame rfl rfl
    · simp at hs
  | workerHandle i =>
    simp only [workerHandleStep] at hs
    split at hs
    · rename_i r hsl
      simp only [Option.some.injEq] at hs; subst hs
      have hr : r ∈ s.dispatched := by
        apply hl.reqOk
        have : r ∈ s.slots.flatMap slotReqs :=
          List.mem_flatMap.mpr ⟨_, List.mem_of_getElem? hsl, by simp [slotReqs]⟩
        simp only [pendingReqs, List.mem_append]
        exact Or.inl (Or.inr this)
      refine h.mono rfl (fun k hk => List.mem_append_left _ hk) (fun k hk => ?_)
      rcases List.mem_append.mp hk with hk | hk
      · exact Or.inl hk
      · rw [List.mem_singleton] at hk
        exact Or.inr ⟨r, hr, hk.symm⟩
    · simp at hs
  | workerReady i =>
    simp only [workerReadyStep] at hs
    split at hs
    · split at hs <;> (simp only [Option.some.injEq] at hs; subst hs; exact h.frame rfl rfl)
    · simp at hs
  | cmdTake =>
    simp only [cmdTakeStep] at hs
    split at hs
    · simp only [Option.some.injEq] at hs; subst hs; exact h.frame rfl rfl
    · simp at hs
  | cmdHandle =>
    simp only [cmdHandleStep] at hs
    split at hs
    · rename_i r hsl
      simp only [Option.some.injEq] at hs; subst hs
      have hr : r ∈ s.dispatched := by
        apply hl.reqOk
        simp [pendingReqs, hsl, slotReqs]
      refine h.mono rfl (fun k hk => List.mem_append_left _ hk) (fun k hk => ?_)
      rcases List.mem_append.mp hk with hk | hk
      · exact Or.inl hk
      · rw [List.mem_singleton] at hk
        exact Or.inr ⟨r, hr, hk.symm⟩
    · simp at hs
  | cmdReady =>
    simp only [cmdReadyStep] at hs
    split at hs
    · split at hs <;> (simp only [Option.some.injEq] at hs; subst hs; exact h.frame rfl rfl)
    · simp at hs
  | ctlTakeReq =>
    simp only [ctlTakeReqStep] at hs
    split at hs
    · simp at hs
    · split at hs
      · simp at hs
      · simp only [Option.some.injEq] at hs; subst hs; exact h.frame rfl rfl
  | ctlTakeResp =>
    simp only [ctlTakeRespStep] at hs
    split at hs
    · simp at hs
    · split at hs
      · simp at hs
      · simp only [Option.some.injEq] at hs; subst hs; exact h.frame rfl rfl
  | closeInput =>
    simp only [closeInputStep] at hs
    split at hs
    · simp at hs
    · simp only [Option.some.injEq] at hs; subst hs; exact h.frame rfl rfl
  | dispatcherShutdown =>
    simp only [dispatcherShutdownStep] at hs
    split at hs
    · simp only [Option.some.injEq] at hs; subst hs; exact h.frame rfl rfl
    · simp at hs
  | ctlFini =>
    simp only [ctlFiniStep] at hs
    split at hs
    · split at hs <;> (simp only [Option.some.injEq] at hs; subst hs; exact h.frame rfl rfl)
    · simp at hs

theorem invClose_run {cfg : PipeCfg} (hreg : cfg.registerBeforeHandoff = true)
    (hcw : cfg.closeWaits = true) (hnp : ReqKind.close ∉ cfg.poolKinds) (as : List Action) {s s' : State}
    (hl : InvLoc s) (h : InvClose s) (hr : run cfg s as = some s') : InvLoc s' ∧ InvClose s' := by
  induction as generalizing s with
  | nil => simp only [run, Option.some.injEq] at hr; exact hr ▸ ⟨hl, h⟩
  | cons a as ih =>
    simp only [run] at hr
    split at hr
    · simp at hr
    · rename_i s1 hs1
      exact ih (invLoc_step hreg hl hs1) (invClose_step hreg hcw hnp hl h hs1) hr

end Sftp.Pipe
