import Sftp.Model.Listing
/-
  Helper lemmas for C16 (directory listing).
-/
namespace Sftp.C16
open Sftp

/-! ### what the client keeps -/

theorem keep_nil (cc : CliCfg) : keep cc [] = [] := by
  unfold keep; cases cc.filterDots <;> cases cc.baseName <;> simp

theorem keep_append (cc : CliCfg) (a b : List Entry) : keep cc (a ++ b) = keep cc a ++ keep cc b := by
  unfold keep; cases cc.filterDots <;> cases cc.baseName <;> simp

theorem slice_append_drop (entries : List Entry) (off n : Nat) :
    slice entries off n ++ entries.drop (off + n) = entries.drop off := by
  unfold slice
  rw [← List.drop_drop]
  exact List.take_append_drop n (entries.drop off)

/-! ### one server step -/

/-- At or past the end a legal lister makes `filelist` answer STATUS EOF (whatever the configuration). -/
theorem filelistStep_end (sc : SrvCfg) (entries : List Entry) (beh : Beh)
    (hl : Legal entries.length beh) (off : Nat) (h : entries.length ≤ off) :
    ∃ off', filelistStep sc entries beh off = (.status .eof, off') := by
  have h1 := hl.end_n off sc.batch h
  have h2 := hl.end_eof off sc.batch h
  unfold filelistStep
  simp only [h1, h2]
  cases sc.incByN <;> cases sc.eofOnlyWhenEmpty <;> simp [errToStatus]

/-- Inside the list the faithful `filelist` answers NAME with the `n` entries at the offset and
advances the offset by `n`. -/
theorem filelistStep_mid (sc : SrvCfg) (entries : List Entry) (beh : Beh)
    (hinc : sc.incByN = true) (heo : sc.eofOnlyWhenEmpty = true) (hb : 1 ≤ sc.batch)
    (hl : Legal entries.length beh) (off : Nat) (h : off < entries.length) :
    filelistStep sc entries beh off =
      (.name (slice entries off (beh off sc.batch).n), off + (beh off sc.batch).n) := by
  have h1 := hl.n_pos off sc.batch h hb
  have h2 := hl.no_other off sc.batch h hb
  unfold filelistStep
  simp only [hinc, heo, if_true]
  have hn : ((beh off sc.batch).n == 0) = false := by
    simp only [beq_eq_false_iff_ne, ne_eq]; omega
  simp only [hn]
  cases he : (beh off sc.batch).err with
  | nil => simp
  | eof => simp
  | other => exact absurd he h2

/-! ### the client loop -/

/-- More fuel never changes a finished listing. -/
theorem readDir_fuel_mono {σ : Type} (cc : CliCfg) (srv : σ → Reply × σ) :
    ∀ (fuel : Nat) (s : σ) (acc : List Entry) (rounds : Nat) (r : ListOut),
      readDir cc srv fuel s acc rounds = some r →
      ∀ fuel', fuel ≤ fuel' → readDir cc srv fuel' s acc rounds = some r := by
  intro fuel
  induction fuel with
  | zero => intro s acc rounds r h; simp [readDir] at h
  | succ fuel ih =>
    intro s acc rounds r h fuel' hle
    obtain ⟨f2, rfl⟩ : ∃ f2, fuel' = f2 + 1 := ⟨fuel' - 1, by omega⟩
    rw [readDir] at h ⊢
    cases hs : srv s with
    | mk rep s' =>
      rw [hs] at h
      cases rep with
      | name es => exact ih _ _ _ _ h f2 (by omega)
      | status e =>
        simp only at h ⊢
        cases hst : cc.stopOnStatus with
        | true => simpa [hst] using h
        | false =>
          rw [hst] at h
          simp only [Bool.false_eq_true, if_false] at h ⊢
          exact ih _ _ _ _ h f2 (by omega)

/-- The number of rounds reported never exceeds the fuel consumed. -/
theorem readDir_rounds_le {σ : Type} (cc : CliCfg) (srv : σ → Reply × σ) :
    ∀ (fuel : Nat) (s : σ) (acc : List Entry) (rounds : Nat) (r : ListOut),
      readDir cc srv fuel s acc rounds = some r → r.rounds ≤ rounds + fuel := by
  intro fuel
  induction fuel with
  | zero => intro s acc rounds r h; simp [readDir] at h
  | succ fuel ih =>
    intro s acc rounds r h
    rw [readDir] at h
    cases hs : srv s with
    | mk rep s' =>
      rw [hs] at h
      cases rep with
      | name es => have := ih _ _ _ _ h; omega
      | status e =>
        simp only at h
        cases hst : cc.stopOnStatus with
        | true =>
          rw [hst] at h
          simp only [if_true, Option.some.injEq] at h
          subst h; simp only; omega
        | false =>
          rw [hst] at h
          simp only [Bool.false_eq_true, if_false] at h
          have := ih _ _ _ _ h; omega

/-- Core of C16: from any offset, the faithful server and client finish with exactly the remaining
entries (filtered), no error, in at most `remaining + 1` rounds, for every fuel ≥ `remaining + 1`. -/
theorem readDir_filelist (sc : SrvCfg) (cc : CliCfg)
    (hinc : sc.incByN = true) (heo : sc.eofOnlyWhenEmpty = true) (hb : 1 ≤ sc.batch)
    (hstop : cc.stopOnStatus = true) (hnil : cc.eofIsNil = true)
    (entries : List Entry) (beh : Beh) (hl : Legal entries.length beh) :
    ∀ (m off : Nat), entries.length - off ≤ m →
      ∀ (acc : List Entry) (rounds fuel : Nat), m + 1 ≤ fuel →
        ∃ k, 1 ≤ k ∧ k ≤ m + 1 ∧
          readDir cc (filelistStep sc entries beh) fuel off acc rounds =
            some ⟨acc ++ keep cc (entries.drop off), .nil, rounds + k⟩ := by
  have hend : ∀ (off : Nat), entries.length ≤ off → ∀ (acc : List Entry) (rounds fuel : Nat), 1 ≤ fuel →
      readDir cc (filelistStep sc entries beh) fuel off acc rounds =
        some ⟨acc ++ keep cc (entries.drop off), .nil, rounds + 1⟩ := by
    intro off h acc rounds fuel hf
    obtain ⟨f2, rfl⟩ : ∃ f2, fuel = f2 + 1 := ⟨fuel - 1, by omega⟩
    obtain ⟨off', hs⟩ := filelistStep_end sc entries beh hl off h
    rw [readDir, hs]
    simp only [hstop, if_true, finalErr, hnil]
    rw [List.drop_eq_nil_of_le h, keep_nil, List.append_nil]
  intro m
  induction m with
  | zero =>
    intro off h acc rounds fuel hf
    exact ⟨1, Nat.le_refl _, Nat.le_refl _, hend off (by omega) acc rounds fuel (by omega)⟩
  | succ m ih =>
    intro off h acc rounds fuel hf
    by_cases hoff : entries.length ≤ off
    · exact ⟨1, Nat.le_refl _, by omega, hend off hoff acc rounds fuel (by omega)⟩
    · have hlt : off < entries.length := by omega
      obtain ⟨f2, rfl⟩ : ∃ f2, fuel = f2 + 1 := ⟨fuel - 1, by omega⟩
      have hpos := hl.n_pos off sc.batch hlt hb
      obtain ⟨k, hk1, hk2, hk⟩ := ih (off + (beh off sc.batch).n) (by omega)
        (acc ++ keep cc (slice entries off (beh off sc.batch).n)) (rounds + 1) f2 (by omega)
      refine ⟨k + 1, by omega, by omega, ?_⟩
      rw [readDir, filelistStep_mid sc entries beh hinc heo hb hl off hlt]
      simp only
      rw [hk, List.append_assoc, ← keep_append, slice_append_drop]
      simp only [Option.some.injEq, ListOut.mk.injEq, true_and]
      omega

/-! ### the os-backed server is the request-server step with the `Readdir` behaviour -/

theorem osReaddirStep_eq (oc : OsCfg) (hst : oc.errToStatus = true) (entries : List Entry) (pos : Nat) :
    osReaddirStep oc entries pos =
      filelistStep { batch := oc.batch, incByN := true, eofOnlyWhenEmpty := true } entries
        (readdirBeh entries.length) pos := by
  unfold osReaddirStep filelistStep readdirBeh
  simp only [hst, Bool.true_and, if_true, Bool.not_true, Bool.false_or]
  by_cases h : entries.length ≤ pos
  · have : entries.length - pos = 0 := by omega
    simp [h, this, errToStatus]
  · simp [h]

/-! ### legality of the concrete behaviours -/

theorem readdirBeh_legal (len : Nat) : Legal len (readdirBeh len) where
  n_pos := by intro off buf h hb; simp only [readdirBeh]; omega
  n_le_buf := by intro off buf h hb; simp only [readdirBeh]; omega
  n_le_len := by intro off buf h hb; simp only [readdirBeh]; omega
  no_other := by
    intro off buf h hb; simp only [readdirBeh]
    split <;> simp
  eof_last := by
    intro off buf h hb; simp only [readdirBeh]
    have : ¬ len ≤ off := by omega
    simp [this]
  end_n := by intro off buf h; simp only [readdirBeh]; omega
  end_eof := by intro off buf h; simp [readdirBeh, h]

theorem exampleBeh_legal (len : Nat) : Legal len (exampleBeh len) where
  n_pos := by
    intro off buf h hb
    have : ¬ len ≤ off := by omega
    simp only [exampleBeh, this, if_false]
    split <;> simp only <;> omega
  n_le_buf := by
    intro off buf h hb
    have : ¬ len ≤ off := by omega
    simp only [exampleBeh, this, if_false]
    split <;> simp only <;> omega
  n_le_len := by
    intro off buf h hb
    have : ¬ len ≤ off := by omega
    simp only [exampleBeh, this, if_false]
    split <;> simp only <;> omega
  no_other := by
    intro off buf h hb
    have : ¬ len ≤ off := by omega
    simp only [exampleBeh, this, if_false]
    split <;> simp
  eof_last := by
    intro off buf h hb
    have : ¬ len ≤ off := by omega
    simp only [exampleBeh, this, if_false]
    split
    · intro _; simp only; omega
    · intro he; simp at he
  end_n := by intro off buf h; simp [exampleBeh, h]
  end_eof := by intro off buf h; simp [exampleBeh, h]

theorem scriptN_bounds (sizes : List Nat) :
    ∀ (cur off buf rest : Nat), cur ≤ off → 1 ≤ buf → 1 ≤ rest →
      1 ≤ scriptN sizes cur off buf rest ∧ scriptN sizes cur off buf rest ≤ buf ∧
        scriptN sizes cur off buf rest ≤ rest := by
  induction sizes with
  | nil => intro cur off buf rest _ hb hr; simp only [scriptN]; omega
  | cons s ss ih =>
    intro cur off buf rest hc hb hr
    rw [scriptN]
    split
    · omega
    · exact ih (cur + s) off buf rest (by omega) hb hr

theorem scriptBeh_legal (sizes : List Nat) (eofWithLast : Bool) (len : Nat) :
    Legal len (scriptBeh sizes eofWithLast len) where
  n_pos := by
    intro off buf h hb
    have : ¬ len ≤ off := by omega
    simp only [scriptBeh, this, if_false]
    exact (scriptN_bounds sizes 0 off buf (len - off) (by omega) hb (by omega)).1
  n_le_buf := by
    intro off buf h hb
    have : ¬ len ≤ off := by omega
    simp only [scriptBeh, this, if_false]
    exact (scriptN_bounds sizes 0 off buf (len - off) (by omega) hb (by omega)).2.1
  n_le_len := by
    intro off buf h hb
    have : ¬ len ≤ off := by omega
    simp only [scriptBeh, this, if_false]
    have := (scriptN_bounds sizes 0 off buf (len - off) (by omega) hb (by omega)).2.2
    omega
  no_other := by
    intro off buf h hb
    have : ¬ len ≤ off := by omega
    simp only [scriptBeh, this, if_false]
    split <;> simp
  eof_last := by
    intro off buf h hb
    have : ¬ len ≤ off := by omega
    simp only [scriptBeh, this, if_false]
    split
    · next hc =>
      intro _
      simp only [Bool.and_eq_true, beq_iff_eq] at hc
      exact hc.2
    · intro he; simp at he
  end_n := by intro off buf h; simp [scriptBeh, h]
  end_eof := by intro off buf h; simp [scriptBeh, h]

/-! ### `path.Base` is the identity on ordinary file names -/

theorem takeWhile_all {α : Type} (p : α → Bool) :
    ∀ (l : List α), (∀ a, a ∈ l → p a = true) → l.takeWhile p = l
  | [], _ => rfl
  | a :: l, h => by
    rw [List.takeWhile_cons, h a (List.mem_cons_self ..), if_pos rfl,
      takeWhile_all p l (fun b hb => h b (List.mem_cons_of_mem _ hb))]

theorem pathBase_id (p : Bytes) (hne : p ≠ []) (hns : (47 : UInt8) ∉ p) : pathBase p = p := by
  have h1 : p.reverse.dropWhile (· == 47) = p.reverse := by
    cases hr : p.reverse with
    | nil => rfl
    | cons a as =>
      have ha : a ∈ p := by rw [← List.mem_reverse, hr]; exact List.mem_cons_self ..
      have : (a == 47) = false := by
        simp only [beq_eq_false_iff_ne, ne_eq]; intro h; subst h; exact hns ha
      simp [this]
  have h2 : p.reverse.takeWhile (· != 47) = p.reverse := by
    apply takeWhile_all
    intro a ha
    have ha : a ∈ p := List.mem_reverse.mp ha
    simp only [bne_iff_ne, ne_eq]; intro h; subst h; exact hns ha
  unfold pathBase stripTrailingSlashes lastElem
  simp only [hne, if_false, h1, List.reverse_reverse, h2]

end Sftp.C16
